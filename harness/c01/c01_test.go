// C01: content-addressed stores never serve bytes that do not hash to their name.
//
// History + race monitor on a real origin stack per configuration: a real
// store.CAStore (temp dir, mock clock so the drain / TTL workers tick only when
// the harness says so, plus on-demand drain steps), a real blobrefresh.Refresher
// over a scripted in-process backend.Client, a real blobserver behind a real
// httptest server, and a real originstorage.TorrentArchive. Four configurations:
// memory cache off; on but smaller than the blobs; on with room for about one
// blob; on and large.
//
// Every case owns one fresh digest d = sha256(blob) and runs a PRNG-determined
// script of writes through every write path (upload API, CreateCacheFile,
// WriteCacheFile, WriteBlobToCacheWithMetaInfo, Refresher, refresh triggered
// through the server's metainfo endpoint, internal transfer endpoints, public
// upload endpoints) with streams that are exact, one-byte-flipped, truncated,
// extended, empty, unrelated, or exact with a wrong announced size, interleaved
// with drain steps, worker ticks and TTL expiry. The case itself observes d
// between all steps and reader goroutines observe the digests in play
// continuously, through CAStore.GetCacheFileReader / GetCacheFileStat /
// GetCacheFileMetadata(TorrentMeta) / ListCacheFiles, the origin torrent piece
// readers, and the server's blob / metainfo / stat endpoints.
//
// Oracle: (1) whatever is readable under d equals the blob (bytes, size,
// metainfo recomputed independently with crc32 over the blob); (2) nothing is
// visible under d unless a write of the exact blob had been called before the
// observation returned; (3) a write whose stream differs from the blob does
// not report success (unless an exact write of d exists, in which case an
// implementation may short-circuit on "already there").
package c01

import (
	"bytes"
	"context"
	"crypto/sha256"
	"encoding/hex"
	"errors"
	"fmt"
	"hash/crc32"
	"io"
	"math/rand"
	"net/http"
	"net/http/httptest"
	"os"
	"path/filepath"
	"sync"
	"sync/atomic"
	"testing"
	"time"

	"github.com/andres-erbsen/clock"
	"github.com/c2h5oh/datasize"
	"github.com/uber-go/tally"
	"go.uber.org/zap"

	"github.com/uber/kraken/core"
	"github.com/uber/kraken/lib/backend"
	"github.com/uber/kraken/lib/backend/backenderrors"
	"github.com/uber/kraken/lib/blobrefresh"
	"github.com/uber/kraken/lib/hashring"
	"github.com/uber/kraken/lib/healthcheck"
	"github.com/uber/kraken/lib/hostlist"
	"github.com/uber/kraken/lib/metainfogen"
	"github.com/uber/kraken/lib/persistedretry"
	"github.com/uber/kraken/lib/store"
	"github.com/uber/kraken/lib/store/base"
	"github.com/uber/kraken/lib/store/metadata"
	"github.com/uber/kraken/lib/torrent/storage/originstorage"
	"github.com/uber/kraken/origin/blobclient"
	"github.com/uber/kraken/origin/blobserver"
	"github.com/uber/kraken/utils/httputil"
	"github.com/uber/kraken/utils/log"

	"verif/harness/internal/ev"
	"verif/harness/internal/gen"
)

func init() {
	zc := zap.NewProductionConfig()
	zc.OutputPaths = []string{}
	zc.ErrorOutputPaths = []string{}
	log.ConfigureLogger(zc)
}

const rule = "PRNG cases (seed+tier determine the list), case i runs on configuration i%4 {mem-off, mem-tiny, mem-one, mem-large} with slow or fast memory TTL: " +
	"one fresh blob (0 B - 64 KiB, sizes around piece-length multiples) and a script of 1-3 writes over 8 write paths x 8 stream kinds " +
	"(patterns: mismatch only; mismatch then exact; exact then mismatch; exact; mismatch || exact concurrently; two mismatches; ~10%: patch-race = chunked upload over HTTP whose last PATCH body is still streaming when the commit is issued, PRNG offsets/lengths/endpoint and order of completion {after-commit, before-commit, abort-after-commit, concurrent} and the digest in the slow PATCH's URL {same, random other, another blob in play}; on memory configurations ~9% each: mem-then-disk = exact blob through the memory path, then a differing stream through a disk path before the drain, then drain; slow-reader = store/piece readers opened while memory resident, partly read, held across the drain and 1-4 later memory-path writes of similar-sized blobs) with steps {observe, drain1, drainAll, tick, ttl} between and after the writes. " +
	"non-trivial = the case contains >=1 write whose stream differs from the blob and made >=3 observations; distinct = distinct (config, blob size, script)."

// ---------------------------------------------------------------------------
// configurations and world

type cfgSpec struct {
	Name    string
	Mem     bool
	MaxSize uint64
}

var configs = []cfgSpec{
	{"mem-off", false, 0},
	{"mem-tiny", true, 48},
	{"mem-one", true, 24 << 10},
	{"mem-large", true, 64 << 20},
}

const (
	nsScripted = "scr"
	nsObserve  = "obs"
)

type script struct {
	statSize int64
	stream   []byte
	chunk    int
	onWriter func(dst io.Writer)
}

// scriptBackend is the scripted storage backend (outer boundary fake).
type scriptBackend struct {
	mu       sync.Mutex
	scripts  map[string]*script
	started  map[string]int
	finished map[string]int
}

func newScriptBackend() *scriptBackend {
	return &scriptBackend{scripts: map[string]*script{}, started: map[string]int{}, finished: map[string]int{}}
}

func (b *scriptBackend) set(name string, s *script) {
	b.mu.Lock()
	b.scripts[name] = s
	b.mu.Unlock()
}

func (b *scriptBackend) Stat(namespace, name string) (*core.BlobInfo, error) {
	b.mu.Lock()
	s := b.scripts[name]
	b.mu.Unlock()
	if s == nil {
		return nil, backenderrors.ErrBlobNotFound
	}
	return core.NewBlobInfo(s.statSize), nil
}

func (b *scriptBackend) Upload(namespace, name string, src io.Reader) error {
	_, err := io.Copy(io.Discard, src)
	return err
}

func (b *scriptBackend) Download(namespace, name string, dst io.Writer) error {
	b.mu.Lock()
	s := b.scripts[name]
	b.started[name]++
	b.mu.Unlock()
	defer func() {
		b.mu.Lock()
		b.finished[name]++
		b.mu.Unlock()
	}()
	if s == nil {
		return backenderrors.ErrBlobNotFound
	}
	if s.onWriter != nil {
		s.onWriter(dst)
	}
	return writeChunks(dst, s.stream, s.chunk)
}

func (b *scriptBackend) counts(name string) (started, finished int) {
	b.mu.Lock()
	defer b.mu.Unlock()
	return b.started[name], b.finished[name]
}

func (b *scriptBackend) idle() bool {
	b.mu.Lock()
	defer b.mu.Unlock()
	for n, s := range b.started {
		if b.finished[n] != s {
			return false
		}
	}
	return true
}

func (b *scriptBackend) List(prefix string, opts ...backend.ListOption) (*backend.ListResult, error) {
	return nil, errors.New("not supported")
}
func (b *scriptBackend) Close() error { return nil }

// notFoundBackend backs the namespace used by observations: an observation of
// an absent blob must not start a download.
type notFoundBackend struct{}

func (notFoundBackend) Stat(namespace, name string) (*core.BlobInfo, error) {
	return nil, backenderrors.ErrBlobNotFound
}
func (notFoundBackend) Upload(namespace, name string, src io.Reader) error { return nil }
func (notFoundBackend) Download(namespace, name string, dst io.Writer) error {
	return backenderrors.ErrBlobNotFound
}
func (notFoundBackend) List(prefix string, opts ...backend.ListOption) (*backend.ListResult, error) {
	return nil, errors.New("not supported")
}
func (notFoundBackend) Close() error { return nil }

// noopWriteBack is the write-back queue behind the public upload endpoints.
type noopWriteBack struct{}

func (noopWriteBack) Add(persistedretry.Task) error      { return nil }
func (noopWriteBack) SyncExec(persistedretry.Task) error { return nil }
func (noopWriteBack) Close()                             {}
func (noopWriteBack) Find(query interface{}) ([]persistedretry.Task, error) {
	return nil, nil
}

func writeChunks(dst io.Writer, b []byte, chunk int) error {
	if chunk <= 0 {
		chunk = len(b) + 1
	}
	for len(b) > 0 {
		n := chunk
		if n > len(b) {
			n = len(b)
		}
		if _, err := dst.Write(b[:n]); err != nil {
			return err
		}
		b = b[n:]
	}
	return nil
}

type world struct {
	t       testing.TB
	run     *ev.Run
	spec    cfgSpec
	fastTTL bool
	dir     string

	clk   *clock.Mock
	clkMu sync.Mutex
	ttl   time.Duration

	cas       *store.CAStore
	closeCAS  func()
	scr       *scriptBackend
	mg        *metainfogen.Generator
	refresher *blobrefresh.Refresher
	srv       *httptest.Server
	addr      string
	client    *blobclient.HTTPClient
	archive   *originstorage.TorrentArchive

	regMu  sync.RWMutex
	active []*caseState

	emptyMu sync.Mutex // blobs of 0-2 bytes repeat their digest: one such case at a time
}

func newWorld(t testing.TB, run *ev.Run, root string, spec cfgSpec, fastTTL bool) *world {
	dir, err := os.MkdirTemp(root, spec.Name+"-")
	if err != nil {
		t.Fatalf("mkdir: %v", err)
	}
	w := &world{t: t, run: run, spec: spec, fastTTL: fastTTL, dir: dir}
	w.clk = clock.NewMock()
	w.clk.Set(time.Unix(1_700_000_000, 0))
	ttl, ttlInterval := 2*time.Second, time.Second
	if fastTTL {
		// shorter than the 100 ms drain period: the TTL worker removes
		// entries before the drain worker gets to them
		ttl, ttlInterval = 50*time.Millisecond, 30*time.Millisecond
	}
	w.ttl = ttl
	cfg := store.CAStoreConfig{
		UploadDir:     filepath.Join(dir, "upload"),
		CacheDir:      filepath.Join(dir, "cache"),
		UploadCleanup: store.CleanupConfig{Disabled: true},
		CacheCleanup:  store.CleanupConfig{Disabled: true},
		// hash verification stays on: switching it off is outside the statement
		MemoryCache: store.MemoryCacheConfig{
			Enabled: spec.Mem, MaxSize: spec.MaxSize, DrainWorkers: 2, DrainMaxRetries: 2,
			TTL: ttl, TTLInterval: ttlInterval,
		},
	}
	w.cas, w.closeCAS = store.CAStoreFixtureWithClock(cfg, w.clk)

	backends := backend.ManagerFixture()
	w.scr = newScriptBackend()
	if err := backends.Register(nsScripted, w.scr, false); err != nil {
		t.Fatalf("register: %v", err)
	}
	if err := backends.Register(nsObserve, notFoundBackend{}, false); err != nil {
		t.Fatalf("register: %v", err)
	}
	w.mg, err = metainfogen.New(metainfogen.Config{PieceLengths: map[datasize.ByteSize]datasize.ByteSize{
		0: 512, 4 << 10: 1 << 10, 16 << 10: 2 << 10, 40 << 10: 4 << 10,
	}}, w.cas)
	if err != nil {
		t.Fatalf("metainfogen: %v", err)
	}
	w.refresher = blobrefresh.New(blobrefresh.Config{}, tally.NoopScope, w.cas, backends, w.mg)
	w.archive = originstorage.NewTorrentArchive(w.cas, w.refresher)

	var handler http.Handler
	w.srv = httptest.NewUnstartedServer(http.HandlerFunc(func(rw http.ResponseWriter, r *http.Request) {
		handler.ServeHTTP(rw, r)
	}))
	w.addr = w.srv.Listener.Addr().String()
	ring := hashring.New(hashring.Config{MaxReplica: 1}, hostlist.Fixture(w.addr), healthcheck.IdentityFilter{}, tally.NoopScope)
	s, err := blobserver.New(blobserver.Config{}, tally.NoopScope, clock.New(), w.addr, ring, w.cas,
		blobclient.NewProvider(), nil, core.PeerContextFixture(), backends, w.refresher, w.mg, noopWriteBack{})
	if err != nil {
		t.Fatalf("blobserver: %v", err)
	}
	handler = s.Handler()
	w.srv.Start()
	w.client = blobclient.New(w.addr, blobclient.WithChunkSize(1<<20))
	return w
}

func (w *world) close() {
	deadline := time.Now().Add(20 * time.Second)
	for !w.scr.idle() && time.Now().Before(deadline) {
		time.Sleep(time.Millisecond)
	}
	w.srv.Close()
	w.closeCAS()
	os.RemoveAll(w.dir)
}

func (w *world) advance(d time.Duration) {
	w.clkMu.Lock()
	w.clk.Add(d)
	w.clkMu.Unlock()
}

// drainAll drains until name is no longer a memory entry and the queue is
// empty. false = watchdog.
func (w *world) drainAll(name string) bool {
	deadline := time.Now().Add(30 * time.Second)
	for w.cas.VerifC01DrainQueueLen() > 0 || w.cas.VerifC01InMemCache(name) {
		if w.cas.VerifC01DrainQueueLen() > 0 {
			w.cas.VerifC01DrainNext()
		} else {
			time.Sleep(200 * time.Microsecond) // item in flight in a worker
		}
		if time.Now().After(deadline) {
			return false
		}
	}
	return true
}

// ---------------------------------------------------------------------------
// cases

type writeSpec struct {
	Path    string `json:"path"`
	Kind    string `json:"kind"`
	Arg     int64  `json:"arg"`
	Chunk   int    `json:"chunk"`
	Reverse bool   `json:"reverse,omitempty"` // WriteAt chunks back to front
}

type caseSpec struct {
	Config   string      `json:"config"`
	FastTTL  bool        `json:"fast_ttl"`
	Slot     int         `json:"slot"` // position of the case within its world
	BlobSize int         `json:"blob_size"`
	PL       int64       `json:"pl"`
	Pattern  string      `json:"pattern"`
	Writes   []writeSpec `json:"writes"`
	Steps    [][]string  `json:"steps"` // Steps[k] run after write k (for "pair": after both)
	Race     *raceSpec   `json:"race,omitempty"`
	Seq      *seqSpec    `json:"seq,omitempty"`
	blobSeed int64
}

// raceSpec: a chunk PATCH whose body is still streaming while the upload is
// committed. The exact bytes are uploaded except for the hole [Off,Split); the
// slow PATCH covers [Off,Off+K): its first Split-Off bytes are the blob's own
// (so the upload file hashes to d once they arrived), the remaining bytes
// differ from the blob (overwriting good bytes and/or extending the file).
// seqSpec parameterises the two memory-residency patterns.
//
// "mem-then-disk": the exact blob is written through the memory write-through
// path; while d is still waiting for its drain a differing stream is committed
// under d through a disk path (an upload that was started and filled before d
// existed, CreateCacheFile, WriteCacheFile, the disk fallback of
// WriteBlobToCacheWithMetaInfo); then the drain runs.
//
// "slow-reader": readers for d are opened while d is memory resident and
// consumed only partly; d is drained; other blobs of similar size go through
// the memory path; then the readers are consumed to the end.
type seqSpec struct {
	MemPath  string `json:"mem_path"`
	DiskPath string `json:"disk_path,omitempty"`
	Kind     string `json:"kind,omitempty"`
	Arg      int64  `json:"arg"`
	Chunk    int    `json:"chunk"`
	Drain    string `json:"drain"`              // drainAll | ticks | ttl
	Others   int    `json:"others,omitempty"`   // slow-reader: number of other blobs written after the drain
	ReadFrac int    `json:"read_pct,omitempty"` // slow-reader: percent consumed before the drain
}

type raceSpec struct {
	Endpoint    string `json:"endpoint"` // transfer | upload
	Off         int    `json:"off"`
	Split       int    `json:"split"`
	K           int    `json:"k"`
	Mode        string `json:"mode"` // after-commit | before-commit | abort-after-commit | concurrent
	ExactChunks int    `json:"exact_chunks"`
	Arg         int64  `json:"arg"`
	// PatchDigest: digest in the URL of the slow PATCH. Upload files are
	// addressed by uid alone, nothing binds a uid to the digest in the URL:
	// "same" = d; "random" = some other valid digest; "other" = the digest of
	// another blob in play (falls back to random if there is none).
	PatchDigest string `json:"patch_digest"`
}

type event struct {
	What   string `json:"what"`
	Detail string `json:"detail,omitempty"`
}

type caseState struct {
	id   string
	spec *caseSpec
	blob []byte
	d    core.Digest
	hex  string

	matchingStarted atomic.Bool // a write of the exact blob has been called
	memMismatch     atomic.Bool // a differing stream was handed to the memory write-through buffer
	lateWriter      atomic.Bool // a PATCH body was fed to the server after the upload's commit had been issued
	observations    atomic.Int64
	visibleOK       atomic.Int64

	mu  sync.Mutex
	log []event
}

func (cs *caseState) note(what, detail string) {
	cs.mu.Lock()
	if len(cs.log) < 300 {
		cs.log = append(cs.log, event{what, detail})
	}
	cs.mu.Unlock()
}

func (cs *caseState) witness(extra interface{}) map[string]interface{} {
	cs.mu.Lock()
	defer cs.mu.Unlock()
	return map[string]interface{}{"case": cs.spec, "digest": cs.hex, "blob_seed": cs.spec.blobSeed, "events": append([]event{}, cs.log...), "detail": extra}
}

var allPaths = []string{"upload-api", "create-cache-file", "write-cache-file", "write-blob-meta", "refresher", "http-metainfo-refresh", "http-transfer", "http-upload"}
var memPaths = []string{"write-blob-meta", "refresher", "http-metainfo-refresh"}
var mismatchKinds = []string{"flip", "truncated", "extended", "empty", "other"}
var exactKinds = []string{"exact", "exact", "stat-short", "stat-long"}

func isRefreshPath(p string) bool { return p == "refresher" || p == "http-metainfo-refresh" }

func genCase(r *rand.Rand, spec cfgSpec, fastTTL bool, slot int) *caseSpec {
	c := &caseSpec{Config: spec.Name, FastTTL: fastTTL, Slot: slot, blobSeed: r.Int63()}
	c.PL = int64([]int{1, 7, 64, 512, 1000, 1024, 4096}[r.Intn(7)])
	if r.Intn(3) == 0 {
		c.PL = int64(1 + r.Intn(4096))
	}
	switch x := r.Intn(20); {
	case x == 0:
		c.BlobSize = 0
	case x == 1:
		c.BlobSize = 1
	case x < 5:
		c.BlobSize = 1 + r.Intn(100)
	case x < 10:
		k := 1 + r.Intn(6)
		c.BlobSize = k*int(c.PL) + r.Intn(3) - 1
		if c.BlobSize < 0 {
			c.BlobSize = 0
		}
		if c.BlobSize > 64<<10 {
			c.BlobSize = 64 << 10
		}
	case x < 17:
		c.BlobSize = 1 + r.Intn(12<<10)
	default:
		c.BlobSize = 1 + r.Intn(64<<10)
	}
	if c.BlobSize == 0 && slot != 0 {
		// blobs of 0-2 bytes would repeat their digest within a world: the
		// empty blob is used by the first case of a world only, 1-2 byte blobs
		// take their content from the slot number (see blobOf)
		c.BlobSize = 1 + r.Intn(2)
	}
	if c.PL == 1 && c.BlobSize > 2048 {
		c.BlobSize = 1 + r.Intn(2048) // keep piece counts sane
	}
	p := r.Intn(136)
	if p >= 112 && !spec.Mem {
		p = 100 // the memory-residency patterns need the memory cache
	}
	switch {
	case p >= 112:
		// the blob must fit the memory cache of this configuration
		switch spec.Name {
		case "mem-tiny":
			c.BlobSize = 8 + r.Intn(int(spec.MaxSize)-8)
		case "mem-one":
			c.BlobSize = 64 + r.Intn(9000)
		default:
			if c.BlobSize < 8 {
				c.BlobSize = 8 + r.Intn(20000)
			}
		}
		sq := &seqSpec{MemPath: []string{"write-blob-meta", "refresher"}[r.Intn(2)], Arg: r.Int63(), Chunk: []int{0, 13, 512, 4096}[r.Intn(4)],
			Drain: []string{"drainAll", "drainAll", "ticks", "ttl"}[r.Intn(4)]}
		if p < 124 {
			c.Pattern = "mem-then-disk"
			sq.DiskPath = []string{"upload-api-prestarted", "http-transfer-prestarted", "http-upload-prestarted", "create-cache-file", "write-cache-file", "write-blob-meta"}[r.Intn(6)]
			sq.Kind = mismatchKinds[r.Intn(len(mismatchKinds))]
		} else {
			c.Pattern = "slow-reader"
			sq.Others = 1 + r.Intn(4)
			sq.ReadFrac = 1 + r.Intn(90)
		}
		c.Seq = sq
		after := []string{"obs", "obs-http", "tick", "obs"}
		c.Steps = [][]string{after[:1+r.Intn(len(after))]}
		return c
	case p >= 100:
		c.Pattern = "patch-race"
		if c.BlobSize < 8 {
			c.BlobSize = 8 + r.Intn(4000)
		}
		rs := &raceSpec{Endpoint: []string{"transfer", "upload"}[r.Intn(2)], ExactChunks: 1 + r.Intn(3), Arg: r.Int63(),
			Mode: []string{"after-commit", "after-commit", "before-commit", "abort-after-commit", "concurrent"}[r.Intn(5)]}
		rs.Off = r.Intn(c.BlobSize - 4)
		if r.Intn(4) == 0 {
			rs.Off = c.BlobSize - 4 - r.Intn(min(4, c.BlobSize-7)) // near the end
		}
		rs.Split = rs.Off + 4 + r.Intn(min(c.BlobSize-rs.Off-4, 512)+1)
		if rs.Split > c.BlobSize {
			rs.Split = c.BlobSize
		}
		tail := 1 + r.Intn(600)
		if r.Intn(3) == 0 {
			tail = c.BlobSize - rs.Split + 1 + r.Intn(200) // runs past the end of the blob
		}
		rs.K = rs.Split - rs.Off + tail
		rs.PatchDigest = []string{"same", "same", "random", "random", "other"}[r.Intn(5)]
		c.Race = rs
		after := []string{"obs", "drain1", "obs", "tick", "obs-http", "drainAll", "obs"}
		c.Steps = [][]string{after[:1+r.Intn(len(after))]}
		return c
	case p < 35:
		c.Pattern = "mismatch"
	case p < 50:
		c.Pattern = "mismatch-then-exact"
	case p < 70:
		c.Pattern = "exact-then-mismatch"
	case p < 78:
		c.Pattern = "exact"
	case p < 90:
		c.Pattern = "pair"
	default:
		c.Pattern = "two-mismatches"
	}
	usedRefresh := false
	mk := func(mismatch bool) writeSpec {
		var path string
		for {
			if spec.Mem && r.Intn(2) == 0 {
				path = memPaths[r.Intn(len(memPaths))]
			} else {
				path = allPaths[r.Intn(len(allPaths))]
			}
			if isRefreshPath(path) && usedRefresh {
				continue // the refresher caches a failure per digest for 15 s
			}
			break
		}
		if isRefreshPath(path) {
			usedRefresh = true
		}
		ws := writeSpec{Path: path, Arg: r.Int63(), Chunk: []int{0, 1, 13, 512, 4096}[r.Intn(5)], Reverse: r.Intn(4) == 0}
		if c.BlobSize > 4096 && ws.Chunk == 1 {
			ws.Chunk = 509
		}
		if mismatch {
			ws.Kind = mismatchKinds[r.Intn(len(mismatchKinds))]
			if c.BlobSize == 0 {
				ws.Kind = "extended" // the only way to differ from the empty blob
			}
		} else {
			ws.Kind = exactKinds[r.Intn(len(exactKinds))]
		}
		return ws
	}
	switch c.Pattern {
	case "mismatch":
		c.Writes = []writeSpec{mk(true)}
	case "mismatch-then-exact":
		c.Writes = []writeSpec{mk(true), mk(false)}
	case "exact-then-mismatch":
		c.Writes = []writeSpec{mk(false), mk(true)}
	case "exact":
		c.Writes = []writeSpec{mk(false)}
	case "pair":
		c.Writes = []writeSpec{mk(true), mk(false)}
	case "two-mismatches":
		c.Writes = []writeSpec{mk(true), mk(true)}
	}
	stepKinds := []string{"obs", "obs", "drain1", "drain1", "drainAll", "tick", "ttl", "obs-http"}
	for range c.Writes {
		steps := []string{"obs"} // always look before the first drain step
		for n := r.Intn(5); n > 0; n-- {
			k := stepKinds[r.Intn(len(stepKinds))]
			steps = append(steps, k)
			if k != "obs" && k != "obs-http" {
				steps = append(steps, "obs")
			}
		}
		c.Steps = append(c.Steps, steps)
	}
	return c
}

// mkStream derives the byte stream of a write from the blob.
func mkStream(blob []byte, ws writeSpec) []byte {
	r := rand.New(rand.NewSource(ws.Arg))
	switch ws.Kind {
	case "exact", "stat-short", "stat-long":
		return blob
	case "flip":
		b := append([]byte{}, blob...)
		b[r.Intn(len(b))] ^= byte(1 << uint(r.Intn(8)))
		return b
	case "truncated":
		return blob[:r.Intn(len(blob))]
	case "extended":
		return append(append([]byte{}, blob...), gen.Bytes(r, 1+r.Intn(300))...)
	case "empty":
		return []byte{}
	case "other":
		b := gen.Bytes(r, len(blob))
		if bytes.Equal(b, blob) {
			b[0] ^= 1
		}
		return b
	}
	panic("unknown kind " + ws.Kind)
}

func claimedSize(blob, stream []byte, ws writeSpec) int64 {
	r := rand.New(rand.NewSource(ws.Arg + 1))
	switch ws.Kind {
	case "stat-short": // announced size larger than the stream
		return int64(len(stream) + 1 + r.Intn(2000))
	case "stat-long": // announced size smaller than the stream
		if len(stream) == 0 {
			return 0
		}
		return int64(r.Intn(len(stream)))
	case "exact":
		return int64(len(stream))
	}
	// a corrupted backend object still announces the blob's size half of the time
	if r.Intn(2) == 0 {
		return int64(len(blob))
	}
	return int64(len(stream))
}

type writeResult struct {
	err     error
	viaMem  atomic.Bool // a memory write-through buffer was handed to the writer at least once during this write (a duplicate refresh may add a disk attempt after the memory one)
	refused bool        // http: refused with 409 before looking at the bytes
	notRun  bool        // refresh through the server: d was already visible, nothing was downloaded
}

// storeWriter returns the callback used for the store-level write paths.
func storeWriter(cs *caseState, stream []byte, matching bool, ws writeSpec, res *writeResult) func(w store.FileReadWriter) error {
	return func(w store.FileReadWriter) error {
		_, isMem := w.(*base.BufferReadWriter)
		if isMem {
			res.viaMem.Store(true)
		}
		if isMem && !matching {
			cs.memMismatch.Store(true)
		}
		if ws.Reverse && ws.Chunk > 0 {
			for off := (len(stream) / ws.Chunk) * ws.Chunk; off >= 0; off -= ws.Chunk {
				end := off + ws.Chunk
				if end > len(stream) {
					end = len(stream)
				}
				if end > off {
					if _, err := w.WriteAt(stream[off:end], int64(off)); err != nil {
						return err
					}
				}
			}
			return nil
		}
		return writeChunks(w, stream, ws.Chunk)
	}
}

type hookT struct{ ch chan struct{} }

func (h *hookT) Run(d core.Digest) {
	select {
	case h.ch <- struct{}{}:
	default:
	}
}

var errWatchdog = errors.New("harness watchdog")

func (w *world) doWrite(cs *caseState, ws writeSpec) *writeResult {
	stream := mkStream(cs.blob, ws)
	matching := bytes.Equal(stream, cs.blob)
	if matching {
		cs.matchingStarted.Store(true)
	}
	res := &writeResult{}
	cb := storeWriter(cs, stream, matching, ws, res)
	cs.note("write-call", fmt.Sprintf("%s/%s len=%d matching=%v", ws.Path, ws.Kind, len(stream), matching))
	switch ws.Path {
	case "upload-api":
		uid := fmt.Sprintf("up-%s-%d", cs.hex[:12], ws.Arg)
		if res.err = w.cas.CreateUploadFile(uid, 0); res.err != nil {
			break
		}
		f, err := w.cas.GetUploadFileReadWriter(uid)
		if err != nil {
			res.err = err
			break
		}
		err = cb(f)
		f.Close()
		if err != nil {
			res.err = err
			break
		}
		res.err = w.cas.MoveUploadFileToCache(uid, cs.hex)
	case "create-cache-file":
		res.err = w.cas.CreateCacheFile(cs.hex, &chunkReader{b: stream, chunk: ws.Chunk})
	case "write-cache-file":
		res.err = w.cas.WriteCacheFile(cs.hex, cb)
	case "write-blob-meta":
		res.err = w.cas.WriteBlobToCacheWithMetaInfo(cs.hex, uint64(claimedSize(cs.blob, stream, ws)), cb, cs.spec.PL)
	case "refresher", "http-metainfo-refresh":
		w.scr.set(cs.hex, &script{statSize: claimedSize(cs.blob, stream, ws), stream: stream, chunk: ws.Chunk, onWriter: func(dst io.Writer) {
			_, isMem := dst.(*base.BufferReadWriter)
			if isMem {
				res.viaMem.Store(true)
			}
			if isMem && !matching {
				cs.memMismatch.Store(true)
			}
		}})
		started0, _ := w.scr.counts(cs.hex)
		if ws.Path == "refresher" {
			res.err = w.refreshDirect(cs)
		} else {
			res.err = w.refreshViaServer(cs)
		}
		if started1, _ := w.scr.counts(cs.hex); started1 == started0 && res.err == nil {
			// the server answered from what is already visible under d (left
			// by an earlier write of this case): no download, so no write ran
			res.notRun = true
		}
	case "http-transfer":
		res.err, res.refused = w.httpUpload(cs, stream, ws, fmt.Sprintf("http://%s/internal/blobs/%s/uploads", w.addr, cs.d))
	case "http-upload":
		res.err, res.refused = w.httpUpload(cs, stream, ws, fmt.Sprintf("http://%s/namespace/%s/blobs/%s/uploads", w.addr, nsScripted, cs.d))
	default:
		panic("unknown path " + ws.Path)
	}
	es := "nil"
	if res.err != nil {
		es = res.err.Error()
		if len(es) > 160 {
			es = es[:160]
		}
	}
	cs.note("write-return", fmt.Sprintf("%s/%s -> %s (memory buffer: %v)", ws.Path, ws.Kind, es, res.viaMem.Load()))
	w.run.Count("write_"+ws.Path, 1)
	w.run.Count("stream_"+ws.Kind, 1)
	if res.err == errWatchdog {
		return res
	}
	if res.notRun {
		w.run.Count("refresh_not_run_blob_already_visible", 1)
		return res
	}
	if res.err == nil && !matching {
		via := "via-disk"
		if res.viaMem.Load() {
			via = "via-memory-cache"
		}
		if !cs.matchingStarted.Load() {
			w.run.Count("mismatching_write_accepted", 1)
			w.run.Violation("mismatching-write-accepted/"+ws.Path+"/"+via, cs.id, cs.witness(map[string]interface{}{"write": ws, "stream_len": len(stream), "stream_sha256": sha(stream)}))
		} else {
			w.run.Count("mismatching_write_nil_while_exact_write_exists", 1)
		}
	}
	if res.err != nil && !matching {
		w.run.Count("mismatching_write_rejected", 1)
	}
	if matching {
		if res.err == nil {
			w.run.Count("exact_write_ok", 1)
		} else {
			w.run.Count("exact_write_error", 1)
		}
	}
	if res.viaMem.Load() && res.err == nil {
		w.run.Count("writes_completed_through_memory_cache", 1)
	}
	return res
}

func sha(b []byte) string {
	s := sha256.Sum256(b)
	return hex.EncodeToString(s[:])
}

type chunkReader struct {
	b     []byte
	chunk int
}

func (c *chunkReader) Read(p []byte) (int, error) {
	if len(c.b) == 0 {
		return 0, io.EOF
	}
	n := len(p)
	if c.chunk > 0 && n > c.chunk {
		n = c.chunk
	}
	n = copy(p[:n], c.b)
	c.b = c.b[n:]
	return n, nil
}

// refreshDirect runs Refresher.Refresh and waits for the outcome of the
// deduplicated background request.
func (w *world) refreshDirect(cs *caseState) error {
	h := &hookT{ch: make(chan struct{}, 1)}
	if err := w.refresher.Refresh(nsScripted, cs.d, h); err != nil {
		return err
	}
	deadline := time.Now().Add(30 * time.Second)
	for time.Now().Before(deadline) {
		select {
		case <-h.ch:
			return nil
		default:
		}
		if _, fin := w.scr.counts(cs.hex); fin >= 1 {
			err := w.refresher.Refresh(nsScripted, cs.d, h)
			switch err {
			case blobrefresh.ErrPending:
			case nil:
				// the first request succeeded (its hook has run) and this call
				// started a duplicate refresh of the same stream: wait for it too
				select {
				case <-h.ch:
				case <-time.After(30 * time.Second):
					return errWatchdog
				}
				for time.Now().Before(deadline) {
					if s, f := w.scr.counts(cs.hex); s == f {
						break
					}
					time.Sleep(200 * time.Microsecond)
				}
				return nil
			default:
				return err // the cached failure of the request
			}
		}
		time.Sleep(200 * time.Microsecond)
	}
	return errWatchdog
}

// refreshViaServer triggers the refresh the way an agent does (metainfo
// request for an absent blob => 202) and polls until the server answers.
func (w *world) refreshViaServer(cs *caseState) error {
	deadline := time.Now().Add(30 * time.Second)
	for time.Now().Before(deadline) {
		_, err := w.client.GetMetaInfo(nsScripted, cs.d)
		if err == nil {
			return nil
		}
		if !httputil.IsAccepted(err) {
			return err
		}
		time.Sleep(300 * time.Microsecond)
	}
	return errWatchdog
}

// httpUpload speaks the chunked upload protocol (start / patch* / commit)
// against the real server. refused = the server answered 409.
func (w *world) httpUpload(cs *caseState, stream []byte, ws writeSpec, base string) (error, bool) {
	do := func(method, url string, body []byte, hdr map[string]string) (*http.Response, error) {
		req, err := http.NewRequestWithContext(context.Background(), method, url, bytes.NewReader(body))
		if err != nil {
			return nil, err
		}
		for k, v := range hdr {
			req.Header.Set(k, v)
		}
		resp, err := http.DefaultClient.Do(req)
		if err != nil {
			return nil, err
		}
		io.Copy(io.Discard, resp.Body)
		resp.Body.Close()
		return resp, nil
	}
	status := func(step string, resp *http.Response) (error, bool) {
		if resp.StatusCode == http.StatusConflict {
			return fmt.Errorf("%s: 409 conflict", step), true
		}
		return fmt.Errorf("%s: status %d", step, resp.StatusCode), false
	}
	resp, err := do("POST", base+fmt.Sprintf("?size=%d", len(stream)), nil, nil)
	if err != nil {
		return err, false
	}
	if resp.StatusCode != http.StatusOK {
		return status("start", resp)
	}
	uid := resp.Header.Get("Location")
	chunk := ws.Chunk
	if chunk <= 1 {
		chunk = len(stream)/3 + 1
	}
	type rng struct{ lo, hi int }
	var parts []rng
	for lo := 0; lo < len(stream); lo += chunk {
		hi := lo + chunk
		if hi > len(stream) {
			hi = len(stream)
		}
		parts = append(parts, rng{lo, hi})
	}
	if ws.Reverse {
		for i, j := 0, len(parts)-1; i < j; i, j = i+1, j-1 {
			parts[i], parts[j] = parts[j], parts[i]
		}
	}
	for _, p := range parts {
		resp, err := do("PATCH", base+"/"+uid, stream[p.lo:p.hi], map[string]string{"Content-Range": fmt.Sprintf("%d-%d", p.lo, p.hi)})
		if err != nil {
			return err, false
		}
		if resp.StatusCode != http.StatusOK {
			return status("patch", resp)
		}
	}
	resp, err = do("PUT", base+"/"+uid, nil, nil)
	if err != nil {
		return err, false
	}
	if resp.StatusCode != http.StatusOK {
		return status("commit", resp)
	}
	return nil, false
}

func (w *world) httpDo(method, url string, body []byte, hdr map[string]string) (int, string) {
	req, err := http.NewRequest(method, url, bytes.NewReader(body))
	if err != nil {
		return -1, ""
	}
	for k, v := range hdr {
		req.Header.Set(k, v)
	}
	resp, err := http.DefaultClient.Do(req)
	if err != nil {
		return -1, ""
	}
	io.Copy(io.Discard, resp.Body)
	resp.Body.Close()
	return resp.StatusCode, resp.Header.Get("Location")
}

// drainAs drains d the way the spec says: on demand, through worker ticks, or
// after letting the TTL worker look first. false = watchdog.
func (w *world) drainAs(cs *caseState, how string) bool {
	switch how {
	case "ticks":
		for i := 0; i < 8 && w.cas.VerifC01InMemCache(cs.hex); i++ {
			w.advance(100*time.Millisecond + time.Millisecond)
		}
	case "ttl":
		if w.fastTTL {
			for h := 0; h < 3; h++ {
				w.advance(31 * time.Millisecond)
			}
		} else {
			w.advance(w.ttl + 500*time.Millisecond)
		}
	}
	cs.note("step", "drain:"+how)
	return w.drainAll(cs.hex)
}

// memThenDisk: see seqSpec.
func (w *world) memThenDisk(cs *caseState) bool {
	sq := cs.spec.Seq
	ws := writeSpec{Path: sq.DiskPath, Kind: sq.Kind, Arg: sq.Arg, Chunk: sq.Chunk}
	stream := mkStream(cs.blob, ws)
	w.run.Count("mem_then_disk_"+sq.DiskPath, 1)
	// uploads that are started and filled before d exists anywhere
	var base, uid string
	switch sq.DiskPath {
	case "http-transfer-prestarted", "http-upload-prestarted":
		base = fmt.Sprintf("http://%s/internal/blobs/%s/uploads", w.addr, cs.d)
		if sq.DiskPath == "http-upload-prestarted" {
			base = fmt.Sprintf("http://%s/namespace/%s/blobs/%s/uploads", w.addr, nsScripted, cs.d)
		}
		st, loc := w.httpDo("POST", base, nil, nil)
		if st != http.StatusOK || loc == "" {
			return true
		}
		uid = loc
		if len(stream) > 0 {
			if st, _ := w.httpDo("PATCH", base+"/"+uid, stream, map[string]string{"Content-Range": fmt.Sprintf("0-%d", len(stream))}); st != http.StatusOK {
				return true
			}
		}
	case "upload-api-prestarted":
		uid = fmt.Sprintf("pre-%s-%d", cs.hex[:12], sq.Arg)
		if err := w.cas.CreateUploadFile(uid, 0); err != nil {
			return true
		}
		f, err := w.cas.GetUploadFileReadWriter(uid)
		if err != nil {
			return true
		}
		err = writeChunks(f, stream, sq.Chunk)
		f.Close()
		if err != nil {
			return true
		}
	}
	// the exact blob through the memory write-through path
	res := w.doWrite(cs, writeSpec{Path: sq.MemPath, Kind: "exact", Arg: sq.Arg + 7, Chunk: sq.Chunk})
	if res.err == errWatchdog {
		return false
	}
	if w.cas.VerifC01InMemCache(cs.hex) {
		w.run.Count("mem_then_disk_exact_blob_memory_resident", 1)
	}
	w.observeAll(cs, false)
	// the differing stream through a disk path, while d waits for its drain
	accepted := false
	switch sq.DiskPath {
	case "http-transfer-prestarted", "http-upload-prestarted":
		st, _ := w.httpDo("PUT", base+"/"+uid, nil, nil)
		accepted = st == http.StatusOK
		cs.note("write-return", fmt.Sprintf("%s/%s commit -> %d", sq.DiskPath, sq.Kind, st))
	case "upload-api-prestarted":
		err := w.cas.MoveUploadFileToCache(uid, cs.hex)
		accepted = err == nil
		cs.note("write-return", fmt.Sprintf("%s/%s -> %v", sq.DiskPath, sq.Kind, err))
	default:
		r2 := w.doWrite(cs, ws)
		if r2.err == errWatchdog {
			return false
		}
		accepted = r2.err == nil
	}
	if accepted {
		// tolerated as such (d exists: "already there" short-cuts are legal);
		// what is served under d afterwards decides
		w.run.Count("mem_then_disk_differing_stream_reported_success", 1)
	}
	w.observeAll(cs, false)
	if !w.drainAs(cs, sq.Drain) {
		return false
	}
	w.observeAll(cs, true)
	return true
}

// slowReader: see seqSpec.
func (w *world) slowReader(cs *caseState) bool {
	sq := cs.spec.Seq
	r := rand.New(rand.NewSource(sq.Arg))
	res := w.doWrite(cs, writeSpec{Path: sq.MemPath, Kind: "exact", Arg: sq.Arg + 7, Chunk: sq.Chunk})
	if res.err == errWatchdog {
		return false
	}
	resident := w.cas.VerifC01InMemCache(cs.hex)
	if resident {
		w.run.Count("slow_reader_opened_while_memory_resident", 1)
	}
	type held struct {
		api  string
		rd   io.ReadCloser
		want []byte
		got  []byte
	}
	var hs []*held
	if f, err := w.cas.GetCacheFileReader(cs.hex); err == nil {
		hs = append(hs, &held{api: "store-reader-slow", rd: f, want: cs.blob})
	}
	if t, err := w.archive.GetTorrent(nsObserve, cs.d); err == nil && t.NumPieces() > 0 && t.Length() == int64(len(cs.blob)) {
		i := r.Intn(t.NumPieces())
		if pr, err := t.GetPieceReader(i); err == nil {
			lo := int64(i) * t.MaxPieceLength()
			hs = append(hs, &held{api: "piece-reader-slow", rd: pr, want: cs.blob[lo : lo+t.PieceLength(i)]})
		}
	}
	// consume a part (at least one byte, so lazy readers have opened their file)
	for _, h := range hs {
		n := len(h.want) * sq.ReadFrac / 100
		if n < 1 {
			n = 1
		}
		if n > len(h.want) {
			n = len(h.want)
		}
		buf := make([]byte, n)
		m, _ := io.ReadFull(h.rd, buf)
		h.got = append(h.got, buf[:m]...)
	}
	cs.note("step", fmt.Sprintf("%d readers opened (memory resident: %v) and read %d%%", len(hs), resident, sq.ReadFrac))
	if !w.drainAs(cs, sq.Drain) {
		return false
	}
	// other blobs of similar size through the memory path
	var others []string
	for k := 0; k < sq.Others; k++ {
		n := len(cs.blob)/2 + 1 + r.Intn(len(cs.blob)-len(cs.blob)/2)
		if n > len(cs.blob) {
			n = len(cs.blob)
		}
		if k == 0 {
			n = len(cs.blob)
		}
		ob := gen.Bytes(r, n)
		name := sha(ob)
		err := w.cas.WriteBlobToCacheWithMetaInfo(name, uint64(n), func(f store.FileReadWriter) error {
			return writeChunks(f, ob, sq.Chunk)
		}, cs.spec.PL)
		if err == nil && w.cas.VerifC01InMemCache(name) {
			w.run.Count("slow_reader_other_blob_written_through_memory", 1)
		}
		others = append(others, name)
	}
	cs.note("step", fmt.Sprintf("%d other blobs of similar size written", len(others)))
	for _, h := range hs {
		rest, rerr := io.ReadAll(h.rd)
		h.rd.Close()
		h.got = append(h.got, rest...)
		cs.observations.Add(1)
		w.run.Count("obs_"+h.api, 1)
		if rerr != nil {
			w.run.Count("obs_read_error", 1)
			continue
		}
		if !bytes.Equal(h.got, h.want) {
			diff := 0
			for diff < len(h.got) && diff < len(h.want) && h.got[diff] == h.want[diff] {
				diff++
			}
			cs.note("observed-mismatch", fmt.Sprintf("%s: %d bytes, first difference at %d", h.api, len(h.got), diff))
			w.run.Count("observed_mismatching_content", 1)
			w.run.Violation("mismatching-content-visible/"+h.api+"/held-across-drain", cs.id,
				cs.witness(map[string]interface{}{"api": h.api, "bytes": len(h.got), "want": len(h.want), "first_difference": diff, "sha256_seen": sha(h.got)}))
		} else {
			cs.visibleOK.Add(1)
		}
	}
	for _, name := range others {
		w.drainAll(name)
		w.purge(name)
	}
	w.observeAll(cs, true)
	return true
}

// patchRace drives the chunked-upload protocol with a PATCH whose body is fed
// through a pipe, so that the commit can be issued while that PATCH is still
// streaming. Returns false on a harness watchdog.
func (w *world) patchRace(cs *caseState) bool {
	rs := cs.spec.Race
	base := fmt.Sprintf("http://%s/internal/blobs/%s/uploads", w.addr, cs.d)
	if rs.Endpoint == "upload" {
		base = fmt.Sprintf("http://%s/namespace/%s/blobs/%s/uploads", w.addr, nsScripted, cs.d)
	}
	path := "patch-race-" + rs.Endpoint
	w.run.Count("write_"+path, 1)
	w.run.Count("patch_race_mode_"+rs.Mode, 1)
	do := func(method, url string, body []byte, hdr map[string]string) (int, string) {
		req, err := http.NewRequest(method, url, bytes.NewReader(body))
		if err != nil {
			return -1, ""
		}
		for k, v := range hdr {
			req.Header.Set(k, v)
		}
		resp, err := http.DefaultClient.Do(req)
		if err != nil {
			return -1, ""
		}
		io.Copy(io.Discard, resp.Body)
		resp.Body.Close()
		return resp.StatusCode, resp.Header.Get("Location")
	}
	st, uid := do("POST", base, nil, nil)
	if st != http.StatusOK || uid == "" {
		cs.note("patch-race", fmt.Sprintf("start -> %d", st))
		return true
	}
	blob := cs.blob
	// the exact bytes, except the hole [Off,Split)
	put := func(lo, hi int) bool {
		n := rs.ExactChunks
		for c := 0; c < n; c++ {
			a, b := lo+(hi-lo)*c/n, lo+(hi-lo)*(c+1)/n
			if b == a {
				continue
			}
			if st, _ := do("PATCH", base+"/"+uid, blob[a:b], map[string]string{"Content-Range": fmt.Sprintf("%d-%d", a, b)}); st != http.StatusOK {
				cs.note("patch-race", fmt.Sprintf("exact patch %d-%d -> %d", a, b, st))
				return false
			}
		}
		return true
	}
	if !put(0, rs.Off) || !put(rs.Split, len(blob)) {
		return true
	}
	// the slow PATCH
	r := rand.New(rand.NewSource(rs.Arg))
	head := blob[rs.Off:rs.Split]
	tail := gen.Bytes(r, rs.K-len(head))
	if rs.Split < len(blob) && tail[0] == blob[rs.Split] {
		tail[0] ^= 0x5a
	}
	patchBase := base
	if rs.PatchDigest != "same" {
		other := gen.SHA256Hex(gen.Bytes(r, 32))
		if rs.PatchDigest == "other" {
			w.regMu.RLock()
			for _, x := range w.active {
				if x == cs {
					continue
				}
				if _, err := w.cas.GetCacheFileStat(x.hex); err != nil {
					other = x.hex // in play and not (yet) present: the PATCH is not refused with 409
					break
				}
			}
			w.regMu.RUnlock()
		}
		if od, err := core.NewSHA256DigestFromHex(other); err == nil {
			patchBase = fmt.Sprintf("http://%s/internal/blobs/%s/uploads", w.addr, od)
			if rs.Endpoint == "upload" {
				patchBase = fmt.Sprintf("http://%s/namespace/%s/blobs/%s/uploads", w.addr, nsScripted, od)
			}
		}
		w.run.Count("patch_race_slow_patch_under_other_digest_"+rs.PatchDigest, 1)
	}
	pr, pw := io.Pipe()
	req, _ := http.NewRequest("PATCH", patchBase+"/"+uid, pr)
	req.ContentLength = int64(rs.K)
	req.Header.Set("Content-Range", fmt.Sprintf("%d-%d", rs.Off, rs.Off+rs.K))
	patchDone := make(chan int, 1)
	go func() {
		resp, err := http.DefaultClient.Do(req)
		if err != nil {
			patchDone <- -1
			return
		}
		io.Copy(io.Discard, resp.Body)
		resp.Body.Close()
		patchDone <- resp.StatusCode
	}()
	if _, err := pw.Write(head); err != nil {
		pw.CloseWithError(err)
		<-patchDone
		return true
	}
	// wait until the server has written the head through its open handle
	synced := false
	for dl := time.Now().Add(3 * time.Second); time.Now().Before(dl); {
		select {
		case st := <-patchDone:
			// the server answered the slow PATCH before taking its body (e.g.
			// 409: the digest in its URL names a blob that exists): no race
			pw.CloseWithError(errors.New("patch already answered"))
			cs.note("patch-race", fmt.Sprintf("slow PATCH (digest in URL: %s) answered early with %d", rs.PatchDigest, st))
			w.run.Count("patch_race_slow_patch_refused_early", 1)
			cst, _ := do("PUT", base+"/"+uid, nil, nil)
			cs.matchingStarted.Store(cst == http.StatusOK) // only a hole-free file can have been committed
			w.run.Count(fmt.Sprintf("patch_race_commit_%d", cst), 1)
			w.observeAll(cs, true)
			return true
		default:
		}
		if f, err := w.cas.GetUploadFileReader(uid); err == nil {
			buf := make([]byte, len(head))
			n, _ := f.ReadAt(buf, int64(rs.Off))
			f.Close()
			if n == len(head) && bytes.Equal(buf, head) {
				synced = true
				break
			}
		}
		time.Sleep(200 * time.Microsecond)
	}
	if !synced {
		// The head did not show up in the upload file: the server is not
		// writing this PATCH (net/http drains an unread request body before it
		// sends e.g. a 409, so a refusal only becomes visible once the body
		// is complete) or it is very slow. Finish the body, then commit: no
		// race was set up, whatever becomes visible is judged as usual.
		_, _ = pw.Write(tail)
		pw.Close()
		pst := <-patchDone
		cst, _ := do("PUT", base+"/"+uid, nil, nil)
		cs.note("patch-race", fmt.Sprintf("no handle seen; slow PATCH (digest in URL: %s) -> %d, commit -> %d", rs.PatchDigest, pst, cst))
		w.run.Count("patch_race_no_open_handle_seen", 1)
		w.run.Count(fmt.Sprintf("patch_race_commit_%d", cst), 1)
		w.observeAll(cs, true)
		return true
	}
	cs.note("patch-race", fmt.Sprintf("%s: hole [%d,%d) filled by the slow PATCH [%d,%d), handle open; mode %s", rs.Endpoint, rs.Off, rs.Split, rs.Off, rs.Off+rs.K, rs.Mode))
	commitDone := make(chan int, 1)
	commit := func() {
		cs.matchingStarted.Store(true) // the upload file holds exactly the blob now
		go func() {
			st, _ := do("PUT", base+"/"+uid, nil, nil)
			commitDone <- st
		}()
	}
	// bounded wait: a server that makes the commit wait for the open writer
	// is fine, the harness then simply finishes the body first
	waitCommit := func(d time.Duration) (int, bool) {
		select {
		case st := <-commitDone:
			return st, true
		case <-time.After(d):
			return 0, false
		}
	}
	commitStatus, haveCommit := 0, false
	patchStatus := 0
	switch rs.Mode {
	case "after-commit", "abort-after-commit":
		commit()
		commitStatus, haveCommit = waitCommit(500 * time.Millisecond)
		cs.lateWriter.Store(true)
		if rs.Mode == "after-commit" {
			_, _ = pw.Write(tail)
			pw.Close()
		} else {
			pw.CloseWithError(errors.New("client aborted the chunk"))
		}
		patchStatus = <-patchDone
	case "before-commit":
		_, _ = pw.Write(tail)
		pw.Close()
		patchStatus = <-patchDone
		commit()
	case "concurrent":
		commit()
		cs.lateWriter.Store(true)
		_, _ = pw.Write(tail)
		pw.Close()
		patchStatus = <-patchDone
	}
	if !haveCommit {
		var ok bool
		if commitStatus, ok = waitCommit(30 * time.Second); !ok {
			return false
		}
	}
	cs.note("patch-race", fmt.Sprintf("commit -> %d, slow patch -> %d", commitStatus, patchStatus))
	w.run.Count(fmt.Sprintf("patch_race_commit_%d", commitStatus), 1)
	if rs.Mode == "before-commit" && patchStatus == http.StatusOK && commitStatus == http.StatusOK {
		// the differing tail was acknowledged before the commit was sent
		w.run.Violation("mismatching-write-accepted/"+path+"/via-disk", cs.id, cs.witness(map[string]interface{}{"race": rs}))
	}
	if commitStatus == http.StatusOK && patchStatus == http.StatusOK && rs.Mode != "before-commit" {
		w.run.Count("patch_race_late_bytes_acknowledged_after_successful_commit", 1)
	}
	w.observeAll(cs, true)
	return true
}

// ---------------------------------------------------------------------------
// observations

var storeAPIs = []string{"store-reader", "store-stat", "store-metainfo", "store-list", "torrent-pieces"}
var httpAPIs = []string{"http-blob", "http-metainfo", "http-stat"}

// checkMetaInfo recomputes the metainfo of blob independently (crc32 per
// piece of the piece length mi reports) and compares.
func checkMetaInfo(mi *core.MetaInfo, d core.Digest, blob []byte) string {
	if mi == nil {
		return "nil metainfo"
	}
	if mi.Digest() != d {
		return fmt.Sprintf("metainfo digest %s", mi.Digest())
	}
	if mi.Length() != int64(len(blob)) {
		return fmt.Sprintf("metainfo length %d, blob %d", mi.Length(), len(blob))
	}
	pl := mi.PieceLength()
	if pl <= 0 {
		return fmt.Sprintf("metainfo piece length %d", pl)
	}
	n := (int64(len(blob)) + pl - 1) / pl
	if int64(mi.NumPieces()) != n {
		return fmt.Sprintf("metainfo has %d pieces, want %d", mi.NumPieces(), n)
	}
	for i := int64(0); i < n; i++ {
		hi := (i + 1) * pl
		if hi > int64(len(blob)) {
			hi = int64(len(blob))
		}
		if mi.GetPieceSum(int(i)) != crc32.ChecksumIEEE(blob[i*pl:hi]) {
			return fmt.Sprintf("piece %d checksum does not match the blob", i)
		}
		if mi.GetPieceLength(int(i)) != hi-i*pl {
			return fmt.Sprintf("piece %d length %d", i, mi.GetPieceLength(int(i)))
		}
	}
	return ""
}

// observe looks at cs.d through one API and judges what it sees.
func (w *world) observe(cs *caseState, api, who string) {
	visible := false
	bad := ""
	switch api {
	case "store-reader":
		f, err := w.cas.GetCacheFileReader(cs.hex)
		if err != nil {
			break
		}
		b, rerr := io.ReadAll(f)
		f.Close()
		if rerr != nil {
			w.run.Count("obs_read_error", 1)
			break
		}
		visible = true
		if !bytes.Equal(b, cs.blob) {
			bad = fmt.Sprintf("read %d bytes with sha256 %s", len(b), sha(b))
		}
		// (FileReader.Size() stats the path again and reports 0 once the blob
		// has been deleted under an open handle; sizes are judged by store-stat)
	case "store-stat":
		fi, err := w.cas.GetCacheFileStat(cs.hex)
		if err != nil {
			break
		}
		visible = true
		if fi.Size() != int64(len(cs.blob)) {
			bad = fmt.Sprintf("stat size %d, blob %d", fi.Size(), len(cs.blob))
		}
	case "store-metainfo":
		var tm metadata.TorrentMeta
		if err := w.cas.GetCacheFileMetadata(cs.hex, &tm); err != nil {
			break
		}
		visible = true
		bad = checkMetaInfo(tm.MetaInfo, cs.d, cs.blob)
	case "store-list":
		names, err := w.cas.ListCacheFiles()
		if err != nil {
			break
		}
		for _, n := range names {
			if n == cs.hex {
				visible = true
			}
		}
	case "torrent-pieces":
		t, err := w.archive.GetTorrent(nsObserve, cs.d)
		if err != nil {
			break
		}
		visible = true
		if t.Length() != int64(len(cs.blob)) {
			bad = fmt.Sprintf("torrent length %d, blob %d", t.Length(), len(cs.blob))
			break
		}
		n := t.NumPieces()
		start := 0
		if n > 24 {
			start = int(cs.observations.Load()) % (n - 23)
			n = start + 24
		}
		for i := start; i < n && bad == ""; i++ {
			pr, err := t.GetPieceReader(i)
			if err != nil {
				break
			}
			b, rerr := io.ReadAll(pr)
			pr.Close()
			if rerr != nil {
				w.run.Count("obs_piece_read_error", 1) // blob left between metainfo and read
				break
			}
			lo := int64(i) * t.MaxPieceLength()
			hi := lo + t.PieceLength(i)
			if lo > int64(len(cs.blob)) || hi > int64(len(cs.blob)) || !bytes.Equal(b, cs.blob[lo:hi]) {
				bad = fmt.Sprintf("piece %d (%d bytes) differs from the blob", i, len(b))
			}
			w.run.Count("obs_pieces_read", 1)
		}
	case "http-blob":
		var buf bytes.Buffer
		if err := w.client.DownloadBlob(context.Background(), nsObserve, cs.d, &buf); err != nil {
			break
		}
		visible = true
		if !bytes.Equal(buf.Bytes(), cs.blob) {
			bad = fmt.Sprintf("GET blob returned %d bytes with sha256 %s", buf.Len(), sha(buf.Bytes()))
		}
	case "http-metainfo":
		mi, err := w.client.GetMetaInfo(nsObserve, cs.d)
		if err != nil {
			break
		}
		visible = true
		bad = checkMetaInfo(mi, cs.d, cs.blob)
	case "http-stat":
		bi, err := w.client.StatLocal(nsObserve, cs.d)
		if err != nil {
			break
		}
		visible = true
		if bi.Size != int64(len(cs.blob)) {
			bad = fmt.Sprintf("HEAD size %d, blob %d", bi.Size, len(cs.blob))
		}
	default:
		panic("unknown api " + api)
	}
	cs.observations.Add(1)
	w.run.Count("obs_"+api, 1)
	if !visible {
		return
	}
	w.run.Count("obs_visible_"+who, 1)
	origin := "from-disk"
	if cs.memMismatch.Load() {
		origin = "memory-write-through"
	}
	if cs.lateWriter.Load() {
		origin = "upload-fd-written-after-commit"
	}
	switch {
	case bad != "":
		cs.note("observed-mismatch", api+": "+bad)
		w.run.Count("observed_mismatching_content", 1)
		w.run.Violation("mismatching-content-visible/"+api+"/"+origin, cs.id, cs.witness(map[string]string{"api": api, "by": who, "seen": bad}))
	case !cs.matchingStarted.Load():
		cs.note("observed-visible-without-exact-write", api)
		w.run.Violation("visible-without-matching-write/"+api+"/"+origin, cs.id, cs.witness(map[string]string{"api": api, "by": who}))
	default:
		cs.visibleOK.Add(1)
	}
}

func (w *world) observeAll(cs *caseState, withHTTP bool) {
	for _, api := range storeAPIs {
		w.observe(cs, api, "case")
	}
	if withHTTP {
		for _, api := range httpAPIs {
			w.observe(cs, api, "case")
		}
	}
}

func (w *world) reader(seed int64, stop <-chan struct{}, wg *sync.WaitGroup) {
	defer wg.Done()
	r := rand.New(rand.NewSource(seed))
	for {
		select {
		case <-stop:
			return
		default:
		}
		w.regMu.RLock()
		var cs *caseState
		if len(w.active) > 0 {
			cs = w.active[r.Intn(len(w.active))]
		}
		w.regMu.RUnlock()
		if cs == nil {
			time.Sleep(200 * time.Microsecond)
			continue
		}
		if r.Intn(5) == 0 {
			w.observe(cs, httpAPIs[r.Intn(len(httpAPIs))], "reader")
		} else {
			w.observe(cs, storeAPIs[r.Intn(len(storeAPIs))], "reader")
		}
	}
}

// ---------------------------------------------------------------------------

// blobOf returns the blob of a case: PRNG bytes, except that 1-2 byte blobs
// are numbered by slot so that no digest repeats within a world.
func blobOf(spec *caseSpec) []byte {
	switch spec.BlobSize {
	case 1:
		return []byte{byte(spec.Slot)}
	case 2:
		return []byte{byte(spec.Slot), byte(spec.Slot >> 8)}
	}
	return gen.Bytes(rand.New(rand.NewSource(spec.blobSeed)), spec.BlobSize)
}

func (w *world) runCase(caseID string, spec *caseSpec, sample bool) {
	blob := blobOf(spec)
	d, _ := core.NewDigester().FromBytes(blob)
	cs := &caseState{id: caseID, spec: spec, blob: blob, d: d, hex: d.Hex()}
	if spec.BlobSize <= 2 {
		// blobs this small repeat their digest across cases: one such case at
		// a time per world, each from a clean slate
		w.emptyMu.Lock()
		defer w.emptyMu.Unlock()
		for dl := time.Now().Add(20 * time.Second); !w.scr.idle() && time.Now().Before(dl); {
			time.Sleep(time.Millisecond)
		}
		w.drainAll(cs.hex)
		w.purge(cs.hex)
	}
	w.regMu.Lock()
	w.active = append(w.active, cs)
	w.regMu.Unlock()
	defer func() {
		w.regMu.Lock()
		for i, x := range w.active {
			if x == cs {
				w.active = append(w.active[:i], w.active[i+1:]...)
				break
			}
		}
		w.regMu.Unlock()
	}()

	w.observeAll(cs, false) // nothing has been written: nothing may be visible
	mismatches := 0
	inconclusive := false
	steps := func(k int) {
		for _, st := range spec.Steps[k] {
			switch st {
			case "obs":
				w.observeAll(cs, false)
			case "obs-http":
				w.observeAll(cs, true)
			case "drain1":
				w.cas.VerifC01DrainNext()
				w.run.Count("step_drain1", 1)
			case "drainAll":
				if !w.drainAll(cs.hex) {
					inconclusive = true
				}
				w.run.Count("step_drainAll", 1)
			case "tick":
				w.advance(100*time.Millisecond + time.Millisecond)
				w.run.Count("step_tick", 1)
			case "ttl":
				if w.fastTTL {
					for h := 0; h < 3; h++ {
						w.advance(31 * time.Millisecond)
					}
				} else {
					w.advance(w.ttl + 500*time.Millisecond)
					w.advance(time.Second + time.Millisecond)
				}
				w.run.Count("step_ttl", 1)
			}
			cs.note("step", st)
		}
	}
	for _, ws := range spec.Writes {
		if ws.Kind != "exact" && ws.Kind != "stat-short" && ws.Kind != "stat-long" {
			mismatches++
		}
	}
	if spec.Pattern == "mem-then-disk" || spec.Pattern == "slow-reader" {
		mismatches = 1
		ok := false
		if spec.Pattern == "mem-then-disk" {
			ok = w.memThenDisk(cs)
		} else {
			ok = w.slowReader(cs)
		}
		if !ok {
			inconclusive = true
		}
		steps(0)
	} else if spec.Pattern == "patch-race" {
		mismatches = 1
		if !w.patchRace(cs) {
			inconclusive = true
		}
		steps(0)
	} else if spec.Pattern == "pair" {
		var wg sync.WaitGroup
		results := make([]*writeResult, 2)
		for k := 0; k < 2; k++ {
			wg.Add(1)
			go func(k int) { defer wg.Done(); results[k] = w.doWrite(cs, spec.Writes[k]) }(k)
		}
		wg.Wait()
		for _, r := range results {
			inconclusive = inconclusive || r.err == errWatchdog
		}
		steps(0)
		steps(1)
	} else {
		for k, ws := range spec.Writes {
			if r := w.doWrite(cs, ws); r.err == errWatchdog {
				inconclusive = true
			}
			steps(k)
		}
	}
	// quiescence: everything drained, look once more through every API
	if !w.drainAll(cs.hex) {
		inconclusive = true
	}
	w.observeAll(cs, true)
	if inconclusive {
		w.run.Inconclusive("C01 " + caseID + ": watchdog while waiting for a refresh / drain")
	}
	if cs.matchingStarted.Load() && cs.visibleOK.Load() > 0 {
		w.run.Count("cases_with_blob_served_correctly", 1)
	}
	w.run.Case(ev.JSON(spec), mismatches > 0 && cs.observations.Load() >= 3)
	if sample && w.run.WantSample() {
		w.run.Sample(spec)
	}
	w.purge(cs.hex)
}

// purge removes the blob of a finished case (persisted blobs - public upload
// path - refuse deletion until the persist marker is dropped).
func (w *world) purge(name string) {
	_ = w.cas.DeleteCacheFileMetadata(name, &metadata.Persist{})
	_ = w.cas.DeleteCacheFile(name)
}

func TestC01(t *testing.T) {
	run := ev.Start(t, "C01", "exploration", rule)
	defer run.Finish()
	run.Assume("sha256 collisions do not occur: content readable under d is compared with the one blob whose digest is d")
	run.Assume("the scripted backend.Client, the no-op write-back queue and the single-host hash ring are fakes at the outer boundary; CAStore, Refresher, blob server, metainfo generator and origin torrent archive are the real code")
	run.Assume("hash verification stays enabled (SkipHashVerification=false), as the statement requires")

	n := run.N(320, 2400)
	readersPerWorld := run.N(2, 3)
	workersPerWorld := 2
	perWorld := run.N(40, 60) // cases per world generation (ListCacheFiles walks every shard directory ever created: keep worlds young)
	root := ev.TempDir(t, "c01-")

	// the case list: case i -> configuration i%4, world generation (i/4)/perWorld
	var wg sync.WaitGroup
	for ci, spec := range configs {
		wg.Add(1)
		go func(ci int, spec cfgSpec) {
			defer wg.Done()
			var mine []int
			for i := ci; i < n; i += len(configs) {
				mine = append(mine, i)
			}
			for g := 0; g*perWorld < len(mine); g++ {
				lo, hi := g*perWorld, (g+1)*perWorld
				if hi > len(mine) {
					hi = len(mine)
				}
				fastTTL := g%2 == 1
				if rc := run.ReplayCase(); rc != "" {
					found := false
					for _, i := range mine[lo:hi] {
						found = found || rc == fmt.Sprintf("case/%d", i)
					}
					if !found {
						continue
					}
				}
				w := newWorld(t, run, root, spec, fastTTL)
				stop := make(chan struct{})
				var rwg sync.WaitGroup
				for k := 0; k < readersPerWorld; k++ {
					rwg.Add(1)
					go w.reader(run.Rand(fmt.Sprintf("reader/%s/%d/%d", spec.Name, g, k)).Int63(), stop, &rwg)
				}
				idx := make(chan int, hi-lo)
				slotOf := map[int]int{}
				for slot, i := range mine[lo:hi] {
					slotOf[i] = slot
					idx <- i
				}
				close(idx)
				var cwg sync.WaitGroup
				for k := 0; k < workersPerWorld; k++ {
					cwg.Add(1)
					go func() {
						defer cwg.Done()
						for i := range idx {
							caseID := fmt.Sprintf("case/%d", i)
							if rc := run.ReplayCase(); rc != "" && rc != caseID {
								continue
							}
							cspec := genCase(run.Rand(caseID), spec, fastTTL, slotOf[i])
							w.runCase(caseID, cspec, i%53 == 0)
						}
					}()
				}
				cwg.Wait()
				close(stop)
				rwg.Wait()
				w.close()
			}
		}(ci, spec)
	}
	wg.Wait()
}
