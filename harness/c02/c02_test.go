// C02: torrent metainfo exactly describes its blob.
//
// Oracle-gen monitor. The real core.NewMetaInfo (stream), core.NewMetaInfoFromBytes
// (slice), Serialize/DeserializeMetaInfo and metainfogen's piece-length table are
// executed on generated (size, piece length, contents, reader behaviour, table)
// cases; an independent reference (slice the bytes, crc32 IEEE per slice) judges
// every observable.
package c02

import (
	"bytes"
	"fmt"
	"hash/crc32"
	"io"
	"math/rand"
	"sort"
	"testing"
	"testing/iotest"
	"time"

	"github.com/andres-erbsen/clock"

	"github.com/c2h5oh/datasize"
	"github.com/uber-go/tally"
	"github.com/uber/kraken/core"
	"github.com/uber/kraken/lib/metainfogen"
	"github.com/uber/kraken/lib/store"
	"github.com/uber/kraken/lib/store/metadata"

	"verif/harness/internal/ev"
)

type chunkReader struct {
	r   io.Reader
	rnd *rand.Rand
	max int
}

func (c *chunkReader) Read(p []byte) (int, error) {
	if len(p) == 0 {
		return 0, nil
	}
	n := 1 + c.rnd.Intn(c.max)
	if n > len(p) {
		n = len(p)
	}
	return c.r.Read(p[:n])
}

// zeroThenData returns (0, nil) once before every real read: legal for io.Reader.
type zeroThenData struct {
	r    io.Reader
	flip bool
}

func (z *zeroThenData) Read(p []byte) (int, error) {
	z.flip = !z.flip
	if z.flip {
		return 0, nil
	}
	return z.r.Read(p)
}

type refInfo struct {
	length int64
	lens   []int64
	sums   []uint32
}

func reference(data []byte, pl int64) refInfo {
	ri := refInfo{length: int64(len(data))}
	for off := int64(0); off < int64(len(data)); off += pl {
		end := off + pl
		if end > int64(len(data)) {
			end = int64(len(data))
		}
		ri.lens = append(ri.lens, end-off)
		ri.sums = append(ri.sums, crc32.Checksum(data[off:end], crc32.MakeTable(crc32.IEEE)))
	}
	return ri
}

func pickPieceLength(r *rand.Rand) int64 {
	fixed := []int64{1, 2, 3, 7, 64, 1000, 4096}
	if r.Intn(3) == 0 {
		return 1 + int64(r.Intn(65536))
	}
	return fixed[r.Intn(len(fixed))]
}

func pickSize(r *rand.Rand, pl int64, maxSize int64) int64 {
	k := int64(1 + r.Intn(6))
	cands := []int64{0, 1, pl - 1, pl, pl + 1, k*pl - 1, k * pl, k*pl + 1, int64(r.Intn(int(maxSize) + 1))}
	s := cands[r.Intn(len(cands))]
	if s < 0 {
		s = 0
	}
	if s > maxSize {
		s = maxSize - int64(r.Intn(int(pl)+1))
		if s < 0 {
			s = 0
		}
	}
	return s
}

func checkMI(run *ev.Run, sigPrefix, caseID string, mi *core.MetaInfo, d core.Digest, data []byte, pl int64, ref refInfo) {
	bad := func(sig string, w interface{}) {
		run.Violation(sigPrefix+"/"+sig, caseID, map[string]interface{}{"size": len(data), "piece_length": pl, "detail": w})
	}
	if mi.Length() != ref.length {
		bad("length", fmt.Sprintf("got %d want %d", mi.Length(), ref.length))
	}
	if mi.PieceLength() != pl {
		bad("piece-length-field", fmt.Sprintf("got %d want %d", mi.PieceLength(), pl))
	}
	if mi.NumPieces() != len(ref.sums) {
		bad("num-pieces", fmt.Sprintf("got %d want %d", mi.NumPieces(), len(ref.sums)))
		return
	}
	var total int64
	for i := range ref.sums {
		if mi.GetPieceLength(i) != ref.lens[i] {
			bad("piece-len", fmt.Sprintf("piece %d got %d want %d", i, mi.GetPieceLength(i), ref.lens[i]))
		}
		if mi.GetPieceSum(i) != ref.sums[i] {
			bad("piece-sum", fmt.Sprintf("piece %d got %08x want %08x", i, mi.GetPieceSum(i), ref.sums[i]))
		}
		total += mi.GetPieceLength(i)
	}
	if total != ref.length {
		bad("piece-len-total", fmt.Sprintf("sum %d want %d", total, ref.length))
	}
	if mi.GetPieceLength(-1) != 0 || mi.GetPieceLength(len(ref.sums)) != 0 {
		bad("piece-len-out-of-range-nonzero", nil)
	}
	if mi.Digest() != d {
		bad("digest", fmt.Sprintf("got %s want %s", mi.Digest(), d))
	}
}

func oneCase(run *ev.Run, r *rand.Rand, caseID string, data []byte, pl int64, readerKind int) {
	d, _ := core.NewDigester().FromBytes(data)
	ref := reference(data, pl)
	var rd io.Reader = bytes.NewReader(data)
	kind := ""
	switch readerKind {
	case 0:
		kind = "bytes.Reader"
	case 1:
		kind = "one-byte"
		rd = iotest.OneByteReader(rd)
	case 2:
		kind = "random-chunk"
		rd = &chunkReader{r: rd, rnd: rand.New(rand.NewSource(r.Int63())), max: int(pl) + 3}
	case 3:
		kind = "data+EOF"
		rd = iotest.DataErrReader(rd)
	case 4:
		kind = "half"
		rd = iotest.HalfReader(rd)
	case 5:
		kind = "zero-then-data"
		rd = &zeroThenData{r: rd}
	case 6:
		kind = "data+EOF-chunked"
		rd = iotest.DataErrReader(&chunkReader{r: rd, rnd: rand.New(rand.NewSource(r.Int63())), max: int(pl) + 3})
	}
	run.Count("reader_"+kind, 1)
	miS, err := core.NewMetaInfo(d, rd, pl)
	if err != nil {
		run.Violation("stream/error", caseID, err.Error())
		return
	}
	miB, err := core.NewMetaInfoFromBytes(d, data, pl)
	if err != nil {
		run.Violation("bytes/error", caseID, err.Error())
		return
	}
	checkMI(run, "stream/"+kind, caseID, miS, d, data, pl, ref)
	checkMI(run, "bytes", caseID, miB, d, data, pl, ref)
	sS, err1 := miS.Serialize()
	sB, err2 := miB.Serialize()
	if err1 != nil || err2 != nil {
		run.Violation("serialize/error", caseID, fmt.Sprint(err1, err2))
		return
	}
	if miS.InfoHash() != miB.InfoHash() || !bytes.Equal(sS, sB) {
		run.Violation("stream-vs-bytes-differ/"+kind, caseID, map[string]interface{}{
			"size": len(data), "piece_length": pl, "stream": string(sS), "bytes": string(sB)})
	}
	back, err := core.DeserializeMetaInfo(sB)
	if err != nil {
		run.Violation("deserialize/error", caseID, err.Error())
		return
	}
	if back.InfoHash() != miB.InfoHash() {
		run.Violation("roundtrip/infohash", caseID, map[string]interface{}{"size": len(data), "piece_length": pl})
	}
	checkMI(run, "roundtrip", caseID, back, d, data, pl, ref)
	s2, _ := back.Serialize()
	if !bytes.Equal(s2, sB) {
		run.Violation("roundtrip/reserialize-differs", caseID, nil)
	}
}

func refLookup(table map[int64]int64, size int64) int64 {
	var keys []int64
	for k := range table {
		keys = append(keys, k)
	}
	sort.Slice(keys, func(i, j int) bool { return keys[i] < keys[j] })
	best := table[keys[0]]
	for _, k := range keys {
		if k <= size {
			best = table[k]
		}
	}
	return best
}

func TestC02(t *testing.T) {
	run := ev.Start(t, "C02", "exploration",
		"PRNG (size, piece length, contents, reader behaviour) cases with sizes biased to 0, 1, pl-1, pl, pl+1, k*pl-1, k*pl, k*pl+1; "+
			"exhaustive sizes 0..4*pl for pl<=24; PRNG threshold tables x sizes around every threshold; Generate on a real CAStore. "+
			"distinct = distinct (phase, size, pl, reader kind | table, size); non-trivial = size>0 or table with >=2 thresholds")
	defer run.Finish()
	r := run.Rand("main")

	// phase 1: exhaustive small sizes
	maxPl := run.N(40, 64)
	for pl := int64(1); pl <= int64(maxPl); pl++ {
		for size := int64(0); size <= 4*pl; size++ {
			data := make([]byte, size)
			r.Read(data)
			for kind := 0; kind < 7; kind++ {
				id := fmt.Sprintf("exh|%d|%d|%d", size, pl, kind)
				run.Case(id, size > 0)
				oneCase(run, r, id, data, pl, kind)
			}
		}
	}
	run.Count("exhaustive_small_cases", run.Counter("reader_bytes.Reader"))

	// phase 2: random
	n := run.N(150000, 1500000)
	maxSize := int64(run.N(96*1024, 512*1024))
	for i := 0; i < n; i++ {
		pl := pickPieceLength(r)
		size := pickSize(r, pl, maxSize)
		if pl < 8 && size > 4096 {
			size = size % 4096 // keep piece counts (and cost) bounded
		}
		kind := r.Intn(7)
		if kind == 1 && size > 8192 {
			kind = 2
		}
		data := make([]byte, size)
		r.Read(data)
		id := fmt.Sprintf("rnd|%d|%d|%d|%d", i, size, pl, kind)
		run.Case(fmt.Sprintf("rnd|%d|%d|%d", size, pl, kind), size > 0)
		if size > 0 && size%pl == 0 {
			run.Count("exact_multiple_sizes", 1)
		}
		if size == 0 {
			run.Count("empty_blobs", 1)
		}
		if run.WantSample() && i%3001 == 0 {
			run.Sample(map[string]interface{}{"size": size, "piece_length": pl, "reader": kind, "pieces": len(reference(data, pl).sums)})
		}
		oneCase(run, r, id, data, pl, kind)
	}

	// non-positive piece lengths must be refused (no metainfo describes them)
	for _, pl := range []int64{0, -1, -4096} {
		if _, err := core.NewMetaInfo(core.Digest{}, bytes.NewReader([]byte("abc")), pl); err == nil {
			run.Violation("nonpositive-piece-length-accepted/stream", fmt.Sprint(pl), nil)
		}
		if _, err := core.NewMetaInfoFromBytes(core.Digest{}, []byte("abc"), pl); err == nil {
			run.Violation("nonpositive-piece-length-accepted/bytes", fmt.Sprint(pl), nil)
		}
	}

	// phase 3: piece length table lookups
	nt := run.N(4000, 200000)
	for i := 0; i < nt; i++ {
		k := 1 + r.Intn(6)
		table := map[int64]int64{}
		cfg := map[datasize.ByteSize]datasize.ByteSize{}
		for len(table) < k {
			var th int64
			switch r.Intn(4) {
			case 0:
				th = 0
			case 1:
				th = int64(r.Intn(100))
			case 2:
				th = int64(r.Intn(1 << 20))
			default:
				th = int64(r.Int63n(1 << 40))
			}
			if _, ok := table[th]; ok {
				continue
			}
			pl := 1 + int64(r.Intn(1<<24))
			if len(table) > 0 && r.Intn(3) == 0 {
				// repeat a piece length already in the table: neighbouring thresholds may share a value
				for _, v := range table {
					pl = v
					break
				}
			}
			table[th] = pl
			cfg[datasize.ByteSize(th)] = datasize.ByteSize(pl)
		}
		g, err := metainfogen.New(metainfogen.Config{PieceLengths: cfg}, nil)
		if err != nil {
			run.Violation("table/new-error", ev.JSON(table), err.Error())
			continue
		}
		var sizes []int64
		for th := range table {
			sizes = append(sizes, th-1, th, th+1)
		}
		sizes = append(sizes, 0, 1, int64(r.Int63n(1<<41)))
		{
			// a size strictly inside every range between two neighbouring thresholds
			var ths []int64
			for th := range table {
				ths = append(ths, th)
			}
			sort.Slice(ths, func(a, b int) bool { return ths[a] < ths[b] })
			for j := 0; j+1 < len(ths); j++ {
				if ths[j+1]-ths[j] > 1 {
					sizes = append(sizes, ths[j]+1+r.Int63n(ths[j+1]-ths[j]-1))
				}
			}
		}
		for _, s := range sizes {
			if s < 0 {
				continue
			}
			id := fmt.Sprintf("table|%s|%d", ev.JSON(table), s)
			run.Case(id, k >= 2)
			run.Count("table_lookups", 1)
			got, want := g.GetPieceLength(s), refLookup(table, s)
			if got != want {
				run.Violation("table/wrong-piece-length", id, map[string]interface{}{"table": table, "size": s, "got": got, "want": want})
			}
		}
		if i == 0 {
			run.Sample(map[string]interface{}{"table": table, "sizes": sizes})
		}
	}

	// phase 4: Generator.Generate on a real CAStore: stored metainfo uses the table's
	// piece length for the blob's size and describes the blob.
	dir := ev.TempDir(t, "c02-")
	cas, err := store.NewCAStore(store.CAStoreConfig{UploadDir: dir + "/upload", CacheDir: dir + "/cache"}, tally.NoopScope)
	if err != nil {
		t.Fatalf("castore: %v", err)
	}
	defer cas.Close()
	ng := run.N(150, 3000)
	var reused metadata.TorrentMeta
	for i := 0; i < ng; i++ {
		table := map[int64]int64{}
		cfg := map[datasize.ByteSize]datasize.ByteSize{}
		for len(table) < 1+r.Intn(4) {
			th := int64(r.Intn(3000))
			table[th] = 1 + int64(r.Intn(700))
			if r.Intn(3) == 0 {
				for _, v := range table {
					table[th] = v
					break
				}
			}
			cfg[datasize.ByteSize(th)] = datasize.ByteSize(table[th])
		}
		var ths []int64
		for th := range table {
			ths = append(ths, th)
		}
		sort.Slice(ths, func(a, b int) bool { return ths[a] < ths[b] })
		size := ths[r.Intn(len(ths))] + int64(r.Intn(3)) - 1
		if size < 0 || r.Intn(4) == 0 {
			size = int64(r.Intn(4000))
		}
		data := make([]byte, size)
		r.Read(data)
		d, _ := core.NewDigester().FromBytes(data)
		id := fmt.Sprintf("gen|%s|%d|%s", ev.JSON(table), size, d.Hex()[:8])
		run.Case(id, true)
		run.Count("generate_on_castore", 1)
		if err := cas.CreateCacheFile(d.Hex(), bytes.NewReader(data)); err != nil && !isExist(err) {
			t.Fatalf("create cache file: %v", err)
		}
		g, err := metainfogen.New(metainfogen.Config{PieceLengths: cfg}, cas)
		if err != nil {
			t.Fatalf("generator: %v", err)
		}
		// a previous iteration may have stored metainfo for identical bytes
		_ = cas.DeleteCacheFileMetadata(d.Hex(), &metadata.TorrentMeta{})
		if err := g.Generate(d); err != nil {
			run.Violation("generate/error", id, err.Error())
			continue
		}
		// one holder is reused across blobs, as long-lived callers do
		tm := &reused
		if i%2 == 0 {
			tm = &metadata.TorrentMeta{}
		}
		if err := cas.GetCacheFileMetadata(d.Hex(), tm); err != nil {
			run.Violation("generate/metainfo-not-stored", id, err.Error())
			continue
		}
		want := refLookup(table, size)
		if tm.MetaInfo.PieceLength() != want {
			run.Violation("generate/wrong-piece-length", id, map[string]interface{}{"table": table, "size": size, "got": tm.MetaInfo.PieceLength(), "want": want})
			continue
		}
		checkMI(run, "generate", id, tm.MetaInfo, d, data, want, reference(data, want))
		// the sidecar serialization of what was just fetched must parse back to the same metainfo
		if sb, err := tm.Serialize(); err != nil {
			run.Violation("generate/holder-serialize-error", id, err.Error())
		} else if back, err := core.DeserializeMetaInfo(sb); err != nil {
			run.Violation("generate/holder-serialization-does-not-parse", id, err.Error())
		} else {
			if back.InfoHash() != tm.MetaInfo.InfoHash() {
				run.Violation("generate/holder-serialization-describes-another-torrent", id,
					map[string]interface{}{"digest": d.Hex(), "serialized_digest": back.Digest().Hex(), "size": size})
			}
			checkMI(run, "generate/holder-roundtrip", id, back, d, data, want, reference(data, want))
		}
		run.Count("holder_serializations", 1)
	}
	memoryCachePhase(t, run, r)
}

// memoryCachePhase: blobs written through the in-memory write-through cache; their metainfo is fetched
// (memory hit path) into ONE reused holder and serialized; each serialization must describe its own blob.
func memoryCachePhase(t *testing.T, run *ev.Run, r *rand.Rand) {
	dir := ev.TempDir(t, "c02m-")
	clk := clock.NewMock()
	clk.Set(time.Unix(1700000000, 0))
	cfg := store.CAStoreConfig{UploadDir: dir + "/upload", CacheDir: dir + "/cache"}
	cfg.MemoryCache.Enabled = true
	cfg.MemoryCache.MaxSize = 4 << 20
	cfg.MemoryCache.DrainWorkers = 1
	cas, cleanup := store.CAStoreFixtureWithClock(cfg, clk)
	defer cleanup()
	n := run.N(60, 1500)
	var holder metadata.TorrentMeta
	for i := 0; i < n; i++ {
		size := int64(1 + r.Intn(6000))
		pl := int64(1 + r.Intn(512))
		data := make([]byte, size)
		r.Read(data)
		d, _ := core.NewDigester().FromBytes(data)
		id := fmt.Sprintf("mem|%d|%d|%s", size, pl, d.Hex()[:8])
		run.Case(id, true)
		err := cas.WriteBlobToCacheWithMetaInfo(d.Hex(), uint64(size), func(w store.FileReadWriter) error {
			_, err := w.Write(data)
			return err
		}, pl)
		if err != nil {
			run.Violation("memcache/write-error", id, err.Error())
			continue
		}
		if err := cas.GetCacheFileMetadata(d.Hex(), &holder); err != nil {
			run.Violation("memcache/metainfo-not-available", id, err.Error())
			continue
		}
		run.Count("memory_cache_metainfo_fetches", 1)
		checkMI(run, "memcache", id, holder.MetaInfo, d, data, pl, reference(data, pl))
		sb, err := holder.Serialize()
		if err != nil {
			run.Violation("memcache/holder-serialize-error", id, err.Error())
			continue
		}
		back, err := core.DeserializeMetaInfo(sb)
		if err != nil {
			run.Violation("memcache/holder-serialization-does-not-parse", id, err.Error())
			continue
		}
		if back.InfoHash() != holder.MetaInfo.InfoHash() || back.Digest() != d {
			run.Violation("memcache/holder-serialization-describes-another-torrent", id,
				map[string]interface{}{"digest": d.Hex(), "serialized_digest": back.Digest().Hex(), "size": size, "piece_length": pl})
		}
		checkMI(run, "memcache/holder-roundtrip", id, back, d, data, pl, reference(data, pl))
	}
}

func isExist(err error) bool {
	return err != nil && (bytes.Contains([]byte(err.Error()), []byte("exist")))
}
