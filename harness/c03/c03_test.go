// C03: an agent commits a blob only after every piece is verified.
//
// History + model-diff + race monitor. A real agentstorage.Torrent (created
// through the real TorrentArchive on a real CADownloadStore in a temp dir) is
// driven by W in {1,2,4,8} writer goroutines that consume a PRNG-determined
// multiset of piece writes (correct, corrupted, content of another piece,
// short, long, empty, failing reader, index = n, index > n, index < 0,
// duplicates, hot-spot bursts on one piece) while an observer goroutine samples
// Bitfield / Complete / BytesDownloaded / HasPiece / MissingPieces /
// GetPieceReader. Every WritePiece is recorded with call/return stamps from
// one atomic counter. Oracle (see check()):
//
//	(i)   a write returns nil only if its payload is the blob's piece, and at
//	      most one write per piece returns nil;
//	(ii)  no call panics; a correct write may only be refused with
//	      ErrPieceComplete or because another write on that piece overlapped it;
//	(iii) an observed set bit / HasPiece / absent-from-MissingPieces for piece i
//	      implies a correct write of i had been called; bits never clear;
//	(iv)  Complete() observed => every piece had a correct write called, the
//	      cache file equals the blob and the download file is gone;
//	(v)   at quiescence the bitfield is exactly the set of pieces with an
//	      accepted write, progress = min(k*pl, length); after every piece was
//	      accepted: complete, committed file = blob, further writes refused;
//	      if some piece was never accepted: not complete, nothing in the cache;
//	(vi)  re-opening the torrent (GetTorrent / Stat) reports the same bitfield;
//	(vii) a reader of a complete piece returns the blob's bytes, also while
//	      corrupt writes to other pieces are in flight.
package c03

import (
	"bytes"
	"errors"
	"fmt"
	"io"
	"math/rand"
	"os"
	"path/filepath"
	"sort"
	"strings"
	"sync"
	"sync/atomic"
	"testing"
	"time"

	"github.com/uber-go/tally"
	"go.uber.org/zap"

	"github.com/uber/kraken/core"
	"github.com/uber/kraken/lib/store"
	"github.com/uber/kraken/lib/torrent/storage"
	"github.com/uber/kraken/lib/torrent/storage/agentstorage"
	"github.com/uber/kraken/lib/torrent/storage/piecereader"
	"github.com/uber/kraken/tracker/metainfoclient"
	"github.com/uber/kraken/utils/log"

	"verif/harness/internal/ev"
	"verif/harness/internal/gen"
)

func init() {
	zc := zap.NewProductionConfig()
	zc.OutputPaths = []string{}
	zc.ErrorOutputPaths = []string{}
	log.ConfigureLogger(zc)
}

const rule = "PRNG histories (seed+tier determine the list): blob of 0-32 pieces, piece length 1-512, last piece short or full; " +
	"a shuffled multiset of piece writes {correct x0-3 per piece, corrupt, other-piece content, short, long, empty, failing reader, index n, index >n, index <0} " +
	"(25% of histories leave 1-3 pieces without any correct write; 15% are hot-spot bursts on one piece) consumed by W in {1,2,4,8} writers plus an observer; " +
	"download store with read/write part sizes in {0,100,4096,40000}; ~5% of histories use 1-4 pieces of 32-100 KiB; 20% inject one store I/O failure (Close / Write / half Write / Seek) into the first correct write holding a PRNG-chosen piece; " +
	"then a sequential repair phase writing every missing piece. non-trivial = >=2 pieces, >=1 rejected bad payload and >=1 duplicate-or-conflicting correct write; " +
	"distinct = distinct (layout, W, write list)."

// ---------------------------------------------------------------------------

type wop struct {
	Kind  string `json:"k"`
	Piece int    `json:"p"`
	Arg   int    `json:"a,omitempty"`
}

// faultSpec: one injected I/O failure at the store boundary, on the file
// handle of the first correct write that holds piece Piece.
type faultSpec struct {
	Op    string `json:"op"` // close | write | write-partial | seek
	Piece int    `json:"piece"`
}

type history struct {
	N        int        `json:"pieces"`
	PL       int        `json:"pl"`
	Size     int        `json:"size"`
	W        int        `json:"writers"`
	Mode     string     `json:"mode"`
	Ops      []wop      `json:"ops"`
	RP       int        `json:"read_part_size"`
	WP       int        `json:"write_part_size"`
	Fault    *faultSpec `json:"fault,omitempty"`
	blobSeed int64
}

type record struct {
	Op       wop    `json:"op"`
	Writer   int    `json:"w"`
	Call     int64  `json:"call"`
	Ret      int64  `json:"ret"`
	Res      string `json:"res"`
	nilRes   bool
	errCompl bool
	panicked bool
	faulted  bool // the injected store fault fired inside this call
}

var pls = []int{1, 2, 3, 7, 16, 64, 100, 512}

func genHistory(r *rand.Rand, i int) *history {
	h := &history{W: []int{1, 2, 4, 8}[i%4], blobSeed: r.Int63()}
	switch x := r.Intn(20); {
	case x == 0:
		h.N = 0
	case x < 3:
		h.N = 1
	case x < 6:
		h.N = 2
	default:
		h.N = 2 + r.Intn(31)
	}
	if r.Intn(3) == 0 {
		h.PL = 1 + r.Intn(512)
	} else {
		h.PL = pls[r.Intn(len(pls))]
	}
	// store configuration: read/write part sizes (0 = unlimited)
	parts := []int{0, 0, 100, 4096, 40000}
	h.RP, h.WP = parts[r.Intn(len(parts))], parts[r.Intn(len(parts))]
	if r.Intn(20) == 0 {
		// few large pieces: io.Copy hands them to the store in 32 KiB writes
		h.N = 1 + r.Intn(4)
		h.PL = 32<<10 + 1 + r.Intn(68<<10)
		if r.Intn(4) != 0 {
			h.WP = parts[3+r.Intn(2)]
			h.RP = parts[3+r.Intn(2)]
		}
		if h.WP == 100 {
			h.WP = 4096 // 100-byte parts on 100 KiB pieces only cost syscalls
		}
		if h.RP == 100 {
			h.RP = 4096
		}
	}
	if h.N > 0 {
		last := 1 + r.Intn(h.PL)
		if r.Intn(3) == 0 {
			last = h.PL
		}
		h.Size = (h.N-1)*h.PL + last
	}
	m := r.Intn(100)
	switch {
	case m < 60:
		h.Mode = "complete"
	case m < 85:
		h.Mode = "incomplete"
	default:
		h.Mode = "hotspot"
	}
	bad := func(p int) wop {
		kinds := []string{"corrupt", "corrupt", "other", "short", "long", "empty", "ioerr", "idx-n", "idx-big", "idx-neg"}
		k := kinds[r.Intn(len(kinds))]
		return wop{Kind: k, Piece: p, Arg: r.Intn(1 << 20)}
	}
	if h.N == 0 {
		for j := 0; j < 4; j++ {
			h.Ops = append(h.Ops, bad(0))
		}
		h.Ops = append(h.Ops, wop{Kind: "correct", Piece: 0})
		return h
	}
	if h.Mode == "hotspot" {
		p := r.Intn(h.N)
		for j := 4 + r.Intn(12); j > 0; j-- {
			h.Ops = append(h.Ops, wop{Kind: "correct", Piece: p})
		}
		for j := 4 + r.Intn(12); j > 0; j-- {
			k := []string{"corrupt", "other", "ioerr"}[r.Intn(3)]
			h.Ops = append(h.Ops, wop{Kind: k, Piece: p, Arg: r.Intn(1 << 20)})
		}
		for q := 0; q < h.N; q++ {
			if q != p && r.Intn(2) == 0 {
				h.Ops = append(h.Ops, wop{Kind: "correct", Piece: q})
			}
		}
	} else {
		skipped := map[int]bool{}
		if h.Mode == "incomplete" {
			for j := 1 + r.Intn(3); j > 0; j-- {
				skipped[r.Intn(h.N)] = true
			}
		}
		for p := 0; p < h.N; p++ {
			if skipped[p] {
				continue
			}
			c := 1
			if r.Intn(3) == 0 {
				c = 2 + r.Intn(2)
			}
			for ; c > 0; c-- {
				h.Ops = append(h.Ops, wop{Kind: "correct", Piece: p})
			}
		}
		for j := 1 + r.Intn(2*h.N+2); j > 0; j-- {
			h.Ops = append(h.Ops, bad(r.Intn(h.N)))
		}
	}
	r.Shuffle(len(h.Ops), func(a, b int) { h.Ops[a], h.Ops[b] = h.Ops[b], h.Ops[a] })
	if r.Intn(5) == 0 {
		h.Fault = &faultSpec{Op: []string{"close", "close", "write", "write-partial", "seek"}[r.Intn(5)], Piece: r.Intn(h.N)}
	}
	return h
}

// failingReader has the right Length but fails after `after` bytes.
type failingReader struct {
	data  []byte
	after int
	pos   int
}

var errScripted = errors.New("scripted piece reader failure")

func (f *failingReader) Read(p []byte) (int, error) {
	if f.pos >= f.after {
		return 0, errScripted
	}
	n := copy(p, f.data[f.pos:f.after])
	f.pos += n
	return n, nil
}
func (f *failingReader) Close() error { return nil }
func (f *failingReader) Length() int  { return len(f.data) }

type fakeMetaInfoClient struct {
	mu sync.Mutex
	m  map[core.Digest]*core.MetaInfo
}

func (c *fakeMetaInfoClient) Download(ns string, d core.Digest) (*core.MetaInfo, error) {
	c.mu.Lock()
	defer c.mu.Unlock()
	mi, ok := c.m[d]
	if !ok {
		return nil, metainfoclient.ErrNotFound
	}
	return mi, nil
}

type env struct {
	cads    *store.CADownloadStore
	archive *agentstorage.TorrentArchive
	mic     *fakeMetaInfoClient
}

func newEnv(t testing.TB, root string, rp, wp int) *env {
	dir, err := os.MkdirTemp(root, "s")
	if err != nil {
		t.Fatalf("mkdir: %v", err)
	}
	cads, err := store.NewCADownloadStore(store.CADownloadStoreConfig{
		DownloadDir:     filepath.Join(dir, "download"),
		CacheDir:        filepath.Join(dir, "cache"),
		DownloadCleanup: store.CleanupConfig{Disabled: true},
		CacheCleanup:    store.CleanupConfig{Disabled: true},
		ReadPartSize:    rp,
		WritePartSize:   wp,
	}, tally.NoopScope)
	if err != nil {
		t.Fatalf("cads: %v", err)
	}
	mic := &fakeMetaInfoClient{m: map[core.Digest]*core.MetaInfo{}}
	return &env{cads: cads, mic: mic, archive: agentstorage.NewTorrentArchive(tally.NoopScope, cads, mic)}
}

var errInjected = errors.New("injected store I/O error")

// faultStore wraps the download store handed to agentstorage.NewTorrent: the
// file handle of the first armed write that seeks to the fault piece fails
// once in Seek, Write (nothing or half written) or Close (after the real
// close). Everything else passes through to the real store.
type faultStore struct {
	*store.CADownloadStore
	spec    faultSpec
	pl      int
	stamp   *atomic.Int64
	armed   atomic.Bool
	fired   atomic.Bool
	firedAt atomic.Int64
}

func (s *faultStore) GetDownloadFileReadWriter(name string) (store.FileReadWriter, error) {
	f, err := s.CADownloadStore.GetDownloadFileReadWriter(name)
	if err != nil {
		return nil, err
	}
	return &faultFile{FileReadWriter: f, s: s}, nil
}

type faultFile struct {
	store.FileReadWriter
	s     *faultStore
	hit   bool
	wrote bool
}

func (f *faultFile) Seek(off int64, whence int) (int64, error) {
	s := f.s
	if whence == io.SeekStart && off == int64(s.spec.Piece)*int64(s.pl) && s.armed.Load() && s.fired.CompareAndSwap(false, true) {
		f.hit = true
		s.firedAt.Store(s.stamp.Add(1))
		if s.spec.Op == "seek" {
			return 0, errInjected
		}
	}
	return f.FileReadWriter.Seek(off, whence)
}

func (f *faultFile) Write(p []byte) (int, error) {
	if f.hit && !f.wrote {
		f.wrote = true
		switch f.s.spec.Op {
		case "write":
			return 0, errInjected
		case "write-partial":
			n, _ := f.FileReadWriter.Write(p[:len(p)/2])
			return n, errInjected
		}
	}
	return f.FileReadWriter.Write(p)
}

func (f *faultFile) Close() error {
	err := f.FileReadWriter.Close()
	if f.hit && f.s.spec.Op == "close" {
		return errInjected
	}
	return err
}

// pieceOf returns the blob's piece p.
func pieceOf(blob []byte, pl, p int) []byte {
	lo := p * pl
	hi := lo + pl
	if hi > len(blob) {
		hi = len(blob)
	}
	return blob[lo:hi]
}

// payload builds the PieceReader and target index of op. valid reports
// whether index and length are acceptable (such a write can hold the piece).
func payload(h *history, blob []byte, op wop) (src storage.PieceReader, idx int, valid bool) {
	idx = op.Piece
	var want []byte
	if h.N > 0 && op.Piece < h.N {
		want = pieceOf(blob, h.PL, op.Piece)
	}
	r := rand.New(rand.NewSource(int64(op.Arg)))
	switch op.Kind {
	case "correct":
		return piecereader.NewBuffer(append([]byte{}, want...)), idx, h.N > 0
	case "corrupt":
		b := append([]byte{}, want...)
		if len(b) == 0 {
			return piecereader.NewBuffer([]byte{0x55}), idx, false
		}
		b[r.Intn(len(b))] ^= byte(1 + r.Intn(255))
		return piecereader.NewBuffer(b), idx, true
	case "other": // the content of another piece, cut/padded to this piece's length
		b := make([]byte, len(want))
		if h.N > 1 {
			q := (op.Piece + 1 + r.Intn(h.N-1)) % h.N
			copy(b, pieceOf(blob, h.PL, q))
		}
		if bytes.Equal(b, want) {
			if len(b) == 0 {
				return piecereader.NewBuffer([]byte{1}), idx, false
			}
			b[0] ^= 0xff
		}
		return piecereader.NewBuffer(b), idx, true
	case "short":
		if len(want) == 0 {
			return piecereader.NewBuffer([]byte{1, 2}), idx, false
		}
		return piecereader.NewBuffer(append([]byte{}, want[:r.Intn(len(want))]...)), idx, false
	case "empty":
		if len(want) == 0 {
			return piecereader.NewBuffer([]byte{9}), idx, false
		}
		return piecereader.NewBuffer(nil), idx, false
	case "long":
		b := append(append([]byte{}, want...), gen.Bytes(r, 1+r.Intn(h.PL+3))...)
		return piecereader.NewBuffer(b), idx, false
	case "ioerr":
		if len(want) == 0 {
			return piecereader.NewBuffer([]byte{7}), idx, false
		}
		return &failingReader{data: append([]byte{}, want...), after: r.Intn(len(want))}, idx, true
	case "idx-n":
		return piecereader.NewBuffer(gen.Bytes(r, h.PL)), h.N, false
	case "idx-big":
		return piecereader.NewBuffer(gen.Bytes(r, h.PL)), h.N + 1 + r.Intn(1000), false
	case "idx-neg":
		return piecereader.NewBuffer(gen.Bytes(r, h.PL)), -1 - r.Intn(3), false
	}
	panic("unknown kind " + op.Kind)
}

func classify(err error) string {
	switch {
	case err == nil:
		return "nil"
	case err == storage.ErrPieceComplete:
		return "complete"
	}
	s := err.Error()
	switch {
	case strings.Contains(s, "already being written"):
		return "conflict"
	case strings.Contains(s, "invalid piece length"):
		return "invalid-length"
	case strings.Contains(s, "invalid piece index"):
		return "invalid-index"
	case strings.Contains(s, "invalid piece sum"):
		return "invalid-sum"
	case strings.Contains(s, errScripted.Error()):
		return "reader-error"
	}
	return "other:" + s
}

type monitor struct {
	run    *ev.Run
	caseID string
	h      *history
	blob   []byte
	d      core.Digest
	env    *env

	stamp         atomic.Int64
	correctCalled []atomic.Bool
	accepted      []atomic.Bool // a correct write of i returned nil
	acceptedCount atomic.Int64

	fs     *faultStore                     // nil: no fault in this history
	reopen func() (storage.Torrent, error) // a fresh Torrent instance on the same files

	mu       sync.Mutex
	recs     []record
	violated bool
}

func (m *monitor) violation(sig string, detail interface{}) {
	m.mu.Lock()
	m.violated = true
	recs := append([]record{}, m.recs...)
	m.mu.Unlock()
	if len(recs) > 400 {
		recs = recs[:400]
	}
	m.run.Violation(sig, m.caseID, map[string]interface{}{
		"layout":  map[string]int{"pieces": m.h.N, "pl": m.h.PL, "size": m.h.Size, "writers": m.h.W},
		"mode":    m.h.Mode,
		"ops":     m.h.Ops,
		"records": recs,
		"detail":  detail,
	})
}

// write executes one op against t and records it.
func (m *monitor) write(t storage.Torrent, writer int, op wop) (rec record) {
	src, idx, _ := payload(m.h, m.blob, op)
	rec = record{Op: op, Writer: writer}
	if op.Kind == "correct" && m.h.N > 0 {
		m.correctCalled[idx].Store(true)
	}
	arm := m.fs != nil && op.Kind == "correct" && idx == m.fs.spec.Piece && !m.fs.fired.Load()
	if arm {
		m.fs.armed.Store(true)
	}
	rec.Call = m.stamp.Add(1)
	func() {
		defer func() {
			if p := recover(); p != nil {
				rec.panicked = true
				rec.Res = fmt.Sprintf("PANIC: %v", p)
			}
		}()
		err := t.WritePiece(src, idx)
		rec.Res = classify(err)
		rec.nilRes = err == nil
		rec.errCompl = err == storage.ErrPieceComplete
	}()
	if rec.nilRes && op.Kind == "correct" && m.h.N > 0 {
		if !m.accepted[idx].Swap(true) {
			m.acceptedCount.Add(1)
		}
	}
	rec.Ret = m.stamp.Add(1)
	if arm {
		m.fs.armed.Store(false)
	}
	if m.fs != nil && idx == m.fs.spec.Piece && m.fs.fired.Load() {
		// only the call that held the piece can have used the failing handle
		if at := m.fs.firedAt.Load(); at > rec.Call && at < rec.Ret && rec.Res != "conflict" && !rec.errCompl &&
			rec.Res != "invalid-length" && rec.Res != "invalid-index" {
			rec.faulted = true
			m.run.Count("fault_fired_"+m.fs.spec.Op+"_result_"+strings.SplitN(rec.Res, ":", 2)[0], 1)
		}
	}
	m.mu.Lock()
	m.recs = append(m.recs, rec)
	m.mu.Unlock()
	m.run.Count("write_"+op.Kind+"_"+strings.SplitN(rec.Res, ":", 2)[0], 1)
	return rec
}

// numCorrectCalled = pieces for which a correct write has been called.
func (m *monitor) numCorrectCalled() (n int64) {
	for i := range m.correctCalled {
		if m.correctCalled[i].Load() {
			n++
		}
	}
	return n
}

func minI64(a, b int64) int64 {
	if a < b {
		return a
	}
	return b
}

// observe samples the read side once. quiescent = no writer is running.
func (m *monitor) observe(t storage.Torrent, r *rand.Rand) {
	h := m.h
	// lower bounds are read before, upper bounds after the observation
	accBefore := make([]bool, h.N)
	for i := range accBefore {
		accBefore[i] = m.accepted[i].Load()
	}
	lo := m.acceptedCount.Load()

	switch r.Intn(6) {
	case 0:
		bf := t.Bitfield()
		for i := 0; i < h.N; i++ {
			set := bf.Test(uint(i))
			if set && !m.correctCalled[i].Load() {
				m.violation("observer/bit-set-without-correct-write", map[string]int{"piece": i})
			}
			if !set && accBefore[i] {
				m.violation("observer/bit-cleared-after-accepted-write", map[string]int{"piece": i})
			}
		}
		if bf.Len() != uint(h.N) {
			m.violation("observer/bitfield-length", map[string]uint{"len": bf.Len()})
		}
		m.run.Count("obs_bitfield", 1)
	case 1:
		if t.Complete() {
			m.checkCommitted("observer")
			for i := 0; i < h.N; i++ {
				if !m.correctCalled[i].Load() {
					m.violation("observer/complete-before-every-piece-was-written", map[string]int{"piece": i})
					break
				}
			}
			m.run.Count("obs_complete_true", 1)
		} else {
			m.run.Count("obs_complete_false", 1)
		}
	case 2:
		bd := t.BytesDownloaded()
		hi := m.numCorrectCalled()
		L := int64(h.Size)
		if bd < minI64(lo*int64(h.PL), L) || bd > minI64(hi*int64(h.PL), L) {
			m.violation("observer/progress-outside-verified-pieces", map[string]int64{"bytes_downloaded": bd, "accepted_before": lo, "correct_called_after": hi})
		}
		m.run.Count("obs_bytes_downloaded", 1)
	case 3:
		if h.N == 0 {
			return
		}
		i := r.Intn(h.N)
		has := t.HasPiece(i)
		if has && !m.correctCalled[i].Load() {
			m.violation("observer/haspiece-without-correct-write", map[string]int{"piece": i})
		}
		if !has && accBefore[i] {
			m.violation("observer/haspiece-false-after-accepted-write", map[string]int{"piece": i})
		}
		if t.HasPiece(h.N) {
			m.violation("observer/haspiece-true-for-index-n", nil)
		}
		m.run.Count("obs_haspiece", 1)
	case 4:
		missing := map[int]bool{}
		for _, i := range t.MissingPieces() {
			missing[i] = true
		}
		for i := 0; i < h.N; i++ {
			if !missing[i] && !m.correctCalled[i].Load() {
				m.violation("observer/not-missing-without-correct-write", map[string]int{"piece": i})
			}
			if missing[i] && accBefore[i] {
				m.violation("observer/missing-after-accepted-write", map[string]int{"piece": i})
			}
		}
		m.run.Count("obs_missing", 1)
	case 5:
		if h.N == 0 {
			return
		}
		i := r.Intn(h.N)
		pr, err := t.GetPieceReader(i)
		if err != nil {
			if accBefore[i] {
				m.violation("observer/piece-reader-refused-for-accepted-piece", map[string]interface{}{"piece": i, "err": err.Error()})
			}
			return
		}
		if !m.correctCalled[i].Load() {
			m.violation("observer/piece-reader-without-correct-write", map[string]int{"piece": i})
		}
		b, rerr := io.ReadAll(pr)
		pr.Close()
		if rerr != nil {
			m.run.Count("obs_piece_read_error", 1) // not a statement clause; counted only
			return
		}
		if !bytes.Equal(b, pieceOf(m.blob, h.PL, i)) || pr.Length() != len(b) {
			m.violation("observer/complete-piece-reads-wrong-bytes", map[string]interface{}{"piece": i, "got_len": len(b)})
		}
		m.run.Count("obs_piece_read_ok", 1)
	}
}

// checkCommitted: Complete() was observed: cache file = blob, download file gone.
func (m *monitor) checkCommitted(where string) {
	f, err := m.env.cads.Cache().GetFileReader(m.d.Hex())
	if err != nil {
		m.violation(where+"/complete-but-no-cache-file", err.Error())
		return
	}
	b, rerr := io.ReadAll(f)
	f.Close()
	if rerr != nil {
		m.violation(where+"/complete-but-cache-file-unreadable", rerr.Error())
		return
	}
	if !bytes.Equal(b, m.blob) {
		diff := -1
		for i := range b {
			if i >= len(m.blob) || b[i] != m.blob[i] {
				diff = i
				break
			}
		}
		m.violation(where+"/committed-file-differs-from-blob", map[string]int{"len": len(b), "want_len": len(m.blob), "first_diff": diff})
	}
	if _, err := m.env.cads.Download().GetFileStat(m.d.Hex()); err == nil {
		m.violation(where+"/complete-but-download-file-still-present", nil)
	}
}

// quiescent checks the state when no writer runs: (v) and (vi).
func (m *monitor) quiescent(t storage.Torrent, phase string) storage.Torrent {
	h := m.h
	bf := t.Bitfield()
	all := true
	var k int64
	for i := 0; i < h.N; i++ {
		acc := m.accepted[i].Load()
		if acc {
			k++
		} else {
			all = false
		}
		if bf.Test(uint(i)) != acc {
			sig := "quiescent/bit-set-without-accepted-write"
			if acc {
				sig = "quiescent/bit-clear-for-accepted-write"
			}
			m.violation(sig, map[string]interface{}{"piece": i, "phase": phase})
			break
		}
	}
	if t.Complete() != all {
		if all {
			m.violation("quiescent/not-complete-after-every-piece-accepted", map[string]string{"phase": phase})
		} else {
			m.violation("quiescent/complete-with-unverified-pieces", map[string]string{"phase": phase})
		}
	}
	if bd, want := t.BytesDownloaded(), minI64(k*int64(h.PL), int64(h.Size)); bd != want {
		m.violation("quiescent/progress-differs-from-verified-pieces", map[string]int64{"bytes_downloaded": bd, "want": want})
	}
	if t.Complete() {
		m.checkCommitted("quiescent")
	} else {
		if _, err := m.env.cads.Cache().GetFileStat(m.d.Hex()); err == nil {
			m.violation("quiescent/cache-file-present-while-incomplete", map[string]string{"phase": phase})
		}
	}
	// (vi) re-open: Stat and GetTorrent see the same bitfield
	info, err := m.env.archive.Stat("ns", m.d)
	if err != nil {
		m.violation("reopen/stat-error", err.Error())
	} else if !info.Bitfield().Equal(bf) {
		m.violation("reopen/stat-bitfield-differs", map[string]string{"live": bf.String(), "stat": info.Bitfield().String()})
	}
	t2, err := m.reopen()
	if err != nil {
		m.violation("reopen/gettorrent-error", err.Error())
		return t
	}
	if !t2.Bitfield().Equal(bf) || t2.Complete() != t.Complete() || t2.BytesDownloaded() != t.BytesDownloaded() {
		m.violation("reopen/reopened-torrent-differs", map[string]interface{}{
			"live": bf.String(), "reopened": t2.Bitfield().String(), "live_complete": t.Complete(), "reopened_complete": t2.Complete()})
	}
	m.run.Count("reopen_checks", 1)
	return t2 // the old instance is dropped: one instance per file at a time
}

// checkRecords judges the recorded write history: (i) and (ii).
func (m *monitor) checkRecords() (rejectedBad, dupOrConflict int) {
	h := m.h
	m.mu.Lock()
	recs := append([]record{}, m.recs...)
	m.mu.Unlock()
	byPiece := map[int][]record{}
	for _, rc := range recs {
		if rc.panicked {
			cls := "valid-index"
			switch rc.Op.Kind {
			case "idx-neg":
				cls = "negative-index"
			case "idx-n", "idx-big":
				cls = "index-out-of-range"
			}
			m.violation("writepiece-panics/"+cls, map[string]interface{}{"op": rc.Op, "panic": rc.Res})
			continue
		}
		if rc.Op.Kind != "correct" || h.N == 0 {
			if rc.nilRes {
				m.violation("bad-payload-accepted/"+rc.Op.Kind, rc)
			} else {
				rejectedBad++
			}
		}
		_, idx, valid := payload(h, m.blob, rc.Op)
		if valid {
			byPiece[idx] = append(byPiece[idx], rc)
		}
	}
	for p, rs := range byPiece {
		var nils []record
		for _, rc := range rs {
			if rc.nilRes {
				nils = append(nils, rc)
			}
		}
		if len(nils) > 1 {
			m.violation("piece-accepted-more-than-once", map[string]interface{}{"piece": p, "accepted": nils})
		}
		for _, rc := range rs {
			if rc.Op.Kind != "correct" || rc.nilRes {
				// a write called after the piece was accepted must be refused as complete
				if len(nils) > 0 && !rc.nilRes && rc.Call > nils[0].Ret && !rc.errCompl {
					m.violation("write-after-accept-not-refused-as-complete/"+rc.Op.Kind, map[string]interface{}{"piece": p, "rec": rc})
				}
				continue
			}
			if rc.faulted {
				// the store failed under this write: refusing it is legal, what
				// must hold is that the piece then counts as not written
				m.run.Count("correct_write_refused_after_injected_fault", 1)
				continue
			}
			dupOrConflict++
			// correct write refused: legal only as "complete" (an accepted
			// write exists that was called before this one returned) or
			// because another write holding the piece overlapped it.
			if rc.errCompl {
				ok := false
				for _, n := range nils {
					if n.Call < rc.Ret {
						ok = true
					}
				}
				if !ok {
					m.violation("correct-write-refused-as-complete-without-accepted-write", map[string]interface{}{"piece": p, "rec": rc})
				}
				continue
			}
			overl := false
			for _, o := range rs {
				if o.Call != rc.Call && o.Call < rc.Ret && o.Ret > rc.Call {
					overl = true
				}
			}
			if !overl {
				m.violation("correct-write-refused-without-competing-write", map[string]interface{}{"piece": p, "rec": rc})
			}
		}
	}
	return
}

func runHistory(t *testing.T, run *ev.Run, envs map[[2]int]*env, root, caseID string, i int) {
	r := run.Rand(caseID)
	h := genHistory(r, i)
	e := envs[[2]int{h.RP, h.WP}]
	if e == nil {
		e = newEnv(t, root, h.RP, h.WP)
		envs[[2]int{h.RP, h.WP}] = e
	}
	blob := gen.Bytes(rand.New(rand.NewSource(h.blobSeed)), h.Size)
	d, err := core.NewDigester().FromBytes(blob)
	if err != nil {
		t.Fatalf("digest: %v", err)
	}
	mi, err := core.NewMetaInfo(d, bytes.NewReader(blob), int64(h.PL))
	if err != nil {
		t.Fatalf("metainfo: %v", err)
	}
	e.mic.mu.Lock()
	e.mic.m[d] = mi
	e.mic.mu.Unlock()
	_ = e.archive.DeleteTorrent(d) // the empty blob repeats its digest
	tor, err := e.archive.CreateTorrent("ns", d)
	if err != nil {
		run.Violation("create-torrent-error", caseID, map[string]interface{}{"history": h, "err": err.Error()})
		return
	}
	m := &monitor{run: run, caseID: caseID, h: h, blob: blob, d: d, env: e,
		correctCalled: make([]atomic.Bool, h.N), accepted: make([]atomic.Bool, h.N)}
	m.reopen = func() (storage.Torrent, error) { return e.archive.GetTorrent("ns", d) }
	if h.Fault != nil && h.N > 0 {
		// the archive has created the files; the instance under test is built
		// on the fault-injecting store (the archive's own instance is dropped
		// unused: one instance per file at a time)
		m.fs = &faultStore{CADownloadStore: e.cads, spec: *h.Fault, pl: h.PL, stamp: &m.stamp}
		m.reopen = func() (storage.Torrent, error) { return agentstorage.NewTorrent(m.fs, mi) }
		ft, err := m.reopen()
		if err != nil {
			run.Violation("create-torrent-error", caseID, map[string]interface{}{"history": h, "err": err.Error()})
			return
		}
		tor = ft
		run.Count("histories_with_injected_fault_"+h.Fault.Op, 1)
	}
	if h.PL > 32<<10 {
		run.Count("histories_with_pieces_over_32KiB", 1)
	}
	run.Count(fmt.Sprintf("store_write_part_size_%d", h.WP), 1)

	// concurrent phase
	var next atomic.Int64
	start := make(chan struct{})
	stopObs := make(chan struct{})
	var wg, owg sync.WaitGroup
	for w := 0; w < h.W; w++ {
		wg.Add(1)
		go func(w int) {
			defer wg.Done()
			<-start
			for {
				j := int(next.Add(1)) - 1
				if j >= len(h.Ops) {
					return
				}
				m.write(tor, w, h.Ops[j])
			}
		}(w)
	}
	obsSeed := r.Int63()
	owg.Add(1)
	go func() {
		defer owg.Done()
		or := rand.New(rand.NewSource(obsSeed))
		<-start
		for n := 0; ; n++ {
			select {
			case <-stopObs:
				return
			default:
			}
			m.observe(tor, or)
		}
	}()
	close(start)
	wg.Wait()
	close(stopObs)
	owg.Wait()

	tor = m.quiescent(tor, "after-writers")
	or := rand.New(rand.NewSource(obsSeed + 1))
	for n := 0; n < 6; n++ {
		m.observe(tor, or)
	}

	// repair phase: every piece still missing gets one correct write; each
	// must be accepted (nothing competes). Then everything is refused.
	if h.N > 0 {
		for _, p := range r.Perm(h.N) {
			if m.accepted[p].Load() {
				continue
			}
			if r.Intn(4) == 0 { // a last corrupt attempt first
				m.write(tor, -1, wop{Kind: "corrupt", Piece: p, Arg: r.Intn(1 << 20)})
			}
			rec := m.write(tor, -1, wop{Kind: "correct", Piece: p})
			if rec.faulted && !rec.nilRes {
				rec = m.write(tor, -1, wop{Kind: "correct", Piece: p}) // the fault fires once
			}
			if !rec.nilRes && !rec.panicked {
				m.violation("repair/correct-write-on-missing-piece-refused", rec)
			}
			if r.Intn(8) == 0 {
				m.observe(tor, or)
			}
		}
		tor = m.quiescent(tor, "after-repair")
		for n := 0; n < 8; n++ {
			p := r.Intn(h.N)
			k := []string{"correct", "corrupt", "other", "ioerr"}[r.Intn(4)]
			rec := m.write(tor, -1, wop{Kind: k, Piece: p, Arg: r.Intn(1 << 20)})
			if len(pieceOf(blob, h.PL, p)) > 0 && !rec.errCompl {
				m.violation("final/write-on-complete-torrent-not-refused-as-complete/"+k, rec)
			}
			m.write(tor, -1, wop{Kind: []string{"short", "long", "idx-n", "idx-big"}[r.Intn(4)], Piece: p, Arg: r.Intn(1 << 20)})
		}
		m.checkCommitted("final")
		for n := 0; n < 6; n++ {
			m.observe(tor, or)
		}
	} else {
		if !tor.Complete() {
			m.violation("empty-blob-not-complete", nil)
		}
	}
	rejectedBad, dupOrConflict := m.checkRecords()

	// evidence
	var sig []string
	m.mu.Lock()
	sort.Slice(m.recs, func(a, b int) bool { return m.recs[a].Ret < m.recs[b].Ret })
	for _, rc := range m.recs {
		if rc.Writer >= 0 {
			sig = append(sig, fmt.Sprintf("%d%s", rc.Writer, rc.Res[:1]))
		}
	}
	m.mu.Unlock()
	if h.W > 1 {
		run.Distinct("return_orders", fmt.Sprintf("%d|%s", i, strings.Join(sig, "")))
	}
	run.Case(ev.JSON(h), h.N >= 2 && rejectedBad > 0 && dupOrConflict > 0)
	if i%97 == 0 && run.WantSample() {
		ops := h.Ops
		if len(ops) > 12 {
			ops = ops[:12]
		}
		run.Sample(map[string]interface{}{"pieces": h.N, "pl": h.PL, "size": h.Size, "writers": h.W, "mode": h.Mode, "first_ops": ops})
	}
	_ = e.archive.DeleteTorrent(d)
}

func TestC03(t *testing.T) {
	run := ev.Start(t, "C03", "exploration", rule)
	defer run.Finish()
	run.Assume("the metainfo handed to the agent is the blob's real metainfo (computed by core.NewMetaInfo; C02 judges that); the metainfo client is a fake at the outer boundary")
	run.Assume("piece readers report their true length (piecereader.Buffer, as the p2p layer hands them over); a reader may fail mid-stream")
	run.Assume("one Torrent instance per file at a time (documented precondition); re-opening happens at quiescence only")

	n := run.N(500, 12000)
	root := ev.TempDir(t, "c03-")
	workers := 8
	idx := make(chan int, n)
	for i := 0; i < n; i++ {
		idx <- i
	}
	close(idx)
	var wg sync.WaitGroup
	watchdog := time.AfterFunc(time.Duration(run.N(8, 60))*time.Minute, func() {
		run.Inconclusive("C03 watchdog fired")
	})
	defer watchdog.Stop()
	for w := 0; w < workers; w++ {
		wg.Add(1)
		go func() {
			defer wg.Done()
			envs := map[[2]int]*env{} // one store per (read, write) part size
			closeAll := func() {
				for k, e := range envs {
					e.cads.Close()
					delete(envs, k)
				}
			}
			cnt := 0
			for i := range idx {
				caseID := fmt.Sprintf("h/%d", i)
				if rc := run.ReplayCase(); rc != "" && rc != caseID {
					continue
				}
				if cnt++; cnt%200 == 0 {
					closeAll()
				}
				runHistory(t, run, envs, root, caseID, i)
			}
			closeAll()
		}()
	}
	wg.Wait()
}
