// C04: an agent crash at any point never yields a wrong cached blob.
//
// Crash-prefix engine (DESIGN.md 2.4): a child built from /repo downloads a blob
// through agentstorage.TorrentArchive over a real CADownloadStore (CreateTorrent,
// pieces in PRNG order with corrupt attempts, commit, optional clean restart in
// the middle) on one locked OS thread under strace; every prefix of the recorded
// file-system mutations is materialised, a fresh CADownloadStore + TorrentArchive
// is started on a copy of it and judged: whatever it reports complete / serves
// must equal the blob, and the download must be restartable to completion.
package c04

import (
	"bytes"
	"encoding/json"
	"fmt"
	"math/rand"
	"os"
	"os/exec"
	"path/filepath"
	"regexp"
	"strings"
	"sync"
	"testing"
	"time"

	"verif/harness/c04/c04wl"
	"verif/harness/internal/ev"
	"verif/harness/internal/fsrec"
	"verif/harness/internal/gen"
)

type workload struct {
	idx   int
	spec  c04wl.Spec
	class string
}

func numPieces(spec c04wl.Spec) int {
	if len(spec.Blob) == 0 {
		return 0
	}
	return int((int64(len(spec.Blob)) + spec.PieceLength - 1) / spec.PieceLength)
}

func pieceOf(blob []byte, pl int64, i int) []byte {
	start := int64(i) * pl
	end := start + pl
	if start > int64(len(blob)) {
		return nil
	}
	if end > int64(len(blob)) {
		end = int64(len(blob))
	}
	return blob[start:end]
}

func genSpec(r *rand.Rand, i int) (c04wl.Spec, string) {
	var n int
	var pl int64
	class := ""
	zero := func(b []byte, from, to int) {
		for j := from; j < to && j < len(b); j++ {
			b[j] = 0
		}
	}
	switch i % 8 {
	case 6:
		// long run of zero bytes at the end: two all-zero pieces and a zero short last piece
		pl = int64(4 + r.Intn(5))
		n, class = int(pl)*4+int(pl)/2, "zero-tail"
	case 7:
		// all-zero pieces at the start and in the middle (one variant: the whole blob is zeros)
		pl = int64(4 + r.Intn(5))
		n, class = int(pl)*5, "zero-pieces-mid-restart"
	}
	switch i % 8 {
	case 6, 7:
	case 0:
		n, pl, class = 31, 7, "5-pieces-last-short"
	case 1:
		n, pl, class = 5, 8, "1-piece"
	case 2:
		n, pl, class = 24, 8, "exact-multiple"
	case 3:
		n, pl, class = 0, 4, "empty-blob"
	case 4:
		pl = int64(3 + r.Intn(6))
		n, class = int(pl)*(2+r.Intn(3))+1+r.Intn(int(pl)-1), "random-mid-restart"
	default:
		pl = int64(2 + r.Intn(9))
		n, class = 1+r.Intn(40), "random-mid-restart"
	}
	spec := c04wl.Spec{Blob: gen.Bytes(r, n), PieceLength: pl}
	switch class {
	case "zero-tail":
		zero(spec.Blob, int(pl)*2, n)
	case "zero-pieces-mid-restart":
		zero(spec.Blob, 0, int(pl))
		zero(spec.Blob, int(pl)*2, int(pl)*3+2)
		if i%16 == 15 {
			zero(spec.Blob, 0, n)
		}
	}
	np := numPieces(spec)
	order := r.Perm(np)
	steps := []c04wl.Step{{Op: "create"}}
	restartAt := -1
	if strings.Contains(class, "restart") && np > 0 {
		restartAt = r.Intn(np)
	}
	for j, p := range order {
		if j == restartAt {
			steps = append(steps, c04wl.Step{Op: "restart"}, c04wl.Step{Op: "create"})
		}
		if r.Intn(4) == 0 {
			steps = append(steps, c04wl.Step{Op: "piece", Piece: p, Corrupt: true})
		}
		steps = append(steps, c04wl.Step{Op: "piece", Piece: p})
	}
	if strings.Contains(class, "restart") && r.Intn(2) == 0 {
		// a restart after the commit: CreateTorrent on a cached blob
		steps = append(steps, c04wl.Step{Op: "restart"}, c04wl.Step{Op: "create"})
	}
	spec.Steps = steps
	return spec, class
}

type finding struct {
	Sig     string
	Case    string
	Witness interface{}
}

type caseRec struct {
	key        string
	nontrivial bool
}

type wlResult struct {
	findings      []finding
	inconclusive  []string
	cases         []caseRec
	prefixes      int
	midOp         int
	syscalls      int
	steps         int
	kills         int
	killsOK       int
	killsSelfOnly int
	fidelityOK    bool
	sample        interface{}
	counts        map[string]int
}

func tail(b []byte, n int) string {
	if len(b) > n {
		b = b[len(b)-n:]
	}
	return string(b)
}

// os.CreateTemp names (only present once sidecars are written via a temporary file)
var tmpRE = regexp.MustCompile(`/\.tmp-[0-9]+`)

func canonTmp(p string) string { return tmpRE.ReplaceAllString(p, "/.tmp-N") }

func isLAT(p string) bool { return strings.HasSuffix(p, "_last_access_time") }

func runWorkload(t *testing.T, bin, base string, w workload, killRand *rand.Rand, nKills, replayK int) (res wlResult) {
	res.counts = map[string]int{}
	dir := filepath.Join(base, fmt.Sprintf("w%d", w.idx))
	_ = os.MkdirAll(dir, 0o755)
	defer os.RemoveAll(dir)
	specPath := filepath.Join(dir, "spec.json")
	sb, _ := json.Marshal(w.spec)
	if err := os.WriteFile(specPath, sb, 0o644); err != nil {
		res.inconclusive = append(res.inconclusive, err.Error())
		return
	}
	root := filepath.Join(dir, "root")
	logPath := filepath.Join(dir, "strace.log")
	t0 := time.Now()
	stdout, stderr, err := fsrec.Record([]string{bin, "work", specPath, root}, os.Environ(), logPath, nil, 2*time.Minute)
	if err != nil {
		res.inconclusive = append(res.inconclusive, fmt.Sprintf("workload %d: recording failed: %v: %s", w.idx, err, tail(stderr, 800)))
		return
	}
	rec, err := fsrec.Load(logPath, root, dir)
	if err != nil {
		res.inconclusive = append(res.inconclusive, fmt.Sprintf("workload %d: engine fault: %v", w.idx, err))
		return
	}
	res.fidelityOK = true
	var results []c04wl.StepResult
	dec := json.NewDecoder(bytes.NewReader(stdout))
	for dec.More() {
		var r c04wl.StepResult
		if err := dec.Decode(&r); err != nil {
			res.inconclusive = append(res.inconclusive, fmt.Sprintf("workload %d: bad child output: %v", w.idx, err))
			return
		}
		results = append(results, r)
	}
	if len(results) != len(w.spec.Steps) || len(rec.Spans) != len(w.spec.Steps)+1 {
		res.inconclusive = append(res.inconclusive, fmt.Sprintf("workload %d: %d results / %d spans for %d steps", w.idx, len(results), len(rec.Spans), len(w.spec.Steps)))
		return
	}
	// the uncrashed run itself must behave: corrupt pieces rejected, correct ones accepted, complete at the end
	for i, s := range w.spec.Steps {
		if s.Op == "piece" && s.Corrupt == results[i].OK && len(pieceOf(w.spec.Blob, w.spec.PieceLength, s.Piece)) > 0 {
			res.inconclusive = append(res.inconclusive, fmt.Sprintf("workload %d: step %d (%+v) returned ok=%v err=%q in the uncrashed run (C03's subject, not a crash finding)", w.idx, i, s, results[i].OK, results[i].Err))
			return
		}
	}
	if last := results[len(results)-1]; !last.Complete {
		res.inconclusive = append(res.inconclusive, fmt.Sprintf("workload %d: uncrashed run did not complete the torrent", w.idx))
		return
	}
	res.steps = len(w.spec.Steps)
	ops := rec.Trace.Ops
	res.syscalls = len(ops)
	np := numPieces(w.spec)
	blob := w.spec.Blob
	stepDesc := func(i int) string {
		s := w.spec.Steps[i]
		if s.Op == "piece" {
			if s.Corrupt {
				return fmt.Sprintf("%d:piece %d (corrupt payload)", i, s.Piece)
			}
			return fmt.Sprintf("%d:piece %d", i, s.Piece)
		}
		return fmt.Sprintf("%d:%s", i, s.Op)
	}

	var reqs [][]byte
	var judges []func(fsrec.Reply)
	live, err := fsrec.NewReplayer(filepath.Join(dir, "live"))
	if err != nil {
		res.inconclusive = append(res.inconclusive, err.Error())
		return
	}
	for k := 0; k <= len(ops); k++ {
		if err := live.ApplyTo(ops, k); err != nil {
			res.inconclusive = append(res.inconclusive, fmt.Sprintf("workload %d: engine fault: %v", w.idx, err))
			return
		}
		if replayK >= 0 && k != replayK {
			continue
		}
		k := k
		win := fsrec.WindowOf(rec.Spans, k, len(ops))
		inflightIdx := -1
		wk := "no-op-in-flight"
		if win.InFlight >= 1 {
			inflightIdx = win.InFlight - 1
			s := w.spec.Steps[inflightIdx]
			wk = s.Op + "-in-flight"
			if s.Op == "piece" && s.Corrupt {
				wk = "corrupt-piece-in-flight"
			}
		} else if win.InFlight == 0 {
			wk = "open-in-flight"
		}
		mid := win.InFlight >= 0 && k > rec.Spans[win.InFlight].First
		caseID := fmt.Sprintf("w%d/k%d", w.idx, k)
		res.cases = append(res.cases, caseRec{key: ev.JSON([]interface{}{w.spec, k}), nontrivial: mid})
		res.prefixes++
		if mid {
			res.midOp++
		}
		res.counts["window_"+wk]++
		scratch := filepath.Join(dir, fmt.Sprintf("p%d", k))
		if err := fsrec.CopyTree(live.Dir, scratch); err != nil {
			res.inconclusive = append(res.inconclusive, fmt.Sprintf("workload %d: copy: %v", w.idx, err))
			return
		}
		snap, _ := fsrec.Snapshot(scratch)
		// what the tree holds for the blob before recovery touches it
		var dlDir, caDir string
		for p := range snap {
			if strings.HasSuffix(p, "/data") || strings.HasSuffix(p, "/_status") || strings.HasSuffix(p, "/_torrentmeta") || isLAT(p) {
				d := filepath.Dir(p)
				if strings.HasPrefix(p, "download/") {
					dlDir = d
				} else if strings.HasPrefix(p, "cache/") {
					caDir = d
				}
			}
		}
		has := func(d, f string) (fsrec.Entry, bool) {
			if d == "" {
				return fsrec.Entry{}, false
			}
			e, ok := snap[d+"/"+f]
			return e, ok
		}
		var diskData []byte
		if _, ok := has(dlDir, "data"); ok {
			diskData, _ = os.ReadFile(filepath.Join(scratch, dlDir, "data"))
		} else if _, ok := has(caDir, "data"); ok {
			diskData, _ = os.ReadFile(filepath.Join(scratch, caDir, "data"))
		}
		rb, _ := json.Marshal(c04wl.RecoverReq{Dir: scratch, Blob: blob, PieceLength: w.spec.PieceLength})
		reqs = append(reqs, rb)
		judges = append(judges, func(rep fsrec.Reply) {
			var resp c04wl.RecoverResp
			if !rep.Died {
				if err := json.Unmarshal(rep.Line, &resp); err != nil {
					res.inconclusive = append(res.inconclusive, fmt.Sprintf("workload %d: bad recovery answer: %v", w.idx, err))
					return
				}
			}
			witness := func(extra map[string]interface{}) map[string]interface{} {
				m := map[string]interface{}{
					"workload": w.idx, "class": w.class, "blob_len": len(blob), "piece_length": w.spec.PieceLength, "num_pieces": np,
					"spec": w.spec, "prefix_k": k, "total_ops": len(ops), "tree_before_recovery": fsrec.Listing(snap), "recovery": resp,
				}
				if inflightIdx >= 0 {
					m["in_flight_step"] = stepDesc(inflightIdx)
				}
				if k < len(ops) {
					m["next_syscall_not_executed"] = ops[k].String()
				}
				if k > 0 {
					m["last_syscall_executed"] = ops[k-1].String()
				}
				for a, b := range extra {
					m[a] = b
				}
				return m
			}
			addF := func(sig string, extra map[string]interface{}) {
				res.findings = append(res.findings, finding{Sig: sig, Case: caseID, Witness: witness(extra)})
			}
			if rep.Died {
				addF("recovery-process-died/"+wk, map[string]interface{}{"stderr": rep.Stderr})
				return
			}
			if resp.Panic != "" {
				addF("recovery-panics/"+wk, map[string]interface{}{"panic": resp.Panic})
				return
			}
			if resp.OpenErr != "" {
				addF("store-open-fails/"+wk, nil)
				return
			}
			stE, stOK := has(dlDir, "_status")
			tmE, tmOK := has(dlDir, "_torrentmeta")
			_, dlData := has(dlDir, "data")
			wrongCache := func(c *c04wl.Cache) bool {
				return c != nil && (c.Err != "" || c.Present && !bytes.Equal(c.Bytes, blob))
			}
			// (a) never reported complete / cached unless the bytes equal the blob
			if wrongCache(resp.CacheBefore) {
				addF("cache-file-with-wrong-bytes-after-restart/"+wk, nil)
				return
			}
			if resp.Created && (resp.Complete && (resp.CacheAfter == nil || !resp.CacheAfter.Present) || wrongCache(resp.CacheAfter)) {
				sig := "reports-complete-with-wrong-bytes/" + wk
				if stOK && stE.Size == 0 && np > 0 {
					sig = "empty-status-sidecar-reports-complete"
				}
				addF(sig, map[string]interface{}{"reported_complete": resp.Complete, "reported_num_pieces": resp.NumPieces})
				return
			}
			// (b) every bit reported set is a piece whose bytes on disk are the blob's
			for _, i := range resp.StatBits {
				if !bytes.Equal(pieceOf(diskData, w.spec.PieceLength, i), pieceOf(blob, w.spec.PieceLength, i)) || i >= np {
					addF("stat-reports-piece-complete-with-wrong-bytes/"+wk, map[string]interface{}{"piece": i})
					return
				}
			}
			if resp.Created {
				for _, i := range resp.Bits {
					if e, bad := resp.PieceErrs[i]; bad {
						addF("piece-reported-complete-is-unreadable/"+wk, map[string]interface{}{"piece": i, "error": e})
						return
					}
					if i >= np || !bytes.Equal(resp.Pieces[i], pieceOf(blob, w.spec.PieceLength, i)) {
						addF("piece-reported-complete-with-wrong-bytes/"+wk, map[string]interface{}{"piece": i})
						return
					}
				}
			}
			// (c) restartable
			if !resp.Created {
				sig := "createtorrent-fails-after-restart/" + wk
				switch {
				case dlData && !tmOK:
					sig = "data-file-without-metainfo-sidecar-blocks-createtorrent"
				case dlData && tmOK && tmE.Size == 0:
					sig = "empty-metainfo-sidecar-blocks-createtorrent"
				}
				addF(sig, map[string]interface{}{"createtorrent_errors": resp.CreateErrs})
				return
			}
			if len(resp.WriteErrs) > 0 {
				addF("continued-download-write-fails/"+wk, map[string]interface{}{"write_errors": resp.WriteErrs})
				return
			}
			if !resp.FinalComplete || resp.CacheFinal == nil || !resp.CacheFinal.Present || wrongCache(resp.CacheFinal) {
				addF("continued-download-does-not-complete-correctly/"+wk, nil)
				return
			}
			// epilogue: evict (DeleteTorrent) and download again on the recovered directories
			ep := resp.Epilogue
			staleDir := dlDir != "" && !dlData // a download entry directory without its data file
			epSig := func(what string) string {
				if staleDir {
					return what + "/stale-download-entry-dir"
				}
				return what + "/" + wk
			}
			switch {
			case !ep.Ran:
				addF("evict-and-redownload-not-run/"+wk, nil)
				return
			case ep.DeleteErr != "":
				addF(epSig("redownload-after-eviction-delete-fails"), map[string]interface{}{"error": ep.DeleteErr})
				return
			case ep.CacheAfterDelete != nil && ep.CacheAfterDelete.Present:
				addF(epSig("redownload-after-eviction-blob-still-cached-after-delete"), nil)
				return
			case !ep.Created:
				addF(epSig("redownload-after-eviction-createtorrent-fails"), map[string]interface{}{"createtorrent_errors": ep.CreateErrs})
				return
			case ep.Complete && np > 0 || wrongCache(ep.CacheAfter) || ep.CacheAfter != nil && ep.CacheAfter.Present && np > 0:
				// nothing has been downloaded yet: a non-empty blob cannot be complete / cached
				addF(epSig("redownload-after-eviction-reports-complete-without-download"), map[string]interface{}{"reported_bits": ep.Bits})
				return
			}
			for _, i := range ep.Bits {
				if _, bad := ep.PieceErrs[i]; bad || i >= np || !bytes.Equal(ep.Pieces[i], pieceOf(blob, w.spec.PieceLength, i)) {
					addF(epSig("redownload-after-eviction-piece-reported-complete-with-wrong-bytes"), map[string]interface{}{"piece": i, "reported_bits": ep.Bits})
					return
				}
			}
			if len(ep.WriteErrs) > 0 || !ep.FinalComplete || ep.CacheFinal == nil || !ep.CacheFinal.Present || wrongCache(ep.CacheFinal) {
				addF(epSig("redownload-after-eviction-does-not-complete-correctly"), map[string]interface{}{"write_errors": ep.WriteErrs})
				return
			}
			res.counts["evict_and_redownload_completed"]++
			if staleDir {
				res.counts["evict_and_redownload_over_stale_download_entry_dir"]++
			}
			switch {
			case resp.Complete:
				res.counts["recovered_already_complete"]++
			case len(resp.Bits) > 0:
				res.counts["recovered_partial_bitfield"]++
			default:
				res.counts["recovered_from_scratch"]++
			}
			if len(resp.CreateErrs) > 0 {
				res.counts["createtorrent_needed_second_attempt"]++
			}
			res.counts["restarted_downloads_completed"]++
			if os.Getenv("VERIF_REPLAY") != "" {
				b, _ := json.MarshalIndent(witness(nil), "", " ")
				t.Logf("replayed case passes: %s", b)
			}
		})
	}
	replies, err := fsrec.Pipeline([]string{bin, "recover"}, os.Environ(), reqs, 10*time.Minute)
	if err != nil {
		res.inconclusive = append(res.inconclusive, fmt.Sprintf("workload %d: recovery child: %v", w.idx, err))
		return
	}
	for i, j := range judges {
		j(replies[i])
	}
	var descr []string
	for i := range w.spec.Steps {
		descr = append(descr, stepDesc(i))
	}
	res.sample = map[string]interface{}{"workload": w.idx, "class": w.class, "blob_len": len(blob), "piece_length": w.spec.PieceLength,
		"steps": descr, "fs_mutations": len(ops), "prefixes": res.prefixes}
	tPrefixes := time.Since(t0)
	if replayK < 0 && len(ops) > 0 {
		for i := 0; i < nKills; i++ {
			k := killRand.Intn(len(ops))
			kroot := filepath.Join(dir, fmt.Sprintf("kill%d", i), "root")
			_ = os.MkdirAll(filepath.Dir(kroot), 0o755)
			klog := filepath.Join(dir, fmt.Sprintf("kill%d.log", i))
			ks := fsrec.KillAt(ops[k])
			_, _, _ = fsrec.Record([]string{bin, "work", specPath, kroot}, os.Environ(), klog, &ks, 2*time.Minute)
			res.kills++
			n, exact, err := rec.CrossValidateCanon(klog, kroot, dir, isLAT, canonTmp)
			if err != nil {
				res.inconclusive = append(res.inconclusive, fmt.Sprintf("workload %d: engine fault: real kill before op %d: %v", w.idx, k, err))
				continue
			}
			if !exact {
				// the killed execution legitimately took another path (map iteration order
				// inside kraken); only its own log could be compared with its tree
				res.killsSelfOnly++
				continue
			}
			if n != k {
				res.inconclusive = append(res.inconclusive, fmt.Sprintf("workload %d: engine fault: kill aimed at op %d stopped after %d ops", w.idx, k, n))
				continue
			}
			res.killsOK++
		}
	}
	t.Logf("workload %d (%s): %d steps, %d fs mutations, record+prefixes %v, total %v", w.idx, w.class, res.steps, res.syscalls, tPrefixes, time.Since(t0))
	return res
}

func TestC04(t *testing.T) {
	run := ev.Start(t, "C04", "fault_enumeration",
		"PRNG-generated agent downloads through agentstorage.TorrentArchive on a real CADownloadStore (CreateTorrent with a stub tracker, pieces in PRNG order, "+
			"corrupt attempts, commit, optional clean restart in the middle / after commit) for blob sizes 0, 1 piece, 5 pieces with a short last piece, exact multiple, random; "+
			"one case = (workload, crash prefix k of its strace-recorded file-system mutations), ALL prefixes k=0..N of every workload are explored; "+
			"a case is non-trivial when the crash point lies strictly inside a logical operation (some but not all of its mutations applied).")
	defer run.Finish()
	run.Assume("process-crash model: completed system calls persist, nothing later happens; no torn single writes, no reordering (not a power-loss model)")
	run.Assume("strace decoding and the fsrec replayer are trusted; re-validated on every run by the full-log fidelity check and by real SIGKILL cross-validation (contents of _last_access_time sidecars, which hold wall-clock seconds, are not compared across runs)")
	run.Assume("background cleanup is disabled; the tracker stub always returns the blob's true metainfo; restart = new CADownloadStore + TorrentArchive on the same directories, CreateTorrent retried at most twice, no clock advance")

	base := ev.TempDir(t, "c04-")
	bin := filepath.Join(base, "c04child")
	if err := fsrec.BuildChild("./c04/cmd/c04child", bin); err != nil {
		t.Fatalf("build child: %v", err)
	}
	t.Logf("child %s built from the harness module with modfile %q, VERIF_REPO=%q (empty = /repo)", bin, fsrec.ChildModfile(), os.Getenv("VERIF_REPO"))
	if _, err := exec.LookPath("strace"); err != nil {
		run.Inconclusive("strace not available")
		return
	}
	nW := run.N(8, 120)
	nKills := run.N(2, 3)
	var wls []workload
	for i := 0; i < nW; i++ {
		spec, class := genSpec(run.Rand(fmt.Sprintf("workload-%d", i)), i)
		wls = append(wls, workload{idx: i, spec: spec, class: class})
	}
	replayW, replayK := -1, -1
	if rc := run.ReplayCase(); rc != "" {
		if _, err := fmt.Sscanf(rc, "w%d/k%d", &replayW, &replayK); err != nil {
			t.Fatalf("bad replay case %q", rc)
		}
	}
	results := make([]wlResult, len(wls))
	sem := make(chan struct{}, 8)
	var wg sync.WaitGroup
	for i := range wls {
		if replayW >= 0 && i != replayW {
			continue
		}
		wg.Add(1)
		go func(i int) {
			defer wg.Done()
			sem <- struct{}{}
			defer func() { <-sem }()
			results[i] = runWorkload(t, bin, base, wls[i], run.Rand(fmt.Sprintf("kills-%d", i)), nKills, replayK)
		}(i)
	}
	wg.Wait()
	allFidelity := true
	for i, res := range results {
		if replayW >= 0 && i != replayW {
			continue
		}
		for _, c := range res.cases {
			run.Case(c.key, c.nontrivial)
		}
		for _, f := range res.findings {
			run.Violation(f.Sig, f.Case, f.Witness)
		}
		for _, s := range res.inconclusive {
			run.Inconclusive(s)
		}
		if res.sample != nil {
			run.Sample(res.sample)
		}
		if !res.fidelityOK {
			allFidelity = false
		} else {
			run.Count("fidelity_checks_passed", 1)
		}
		run.Count("workloads", 1)
		run.Count("workloads_"+wls[i].class, 1)
		run.Count("logical_steps", int64(res.steps))
		run.Count("fs_mutations_recorded", int64(res.syscalls))
		run.Count("crash_prefixes_explored", int64(res.prefixes))
		run.Count("crash_prefixes_mid_operation", int64(res.midOp))
		run.Count("real_kill_cross_validations", int64(res.kills))
		run.Count("real_kill_cross_validations_matching", int64(res.killsOK))
		run.Count("real_kill_cross_validations_divergent_execution_self_replay_only", int64(res.killsSelfOnly))
		for k, n := range res.counts {
			run.Count(k, int64(n))
		}
	}
	run.Set("exhaustive_per_workload", allFidelity)
}
