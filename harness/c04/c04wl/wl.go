// Package c04wl holds the types shared by the C04 test and its child process.
package c04wl

// Step is one logical operation of the agent download workload.
type Step struct {
	Op      string `json:"op"` // create | piece | restart
	Piece   int    `json:"piece,omitempty"`
	Corrupt bool   `json:"corrupt,omitempty"` // piece: payload with one flipped byte (must be rejected)
}

// Spec is a complete workload: download Blob (piece length PieceLength) into an
// agent's CADownloadStore through agentstorage.TorrentArchive.
type Spec struct {
	Blob        []byte `json:"blob"`
	PieceLength int64  `json:"piece_length"`
	Steps       []Step `json:"steps"`
}

// StepResult is printed by the workload child after every step.
type StepResult struct {
	I        int    `json:"i"`
	OK       bool   `json:"ok"`
	Err      string `json:"err,omitempty"`
	Complete bool   `json:"complete"`
	Bits     []int  `json:"bits"`
}

// RecoverReq asks the recovery child to restart an agent on Dir.
type RecoverReq struct {
	Dir         string `json:"dir"`
	Blob        []byte `json:"blob"`
	PieceLength int64  `json:"piece_length"`
}

// RecoverResp is what the restarted agent storage showed.
type RecoverResp struct {
	Panic   string `json:"panic,omitempty"`
	OpenErr string `json:"open_err,omitempty"` // NewCADownloadStore error

	// before anything else: TorrentArchive.Stat and the cache state
	StatErr     string `json:"stat_err,omitempty"`
	StatBits    []int  `json:"stat_bits"`
	CacheBefore *Cache `json:"cache_before,omitempty"`

	// CreateTorrent, at most two attempts
	CreateErrs []string `json:"create_errs"`
	Created    bool     `json:"created"`
	Complete   bool     `json:"complete"` // Torrent.Complete() right after CreateTorrent
	NumPieces  int      `json:"num_pieces"`
	Bits       []int    `json:"bits"`
	// bytes served for every piece reported complete (GetPieceReader)
	Pieces     map[int][]byte `json:"pieces"`
	PieceErrs  map[int]string `json:"piece_errs,omitempty"`
	CacheAfter *Cache         `json:"cache_after,omitempty"`
	GetErr     string         `json:"get_err,omitempty"` // GetTorrent after CreateTorrent
	GetBits    []int          `json:"get_bits"`

	// continued download: write every missing piece
	WriteErrs     map[int]string `json:"write_errs,omitempty"`
	FinalComplete bool           `json:"final_complete"`
	CacheFinal    *Cache         `json:"cache_final,omitempty"`

	Epilogue Epilogue `json:"epilogue"`
}

// Epilogue is the "evict and download again" phase: after the recovered agent
// has completed the download, the torrent is deleted through
// TorrentArchive.DeleteTorrent (what cache eviction / TTL clean-up do) and
// requested again. Leftovers of the crash must not poison the new download.
type Epilogue struct {
	Ran              bool           `json:"ran"`
	DeleteErr        string         `json:"delete_err,omitempty"`
	CacheAfterDelete *Cache         `json:"cache_after_delete,omitempty"`
	CreateErrs       []string       `json:"create_errs"`
	Created          bool           `json:"created"`
	Complete         bool           `json:"complete"` // right after CreateTorrent
	NumPieces        int            `json:"num_pieces"`
	Bits             []int          `json:"bits"`
	Pieces           map[int][]byte `json:"pieces"`
	PieceErrs        map[int]string `json:"piece_errs,omitempty"`
	CacheAfter       *Cache         `json:"cache_after,omitempty"`
	WriteErrs        map[int]string `json:"write_errs,omitempty"`
	FinalComplete    bool           `json:"final_complete"`
	CacheFinal       *Cache         `json:"cache_final,omitempty"`
}

// Cache is the cache-state file of the blob, if any.
type Cache struct {
	Present bool   `json:"present"`
	Err     string `json:"err,omitempty"`
	Bytes   []byte `json:"bytes"`
}
