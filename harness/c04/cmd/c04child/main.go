// c04child is the child process of the C04 crash-prefix check.
//
//	c04child work <spec.json> <root>   run the agent download workload on one locked OS thread (under strace)
//	c04child recover                   serve recovery requests (JSON lines on stdin/stdout)
package main

import (
	"bufio"
	"encoding/json"
	"fmt"
	"io"
	"os"
	"path/filepath"
	"runtime"
	"runtime/debug"
	"syscall"

	"github.com/uber-go/tally"
	"github.com/willf/bitset"

	"github.com/uber/kraken/core"
	"github.com/uber/kraken/lib/store"
	"github.com/uber/kraken/lib/torrent/storage"
	"github.com/uber/kraken/lib/torrent/storage/agentstorage"
	"github.com/uber/kraken/lib/torrent/storage/piecereader"

	"verif/harness/c04/c04wl"
	"verif/harness/internal/fsrec"
)

func init() { runtime.LockOSThread() }

func mark(kind string, i int, text string) {
	_ = syscall.Mkdir(fmt.Sprintf("%s%s/%d/%s", fsrec.SentinelPrefix, kind, i, text), 0)
}

// stubMetaInfoClient is the tracker: it always knows the blob's metainfo.
type stubMetaInfoClient struct{ mi *core.MetaInfo }

func (c stubMetaInfoClient) Download(namespace string, d core.Digest) (*core.MetaInfo, error) {
	return c.mi, nil
}

const namespace = "verif-ns"

type agent struct {
	cads    *store.CADownloadStore
	archive *agentstorage.TorrentArchive
}

func openAgent(root string, mi *core.MetaInfo) (*agent, error) {
	cads, err := store.NewCADownloadStore(store.CADownloadStoreConfig{
		DownloadDir:     filepath.Join(root, "download"),
		CacheDir:        filepath.Join(root, "cache"),
		DownloadCleanup: store.CleanupConfig{Disabled: true},
		CacheCleanup:    store.CleanupConfig{Disabled: true},
	}, tally.NoopScope)
	if err != nil {
		return nil, err
	}
	return &agent{cads: cads, archive: agentstorage.NewTorrentArchive(tally.NoopScope, cads, stubMetaInfoClient{mi})}, nil
}

func metaInfo(blob []byte, pieceLength int64) (*core.MetaInfo, error) {
	d, err := core.NewDigester().FromBytes(blob)
	if err != nil {
		return nil, err
	}
	return core.NewMetaInfoFromBytes(d, blob, pieceLength)
}

func bits(b *bitset.BitSet, n int) []int {
	out := []int{}
	for i := 0; i < n; i++ {
		if b.Test(uint(i)) {
			out = append(out, i)
		}
	}
	return out
}

func pieceOf(blob []byte, pl int64, i int) []byte {
	start := int64(i) * pl
	end := start + pl
	if end > int64(len(blob)) {
		end = int64(len(blob))
	}
	return blob[start:end]
}

func work(specPath, root string) error {
	b, err := os.ReadFile(specPath)
	if err != nil {
		return err
	}
	var spec c04wl.Spec
	if err := json.Unmarshal(b, &spec); err != nil {
		return err
	}
	mi, err := metaInfo(spec.Blob, spec.PieceLength)
	if err != nil {
		return err
	}
	out := json.NewEncoder(os.Stdout)
	mark("b", 0, "open")
	ag, err := openAgent(root, mi)
	if err != nil {
		mark("e", 0, "err")
		return err
	}
	mark("e", 0, "ok")
	var t storage.Torrent
	for i, s := range spec.Steps {
		res := c04wl.StepResult{I: i, Bits: []int{}}
		mark("b", i+1, s.Op)
		var err error
		switch s.Op {
		case "create":
			t, err = ag.archive.CreateTorrent(namespace, mi.Digest())
		case "piece":
			if t == nil {
				err = fmt.Errorf("no torrent")
				break
			}
			p := append([]byte{}, pieceOf(spec.Blob, spec.PieceLength, s.Piece)...)
			if s.Corrupt && len(p) > 0 {
				p[len(p)/2] ^= 0x5a
			}
			err = t.WritePiece(piecereader.NewBuffer(p), s.Piece)
		case "restart":
			ag.cads.Close()
			t = nil
			ag, err = openAgent(root, mi)
			if err != nil {
				mark("e", i+1, "err")
				return err
			}
		default:
			err = fmt.Errorf("unknown op %q", s.Op)
		}
		if err != nil {
			res.Err = err.Error()
			mark("e", i+1, "err")
		} else {
			res.OK = true
			mark("e", i+1, "ok")
		}
		if t != nil {
			res.Complete = t.Complete()
			res.Bits = bits(t.Bitfield(), t.NumPieces())
		}
		_ = out.Encode(res)
	}
	return nil
}

func readCache(cads *store.CADownloadStore, name string) *c04wl.Cache {
	r, err := cads.Cache().GetFileReader(name)
	if err != nil {
		if os.IsNotExist(err) || cads.InDownloadError(err) {
			return &c04wl.Cache{} // not in the cache state
		}
		return &c04wl.Cache{Err: err.Error()}
	}
	defer r.Close()
	b, err := io.ReadAll(r)
	c := &c04wl.Cache{Present: true, Bytes: b}
	if err != nil {
		c.Err = err.Error()
	}
	return c
}

func observe(req c04wl.RecoverReq) (resp c04wl.RecoverResp) {
	defer func() {
		if r := recover(); r != nil {
			resp.Panic = fmt.Sprintf("%v\n%s", r, debug.Stack())
		}
	}()
	resp.Pieces = map[int][]byte{}
	resp.CreateErrs = []string{}
	mi, err := metaInfo(req.Blob, req.PieceLength)
	if err != nil {
		resp.OpenErr = "harness: " + err.Error()
		return
	}
	d := mi.Digest()
	// What a restarted agent serves from its cache for d (the blob server reads through the
	// cache scope). A store instance of its own: which state an entry is first loaded in is
	// sticky (and, through the Any scope, depends on Go's map iteration order), so the probe
	// must not share the instance used for the download path below.
	probe, err := openAgent(req.Dir, mi)
	if err != nil {
		resp.OpenErr = err.Error()
		return
	}
	resp.CacheBefore = readCache(probe.cads, d.Hex())
	probe.cads.Close()

	ag, err := openAgent(req.Dir, mi)
	if err != nil {
		resp.OpenErr = err.Error()
		return
	}
	defer ag.cads.Close()
	if info, err := ag.archive.Stat(namespace, d); err != nil {
		resp.StatErr = err.Error()
	} else {
		resp.StatBits = bits(info.Bitfield(), mi.NumPieces())
	}

	var t storage.Torrent
	for attempt := 0; attempt < 2 && t == nil; attempt++ {
		t, err = ag.archive.CreateTorrent(namespace, d)
		if err != nil {
			resp.CreateErrs = append(resp.CreateErrs, err.Error())
			t = nil
		}
	}
	if t == nil {
		return
	}
	resp.Created = true
	resp.Complete = t.Complete()
	resp.NumPieces = t.NumPieces()
	resp.Bits = bits(t.Bitfield(), t.NumPieces())
	for _, i := range resp.Bits {
		r, err := t.GetPieceReader(i)
		if err == nil {
			var b []byte
			b, err = io.ReadAll(r)
			_ = r.Close()
			resp.Pieces[i] = b
		}
		if err != nil {
			if resp.PieceErrs == nil {
				resp.PieceErrs = map[int]string{}
			}
			resp.PieceErrs[i] = err.Error()
		}
	}
	resp.CacheAfter = readCache(ag.cads, d.Hex())
	if gt, err := ag.archive.GetTorrent(namespace, d); err != nil {
		resp.GetErr = err.Error()
	} else {
		resp.GetBits = bits(gt.Bitfield(), gt.NumPieces())
	}
	// the download is started again: write whatever the torrent says is missing
	for _, i := range t.MissingPieces() {
		if i < 0 || i >= mi.NumPieces() {
			if resp.WriteErrs == nil {
				resp.WriteErrs = map[int]string{}
			}
			resp.WriteErrs[i] = "torrent reports a missing piece outside the metainfo"
			continue
		}
		if err := t.WritePiece(piecereader.NewBuffer(pieceOf(req.Blob, req.PieceLength, i)), i); err != nil {
			if resp.WriteErrs == nil {
				resp.WriteErrs = map[int]string{}
			}
			resp.WriteErrs[i] = err.Error()
		}
	}
	resp.FinalComplete = t.Complete()
	resp.CacheFinal = readCache(ag.cads, d.Hex())
	if resp.FinalComplete {
		resp.Epilogue = evictAndDownloadAgain(ag, mi, req)
	}
	return
}

// evictAndDownloadAgain deletes the torrent through the real API and downloads
// the blob once more on the same (recovered) directories.
func evictAndDownloadAgain(ag *agent, mi *core.MetaInfo, req c04wl.RecoverReq) (e c04wl.Epilogue) {
	e.Ran = true
	e.Pieces = map[int][]byte{}
	e.CreateErrs = []string{}
	d := mi.Digest()
	if err := ag.archive.DeleteTorrent(d); err != nil {
		e.DeleteErr = err.Error()
		return
	}
	e.CacheAfterDelete = readCache(ag.cads, d.Hex())
	var t storage.Torrent
	var err error
	for attempt := 0; attempt < 2 && t == nil; attempt++ {
		t, err = ag.archive.CreateTorrent(namespace, d)
		if err != nil {
			e.CreateErrs = append(e.CreateErrs, err.Error())
			t = nil
		}
	}
	if t == nil {
		return
	}
	e.Created = true
	e.Complete = t.Complete()
	e.NumPieces = t.NumPieces()
	e.Bits = bits(t.Bitfield(), t.NumPieces())
	for _, i := range e.Bits {
		r, err := t.GetPieceReader(i)
		if err == nil {
			var b []byte
			b, err = io.ReadAll(r)
			_ = r.Close()
			e.Pieces[i] = b
		}
		if err != nil {
			if e.PieceErrs == nil {
				e.PieceErrs = map[int]string{}
			}
			e.PieceErrs[i] = err.Error()
		}
	}
	e.CacheAfter = readCache(ag.cads, d.Hex())
	for _, i := range t.MissingPieces() {
		if i < 0 || i >= mi.NumPieces() {
			continue
		}
		if err := t.WritePiece(piecereader.NewBuffer(pieceOf(req.Blob, req.PieceLength, i)), i); err != nil {
			if e.WriteErrs == nil {
				e.WriteErrs = map[int]string{}
			}
			e.WriteErrs[i] = err.Error()
		}
	}
	e.FinalComplete = t.Complete()
	e.CacheFinal = readCache(ag.cads, d.Hex())
	return
}

func serve() error {
	in := bufio.NewReaderSize(os.Stdin, 1<<20)
	out := json.NewEncoder(os.Stdout)
	for {
		line, err := in.ReadBytes('\n')
		if len(line) > 1 {
			var req c04wl.RecoverReq
			if jerr := json.Unmarshal(line, &req); jerr != nil {
				return jerr
			}
			if oerr := out.Encode(observe(req)); oerr != nil {
				return oerr
			}
		}
		if err == io.EOF {
			return nil
		}
		if err != nil {
			return err
		}
	}
}

func main() {
	var err error
	switch {
	case len(os.Args) == 4 && os.Args[1] == "work":
		err = work(os.Args[2], os.Args[3])
	case len(os.Args) == 2 && os.Args[1] == "recover":
		err = serve()
	default:
		err = fmt.Errorf("usage: c04child work <spec.json> <root> | recover")
	}
	if err != nil {
		fmt.Fprintln(os.Stderr, "c04child:", err)
		os.Exit(2)
	}
}
