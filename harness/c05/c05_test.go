// C05: an origin or proxy crash at any point leaves its blob cache consistent.
//
// Crash-prefix engine (DESIGN.md 2.4): a child built from /repo drives a real
// CAStore (+ metainfogen) through chunked uploads + commit, persist flags,
// metainfo generation, backend refreshes (memory cache off and on, drained on
// demand), metainfo overwrites, deletes and clean restarts on one locked OS
// thread under strace. Every prefix of the recorded file-system mutations is
// materialised; NewCAStore + the real blob server (scripted backend, httptest)
// are started on a copy of it and judged: the store opens, the upload dir is
// empty, every listed blob with data hashes to its name, and its metainfo
// endpoint answers 200 with valid metainfo, directly or after a 202 refresh.
package c05

import (
	"bytes"
	"crypto/sha256"
	"encoding/hex"
	"encoding/json"
	"fmt"
	"hash/crc32"
	"math/rand"
	"os"
	"os/exec"
	"path/filepath"
	"regexp"
	"strconv"
	"strings"
	"sync"
	"testing"
	"time"

	"github.com/uber/kraken/core"

	"verif/harness/c05/c05wl"
	"verif/harness/internal/ev"
	"verif/harness/internal/fsrec"
	"verif/harness/internal/gen"
)

type workload struct {
	idx  int
	spec c05wl.Spec
}

func sha(b []byte) string {
	s := sha256.Sum256(b)
	return hex.EncodeToString(s[:])
}

func genSpec(r *rand.Rand, i int) c05wl.Spec {
	spec := c05wl.Spec{MemCache: i%3 == 2, PieceLength: int64(4 + r.Intn(9))}
	nBlobs := 2 + r.Intn(2)
	var seqs [][]c05wl.Step
	for b := 0; b < nBlobs; b++ {
		n := []int{0, 1, 9, 23, 40, 57}[r.Intn(6)]
		if b == 0 {
			n = 20 + r.Intn(30)
		}
		spec.Blobs = append(spec.Blobs, gen.Bytes(r, n))
		var seq []c05wl.Step
		upload := (b+i)%2 == 0
		if n > 0 && r.Intn(2) == 0 {
			// first a transfer whose bytes do not match the digest: the commit must be
			// rejected and must not leave anything behind under the blob's name
			if upload {
				seq = append(seq, c05wl.Step{Op: "upstart", Blob: b}, c05wl.Step{Op: "uppatch", Blob: b, Chunk: [2]int{0, n}, Corrupt: true},
					c05wl.Step{Op: "upcommit", Blob: b})
			} else {
				seq = append(seq, c05wl.Step{Op: "refresh", Blob: b, PieceLength: spec.PieceLength, Corrupt: true})
				if spec.MemCache {
					seq = append(seq, c05wl.Step{Op: "drain", Blob: -1})
				}
			}
		}
		if upload {
			seq = append(seq, c05wl.Step{Op: "upstart", Blob: b})
			pos := 0
			for pos < n {
				end := pos + 1 + r.Intn(n-pos)
				if r.Intn(2) == 0 {
					end = n
				}
				seq = append(seq, c05wl.Step{Op: "uppatch", Blob: b, Chunk: [2]int{pos, end}})
				pos = end
			}
			seq = append(seq, c05wl.Step{Op: "upcommit", Blob: b}, c05wl.Step{Op: "persist", Blob: b}, c05wl.Step{Op: "generate", Blob: b})
		} else {
			seq = append(seq, c05wl.Step{Op: "refresh", Blob: b, PieceLength: spec.PieceLength})
			if spec.MemCache {
				seq = append(seq, c05wl.Step{Op: "drain", Blob: -1})
			}
			if r.Intn(2) == 0 {
				// a second refresh of a blob that is already cached
				seq = append(seq, c05wl.Step{Op: "refresh", Blob: b, PieceLength: spec.PieceLength})
				if spec.MemCache {
					seq = append(seq, c05wl.Step{Op: "drain", Blob: -1})
				}
			}
		}
		if r.Intn(2) == 0 {
			seq = append(seq, c05wl.Step{Op: "overwritemi", Blob: b, PieceLength: int64(1 + r.Intn(5))})
		}
		if upload && r.Intn(2) == 0 {
			seq = append(seq, c05wl.Step{Op: "unpersist", Blob: b})
			if r.Intn(2) == 0 {
				seq = append(seq, c05wl.Step{Op: "delete", Blob: b})
			}
		} else if !upload && r.Intn(3) == 0 {
			seq = append(seq, c05wl.Step{Op: "delete", Blob: b})
		}
		seqs = append(seqs, seq)
	}
	// interleave the per-blob sequences, with one or two clean restarts
	restarts := 1 + r.Intn(2)
	total := 0
	for _, s := range seqs {
		total += len(s)
	}
	restartAt := map[int]bool{}
	for j := 0; j < restarts; j++ {
		restartAt[1+r.Intn(total)] = true
	}
	done := 0
	for {
		var live []int
		for b, s := range seqs {
			if len(s) > 0 {
				live = append(live, b)
			}
		}
		if len(live) == 0 {
			break
		}
		b := live[r.Intn(len(live))]
		spec.Steps = append(spec.Steps, seqs[b][0])
		seqs[b] = seqs[b][1:]
		done++
		if restartAt[done] {
			spec.Steps = append(spec.Steps, c05wl.Step{Op: "restart", Blob: -1})
		}
	}
	return spec
}

// validMetaInfo re-computes the torrent description of blob independently.
func validMetaInfo(raw []byte, name string, blob []byte) string {
	mi, err := core.DeserializeMetaInfo(raw)
	if err != nil {
		return "does not deserialize: " + err.Error()
	}
	if mi.Digest().Hex() != name {
		return "digest " + mi.Digest().Hex()
	}
	if mi.Length() != int64(len(blob)) {
		return fmt.Sprintf("length %d for a %d byte blob", mi.Length(), len(blob))
	}
	pl := mi.PieceLength()
	if pl <= 0 {
		return fmt.Sprintf("piece length %d", pl)
	}
	n := int((int64(len(blob)) + pl - 1) / pl)
	if mi.NumPieces() != n {
		return fmt.Sprintf("%d pieces, expected %d", mi.NumPieces(), n)
	}
	for i := 0; i < n; i++ {
		end := int64(i+1) * pl
		if end > int64(len(blob)) {
			end = int64(len(blob))
		}
		if mi.GetPieceSum(i) != crc32.ChecksumIEEE(blob[int64(i)*pl:end]) {
			return fmt.Sprintf("piece %d sum mismatch", i)
		}
	}
	return ""
}

type finding struct {
	Sig     string
	Case    string
	Witness interface{}
}

type caseRec struct {
	key        string
	nontrivial bool
}

type wlResult struct {
	findings      []finding
	inconclusive  []string
	cases         []caseRec
	prefixes      int
	midOp         int
	syscalls      int
	steps         int
	kills         int
	killsOK       int
	killsSelfOnly int
	fidelityOK    bool
	sample        interface{}
	counts        map[string]int
}

func tail(b []byte, n int) string {
	if len(b) > n {
		b = b[len(b)-n:]
	}
	return string(b)
}

func isLAT(p string) bool { return strings.HasSuffix(p, "_last_access_time") }

var uuidRE = regexp.MustCompile(`\.[0-9a-f]{8}-[0-9a-f]{4}-[0-9a-f]{4}-[0-9a-f]{4}-[0-9a-f]{12}`)

// canonUUID hides the random uuid of CAStore's temporary upload names.
func canonUUID(p string) string {
	return tmpRE.ReplaceAllString(uuidRE.ReplaceAllString(p, ".UUID"), "/.tmp-N")
}

// os.CreateTemp names (only present once sidecars are written via a temporary file)
var tmpRE = regexp.MustCompile(`/\.tmp-[0-9]+`)

func cacheDir(name string) string {
	return filepath.Join("cache", name[0:2], name[2:4], name)
}

func runWorkload(t *testing.T, bin, base string, w workload, killRand *rand.Rand, nKills, replayK int) (res wlResult) {
	res.counts = map[string]int{}
	dir := filepath.Join(base, fmt.Sprintf("w%d", w.idx))
	_ = os.MkdirAll(dir, 0o755)
	defer os.RemoveAll(dir)
	specPath := filepath.Join(dir, "spec.json")
	sb, _ := json.Marshal(w.spec)
	if err := os.WriteFile(specPath, sb, 0o644); err != nil {
		res.inconclusive = append(res.inconclusive, err.Error())
		return
	}
	root := filepath.Join(dir, "root")
	logPath := filepath.Join(dir, "strace.log")
	t0 := time.Now()
	stdout, stderr, err := fsrec.Record([]string{bin, "work", specPath, root}, os.Environ(), logPath, nil, 2*time.Minute)
	if err != nil {
		res.inconclusive = append(res.inconclusive, fmt.Sprintf("workload %d: recording failed: %v: %s", w.idx, err, tail(stderr, 800)))
		return
	}
	rec, err := fsrec.Load(logPath, root, dir)
	if err != nil {
		res.inconclusive = append(res.inconclusive, fmt.Sprintf("workload %d: engine fault: %v", w.idx, err))
		return
	}
	res.fidelityOK = true
	var results []c05wl.StepResult
	dec := json.NewDecoder(bytes.NewReader(stdout))
	for dec.More() {
		var r c05wl.StepResult
		if err := dec.Decode(&r); err != nil {
			res.inconclusive = append(res.inconclusive, fmt.Sprintf("workload %d: bad child output: %v", w.idx, err))
			return
		}
		results = append(results, r)
	}
	if len(results) != len(w.spec.Steps) || len(rec.Spans) != len(w.spec.Steps)+1 {
		res.inconclusive = append(res.inconclusive, fmt.Sprintf("workload %d: %d results / %d spans for %d steps", w.idx, len(results), len(rec.Spans), len(w.spec.Steps)))
		return
	}
	for i, r := range results {
		if r.OK {
			res.counts["steps_ok_"+w.spec.Steps[i].Op]++
		} else {
			res.counts["steps_err_"+w.spec.Steps[i].Op]++
		}
	}
	res.steps = len(w.spec.Steps)
	ops := rec.Trace.Ops
	res.syscalls = len(ops)
	byName := map[string][]byte{}
	for _, b := range w.spec.Blobs {
		byName[sha(b)] = b
	}
	stepDesc := func(i int) string {
		s := w.spec.Steps[i]
		d := ""
		if s.Blob >= 0 {
			d = fmt.Sprintf(" blob%d(%s, %d bytes)", s.Blob, sha(w.spec.Blobs[s.Blob])[:8], len(w.spec.Blobs[s.Blob]))
		}
		switch s.Op {
		case "uppatch":
			if s.Corrupt {
				return fmt.Sprintf("%d:uppatch%s [%d,%d) (one byte flipped)", i, d, s.Chunk[0], s.Chunk[1])
			}
			return fmt.Sprintf("%d:uppatch%s [%d,%d)", i, d, s.Chunk[0], s.Chunk[1])
		case "refresh", "overwritemi":
			if s.Corrupt {
				return fmt.Sprintf("%d:%s%s piece_length=%d (one byte flipped)", i, s.Op, d, s.PieceLength)
			}
			return fmt.Sprintf("%d:%s%s piece_length=%d", i, s.Op, d, s.PieceLength)
		}
		return fmt.Sprintf("%d:%s%s", i, s.Op, d)
	}

	var reqs [][]byte
	var judges []func(fsrec.Reply)
	live, err := fsrec.NewReplayer(filepath.Join(dir, "live"))
	if err != nil {
		res.inconclusive = append(res.inconclusive, err.Error())
		return
	}
	for k := 0; k <= len(ops); k++ {
		if err := live.ApplyTo(ops, k); err != nil {
			res.inconclusive = append(res.inconclusive, fmt.Sprintf("workload %d: engine fault: %v", w.idx, err))
			return
		}
		if replayK >= 0 && k != replayK {
			continue
		}
		k := k
		win := fsrec.WindowOf(rec.Spans, k, len(ops))
		inflightIdx := -1
		wk := "no-op-in-flight"
		if win.InFlight >= 1 {
			inflightIdx = win.InFlight - 1
			wk = w.spec.Steps[inflightIdx].Op + "-in-flight"
		} else if win.InFlight == 0 {
			wk = "open-in-flight"
		}
		mid := win.InFlight >= 0 && k > rec.Spans[win.InFlight].First
		caseID := fmt.Sprintf("w%d/k%d", w.idx, k)
		res.cases = append(res.cases, caseRec{key: ev.JSON([]interface{}{w.spec, k}), nontrivial: mid})
		res.prefixes++
		if mid {
			res.midOp++
		}
		res.counts["window_"+wk]++
		scratch := filepath.Join(dir, fmt.Sprintf("p%d", k))
		if err := fsrec.CopyTree(live.Dir, scratch); err != nil {
			res.inconclusive = append(res.inconclusive, fmt.Sprintf("workload %d: copy: %v", w.idx, err))
			return
		}
		snap, _ := fsrec.Snapshot(scratch)
		// sidecar contents before recovery touches them
		sidecar := map[string][]byte{}
		for p, e := range snap {
			if e.Type == "file" && (strings.HasSuffix(p, "/_torrentmeta") || strings.HasSuffix(p, "/_persist")) {
				sidecar[p], _ = os.ReadFile(filepath.Join(scratch, p))
			}
		}
		rb, _ := json.Marshal(c05wl.RecoverReq{Dir: scratch, PieceLength: w.spec.PieceLength, Blobs: w.spec.Blobs})
		reqs = append(reqs, rb)
		judges = append(judges, func(rep fsrec.Reply) {
			var resp c05wl.RecoverResp
			if !rep.Died {
				if err := json.Unmarshal(rep.Line, &resp); err != nil {
					res.inconclusive = append(res.inconclusive, fmt.Sprintf("workload %d: bad recovery answer: %v", w.idx, err))
					return
				}
			}
			witness := func(extra map[string]interface{}) map[string]interface{} {
				m := map[string]interface{}{
					"workload": w.idx, "mem_cache": w.spec.MemCache, "spec": w.spec, "prefix_k": k, "total_ops": len(ops),
					"tree_before_recovery": fsrec.Listing(snap),
				}
				if inflightIdx >= 0 {
					m["in_flight_step"] = stepDesc(inflightIdx)
				}
				if k < len(ops) {
					m["next_syscall_not_executed"] = ops[k].String()
				}
				if k > 0 {
					m["last_syscall_executed"] = ops[k-1].String()
				}
				for a, b := range extra {
					m[a] = b
				}
				return m
			}
			addF := func(sig string, extra map[string]interface{}) {
				res.findings = append(res.findings, finding{Sig: sig, Case: caseID, Witness: witness(extra)})
			}
			if rep.Died {
				addF("recovery-process-died/"+wk, map[string]interface{}{"stderr": rep.Stderr})
				return
			}
			if resp.Panic != "" {
				addF("recovery-panics/"+wk, map[string]interface{}{"panic": resp.Panic})
				return
			}
			if resp.OpenErr != "" {
				addF("castore-open-fails/"+wk, map[string]interface{}{"error": resp.OpenErr})
				return
			}
			if resp.ListErr != "" {
				addF("listcachefiles-fails/"+wk, map[string]interface{}{"error": resp.ListErr})
				return
			}
			if len(resp.UploadEntries) > 0 {
				addF("upload-dir-not-empty-after-restart/"+wk, map[string]interface{}{"entries": resp.UploadEntries})
			}
			for _, name := range resp.Listed {
				o := resp.Blobs[name]
				if !o.HasData {
					if o.DataOnDisk {
						addF("listed-blob-has-data-file-but-store-says-not-exist/"+wk, map[string]interface{}{"name": name, "error": o.ReadErr})
					} else if o.ReadErr != "" {
						addF("listed-blob-unreadable/"+wk, map[string]interface{}{"name": name, "error": o.ReadErr})
					} else {
						res.counts["listed_names_without_data_file"]++
					}
					continue
				}
				res.counts["listed_blobs_with_data"]++
				if o.ReadErr != "" || sha(o.Bytes) != name {
					addF("listed-blob-does-not-hash-to-its-name/"+wk, map[string]interface{}{"name": name, "observed": o})
					continue
				}
				sidecarState := func(suffix string, parses func([]byte) bool) string {
					b, ok := sidecar[cacheDir(name)+"/"+suffix]
					switch {
					case !ok:
						return "absent"
					case len(b) == 0:
						return "empty"
					case !parses(b):
						return "half-overwritten"
					}
					return "intact"
				}
				// persist flag readable or absent
				if o.PersistState == "error" {
					st := sidecarState("_persist", func(b []byte) bool { _, err := strconv.ParseBool(string(b)); return err == nil })
					sig := "persist-flag-unreadable/" + wk
					if st == "empty" || st == "half-overwritten" {
						sig = st + "-persist-sidecar-unreadable"
					}
					addF(sig, map[string]interface{}{"name": name, "error": o.PersistErr, "persist_sidecar_bytes": sidecar[cacheDir(name)+"/_persist"]})
				}
				// metainfo: 200 (+ valid) directly or after 202
				n := len(o.Statuses)
				switch {
				case o.Still202AfterRefreshes:
					addF("metainfo-still-202-after-3-completed-refreshes/"+wk, map[string]interface{}{"name": name, "statuses": len(o.Statuses),
						"backend_downloads_served": o.RefreshDownloads, "torrentmeta_sidecar_before_recovery": string(sidecar[cacheDir(name)+"/_torrentmeta"])})
				case o.StillPending:
					res.inconclusive = append(res.inconclusive, fmt.Sprintf("workload %d %s: metainfo request for %s still 202 after the watchdog", w.idx, caseID, name[:8]))
				case n > 0 && o.Statuses[n-1] == 200:
					if why := validMetaInfo(o.MetaInfo, name, o.Bytes); why != "" {
						addF("metainfo-invalid-for-blob/"+wk, map[string]interface{}{"name": name, "why": why, "metainfo": string(o.MetaInfo)})
						break
					}
					if n == 1 {
						res.counts["metainfo_200_directly"]++
					} else {
						res.counts["metainfo_regenerated_on_demand_after_202"]++
					}
				default:
					st := sidecarState("_torrentmeta", func(b []byte) bool { _, err := core.DeserializeMetaInfo(b); return err == nil })
					sig := fmt.Sprintf("metainfo-request-fails/%v/%s", o.Statuses, wk)
					if st == "empty" || st == "half-overwritten" {
						sig = st + "-torrentmeta-sidecar-metainfo-request-fails"
					}
					addF(sig, map[string]interface{}{"name": name, "statuses": o.Statuses, "last_body": o.LastBody,
						"torrentmeta_sidecar_before_recovery": string(sidecar[cacheDir(name)+"/_torrentmeta"])})
				}
			}
		})
	}
	replies, err := fsrec.Pipeline([]string{bin, "recover"}, os.Environ(), reqs, 15*time.Minute)
	if err != nil {
		res.inconclusive = append(res.inconclusive, fmt.Sprintf("workload %d: recovery child: %v", w.idx, err))
		return
	}
	for i, j := range judges {
		j(replies[i])
	}
	var descr []string
	for i := range w.spec.Steps {
		descr = append(descr, stepDesc(i))
	}
	res.sample = map[string]interface{}{"workload": w.idx, "mem_cache": w.spec.MemCache, "metainfogen_piece_length": w.spec.PieceLength,
		"steps": descr, "fs_mutations": len(ops), "prefixes": res.prefixes}
	tPrefixes := time.Since(t0)
	if replayK < 0 && len(ops) > 0 {
		for i := 0; i < nKills; i++ {
			k := killRand.Intn(len(ops))
			kroot := filepath.Join(dir, fmt.Sprintf("kill%d", i), "root")
			_ = os.MkdirAll(filepath.Dir(kroot), 0o755)
			klog := filepath.Join(dir, fmt.Sprintf("kill%d.log", i))
			ks := fsrec.KillAt(ops[k])
			_, _, _ = fsrec.Record([]string{bin, "work", specPath, kroot}, os.Environ(), klog, &ks, 2*time.Minute)
			res.kills++
			n, exact, err := rec.CrossValidateCanon(klog, kroot, dir, isLAT, canonUUID)
			if err != nil {
				res.inconclusive = append(res.inconclusive, fmt.Sprintf("workload %d: engine fault: real kill before op %d: %v", w.idx, k, err))
				continue
			}
			if !exact {
				// the killed execution took another path; only its own log could be compared with its tree
				res.killsSelfOnly++
				continue
			}
			if n != k {
				res.inconclusive = append(res.inconclusive, fmt.Sprintf("workload %d: engine fault: kill aimed at op %d stopped after %d ops", w.idx, k, n))
				continue
			}
			res.killsOK++
		}
	}
	t.Logf("workload %d (memcache=%v): %d steps, %d fs mutations, record+prefixes %v, total %v", w.idx, w.spec.MemCache, res.steps, res.syscalls, tPrefixes, time.Since(t0))
	return res
}

func TestC05(t *testing.T) {
	run := ev.Start(t, "C05", "fault_enumeration",
		"PRNG-generated origin store workloads on a real CAStore + metainfogen (chunked upload + MoveUploadFileToCache, persist flag, Generator.Generate, "+
			"WriteBlobToCacheWithMetaInfo refreshes with the memory cache off and on (drained on demand), metainfo overwrite, unpersist, delete, clean restarts; 2-3 blobs interleaved); "+
			"one case = (workload, crash prefix k of its strace-recorded file-system mutations), ALL prefixes k=0..N of every workload are explored; "+
			"a case is non-trivial when the crash point lies strictly inside a logical operation (some but not all of its mutations applied).")
	defer run.Finish()
	run.Assume("process-crash model: completed system calls persist, nothing later happens; no torn single writes, no reordering (not a power-loss model)")
	run.Assume("strace decoding and the fsrec replayer are trusted; re-validated on every run by the full-log fidelity check and by real SIGKILL cross-validation (contents of _last_access_time sidecars are not compared across runs; runs whose temporary upload names differ by their random uuid are compared with the replay of their own log)")
	run.Assume("after the restart the scripted storage backend holds every blob of the workload (uploads are assumed written back or re-pushed by the client); single-origin hash ring; background cleanup disabled; a metainfo request that still answers 202 after 3 completed refreshes of the digest (counted at the scripted backend) is a violation; wall-clock only as a watchdog for a refresh that never completes (inconclusive)")

	base := ev.TempDir(t, "c05-")
	bin := filepath.Join(base, "c05child")
	if err := fsrec.BuildChild("./c05/cmd/c05child", bin); err != nil {
		t.Fatalf("build child: %v", err)
	}
	t.Logf("child %s built from the harness module with modfile %q, VERIF_REPO=%q (empty = /repo)", bin, fsrec.ChildModfile(), os.Getenv("VERIF_REPO"))
	if _, err := exec.LookPath("strace"); err != nil {
		run.Inconclusive("strace not available")
		return
	}
	nW := run.N(4, 90)
	nKills := run.N(2, 3)
	var wls []workload
	for i := 0; i < nW; i++ {
		wls = append(wls, workload{idx: i, spec: genSpec(run.Rand(fmt.Sprintf("workload-%d", i)), i)})
	}
	replayW, replayK := -1, -1
	if rc := run.ReplayCase(); rc != "" {
		if _, err := fmt.Sscanf(rc, "w%d/k%d", &replayW, &replayK); err != nil {
			t.Fatalf("bad replay case %q", rc)
		}
	}
	results := make([]wlResult, len(wls))
	sem := make(chan struct{}, 8)
	var wg sync.WaitGroup
	for i := range wls {
		if replayW >= 0 && i != replayW {
			continue
		}
		wg.Add(1)
		go func(i int) {
			defer wg.Done()
			sem <- struct{}{}
			defer func() { <-sem }()
			results[i] = runWorkload(t, bin, base, wls[i], run.Rand(fmt.Sprintf("kills-%d", i)), nKills, replayK)
		}(i)
	}
	wg.Wait()
	allFidelity := true
	for i, res := range results {
		if replayW >= 0 && i != replayW {
			continue
		}
		for _, c := range res.cases {
			run.Case(c.key, c.nontrivial)
		}
		for _, f := range res.findings {
			run.Violation(f.Sig, f.Case, f.Witness)
		}
		for _, s := range res.inconclusive {
			run.Inconclusive(s)
		}
		if res.sample != nil {
			run.Sample(res.sample)
		}
		if !res.fidelityOK {
			allFidelity = false
		} else {
			run.Count("fidelity_checks_passed", 1)
		}
		run.Count("workloads", 1)
		if wls[i].spec.MemCache {
			run.Count("workloads_memory_cache_on", 1)
		}
		run.Count("logical_steps", int64(res.steps))
		run.Count("fs_mutations_recorded", int64(res.syscalls))
		run.Count("crash_prefixes_explored", int64(res.prefixes))
		run.Count("crash_prefixes_mid_operation", int64(res.midOp))
		run.Count("real_kill_cross_validations", int64(res.kills))
		run.Count("real_kill_cross_validations_matching", int64(res.killsOK))
		run.Count("real_kill_cross_validations_divergent_execution_self_replay_only", int64(res.killsSelfOnly))
		for k, n := range res.counts {
			run.Count(k, int64(n))
		}
	}
	run.Set("exhaustive_per_workload", allFidelity)
}
