// Package c05wl holds the types shared by the C05 test and its child process.
package c05wl

// Step is one logical operation of the origin/proxy store workload.
type Step struct {
	// upstart | uppatch | upcommit | persist | unpersist | generate | refresh | drain | overwritemi | delete | restart
	Op          string `json:"op"`
	Blob        int    `json:"blob"`                   // index into Spec.Blobs
	Chunk       [2]int `json:"chunk,omitempty"`        // uppatch: [start, end)
	PieceLength int64  `json:"piece_length,omitempty"` // refresh, overwritemi
	// uppatch / refresh: the bytes sent differ from the blob in one byte, so the
	// commit under the blob's digest must be rejected
	Corrupt bool `json:"corrupt,omitempty"`
}

// Spec is a complete workload on one CAStore.
type Spec struct {
	MemCache    bool     `json:"mem_cache"`    // memory cache enabled (drained on demand by "drain" steps)
	PieceLength int64    `json:"piece_length"` // metainfogen piece length
	Blobs       [][]byte `json:"blobs"`
	Steps       []Step   `json:"steps"`
}

// StepResult is printed by the workload child after every step.
type StepResult struct {
	I   int    `json:"i"`
	OK  bool   `json:"ok"`
	Err string `json:"err,omitempty"`
}

// RecoverReq asks the recovery child to restart an origin on Dir.
type RecoverReq struct {
	Dir         string   `json:"dir"`
	PieceLength int64    `json:"piece_length"`
	Blobs       [][]byte `json:"blobs"` // what the scripted storage backend holds
}

// BlobObs is what the restarted origin says about one listed name.
type BlobObs struct {
	HasData bool `json:"has_data"`
	// the store said "not exist" although <cache>/<shards>/<name>/data is on disk
	DataOnDisk bool   `json:"data_on_disk,omitempty"`
	ReadErr    string `json:"read_err,omitempty"`
	Bytes      []byte `json:"bytes"`
	// GET /internal/namespace/<ns>/blobs/<d>/metainfo, polled while 202
	Statuses     []int  `json:"statuses"`
	MetaInfo     []byte `json:"metainfo,omitempty"` // body of the final 200
	LastBody     string `json:"last_body,omitempty"`
	StillPending bool   `json:"still_pending,omitempty"` // watchdog: a refresh never completed
	// the endpoint still answered 202 after 3 refreshes of the digest had completed
	Still202AfterRefreshes bool `json:"still_202_after_refreshes,omitempty"`
	RefreshDownloads       int  `json:"refresh_downloads"` // downloads of the blob the backend served
	// persist flag
	PersistState string `json:"persist_state"` // absent | true | false | error
	PersistErr   string `json:"persist_err,omitempty"`
	// metainfo read directly from the store after the HTTP exchange
	StoreMetaErr string `json:"store_meta_err,omitempty"`
}

// RecoverResp is the recovery child's answer.
type RecoverResp struct {
	Panic         string             `json:"panic,omitempty"`
	OpenErr       string             `json:"open_err,omitempty"` // NewCAStore error
	UploadEntries []string           `json:"upload_entries"`     // what is left in the upload dir after start
	ListErr       string             `json:"list_err,omitempty"`
	Listed        []string           `json:"listed"`
	Blobs         map[string]BlobObs `json:"blobs"`
}
