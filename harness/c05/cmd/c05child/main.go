// c05child is the child process of the C05 crash-prefix check.
//
//	c05child work <spec.json> <root>   run the origin store workload on one locked OS thread (under strace)
//	c05child recover                   serve recovery requests (JSON lines on stdin/stdout)
package main

import (
	"bufio"
	"bytes"
	"encoding/json"
	"fmt"
	"io"
	"net/http"
	"net/http/httptest"
	"os"
	"path/filepath"
	"runtime"
	"runtime/debug"
	"sort"
	"sync"
	"syscall"
	"time"

	"github.com/andres-erbsen/clock"
	"github.com/c2h5oh/datasize"
	"github.com/uber-go/tally"

	"github.com/uber/kraken/core"
	"github.com/uber/kraken/lib/backend"
	"github.com/uber/kraken/lib/backend/backenderrors"
	"github.com/uber/kraken/lib/blobrefresh"
	"github.com/uber/kraken/lib/hashring"
	"github.com/uber/kraken/lib/healthcheck"
	"github.com/uber/kraken/lib/hostlist"
	"github.com/uber/kraken/lib/metainfogen"
	"github.com/uber/kraken/lib/store"
	"github.com/uber/kraken/lib/store/metadata"
	"github.com/uber/kraken/origin/blobclient"
	"github.com/uber/kraken/origin/blobserver"

	"verif/harness/c05/c05wl"
	"verif/harness/internal/fsrec"
)

func init() { runtime.LockOSThread() }

func mark(kind string, i int, text string) {
	_ = syscall.Mkdir(fmt.Sprintf("%s%s/%d/%s", fsrec.SentinelPrefix, kind, i, text), 0)
}

const namespace = "verif-ns"

// completedRefreshes is how many finished refreshes of a digest the metainfo
// endpoint may answer 202 to before that is judged a permanent failure.
const completedRefreshes = 3

func storeConfig(root string, memCache bool) store.CAStoreConfig {
	cfg := store.CAStoreConfig{
		UploadDir:     filepath.Join(root, "upload"),
		CacheDir:      filepath.Join(root, "cache"),
		UploadCleanup: store.CleanupConfig{Disabled: true},
		CacheCleanup:  store.CleanupConfig{Disabled: true},
	}
	if memCache {
		cfg.MemoryCache = store.MemoryCacheConfig{Enabled: true, MaxSize: 1 << 20, DrainWorkers: 1}
	}
	return cfg
}

func generator(cas *store.CAStore, pl int64) (*metainfogen.Generator, error) {
	return metainfogen.New(metainfogen.Config{
		PieceLengths: map[datasize.ByteSize]datasize.ByteSize{0: datasize.ByteSize(pl)},
	}, cas)
}

func digestOf(b []byte) core.Digest {
	d, err := core.NewDigester().FromBytes(b)
	if err != nil {
		panic(err)
	}
	return d
}

func work(specPath, root string) error {
	b, err := os.ReadFile(specPath)
	if err != nil {
		return err
	}
	var spec c05wl.Spec
	if err := json.Unmarshal(b, &spec); err != nil {
		return err
	}
	out := json.NewEncoder(os.Stdout)
	// A mock clock: the drain / TTL tickers never fire, every mutation happens on this thread.
	clk := clock.NewMock()
	clk.Set(time.Unix(1_600_000_000, 0))
	open := func() (*store.CAStore, *metainfogen.Generator, error) {
		cas, err := store.VerifC05NewCAStore(storeConfig(root, spec.MemCache), tally.NoopScope, clk)
		if err != nil {
			return nil, nil, err
		}
		g, err := generator(cas, spec.PieceLength)
		return cas, g, err
	}
	mark("b", 0, "open")
	cas, gen, err := open()
	if err != nil {
		mark("e", 0, "err")
		return err
	}
	mark("e", 0, "ok")
	uids := map[int]string{}
	for i, s := range spec.Steps {
		res := c05wl.StepResult{I: i}
		var blob []byte
		var d core.Digest
		if s.Blob >= 0 && s.Blob < len(spec.Blobs) {
			blob = spec.Blobs[s.Blob]
			d = digestOf(blob)
		}
		mark("b", i+1, s.Op)
		var err error
		switch s.Op {
		case "upstart":
			uids[s.Blob] = fmt.Sprintf("upload-%d-%d", s.Blob, i)
			err = cas.CreateUploadFile(uids[s.Blob], 0)
		case "uppatch":
			var f store.FileReadWriter
			f, err = cas.GetUploadFileReadWriter(uids[s.Blob])
			if err != nil {
				break
			}
			if _, err = f.Seek(int64(s.Chunk[0]), 0); err == nil {
				chunk := append([]byte{}, blob[s.Chunk[0]:s.Chunk[1]]...)
				if s.Corrupt && len(chunk) > 0 {
					chunk[len(chunk)/2] ^= 0x21
				}
				_, err = io.CopyN(f, bytes.NewReader(chunk), int64(len(chunk)))
			}
			if cerr := f.Close(); err == nil {
				err = cerr
			}
		case "upcommit":
			err = cas.MoveUploadFileToCache(uids[s.Blob], d.Hex())
		case "persist":
			_, err = cas.SetCacheFileMetadata(d.Hex(), metadata.NewPersist(true))
		case "unpersist":
			_, err = cas.SetCacheFileMetadata(d.Hex(), metadata.NewPersist(false))
		case "generate":
			err = gen.Generate(d)
		case "refresh":
			payload := append([]byte{}, blob...)
			if s.Corrupt && len(payload) > 0 {
				payload[len(payload)/2] ^= 0x21
			}
			err = cas.WriteBlobToCacheWithMetaInfo(d.Hex(), uint64(len(payload)), func(w store.FileReadWriter) error {
				_, werr := w.Write(payload)
				return werr
			}, s.PieceLength)
		case "drain":
			cas.VerifC05DrainNext()
		case "overwritemi":
			var f store.FileReader
			f, err = cas.GetCacheFileReader(d.Hex())
			if err != nil {
				break
			}
			var mi *core.MetaInfo
			mi, err = core.NewMetaInfo(d, f, s.PieceLength)
			_ = f.Close()
			if err == nil {
				_, err = cas.SetCacheFileMetadata(d.Hex(), metadata.NewTorrentMeta(mi))
			}
		case "delete":
			err = cas.DeleteCacheFile(d.Hex())
		case "restart":
			cas.Close()
			cas, gen, err = open()
			if err != nil {
				mark("e", i+1, "err")
				return err
			}
		default:
			err = fmt.Errorf("unknown op %q", s.Op)
		}
		if err != nil {
			res.Err = err.Error()
			mark("e", i+1, "err")
		} else {
			res.OK = true
			mark("e", i+1, "ok")
		}
		_ = out.Encode(res)
	}
	return nil
}

// scriptedBackend is the storage backend behind the origin: it holds the
// workload's blobs and counts the downloads it was asked for per blob. The
// refresher runs at most one refresh per digest at a time, so the k-th download
// start for d proves that k-1 refreshes of d have completed.
type scriptedBackend struct {
	blobs  map[string][]byte
	mu     *sync.Mutex
	starts map[string]int
}

func (b scriptedBackend) downloadStarts(name string) int {
	b.mu.Lock()
	defer b.mu.Unlock()
	return b.starts[name]
}

func (b scriptedBackend) Stat(ns, name string) (*core.BlobInfo, error) {
	if v, ok := b.blobs[name]; ok {
		return core.NewBlobInfo(int64(len(v))), nil
	}
	return nil, backenderrors.ErrBlobNotFound
}
func (b scriptedBackend) Upload(ns, name string, src io.Reader) error { return nil }
func (b scriptedBackend) Download(ns, name string, dst io.Writer) error {
	v, ok := b.blobs[name]
	if !ok {
		return backenderrors.ErrBlobNotFound
	}
	b.mu.Lock()
	b.starts[name]++
	b.mu.Unlock()
	_, err := dst.Write(v)
	return err
}
func (b scriptedBackend) List(prefix string, opts ...backend.ListOption) (*backend.ListResult, error) {
	return &backend.ListResult{}, nil
}
func (b scriptedBackend) Close() error { return nil }

func observe(req c05wl.RecoverReq) (resp c05wl.RecoverResp) {
	defer func() {
		if r := recover(); r != nil {
			resp.Panic = fmt.Sprintf("%v\n%s", r, debug.Stack())
		}
	}()
	resp.Blobs = map[string]c05wl.BlobObs{}
	resp.Listed = []string{}
	resp.UploadEntries = []string{}
	cas, err := store.NewCAStore(storeConfig(req.Dir, false), tally.NoopScope)
	if err != nil {
		resp.OpenErr = err.Error()
		return
	}
	defer cas.Close()
	if es, err := os.ReadDir(filepath.Join(req.Dir, "upload")); err == nil {
		for _, e := range es {
			resp.UploadEntries = append(resp.UploadEntries, e.Name())
		}
	}
	names, err := cas.ListCacheFiles()
	if err != nil {
		resp.ListErr = err.Error()
		return
	}
	sort.Strings(names)
	resp.Listed = names

	mg, err := generator(cas, req.PieceLength)
	if err != nil {
		resp.OpenErr = "harness: " + err.Error()
		return
	}
	sb := scriptedBackend{blobs: map[string][]byte{}, mu: &sync.Mutex{}, starts: map[string]int{}}
	for _, b := range req.Blobs {
		sb.blobs[digestOf(b).Hex()] = b
	}
	bm := backend.ManagerFixture()
	if err := bm.Register(".*", sb, false); err != nil {
		resp.OpenErr = "harness: " + err.Error()
		return
	}
	br := blobrefresh.New(blobrefresh.Config{}, tally.NoopScope, cas, bm, mg)
	const self = "origin1:80"
	ring := hashring.New(hashring.Config{MaxReplica: 1}, hostlist.Fixture(self), healthcheck.IdentityFilter{}, tally.NoopScope)
	srv, err := blobserver.New(blobserver.Config{}, tally.NoopScope, clock.New(), self, ring, cas,
		blobclient.NewProvider(), nil, core.PeerContext{}, bm, br, mg, nil)
	if err != nil {
		resp.OpenErr = "harness: blobserver.New: " + err.Error()
		return
	}
	ts := httptest.NewServer(srv.Handler())
	defer ts.Close()

	for _, name := range names {
		var o c05wl.BlobObs
		r, err := cas.GetCacheFileReader(name)
		if err != nil {
			if !os.IsNotExist(err) {
				o.ReadErr = err.Error()
			} else if len(name) >= 4 {
				if _, serr := os.Stat(filepath.Join(req.Dir, "cache", name[0:2], name[2:4], name, "data")); serr == nil {
					o.DataOnDisk = true
					o.ReadErr = err.Error()
				}
			}
			resp.Blobs[name] = o
			continue
		}
		o.HasData = true
		o.Bytes, err = io.ReadAll(r)
		_ = r.Close()
		if err != nil {
			o.ReadErr = err.Error()
		}
		// persist flag (read before the metainfo exchange, which may refresh the blob)
		var p metadata.Persist
		switch err := cas.GetCacheFileMetadata(name, &p); {
		case err == nil && p.Value:
			o.PersistState = "true"
		case err == nil:
			o.PersistState = "false"
		case os.IsNotExist(err):
			o.PersistState = "absent"
		default:
			o.PersistState, o.PersistErr = "error", err.Error()
		}
		// metainfo endpoint: 200, or 202 followed by 200; anything else is retried twice more
		url := fmt.Sprintf("%s/internal/namespace/%s/blobs/sha256:%s/metainfo", ts.URL, namespace, name)
		failures := 0
		for polls := 0; polls < 1000; polls++ {
			hr, err := http.Get(url)
			if err != nil {
				o.LastBody = "transport: " + err.Error()
				o.Statuses = append(o.Statuses, -1)
				break
			}
			body, _ := io.ReadAll(hr.Body)
			_ = hr.Body.Close()
			o.Statuses = append(o.Statuses, hr.StatusCode)
			if hr.StatusCode == http.StatusOK {
				o.MetaInfo = body
				break
			}
			o.LastBody = string(body)
			if hr.StatusCode == http.StatusAccepted {
				// decided by logical steps: this 202 was answered although
				// completedRefreshes refreshes of the digest had already finished
				if sb.downloadStarts(name) > completedRefreshes {
					o.Still202AfterRefreshes = true
					break
				}
				time.Sleep(10 * time.Millisecond)
				continue
			}
			failures++
			if failures >= 3 {
				break
			}
			time.Sleep(25 * time.Millisecond)
		}
		o.RefreshDownloads = sb.downloadStarts(name)
		if n := len(o.Statuses); n > 0 && o.Statuses[n-1] == http.StatusAccepted && !o.Still202AfterRefreshes {
			o.StillPending = true // a refresh never completed within the watchdog
		}
		var tm metadata.TorrentMeta
		if err := cas.GetCacheFileMetadata(name, &tm); err != nil {
			o.StoreMetaErr = err.Error()
		}
		resp.Blobs[name] = o
	}
	return
}

func serve() error {
	in := bufio.NewReaderSize(os.Stdin, 1<<20)
	out := json.NewEncoder(os.Stdout)
	for {
		line, err := in.ReadBytes('\n')
		if len(line) > 1 {
			var req c05wl.RecoverReq
			if jerr := json.Unmarshal(line, &req); jerr != nil {
				return jerr
			}
			if oerr := out.Encode(observe(req)); oerr != nil {
				return oerr
			}
		}
		if err == io.EOF {
			return nil
		}
		if err != nil {
			return err
		}
	}
}

func main() {
	var err error
	switch {
	case len(os.Args) == 4 && os.Args[1] == "work":
		err = work(os.Args[2], os.Args[3])
	case len(os.Args) == 2 && os.Args[1] == "recover":
		err = serve()
	default:
		err = fmt.Errorf("usage: c05child work <spec.json> <root> | recover")
	}
	if err != nil {
		fmt.Fprintln(os.Stderr, "c05child:", err)
		os.Exit(2)
	}
}
