// C06: the disk blob store restores its state after a crash at any point.
//
// Crash-prefix engine (DESIGN.md 2.4): a child built from /repo runs a
// PRNG-determined sequence of disk.Store operations on one locked OS thread
// under strace; every prefix of the recorded file-system mutations is
// materialised as a directory, the real disk.NewStore is started on a copy of
// it (recovery child, panics recovered) and judged against a shadow model of the
// operations that had completed plus the one in flight.
package c06

import (
	"bytes"
	"encoding/json"
	"fmt"
	"math/rand"
	"os"
	"os/exec"
	"path/filepath"
	"sort"
	"strings"
	"sync"
	"testing"
	"time"

	"github.com/uber/kraken/core"
	"github.com/uber/kraken/lib/store/metadata"

	"verif/harness/c06/c06wl"
	"verif/harness/internal/ev"
	"verif/harness/internal/fsrec"
	"verif/harness/internal/gen"
)

// ---------------------------------------------------------------- generator

type genBlob struct {
	state  int // 0 absent, 1 incomplete, 2 complete
	handle bool
	banned bool
	plan   []byte // bytes this incarnation will hold when fully written
	wrote  int
	md     map[string]bool
}

func mdValue(r *rand.Rand, kind string, blob []byte, key string) []byte {
	switch kind {
	case "persist":
		b, _ := metadata.NewPersist(r.Intn(2) == 0).Serialize()
		return b
	case "lat":
		b, _ := metadata.NewLastAccessTime(time.Unix(1_500_000_000+int64(r.Intn(1_000_000)), 0)).Serialize()
		return b
	default:
		d, _ := core.NewSHA256DigestFromHex(key)
		mi, err := core.NewMetaInfo(d, bytes.NewReader(blob), int64(1+r.Intn(16)))
		if err != nil {
			panic(err)
		}
		b, _ := mi.Serialize()
		return b
	}
}

func genSpec(r *rand.Rand, cfg c06wl.Config, nSteps int) (c06wl.Spec, []string) {
	nKeys := 3 + r.Intn(2)
	keys := make([]string, nKeys)
	for i := range keys {
		keys[i] = gen.Hex(r, 64)
	}
	// two keys share the first shard directory
	keys[1] = keys[0][:2] + keys[1][2:]
	blobs := map[string]*genBlob{}
	for _, k := range keys {
		blobs[k] = &genBlob{md: map[string]bool{}}
	}
	spec := c06wl.Spec{Config: cfg}
	mdKinds := []string{"persist", "lat", "torrentmeta"}
	add := func(s c06wl.Step) { spec.Steps = append(spec.Steps, s) }
	reopens := 0
	for len(spec.Steps) < nSteps {
		k := keys[r.Intn(nKeys)]
		b := blobs[k]
		roll := r.Intn(100)
		if roll < 3 { // deliberately invalid operation: must fail without touching the tree
			switch r.Intn(3) {
			case 0:
				if b.state == 0 {
					add(c06wl.Step{Op: "delete", Key: k})
				} else {
					add(c06wl.Step{Op: "create", Key: k, Size: 1})
				}
			case 1:
				if b.state == 0 {
					add(c06wl.Step{Op: "complete", Key: k})
				}
			case 2:
				if b.state == 0 {
					add(c06wl.Step{Op: "ban", Key: k})
				}
			}
			continue
		}
		if roll < 7 && len(spec.Steps) > 4 && reopens < 2 {
			reopens++
			add(c06wl.Step{Op: "reopen"})
			for _, g := range blobs {
				g.handle = false
				if g.state == 1 && !cfg.Reboot {
					*g = genBlob{md: map[string]bool{}}
				}
			}
			continue
		}
		if roll < 9 && len(spec.Steps) > nSteps*2/3 {
			add(c06wl.Step{Op: "clean", Target: []int{0, 30, 60}[r.Intn(3)], Respect: r.Intn(2) == 0})
			// the generator does not know what Clean removes; stop planning on stale state
			for len(spec.Steps) < nSteps {
				add(c06wl.Step{Op: "create", Key: keys[r.Intn(nKeys)], Size: uint64(8 + r.Intn(24))})
			}
			break
		}
		switch b.state {
		case 0:
			n := []int{0, 1, 17, 24, 31, 40, 48}[r.Intn(7)]
			b.plan = gen.Bytes(r, n)
			b.wrote = 0
			size := uint64(n)
			if r.Intn(5) == 0 {
				size += uint64(r.Intn(9)) // reserve more than will be written
			}
			b.state, b.handle, b.banned, b.md = 1, true, false, map[string]bool{}
			add(c06wl.Step{Op: "create", Key: k, Size: size})
		case 1:
			switch {
			case b.handle && b.wrote < len(b.plan) && roll < 60:
				n := 1 + r.Intn(len(b.plan)-b.wrote)
				if r.Intn(2) == 0 {
					n = len(b.plan) - b.wrote
				}
				off := int64(b.wrote)
				if r.Intn(2) == 0 && b.wrote == 0 {
					off = -1 // sequential Write from offset 0
				}
				add(c06wl.Step{Op: "write", Key: k, Data: b.plan[b.wrote : b.wrote+n], Off: off})
				b.wrote += n
			case b.handle && (b.wrote == len(b.plan) || roll < 64):
				b.handle = false
				add(c06wl.Step{Op: "closef", Key: k})
			case roll < 70 && (b.handle || r.Intn(2) == 0):
				if b.banned {
					add(c06wl.Step{Op: "unban", Key: k})
				} else {
					add(c06wl.Step{Op: "ban", Key: k})
				}
				b.banned = !b.banned
			case roll < 80:
				// prefer a metadata kind this blob does not have yet: the first value of a
				// kind has no previous file to fall back on
				kind := mdKinds[r.Intn(3)]
				for _, c := range r.Perm(3) {
					if !b.md[mdKinds[c]] {
						kind = mdKinds[c]
						break
					}
				}
				b.md[kind] = true
				add(c06wl.Step{Op: "setmd", Key: k, MD: kind, Data: mdValue(r, kind, b.plan, k)})
			case roll < 84:
				add(c06wl.Step{Op: "delete", Key: k})
				*b = genBlob{md: map[string]bool{}}
			case !b.handle || roll < 90:
				b.state = 2
				add(c06wl.Step{Op: "complete", Key: k})
			}
		case 2:
			switch {
			case roll < 35:
				kind := mdKinds[r.Intn(3)]
				if r.Intn(2) == 0 {
					for _, c := range r.Perm(3) {
						if !b.md[mdKinds[c]] {
							kind = mdKinds[c]
							break
						}
					}
				}
				b.md[kind] = true
				add(c06wl.Step{Op: "setmd", Key: k, MD: kind, Data: mdValue(r, kind, b.plan, k)})
			case roll < 45:
				kind := mdKinds[r.Intn(3)]
				delete(b.md, kind)
				add(c06wl.Step{Op: "delmd", Key: k, MD: kind})
			case roll < 55 && b.md["lat"]:
				add(c06wl.Step{Op: "wamd", Key: k, MD: "lat", Data: mdValue(r, "lat", nil, k), Off: 0})
			case roll < 72:
				if b.banned {
					add(c06wl.Step{Op: "unban", Key: k})
				} else {
					add(c06wl.Step{Op: "ban", Key: k})
				}
				b.banned = !b.banned
			case roll < 86:
				add(c06wl.Step{Op: "delete", Key: k})
				*b = genBlob{md: map[string]bool{}}
			case b.handle:
				b.handle = false
				add(c06wl.Step{Op: "closef", Key: k})
			}
		}
	}
	return spec, keys
}

// ---------------------------------------------------------------- shadow model

type blobM struct {
	Complete bool              `json:"complete"`
	Banned   bool              `json:"banned"`
	Reserved uint64            `json:"reserved"`
	Data     []byte            `json:"data"`
	MD       map[string][]byte `json:"md"`
}

type modelState map[string]*blobM

func (m modelState) clone() modelState {
	out := modelState{}
	for k, b := range m {
		c := *b
		c.Data = append([]byte{}, b.Data...)
		c.MD = map[string][]byte{}
		for s, v := range b.MD {
			c.MD[s] = v
		}
		out[k] = &c
	}
	return out
}

// applyStep advances the model by one completed step whose outcome (ok, lists of
// keys the live store reported afterwards) is known. It returns the keys the
// step may have touched.
func applyStep(m modelState, s c06wl.Step, res c06wl.StepResult, cfg c06wl.Config) (modelState, map[string]bool, error) {
	n := m.clone()
	affected := map[string]bool{}
	if s.Key != "" {
		affected[s.Key] = true
	}
	b := n[s.Key]
	if res.OK {
		switch s.Op {
		case "create":
			n[s.Key] = &blobM{Reserved: s.Size, Data: []byte{}, MD: map[string][]byte{}}
		case "write":
			if b == nil {
				return nil, nil, fmt.Errorf("write to a key the model does not hold")
			}
			off := s.Off
			if off < 0 {
				off = 0
			}
			end := int(off) + len(s.Data)
			if len(b.Data) < end {
				b.Data = append(b.Data, make([]byte, end-len(b.Data))...)
			}
			copy(b.Data[off:], s.Data)
		case "closef":
		case "complete":
			b.Complete = true
		case "delete":
			delete(n, s.Key)
		case "ban":
			b.Banned = true
		case "unban":
			b.Banned = false
		case "setmd":
			b.MD[c06wl.MDKinds[s.MD]] = res.Ser
		case "delmd":
			delete(b.MD, c06wl.MDKinds[s.MD])
		case "wamd":
			suf := c06wl.MDKinds[s.MD]
			v := append([]byte{}, b.MD[suf]...)
			end := int(s.Off) + len(s.Data)
			if len(v) < end {
				v = append(v, make([]byte, end-len(v))...)
			}
			copy(v[s.Off:], s.Data)
			b.MD[suf] = v
		case "clean":
		case "reopen":
			if !cfg.Reboot {
				for k, bb := range n {
					if !bb.Complete {
						delete(n, k)
						affected[k] = true
					}
				}
			}
		}
	}
	// reconcile with what the live store lists (evictions, Clean victims)
	listed := map[string]bool{}
	for _, k := range res.Complete {
		listed[k] = true
		if bb := n[k]; bb == nil || !bb.Complete {
			return nil, nil, fmt.Errorf("live store lists %s as complete, the model does not", k)
		}
	}
	for _, k := range res.Incomplete {
		listed[k] = true
		if bb := n[k]; bb == nil || bb.Complete {
			return nil, nil, fmt.Errorf("live store lists %s as incomplete, the model does not", k)
		}
	}
	for k := range n {
		if !listed[k] {
			if s.Op != "create" && s.Op != "clean" && s.Op != "reopen" {
				return nil, nil, fmt.Errorf("key %s vanished from the live store during %s", k, s.Op)
			}
			delete(n, k) // evicted / cleaned
			affected[k] = true
		}
	}
	return n, affected, nil
}

// recovered maps a pre-crash blob state to what a restart must report.
func recovered(b *blobM, cfg c06wl.Config) *blobM {
	if b == nil {
		return nil
	}
	if !b.Complete && !cfg.Reboot {
		return nil // incomplete blobs are dropped as configured
	}
	return b
}

func matches(o c06wl.BlobObs, e *blobM) (bool, string) {
	if e == nil {
		if o.Present {
			return false, "present-but-expected-absent"
		}
		return true, ""
	}
	switch {
	case !o.Present:
		return false, "missing"
	case o.Complete != e.Complete:
		if o.Complete {
			return false, "incomplete-blob-reported-complete"
		}
		return false, "complete-blob-reported-incomplete"
	case o.OpenErr != "":
		return false, "open-fails"
	case !bytes.Equal(o.Data, e.Data):
		return false, "bytes-differ"
	case o.Banned != e.Banned:
		return false, "eviction-ban-differs"
	}
	want := e.Reserved
	if e.Complete {
		want = uint64(len(e.Data))
	}
	if o.Size != want {
		return false, "reserved-size-differs"
	}
	if len(o.MDErr) > 0 {
		return false, "metadata-unreadable"
	}
	if len(o.MD) != len(e.MD) {
		return false, "metadata-set-differs"
	}
	for s, v := range e.MD {
		if !bytes.Equal(o.MD[s], v) {
			return false, "metadata-value-differs"
		}
	}
	return true, ""
}

// partialRemoval: the blob was being removed (Delete / eviction / Clean / the
// incomplete-blob wipe of a restart) when the process died. RemoveAll unlinks
// the sidecars one by one, so the blob may still be listed with its bytes but
// with some of its sidecars already gone. The statement gives a blob under
// removal no guarantee; accepted and counted.
func partialRemoval(o c06wl.BlobObs, old *blobM) bool {
	if old == nil || !o.Present || o.Complete != old.Complete || o.OpenErr != "" || !bytes.Equal(o.Data, old.Data) {
		return false
	}
	if o.Banned && !old.Banned {
		return false
	}
	for s, v := range o.MD {
		if !bytes.Equal(old.MD[s], v) {
			return false
		}
	}
	return len(o.MDErr) == 0
}

// ---------------------------------------------------------------- oracle

type finding struct {
	Sig     string
	Case    string
	Witness interface{}
}

type wlResult struct {
	idx           int
	findings      []finding
	inconclusive  []string
	prefixes      int
	midOp         int
	syscalls      int
	steps         int
	kills         int
	killsOK       int
	killsSelfOnly int
	fidelityOK    bool
	tolerated     int
	cases         []caseRec
	sample        interface{}
	windows       map[string]int
}

type caseRec struct {
	key        string
	nontrivial bool
}

func blobDir(cfg c06wl.Config, key string, complete bool) string {
	d := "incomplete"
	if complete {
		d = "complete"
	}
	for i := 0; i < cfg.Shard && i < len(key)/2; i++ {
		d = filepath.Join(d, key[2*i:2*i+2])
	}
	return filepath.Join(d, key)
}

func hasTmpFile(snap map[string]fsrec.Entry, dir string) bool {
	for p := range snap {
		if strings.HasPrefix(p, dir+"/") && strings.HasSuffix(p, "-tmp") {
			return true
		}
	}
	return false
}

func short(k string) string {
	if len(k) > 8 {
		return k[:8]
	}
	return k
}

func windowKind(step *c06wl.Step, key string) string {
	if step == nil {
		return "no-op-in-flight"
	}
	switch step.Op {
	case "create":
		if key != "" && key != step.Key {
			return "evict-in-flight"
		}
	}
	return step.Op + "-in-flight"
}

type workload struct {
	idx  int
	spec c06wl.Spec
	keys []string
}

func runWorkload(t *testing.T, bin, base string, w workload, run *ev.Run, killRand *rand.Rand, nKills int, replayK int) (res wlResult) {
	res.idx = w.idx
	res.windows = map[string]int{}
	dir := filepath.Join(base, fmt.Sprintf("w%d", w.idx))
	_ = os.MkdirAll(dir, 0o755)
	defer os.RemoveAll(dir)
	specPath := filepath.Join(dir, "spec.json")
	sb, _ := json.Marshal(w.spec)
	if err := os.WriteFile(specPath, sb, 0o644); err != nil {
		res.inconclusive = append(res.inconclusive, err.Error())
		return
	}
	root := filepath.Join(dir, "root")
	logPath := filepath.Join(dir, "strace.log")
	t0 := time.Now()
	stdout, stderr, err := fsrec.Record([]string{bin, "work", specPath, root}, os.Environ(), logPath, nil, 2*time.Minute)
	tRecord := time.Since(t0)
	if err != nil {
		res.inconclusive = append(res.inconclusive, fmt.Sprintf("workload %d: recording failed: %v: %s", w.idx, err, tail(stderr, 800)))
		return
	}
	rec, err := fsrec.Load(logPath, root, dir)
	if err != nil {
		res.inconclusive = append(res.inconclusive, fmt.Sprintf("workload %d: engine fault: %v", w.idx, err))
		return
	}
	res.fidelityOK = true
	// step results -> shadow model states M[0..n] (M[i] = after i steps)
	var results []c06wl.StepResult
	dec := json.NewDecoder(bytes.NewReader(stdout))
	for dec.More() {
		var r c06wl.StepResult
		if err := dec.Decode(&r); err != nil {
			res.inconclusive = append(res.inconclusive, fmt.Sprintf("workload %d: bad child output: %v", w.idx, err))
			return
		}
		results = append(results, r)
	}
	if len(results) != len(w.spec.Steps)+1 || len(rec.Spans) != len(w.spec.Steps)+1 {
		res.inconclusive = append(res.inconclusive, fmt.Sprintf("workload %d: %d results / %d spans for %d steps", w.idx, len(results), len(rec.Spans), len(w.spec.Steps)))
		return
	}
	models := []modelState{{}}
	affected := []map[string]bool{}
	for i, s := range w.spec.Steps {
		m, aff, err := applyStep(models[i], s, results[i+1], w.spec.Config)
		if err != nil {
			res.inconclusive = append(res.inconclusive, fmt.Sprintf("workload %d step %d (%s): live store and shadow model disagree: %v", w.idx, i, s.Op, err))
			return
		}
		models = append(models, m)
		affected = append(affected, aff)
	}
	res.steps = len(w.spec.Steps)
	ops := rec.Trace.Ops
	res.syscalls = len(ops)

	recreate := map[string][]byte{}
	for i, k := range w.keys {
		recreate[k] = bytes.Repeat([]byte{byte('a' + i)}, 5+3*i)
	}
	var reqs [][]byte
	var judges []func(fsrec.Reply)
	live, err := fsrec.NewReplayer(filepath.Join(dir, "live"))
	if err != nil {
		res.inconclusive = append(res.inconclusive, err.Error())
		return
	}
	stepDesc := func(i int) string {
		s := w.spec.Steps[i]
		return fmt.Sprintf("%d:%s %s", i, s.Op, short(s.Key))
	}
	for k := 0; k <= len(ops); k++ {
		if err := live.ApplyTo(ops, k); err != nil {
			res.inconclusive = append(res.inconclusive, fmt.Sprintf("workload %d: engine fault: %v", w.idx, err))
			return
		}
		if replayK >= 0 && k != replayK {
			continue
		}
		win := fsrec.WindowOf(rec.Spans, k, len(ops))
		// spans are offset by one (span 0 = initial NewStore)
		completedSteps := win.Completed - 1
		var inflight *c06wl.Step
		inflightIdx := -1
		if win.InFlight >= 1 {
			inflightIdx = win.InFlight - 1
			inflight = &w.spec.Steps[inflightIdx]
		}
		if win.InFlight == 0 {
			completedSteps = 0
		}
		if completedSteps < 0 {
			completedSteps = 0
		}
		mid := win.InFlight >= 0 && k > rec.Spans[win.InFlight].First
		caseID := fmt.Sprintf("w%d/k%d", w.idx, k)
		res.cases = append(res.cases, caseRec{key: ev.JSON([]interface{}{w.spec, k}), nontrivial: mid})
		res.prefixes++
		if mid {
			res.midOp++
		}
		scratch := filepath.Join(dir, fmt.Sprintf("p%d", k))
		if err := fsrec.CopyTree(live.Dir, scratch); err != nil {
			res.inconclusive = append(res.inconclusive, fmt.Sprintf("workload %d: copy: %v", w.idx, err))
			return
		}
		snap, _ := fsrec.Snapshot(scratch)
		rb, _ := json.Marshal(c06wl.RecoverReq{Dir: scratch, Config: w.spec.Config, Keys: w.keys, Recreate: recreate})
		reqs = append(reqs, rb)
		judges = append(judges, func(rep fsrec.Reply) {
			var resp c06wl.RecoverResp
			died, perr := rep.Died, rep.Stderr
			if !died {
				if err := json.Unmarshal(rep.Line, &resp); err != nil {
					res.inconclusive = append(res.inconclusive, fmt.Sprintf("workload %d: bad recovery answer: %v", w.idx, err))
					return
				}
			}
			wk := windowKind(inflight, "")
			res.windows[wk]++
			witness := func(extra map[string]interface{}) map[string]interface{} {
				m := map[string]interface{}{
					"workload": w.idx, "config": w.spec.Config, "spec": w.spec, "prefix_k": k, "total_ops": len(ops),
					"completed_steps": completedSteps, "tree_before_recovery": fsrec.Listing(snap),
				}
				if inflight != nil {
					m["in_flight_step"] = stepDesc(inflightIdx)
					m["next_syscall_not_executed"] = ops[k].String()
				}
				if k > 0 {
					m["last_syscall_executed"] = ops[k-1].String()
				}
				for a, b := range extra {
					m[a] = b
				}
				return m
			}
			addF := func(sig string, extra map[string]interface{}) {
				res.findings = append(res.findings, finding{Sig: sig, Case: caseID, Witness: witness(extra)})
			}
			if died {
				addF("recovery-process-died/"+wk, map[string]interface{}{"stderr": perr})
				return
			}
			if resp.Panic != "" {
				addF("recovery-panics/"+wk, map[string]interface{}{"panic": resp.Panic})
				return
			}
			if resp.OpenErr != "" {
				sig := "newstore-fails/" + wk
				if strings.Contains(resp.OpenErr, "blob size sidecar file is in unexpected format") {
					sig = "newstore-fails/empty-size-sidecar"
				}
				addF(sig, map[string]interface{}{"newstore_error": resp.OpenErr})
				return
			}
			old := models[completedSteps]
			var nw modelState
			var aff map[string]bool
			if inflight != nil {
				nw = models[inflightIdx+1]
				aff = affected[inflightIdx]
			}
			universe := map[string]bool{}
			for _, key := range w.keys {
				universe[key] = true
			}
			for _, key := range resp.ListAny {
				if !universe[key] {
					addF("unknown-key-listed/"+wk, map[string]interface{}{"key": key})
				}
			}
			var sumSizes uint64
			for _, key := range w.keys {
				o := resp.Blobs[key]
				if o.Present {
					sumSizes += o.Size
				}
				eOld := recovered(old[key], w.spec.Config)
				okOld, why := matches(o, eOld)
				ok := okOld
				var eNew *blobM
				if !ok && aff[key] {
					eNew = recovered(nw[key], w.spec.Config)
					ok, _ = matches(o, eNew)
					if !ok && nw[key] == nil && partialRemoval(o, eOld) {
						ok = true
						res.tolerated++
					}
					// the restart wipe of incomplete blobs (reboot=false) in flight
					if !ok && inflight.Op == "reopen" && old[key] != nil && !old[key].Complete && !o.Present {
						ok = true
					}
				}
				if !ok {
					addF("recovered-state-wrong/"+why+"/"+windowKind(inflight, key), map[string]interface{}{
						"key": key, "observed": o, "expected_old": eOld, "expected_new_if_in_flight_applies": eNew,
					})
				}
				if o.Present {
					// ListMetadata must agree with GetMetadata
					have := map[string]bool{}
					for s := range o.MD {
						have[s] = true
					}
					for s := range o.MDErr {
						have[s] = true
					}
					bad := o.ListErr != ""
					seen := map[string]bool{}
					for _, s := range o.Listed {
						if !have[s] || seen[s] {
							bad = true
						}
						seen[s] = true
					}
					for s := range have {
						if !seen[s] {
							bad = true
						}
					}
					if bad {
						sig := "listmetadata-disagrees-with-getmetadata/" + wk
						if hasTmpFile(snap, blobDir(w.spec.Config, key, o.Complete)) {
							sig = "leftover-metadata-tmp-file-listed-as-metadata"
						}
						addF(sig, map[string]interface{}{"key": key, "listed": o.Listed, "getmetadata_ok": keysOf(o.MD), "observed": o})
					}
				}
			}
			if resp.SecondOpenErr != "" || !sameStrings(resp.SecondListAny, resp.ListAny) || !sameStrings(resp.SecondListComplete, resp.ListComplete) {
				addF("second-restart-after-recovery-differs/"+wk, map[string]interface{}{
					"second_open_error": resp.SecondOpenErr, "first_list": resp.ListAny, "second_list": resp.SecondListAny,
					"first_list_complete": resp.ListComplete, "second_list_complete": resp.SecondListComplete})
			}
			if resp.Reserved != sumSizes {
				addF("reserved-size-accounting-differs/"+wk, map[string]interface{}{"reserved": resp.Reserved, "sum_of_blob_sizes": sumSizes})
			}
			for _, key := range w.keys {
				rc, ok := resp.Recreate[key]
				if !ok {
					addF("recreate-not-attempted/"+wk, map[string]interface{}{"key": key})
					continue
				}
				if rc.Stage == "" {
					continue
				}
				idir, cdir := blobDir(w.spec.Config, key, false), blobDir(w.spec.Config, key, true)
				_, iData := snap[idir+"/data"]
				_, iSize := snap[idir+"/_size"]
				_, cDir := snap[cdir]
				_, cData := snap[cdir+"/data"]
				sig := fmt.Sprintf("recreate-fails/%s/%s", rc.Stage, windowKind(inflight, key))
				switch {
				case rc.Stage == "create" && strings.Contains(rc.Err, "file exists") && iData && !iSize && w.spec.Config.Reboot:
					sig = "orphan-incomplete-blob-without-size-sidecar-blocks-create"
				case rc.Stage == "markcomplete" && (strings.Contains(rc.Err, "not empty") || strings.Contains(rc.Err, "file exists")) && cDir && !cData:
					sig = "orphan-complete-dir-without-data-blocks-markcomplete"
				}
				addF(sig, map[string]interface{}{"key": key, "stage": rc.Stage, "error": rc.Err})
			}
		})
	}
	replies, err := fsrec.Pipeline([]string{bin, "recover"}, os.Environ(), reqs, 10*time.Minute)
	if err != nil {
		res.inconclusive = append(res.inconclusive, fmt.Sprintf("workload %d: recovery child: %v", w.idx, err))
		return
	}
	for i, j := range judges {
		j(replies[i])
	}
	if res.sample == nil {
		var descr []string
		for i := range w.spec.Steps {
			descr = append(descr, stepDesc(i))
		}
		res.sample = map[string]interface{}{"workload": w.idx, "config": w.spec.Config, "steps": descr, "fs_mutations": len(ops), "prefixes": res.prefixes}
	}
	tPrefixes := time.Since(t0) - tRecord
	defer func() {
		t.Logf("workload %d: %d steps, %d fs mutations, record %v, prefixes %v, total %v", w.idx, res.steps, res.syscalls, tRecord, tPrefixes, time.Since(t0))
	}()
	// cross-validation by real kills
	if replayK < 0 && len(ops) > 0 {
		for i := 0; i < nKills; i++ {
			k := killRand.Intn(len(ops))
			kroot := filepath.Join(dir, fmt.Sprintf("kill%d", i), "root")
			_ = os.MkdirAll(filepath.Dir(kroot), 0o755)
			klog := filepath.Join(dir, fmt.Sprintf("kill%d.log", i))
			ks := fsrec.KillAt(ops[k])
			_, _, _ = fsrec.Record([]string{bin, "work", specPath, kroot}, os.Environ(), klog, &ks, 2*time.Minute)
			res.kills++
			n, exact, err := rec.CrossValidate(klog, kroot, dir, nil)
			if err != nil {
				res.inconclusive = append(res.inconclusive, fmt.Sprintf("workload %d: engine fault: real kill before op %d: %v", w.idx, k, err))
				continue
			}
			if !exact {
				// the killed execution legitimately took another path (map iteration order
				// inside kraken); only its own log could be compared with its tree
				res.killsSelfOnly++
				continue
			}
			if n != k {
				res.inconclusive = append(res.inconclusive, fmt.Sprintf("workload %d: engine fault: kill aimed at op %d stopped after %d ops", w.idx, k, n))
				continue
			}
			res.killsOK++
		}
	}
	return res
}

func sameStrings(a, b []string) bool {
	if len(a) != len(b) {
		return false
	}
	for i := range a {
		if a[i] != b[i] {
			return false
		}
	}
	return true
}

func keysOf(m map[string][]byte) []string {
	out := []string{}
	for k := range m {
		out = append(out, k)
	}
	sort.Strings(out)
	return out
}

func tail(b []byte, n int) string {
	if len(b) > n {
		b = b[len(b)-n:]
	}
	return string(b)
}

func TestC06(t *testing.T) {
	run := ev.Start(t, "C06", "fault_enumeration",
		"PRNG-generated disk.Store workloads (Create/Write/Close/MarkComplete/Delete/Ban/Unban/SetMetadata/DeleteMetadata/WriteAtMetadata/evicting Creates/Clean/restart) "+
			"for RebootIncompleteBlobs x ShardLength in {0,2}; one case = (workload, crash prefix k of its strace-recorded file-system mutations), ALL prefixes k=0..N of every workload are explored; "+
			"a case is non-trivial when the crash point lies strictly inside a logical operation (some but not all of its mutations applied).")
	defer run.Finish()
	run.Assume("process-crash model: completed system calls persist, nothing later happens; no torn single writes, no reordering (not a power-loss model)")
	run.Assume("strace decoding and the fsrec replayer are trusted; re-validated on every run by the full-log fidelity check and by real SIGKILL cross-validation")
	run.Assume("keys are 64-hex names (keys shorter than 2*ShardLength are out of scope); a blob whose removal was in flight may be listed with a subset of its sidecars")

	base := ev.TempDir(t, "c06-")
	bin := filepath.Join(base, "c06child")
	if err := fsrec.BuildChild("./c06/cmd/c06child", bin); err != nil {
		t.Fatalf("build child: %v", err)
	}
	t.Logf("child %s built from the harness module with modfile %q, VERIF_REPO=%q (empty = /repo)", bin, fsrec.ChildModfile(), os.Getenv("VERIF_REPO"))
	if _, err := exec.LookPath("strace"); err != nil {
		run.Inconclusive("strace not available")
		return
	}
	nW := run.N(12, 200)
	nSteps := func(i int) int { return run.N(14, 22) + (i%3)*3 }
	nKills := run.N(2, 3)
	configs := []c06wl.Config{
		{Capacity: 100, Reboot: true, Shard: 2},
		{Capacity: 100, Reboot: false, Shard: 0},
		{Capacity: 100, Reboot: true, Shard: 0},
		{Capacity: 100, Reboot: false, Shard: 2},
	}
	var wls []workload
	for i := 0; i < nW; i++ {
		r := run.Rand(fmt.Sprintf("workload-%d", i))
		spec, keys := genSpec(r, configs[i%len(configs)], nSteps(i))
		wls = append(wls, workload{idx: i, spec: spec, keys: keys})
	}
	replayW, replayK := -1, -1
	if rc := run.ReplayCase(); rc != "" {
		if _, err := fmt.Sscanf(rc, "w%d/k%d", &replayW, &replayK); err != nil {
			t.Fatalf("bad replay case %q", rc)
		}
	}
	results := make([]wlResult, len(wls))
	sem := make(chan struct{}, 8)
	var wg sync.WaitGroup
	for i := range wls {
		if replayW >= 0 && i != replayW {
			continue
		}
		wg.Add(1)
		go func(i int) {
			defer wg.Done()
			sem <- struct{}{}
			defer func() { <-sem }()
			results[i] = runWorkload(t, bin, base, wls[i], run, run.Rand(fmt.Sprintf("kills-%d", i)), nKills, replayK)
		}(i)
	}
	wg.Wait()
	allFidelity := true
	for i, res := range results {
		if replayW >= 0 && i != replayW {
			continue
		}
		for _, c := range res.cases {
			run.Case(c.key, c.nontrivial)
		}
		for _, f := range res.findings {
			run.Violation(f.Sig, f.Case, f.Witness)
		}
		for _, s := range res.inconclusive {
			run.Inconclusive(s)
		}
		if res.sample != nil {
			run.Sample(res.sample)
		}
		if !res.fidelityOK {
			allFidelity = false
		} else {
			run.Count("fidelity_checks_passed", 1)
		}
		run.Count("workloads", 1)
		run.Count("logical_steps", int64(res.steps))
		run.Count("fs_mutations_recorded", int64(res.syscalls))
		run.Count("crash_prefixes_explored", int64(res.prefixes))
		run.Count("crash_prefixes_mid_operation", int64(res.midOp))
		run.Count("real_kill_cross_validations", int64(res.kills))
		run.Count("real_kill_cross_validations_matching", int64(res.killsOK))
		run.Count("real_kill_cross_validations_divergent_execution_self_replay_only", int64(res.killsSelfOnly))
		run.Count("tolerated_partial_removal_states", int64(res.tolerated))
		for wk, n := range res.windows {
			run.Count("window_"+wk, int64(n))
		}
	}
	run.Set("exhaustive_per_workload", allFidelity)
}
