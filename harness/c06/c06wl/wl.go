// Package c06wl holds the types shared by the C06 test (generator, shadow
// model, oracle) and its child process (workload runner, recovery observer).
package c06wl

// Config is the disk.Config under test.
type Config struct {
	Capacity uint64 `json:"capacity"`
	Reboot   bool   `json:"reboot"` // RebootIncompleteBlobs
	Shard    int    `json:"shard"`  // ShardLength
}

// Step is one logical store operation of a workload.
type Step struct {
	Op      string `json:"op"` // create write closef complete delete ban unban setmd delmd wamd clean reopen
	Key     string `json:"key,omitempty"`
	Size    uint64 `json:"size,omitempty"`   // create: reserved size
	Data    []byte `json:"data,omitempty"`   // write payload / setmd, wamd serialized value
	Off     int64  `json:"off,omitempty"`    // write offset (-1: sequential Write)
	MD      string `json:"md,omitempty"`     // persist | lat | torrentmeta
	Target  int    `json:"target,omitempty"` // clean: target utilisation percent
	Respect bool   `json:"respect,omitempty"`
}

// Spec is a complete workload.
type Spec struct {
	Config Config `json:"config"`
	Steps  []Step `json:"steps"`
}

// StepResult is printed by the workload child after every step.
type StepResult struct {
	I          int      `json:"i"`
	OK         bool     `json:"ok"`
	Err        string   `json:"err,omitempty"`
	Ser        []byte   `json:"ser,omitempty"` // setmd: bytes the metadata serialises to
	Complete   []string `json:"complete"`
	Incomplete []string `json:"incomplete"`
}

// RecoverReq asks the recovery child to open the store in Dir and observe it.
type RecoverReq struct {
	Dir    string   `json:"dir"`
	Config Config   `json:"config"`
	Keys   []string `json:"keys"` // key universe of the workload
	// Recreate: bytes to write when re-creating each key.
	Recreate map[string][]byte `json:"recreate"`
}

// BlobObs is what the recovered store says about one key.
type BlobObs struct {
	Present  bool              `json:"present"`
	Complete bool              `json:"complete"`
	Banned   bool              `json:"banned"`
	Size     uint64            `json:"size"`
	Data     []byte            `json:"data"`
	OpenErr  string            `json:"open_err,omitempty"`
	MD       map[string][]byte `json:"md"`               // suffix -> serialised value for which GetMetadata said ok
	MDErr    map[string]string `json:"md_err,omitempty"` // suffix -> GetMetadata error
	Listed   []string          `json:"listed"`           // GetSuffix of every ListMetadata entry
	ListErr  string            `json:"list_err,omitempty"`
}

// RecreateObs is the outcome of delete-if-present, Create, Write, MarkComplete, Open.
type RecreateObs struct {
	Stage string `json:"stage"` // "" = all good, else the failing stage
	Err   string `json:"err,omitempty"`
}

// RecoverResp is the recovery child's answer.
type RecoverResp struct {
	Panic        string   `json:"panic,omitempty"`
	OpenErr      string   `json:"open_err,omitempty"` // disk.NewStore error
	ListComplete []string `json:"list_complete"`
	ListAny      []string `json:"list_any"`
	Reserved     uint64   `json:"reserved"`
	// a second clean restart on the recovered directory (before the re-creation phase)
	SecondOpenErr      string                 `json:"second_open_err,omitempty"`
	SecondListAny      []string               `json:"second_list_any"`
	SecondListComplete []string               `json:"second_list_complete"`
	Blobs              map[string]BlobObs     `json:"blobs"`
	Recreate           map[string]RecreateObs `json:"recreate"`
}

// MDKinds are the metadata types exercised (suffixes as kraken defines them).
var MDKinds = map[string]string{"persist": "_persist", "lat": "_last_access_time", "torrentmeta": "_torrentmeta"}
