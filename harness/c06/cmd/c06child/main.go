// c06child is the child process of the C06 crash-prefix check.
//
//	c06child work <spec.json> <root>   run the workload on one locked OS thread (under strace)
//	c06child recover                   serve recovery requests (JSON lines on stdin/stdout)
package main

import (
	"bufio"
	"encoding/json"
	"fmt"
	"io"
	"os"
	"runtime"
	"runtime/debug"
	"sort"
	"syscall"

	"github.com/uber-go/tally"
	"github.com/uber/kraken/lib/store/disk"
	"github.com/uber/kraken/lib/store/metadata"

	"verif/harness/c06/c06wl"
	"verif/harness/internal/fsrec"
)

func init() { runtime.LockOSThread() }

func mark(kind string, i int, text string) {
	_ = syscall.Mkdir(fmt.Sprintf("%s%s/%d/%s", fsrec.SentinelPrefix, kind, i, text), 0)
}

func diskConfig(c c06wl.Config, root string) *disk.Config {
	return &disk.Config{CapacityBytes: c.Capacity, RootDir: root, RebootIncompleteBlobs: c.Reboot, ShardLength: c.Shard}
}

func newMD(kind string) metadata.Metadata {
	switch kind {
	case "persist":
		return &metadata.Persist{}
	case "lat":
		return &metadata.LastAccessTime{}
	case "torrentmeta":
		return &metadata.TorrentMeta{}
	}
	return nil
}

func sorted(s []string) []string {
	out := append([]string{}, s...)
	sort.Strings(out)
	return out
}

func work(specPath, root string) error {
	b, err := os.ReadFile(specPath)
	if err != nil {
		return err
	}
	var spec c06wl.Spec
	if err := json.Unmarshal(b, &spec); err != nil {
		return err
	}
	out := json.NewEncoder(os.Stdout)
	cfg := diskConfig(spec.Config, root)

	mark("b", 0, "open")
	st, err := disk.NewStore(cfg, tally.NoopScope)
	if err != nil {
		mark("e", 0, "err")
		return fmt.Errorf("initial NewStore: %v", err)
	}
	mark("e", 0, "ok")
	_ = out.Encode(c06wl.StepResult{I: -1, OK: true, Complete: []string{}, Incomplete: []string{}})

	files := map[string]*disk.File{}
	for i, s := range spec.Steps {
		res := c06wl.StepResult{I: i}
		mark("b", i+1, s.Op)
		var err error
		switch s.Op {
		case "create":
			var f *disk.File
			f, err = st.Create(s.Key, s.Size)
			if err == nil {
				files[s.Key] = f
			}
		case "write":
			f := files[s.Key]
			if f == nil {
				err = fmt.Errorf("no open handle")
			} else if s.Off < 0 {
				_, err = f.Write(s.Data)
			} else {
				_, err = f.WriteAt(s.Data, s.Off)
			}
		case "closef":
			if f := files[s.Key]; f != nil {
				err = f.Close()
				delete(files, s.Key)
			} else {
				err = fmt.Errorf("no open handle")
			}
		case "complete":
			err = st.MarkComplete(s.Key)
		case "delete":
			err = st.Delete(s.Key)
		case "ban":
			err = st.BanEviction(s.Key)
		case "unban":
			err = st.UnbanEviction(s.Key)
		case "setmd":
			md := newMD(s.MD)
			if err = md.Deserialize(s.Data); err == nil {
				res.Ser, _ = md.Serialize()
				err = st.SetMetadata(s.Key, md)
			}
		case "delmd":
			err = st.DeleteMetadata(s.Key, c06wl.MDKinds[s.MD])
		case "wamd":
			err = st.WriteAtMetadata(s.Key, newMD(s.MD), s.Data, s.Off)
		case "clean":
			_, err = st.Clean(s.Target, s.Respect)
		case "reopen":
			for k, f := range files {
				_ = f.Close()
				delete(files, k)
			}
			var ns *disk.Store
			ns, err = disk.NewStore(cfg, tally.NoopScope)
			if err == nil {
				st = ns
			}
		default:
			err = fmt.Errorf("unknown op %q", s.Op)
		}
		if err != nil {
			res.Err = err.Error()
			mark("e", i+1, "err")
		} else {
			res.OK = true
			mark("e", i+1, "ok")
		}
		res.Complete = sorted(st.ScopeComplete().List())
		res.Incomplete = sorted(st.ScopeIncomplete().List())
		_ = out.Encode(res)
	}
	return nil
}

func observe(req c06wl.RecoverReq) (resp c06wl.RecoverResp) {
	defer func() {
		if r := recover(); r != nil {
			resp.Panic = fmt.Sprintf("%v\n%s", r, debug.Stack())
		}
	}()
	resp.Blobs = map[string]c06wl.BlobObs{}
	resp.Recreate = map[string]c06wl.RecreateObs{}
	st, err := disk.NewStore(diskConfig(req.Config, req.Dir), tally.NoopScope)
	if err != nil {
		resp.OpenErr = err.Error()
		return resp
	}
	resp.ListComplete = sorted(st.ScopeComplete().List())
	resp.ListAny = sorted(st.List())
	resp.Reserved = disk.VerifC06ReservedSize(st)
	for _, k := range req.Keys {
		var o c06wl.BlobObs
		o.MD = map[string][]byte{}
		inStore, _ := st.Has(k)
		size, complete, banned, ok := disk.VerifC06BlobState(st, k)
		o.Present = inStore
		if ok != inStore {
			o.OpenErr = "Has and the blob map disagree"
		}
		if !inStore {
			resp.Blobs[k] = o
			continue
		}
		o.Size, o.Complete, o.Banned = size, complete, banned
		if f, err := st.Open(k); err != nil {
			o.OpenErr = err.Error()
		} else {
			o.Data, err = io.ReadAll(f)
			if err != nil {
				o.OpenErr = "read: " + err.Error()
			}
			_ = f.Close()
		}
		for kind, suffix := range c06wl.MDKinds {
			md := newMD(kind)
			ok, err := st.GetMetadata(k, md)
			if err != nil {
				if o.MDErr == nil {
					o.MDErr = map[string]string{}
				}
				o.MDErr[suffix] = err.Error()
				continue
			}
			if ok {
				b, _ := md.Serialize()
				o.MD[suffix] = b
			}
		}
		mds, err := st.ListMetadata(k)
		if err != nil {
			o.ListErr = err.Error()
		}
		o.Listed = []string{}
		for _, m := range mds {
			o.Listed = append(o.Listed, m.GetSuffix())
		}
		sort.Strings(o.Listed)
		resp.Blobs[k] = o
	}
	// the recovered directory must survive another clean restart unchanged
	if st2, err := disk.NewStore(diskConfig(req.Config, req.Dir), tally.NoopScope); err != nil {
		resp.SecondOpenErr = err.Error()
	} else {
		resp.SecondListAny = sorted(st2.List())
		resp.SecondListComplete = sorted(st2.ScopeComplete().List())
		st = st2
	}
	// every key can be created and completed again: first make room (delete what
	// the recovered store lists), then Create -> Write -> MarkComplete -> Open.
	failed := map[string]bool{}
	for _, k := range req.Keys {
		if in, _ := st.Has(k); in {
			if err := st.Delete(k); err != nil {
				resp.Recreate[k] = c06wl.RecreateObs{Stage: "delete", Err: err.Error()}
				failed[k] = true
			}
		}
	}
	for _, k := range req.Keys {
		if failed[k] {
			continue
		}
		resp.Recreate[k] = recreate(st, k, req.Recreate[k])
	}
	return resp
}

func recreate(st *disk.Store, k string, data []byte) c06wl.RecreateObs {
	f, err := st.Create(k, uint64(len(data)))
	if err != nil {
		return c06wl.RecreateObs{Stage: "create", Err: err.Error()}
	}
	if _, err := f.Write(data); err != nil {
		_ = f.Close()
		return c06wl.RecreateObs{Stage: "write", Err: err.Error()}
	}
	if err := f.Close(); err != nil {
		return c06wl.RecreateObs{Stage: "close", Err: err.Error()}
	}
	if err := st.MarkComplete(k); err != nil {
		return c06wl.RecreateObs{Stage: "markcomplete", Err: err.Error()}
	}
	g, err := st.ScopeComplete().Open(k)
	if err != nil {
		return c06wl.RecreateObs{Stage: "open", Err: err.Error()}
	}
	got, err := io.ReadAll(g)
	_ = g.Close()
	if err != nil {
		return c06wl.RecreateObs{Stage: "read", Err: err.Error()}
	}
	if string(got) != string(data) {
		return c06wl.RecreateObs{Stage: "compare", Err: fmt.Sprintf("read %d bytes, wrote %d", len(got), len(data))}
	}
	// leave room for the next key
	if err := st.Delete(k); err != nil {
		return c06wl.RecreateObs{Stage: "delete-after", Err: err.Error()}
	}
	return c06wl.RecreateObs{}
}

func serve() error {
	in := bufio.NewReaderSize(os.Stdin, 1<<20)
	out := json.NewEncoder(os.Stdout)
	for {
		line, err := in.ReadBytes('\n')
		if len(line) > 0 {
			var req c06wl.RecoverReq
			if jerr := json.Unmarshal(line, &req); jerr != nil {
				return jerr
			}
			if oerr := out.Encode(observe(req)); oerr != nil {
				return oerr
			}
		}
		if err == io.EOF {
			return nil
		}
		if err != nil {
			return err
		}
	}
}

func main() {
	var err error
	switch {
	case len(os.Args) == 4 && os.Args[1] == "work":
		err = work(os.Args[2], os.Args[3])
	case len(os.Args) == 2 && os.Args[1] == "recover":
		err = serve()
	default:
		err = fmt.Errorf("usage: c06child work <spec.json> <root> | recover")
	}
	if err != nil {
		fmt.Fprintln(os.Stderr, "c06child:", err)
		os.Exit(2)
	}
}
