// C07: the disk blob store behaves like its capacity-bounded LRU model.
//
// Model-diff monitor: PRNG-generated histories (Create with any size incl. 0,
// free, free+1, capacity+1; Open; Stat; Has; List; MarkComplete; Delete;
// Ban/UnbanEviction; Set/Get/Delete/List/WriteAtMetadata with movable and
// non-movable types; Clean; handle reads/writes; Creates that hit an injected
// I/O error after admission) are executed on a real disk.Store in a scratch
// directory and on model.LRUStore. After every step every observable is
// compared: error class, List/Has/Stat per scope, blob bytes, metadata values
// and listings, the store's own reserved-bytes figure (usage gauge and the
// utilisation Clean reports) and which keys vanished (must be exactly the
// minimal LRU prefix on an admitting Create, an LRU prefix on a refused one,
// a legal victim set for Clean, nothing otherwise).
package c07

import (
	"errors"
	"fmt"
	"os"
	"path/filepath"
	"regexp"
	"strings"
	"sync"
	"testing"

	"github.com/uber-go/tally"
	storelib "github.com/uber/kraken/lib/store"
	"github.com/uber/kraken/lib/store/disk"
	"github.com/uber/kraken/lib/store/metadata"
	"github.com/uber/kraken/utils/log"
	"go.uber.org/zap"

	"verif/harness/internal/ev"
	"verif/harness/internal/gen"
	"verif/harness/internal/model"
)

// ---- test-registered metadata types (raw bytes; movable and non-movable) ----

type rawMD struct {
	suffix  string
	movable bool
	val     []byte
}

func (m *rawMD) GetSuffix() string          { return m.suffix }
func (m *rawMD) Movable() bool              { return m.movable }
func (m *rawMD) Serialize() ([]byte, error) { return append([]byte{}, m.val...), nil }
func (m *rawMD) Deserialize(b []byte) error { m.val = append([]byte{}, b...); return nil }

type rawFactory struct{ movable bool }

func (f rawFactory) Create(suffix string) metadata.Metadata {
	return &rawMD{suffix: suffix, movable: f.movable}
}

func init() {
	zc := zap.NewProductionConfig()
	zc.OutputPaths = []string{}
	zc.ErrorOutputPaths = []string{}
	log.ConfigureLogger(zc)
	metadata.Register(regexp.MustCompile(`^_vc07mv[a-z]$`), rawFactory{true})
	metadata.Register(regexp.MustCompile(`^_vc07nm[a-z]$`), rawFactory{false})
}

var kinds = []model.MDKind{
	{Suffix: "_vc07mva", Movable: true, Raw: true},
	{Suffix: "_vc07nma", Movable: false, Raw: true},
	{Suffix: "_vc07mvb", Movable: true, Raw: true},
	{Suffix: "_vc07nmb", Movable: false, Raw: true},
	{Suffix: "_persist", Movable: true},
	{Suffix: "_last_access_time", Movable: true},
}

// ---- adapter ----

type diskSubject struct {
	s     *disk.Store
	root  string
	shard int
	stats tally.TestScope
}

func sc(s model.Scope) storelib.BlobScope {
	switch s {
	case model.ScopeComplete:
		return storelib.BlobScopeComplete
	case model.ScopeIncomplete:
		return storelib.BlobScopeIncomplete
	}
	return storelib.BlobScopeAny
}

func (d *diskSubject) view(s model.Scope) *disk.Store {
	switch s {
	case model.ScopeComplete:
		return d.s.ScopeComplete()
	case model.ScopeIncomplete:
		return d.s.ScopeIncomplete()
	}
	return d.s.Scoped(sc(s))
}

func (d *diskSubject) Create(key string, size uint64) (model.Handle, error) {
	f, err := d.s.Create(key, size)
	if err != nil {
		return nil, err
	}
	return f, nil
}

func (d *diskSubject) Open(s model.Scope, key string) (model.Handle, error) {
	f, err := d.view(s).Open(key)
	if err != nil {
		return nil, err
	}
	return f, nil
}

func (d *diskSubject) Has(s model.Scope, key string) (bool, bool) { return d.view(s).Has(key) }

func (d *diskSubject) Stat(s model.Scope, key string) (int64, error) {
	fi, err := d.view(s).Stat(key)
	if err != nil {
		return 0, err
	}
	return fi.Size(), nil
}

func (d *diskSubject) MarkComplete(key string) error          { return d.s.MarkComplete(key) }
func (d *diskSubject) Delete(s model.Scope, key string) error { return d.view(s).Delete(key) }
func (d *diskSubject) List(s model.Scope) []string            { return d.view(s).List() }
func (d *diskSubject) Ban(s model.Scope, key string) error    { return d.view(s).BanEviction(key) }
func (d *diskSubject) Unban(s model.Scope, key string) error  { return d.view(s).UnbanEviction(key) }

func (d *diskSubject) SetMD(s model.Scope, key, suffix string, val []byte) error {
	md := metadata.CreateFromSuffix(suffix)
	if err := md.Deserialize(val); err != nil {
		panic(fmt.Sprintf("generator produced an illegal %s value %x: %v", suffix, val, err))
	}
	return d.view(s).SetMetadata(key, md)
}

func (d *diskSubject) GetMD(s model.Scope, key, suffix string) ([]byte, bool, error) {
	md := metadata.CreateFromSuffix(suffix)
	ok, err := d.view(s).GetMetadata(key, md)
	if err != nil || !ok {
		return nil, ok, err
	}
	b, _ := md.Serialize()
	return b, true, nil
}

func (d *diskSubject) DeleteMD(s model.Scope, key, suffix string) error {
	return d.view(s).DeleteMetadata(key, suffix)
}

func (d *diskSubject) ListMD(s model.Scope, key string) ([]string, error) {
	mds, err := d.view(s).ListMetadata(key)
	if err != nil {
		return nil, err
	}
	out := []string{}
	for _, md := range mds {
		out = append(out, md.GetSuffix())
	}
	return out, nil
}

func (d *diskSubject) WriteAtMD(s model.Scope, key, suffix string, p []byte, off int64) error {
	return d.view(s).WriteAtMetadata(key, metadata.CreateFromSuffix(suffix), p, off)
}

func (d *diskSubject) Clean(target int, respect bool) (int, error) { return d.s.Clean(target, respect) }

func (d *diskSubject) Reserved() (uint64, bool) {
	for _, g := range d.stats.Snapshot().Gauges() {
		if g.Name() == "size_bytes" {
			return uint64(g.Value()), true
		}
	}
	return 0, false
}

// incompleteDir mirrors the documented on-disk layout
// <root>/incomplete/<shard bytes…>/<key>.
func (d *diskSubject) incompleteDir(key string) string {
	p := filepath.Join(d.root, "incomplete")
	for i := 0; i < d.shard && i < len(key)/2; i++ {
		p = filepath.Join(p, key[i*2:i*2+2])
	}
	return filepath.Join(p, key)
}

// InjectCreateFault makes the filesystem refuse the creation of the blob's
// directory (variant 0: a regular file sits where the directory goes) or of
// its data file (variant 1: the data file already exists), i.e. an I/O error
// that strikes after the space was admitted.
func (d *diskSubject) InjectCreateFault(key string, variant int) (func(), bool) {
	dir := d.incompleteDir(key)
	if _, err := os.Lstat(dir); err == nil {
		return nil, false
	}
	if variant == 0 {
		if err := os.MkdirAll(filepath.Dir(dir), 0o775); err != nil {
			return nil, false
		}
		if err := os.WriteFile(dir, []byte("x"), 0o644); err != nil {
			return nil, false
		}
	} else {
		if err := os.MkdirAll(dir, 0o775); err != nil {
			return nil, false
		}
		if err := os.WriteFile(filepath.Join(dir, "data"), []byte("x"), 0o644); err != nil {
			return nil, false
		}
	}
	return func() { os.RemoveAll(dir) }, true
}

func (d *diskSubject) Classify(err error) model.ErrClass {
	switch {
	case err == nil:
		return model.OK
	case err == os.ErrExist:
		return model.ErrExist
	case err == os.ErrNotExist:
		return model.ErrNotExist
	case errors.Is(err, storelib.ErrOutOfScope):
		return model.ErrOutOfScope
	case strings.Contains(err.Error(), "cannot free enough space"):
		return model.ErrNoSpace
	case err.Error() == "metadata does not exist":
		return model.ErrNoMD
	}
	return model.ErrOther
}

// ---- the check ----

type histConfig struct {
	Index    int      `json:"index"`
	Capacity uint64   `json:"capacity"`
	Shard    int      `json:"shard_length"`
	Reboot   bool     `json:"reboot_incomplete_blobs"`
	Profile  int      `json:"profile"`
	Keys     []string `json:"keys"`
	NOps     int      `json:"ops"`
}

type reporter struct {
	run    *ev.Run
	caseID string
	cfg    histConfig
	ops    []model.Op
}

func (r *reporter) Violation(sig string, w interface{}) {
	r.run.Violation(sig, r.caseID, map[string]interface{}{"config": r.cfg, "ops": r.ops, "detail": w})
}
func (r *reporter) Count(name string, n int64) { r.run.Count(name, n) }

var capacities = []uint64{7, 10, 16, 50, 100, 100, 100, 1000, 4096}

func TestC07(t *testing.T) {
	run := ev.Start(t, "C07", "exploration",
		"PRNG histories of 40-80 symbolic ops over 4-6 keys on a real disk.Store (capacity 7..4096 B, shard length 0-2, "+
			"reboot_incomplete_blobs on/off, five op-mix profiles); sizes resolved against the model at run time (0, free, free+1, "+
			"capacity, capacity+1, evict-exactly-one, evict-everything(+1), random); fresh blobs written front to back, tail-only or tail-then-head, gaps read as zeros. A history is non-trivial when it contained "+
			">=1 LRU eviction and >=1 of {scope-hidden call, non-movable metadata dropped at completion, Clean deletion, refused Create, "+
			"injected create fault}; distinct = distinct (config, op list).")
	defer run.Finish()
	run.Assume("the reference model internal/model.LRUStore (reviewed against the property text)")
	run.Assume("recency = MarkComplete, Open, UnbanEviction; Stat/Has/metadata calls are not uses")
	run.Assume("injected create faults are planted files under the store root (the process runs as root, so permission faults are unavailable)")

	base := ev.TempDir(t, "c07-")
	n := run.N(1800, 40000)
	workers := 12
	replay := run.ReplayCase()

	var wg sync.WaitGroup
	idx := make(chan int, 64)
	for w := 0; w < workers; w++ {
		wg.Add(1)
		go func() {
			defer wg.Done()
			for i := range idx {
				oneHistory(t, run, base, i)
			}
		}()
	}
	for i := 0; i < n; i++ {
		if replay != "" && replay != fmt.Sprintf("h%d", i) {
			continue
		}
		idx <- i
	}
	close(idx)
	wg.Wait()
}

func oneHistory(t *testing.T, run *ev.Run, base string, i int) {
	caseID := fmt.Sprintf("h%d", i)
	r := run.Rand(caseID)
	cfg := histConfig{
		Index:    i,
		Capacity: capacities[r.Intn(len(capacities))],
		Shard:    r.Intn(3),
		Reboot:   r.Intn(2) == 0,
		Profile:  r.Intn(5),
		NOps:     40 + r.Intn(41),
	}
	nkeys := 5 + r.Intn(3) // 4-6 workload keys + 1 drain probe
	prefixes := []string{gen.Hex(r, 4), gen.Hex(r, 4)}
	seen := map[string]bool{}
	for len(cfg.Keys) < nkeys {
		k := prefixes[r.Intn(2)] + gen.Hex(r, 12)
		if r.Intn(6) == 0 {
			k = gen.Hex(r, 64) // the digests real callers use
		}
		if !seen[k] {
			seen[k] = true
			cfg.Keys = append(cfg.Keys, k)
		}
	}
	caps := model.Caps{Clean: true, WriteAtMD: true, CreateFault: true, UtilProbe: true}
	ops := gen.LRUHistory(r, gen.LRUHistoryConfig{
		Keys: nkeys, Ops: cfg.NOps, Capacity: cfg.Capacity, Kinds: kinds, Caps: caps, Profile: cfg.Profile})

	root := filepath.Join(base, caseID)
	defer os.RemoveAll(root)
	stats := tally.NewTestScope("", nil)
	st, err := disk.NewStore(&disk.Config{
		CapacityBytes: cfg.Capacity, RootDir: root, RebootIncompleteBlobs: cfg.Reboot, ShardLength: cfg.Shard}, stats)
	if err != nil {
		t.Fatalf("disk.NewStore: %v", err)
	}
	sub := &diskSubject{s: st, root: root, shard: cfg.Shard, stats: stats}
	rep := &reporter{run: run, caseID: caseID, cfg: cfg, ops: ops}
	d := model.NewDiffer(sub, cfg.Capacity, caps, cfg.Keys, kinds, rep)
	for _, op := range ops {
		if !d.Step(op) {
			break
		}
	}
	d.Finish(nkeys - 1)

	nontrivial := d.Evictions >= 1 && (d.ScopeHides+d.MDDrops+d.CleanDeletes+d.FailedCreates+d.Faults) >= 1
	run.Case(ev.JSON(map[string]interface{}{"cfg": cfg, "ops": ops}), nontrivial)
	run.Count("histories", 1)
	run.Count("steps", int64(len(d.Trace)))
	run.Count("scope_hidden_calls", int64(d.ScopeHides))
	run.Count("nonmovable_md_dropped_at_completion", int64(d.MDDrops))
	run.Count("refused_creates", int64(d.FailedCreates))
	run.Count("injected_create_faults", int64(d.Faults))
	run.Count("writes_leaving_unwritten_gap", int64(d.Gaps))
	run.Distinct("configs", fmt.Sprintf("%d/%d/%v/%d", cfg.Capacity, cfg.Shard, cfg.Reboot, cfg.Profile))
	if run.WantSample() && i%397 == 0 {
		tr := d.Trace
		if len(tr) > 25 {
			tr = tr[:25]
		}
		run.Sample(map[string]interface{}{"config": cfg, "first_steps": tr})
	}
}
