// C08: the memory blob store behaves like its model, and stale handles fail
// cleanly.
//
// Phase 1 (model-diff, sequential): the same generated histories and the same
// reference model as C07 (internal/model.LRUStore) run against a real
// memory.Store; in addition every handle ever returned by Create/Open is
// retained and exercised later, across evictions, deletes and re-creations.
// Every Read/ReadAt/Write/WriteAt/Seek/Size on a handle whose blob is gone
// must fail with memory.ErrEvicted (Size: -1).
//
// Phase 2 (concurrent, under the race detector): writers create / fill /
// complete generation-tagged blobs on a store that holds only 1.5-3.5 of them,
// so that earlier blobs are evicted all the time; readers open blobs, learn the
// (key, generation) tag from the header and then keep reading through their own
// handle; a deleter/banner goroutine deletes and (un)bans at random. Every
// successful read must carry the handle's own (key, generation) tag, every
// failure must be ErrEvicted and final ("evicted once, evicted for ever").
package c08

import (
	"bytes"
	"encoding/binary"
	"errors"
	"fmt"
	"io"
	"math/rand"
	"os"
	"regexp"
	"sync"
	"sync/atomic"
	"testing"
	"time"

	"github.com/uber-go/tally"
	storelib "github.com/uber/kraken/lib/store"
	"github.com/uber/kraken/lib/store/memory"
	"github.com/uber/kraken/lib/store/metadata"
	"github.com/uber/kraken/utils/log"
	"go.uber.org/zap"

	"verif/harness/internal/ev"
	"verif/harness/internal/gen"
	"verif/harness/internal/model"
)

type rawMD struct {
	suffix  string
	movable bool
	val     []byte
}

func (m *rawMD) GetSuffix() string          { return m.suffix }
func (m *rawMD) Movable() bool              { return m.movable }
func (m *rawMD) Serialize() ([]byte, error) { return append([]byte{}, m.val...), nil }
func (m *rawMD) Deserialize(b []byte) error { m.val = append([]byte{}, b...); return nil }

type rawFactory struct{ movable bool }

func (f rawFactory) Create(suffix string) metadata.Metadata {
	return &rawMD{suffix: suffix, movable: f.movable}
}

func init() {
	zc := zap.NewProductionConfig()
	zc.OutputPaths = []string{}
	zc.ErrorOutputPaths = []string{}
	log.ConfigureLogger(zc)
	metadata.Register(regexp.MustCompile(`^_vc08mv[a-z]$`), rawFactory{true})
	metadata.Register(regexp.MustCompile(`^_vc08nm[a-z]$`), rawFactory{false})
}

var kinds = []model.MDKind{
	{Suffix: "_vc08mva", Movable: true, Raw: true},
	{Suffix: "_vc08nma", Movable: false, Raw: true},
	{Suffix: "_vc08mvb", Movable: true, Raw: true},
	{Suffix: "_vc08nmb", Movable: false, Raw: true},
	{Suffix: "_persist", Movable: true},
	{Suffix: "_last_access_time", Movable: true},
}

const memLimit = 16 << 30

func newStore(t testing.TB, capacity uint64, stats tally.Scope) *memory.Store {
	s, err := memory.NewStore(&memory.Config{CapacityBytes: capacity, GOMEMLIMITBytes: memLimit}, stats)
	if err != nil {
		t.Fatalf("memory.NewStore: %v", err)
	}
	return s
}

// ---- adapter for the sequential phase ----

type memSubject struct {
	s     *memory.Store
	stats tally.TestScope
}

func (d *memSubject) view(s model.Scope) *memory.Store {
	switch s {
	case model.ScopeComplete:
		return d.s.ScopeComplete()
	case model.ScopeIncomplete:
		return d.s.ScopeIncomplete()
	}
	return d.s.Scoped(storelib.BlobScopeAny)
}

func (d *memSubject) Create(key string, size uint64) (model.Handle, error) {
	f, err := d.s.Create(key, size)
	if err != nil {
		return nil, err
	}
	return f, nil
}

func (d *memSubject) Open(s model.Scope, key string) (model.Handle, error) {
	f, err := d.view(s).Open(key)
	if err != nil {
		return nil, err
	}
	return f, nil
}

func (d *memSubject) Has(s model.Scope, key string) (bool, bool) { return d.view(s).Has(key) }
func (d *memSubject) Stat(s model.Scope, key string) (int64, error) {
	return d.view(s).Stat(key)
}
func (d *memSubject) MarkComplete(key string) error          { return d.s.MarkComplete(key) }
func (d *memSubject) Delete(s model.Scope, key string) error { return d.view(s).Delete(key) }
func (d *memSubject) List(s model.Scope) []string            { return d.view(s).List() }
func (d *memSubject) Ban(s model.Scope, key string) error    { return d.view(s).BanEviction(key) }
func (d *memSubject) Unban(s model.Scope, key string) error  { return d.view(s).UnbanEviction(key) }

func (d *memSubject) SetMD(s model.Scope, key, suffix string, val []byte) error {
	md := metadata.CreateFromSuffix(suffix)
	if err := md.Deserialize(val); err != nil {
		panic(fmt.Sprintf("generator produced an illegal %s value %x: %v", suffix, val, err))
	}
	return d.view(s).SetMetadata(key, md)
}

func (d *memSubject) GetMD(s model.Scope, key, suffix string) ([]byte, bool, error) {
	md := metadata.CreateFromSuffix(suffix)
	ok, err := d.view(s).GetMetadata(key, md)
	if err != nil || !ok {
		return nil, ok, err
	}
	b, _ := md.Serialize()
	return b, true, nil
}

func (d *memSubject) DeleteMD(s model.Scope, key, suffix string) error {
	return d.view(s).DeleteMetadata(key, suffix)
}

func (d *memSubject) ListMD(s model.Scope, key string) ([]string, error) {
	mds, err := d.view(s).ListMetadata(key)
	if err != nil {
		return nil, err
	}
	out := []string{}
	for _, md := range mds {
		out = append(out, md.GetSuffix())
	}
	return out, nil
}

func (d *memSubject) WriteAtMD(model.Scope, string, string, []byte, int64) error {
	return errors.New("unsupported")
}
func (d *memSubject) Clean(int, bool) (int, error) { return 0, errors.New("unsupported") }
func (d *memSubject) InjectCreateFault(string, int) (func(), bool) {
	return nil, false
}

func (d *memSubject) Reserved() (uint64, bool) {
	for _, g := range d.stats.Snapshot().Gauges() {
		if g.Name() == "size_bytes" {
			return uint64(g.Value()), true
		}
	}
	return 0, false
}

func classify(err error) model.ErrClass {
	switch {
	case err == nil:
		return model.OK
	case err == os.ErrExist:
		return model.ErrExist
	case err == os.ErrNotExist:
		return model.ErrNotExist
	case errors.Is(err, storelib.ErrOutOfScope):
		return model.ErrOutOfScope
	case errors.Is(err, memory.ErrNoSpace):
		return model.ErrNoSpace
	case errors.Is(err, memory.ErrEvicted):
		return model.ErrEvicted
	}
	return model.ErrOther
}

func (d *memSubject) Classify(err error) model.ErrClass { return classify(err) }

type histConfig struct {
	Index    int      `json:"index"`
	Capacity uint64   `json:"capacity"`
	Profile  int      `json:"profile"`
	Keys     []string `json:"keys"`
	NOps     int      `json:"ops"`
}

type reporter struct {
	run    *ev.Run
	caseID string
	cfg    histConfig
	ops    []model.Op
}

func (r *reporter) Violation(sig string, w interface{}) {
	r.run.Violation(sig, r.caseID, map[string]interface{}{"config": r.cfg, "ops": r.ops, "detail": w})
}
func (r *reporter) Count(name string, n int64) { r.run.Count(name, n) }

var capacities = []uint64{5, 10, 16, 50, 100, 100, 1000, 4096}

func TestC08(t *testing.T) {
	run := ev.Start(t, "C08", "exploration",
		"phase 1: PRNG histories of 50-110 symbolic ops over 4-6 keys on a real memory.Store (capacity 5..4096 B, five op-mix "+
			"profiles, 60% handle-heavy; fresh blobs written front to back, tail-only or tail-then-head, WriteAt past the written extent leaves gaps that must read as zeros), every handle retained; non-trivial = >=1 LRU eviction and >=1 operation on a handle whose "+
			"blob was evicted/deleted/re-created. phase 2: concurrent rounds (2-4 writers with disjoint keys, 2-6 readers, a "+
			"deleter/banner, a capacity sampler) on a store holding 1.5-3.5 blobs; non-trivial = >=1 read verified against the "+
			"handle's (key,generation) tag and >=1 handle observed to go stale. distinct = distinct (config, op list) / round config.")
	defer run.Finish()
	run.Assume("the reference model internal/model.LRUStore shared with C07")
	run.Assume("Close/Cancel/Commit and zero-length reads on a stale handle are not observations (DESIGN 3.40)")
	run.Assume("phase 2: handle offsets are per goroutine (memory.File offsets are documented as not thread-safe); interleavings are whatever the Go scheduler produced under -race")

	replay := run.ReplayCase()
	n := run.N(4500, 50000)
	workers := 12
	var wg sync.WaitGroup
	idx := make(chan int, 64)
	for w := 0; w < workers; w++ {
		wg.Add(1)
		go func() {
			defer wg.Done()
			for i := range idx {
				oneHistory(t, run, i)
			}
		}()
	}
	for i := 0; i < n; i++ {
		if replay != "" && replay != fmt.Sprintf("h%d", i) {
			continue
		}
		idx <- i
	}
	close(idx)
	wg.Wait()

	rounds := run.N(24, 160)
	par := 4
	sem := make(chan struct{}, par)
	var wg2 sync.WaitGroup
	for i := 0; i < rounds; i++ {
		if replay != "" && replay != fmt.Sprintf("round%d", i) {
			continue
		}
		wg2.Add(1)
		sem <- struct{}{}
		go func(i int) {
			defer wg2.Done()
			defer func() { <-sem }()
			concurrentRound(t, run, i)
		}(i)
	}
	wg2.Wait()
}

func oneHistory(t *testing.T, run *ev.Run, i int) {
	caseID := fmt.Sprintf("h%d", i)
	r := run.Rand(caseID)
	cfg := histConfig{
		Index:    i,
		Capacity: capacities[r.Intn(len(capacities))],
		Profile:  r.Intn(5),
		NOps:     50 + r.Intn(61),
	}
	if r.Intn(10) < 6 {
		cfg.Profile = 3
	}
	nkeys := 5 + r.Intn(3)
	seen := map[string]bool{}
	for len(cfg.Keys) < nkeys {
		k := gen.Hex(r, 16)
		if !seen[k] {
			seen[k] = true
			cfg.Keys = append(cfg.Keys, k)
		}
	}
	caps := model.Caps{StaleHandlesFail: true}
	ops := gen.LRUHistory(r, gen.LRUHistoryConfig{
		Keys: nkeys, Ops: cfg.NOps, Capacity: cfg.Capacity, Kinds: kinds, Caps: caps, Profile: cfg.Profile})

	stats := tally.NewTestScope("", nil)
	sub := &memSubject{s: newStore(t, cfg.Capacity, stats), stats: stats}
	rep := &reporter{run: run, caseID: caseID, cfg: cfg, ops: ops}
	d := model.NewDiffer(sub, cfg.Capacity, caps, cfg.Keys, kinds, rep)
	for _, op := range ops {
		if !d.Step(op) {
			break
		}
	}
	// after the drain every retained handle of an evicted blob is stale:
	// exercise each of them once more with every operation
	d.Finish(nkeys - 1)

	run.Case(ev.JSON(map[string]interface{}{"cfg": cfg, "ops": ops}), d.Evictions >= 1 && d.StaleOps >= 1)
	run.Count("histories", 1)
	run.Count("steps", int64(len(d.Trace)))
	run.Count("scope_hidden_calls", int64(d.ScopeHides))
	run.Count("nonmovable_md_dropped_at_completion", int64(d.MDDrops))
	run.Count("refused_creates", int64(d.FailedCreates))
	run.Count("writes_leaving_unwritten_gap", int64(d.Gaps))
	run.Distinct("configs", fmt.Sprintf("%d/%d", cfg.Capacity, cfg.Profile))
	if run.WantSample() && i%1999 == 0 {
		tr := d.Trace
		if len(tr) > 25 {
			tr = tr[:25]
		}
		run.Sample(map[string]interface{}{"phase": 1, "config": cfg, "first_steps": tr})
	}
}

// ---- phase 2: concurrent ----

const hdrLen = 20

// tagged content: "VC08" | key index u32 | generation u64 | size u32 | body
func content(keyIdx int, g uint64, size int) []byte {
	b := model.Content(keyIdx, int(g), size)
	copy(b[0:4], "VC08")
	binary.BigEndian.PutUint32(b[4:8], uint32(keyIdx))
	binary.BigEndian.PutUint64(b[8:16], g)
	binary.BigEndian.PutUint32(b[16:20], uint32(size))
	return b
}

type roundCfg struct {
	Round    int    `json:"round"`
	Keys     int    `json:"keys"`
	BlobSize int    `json:"blob_size"`
	Capacity uint64 `json:"capacity"`
	Writers  int    `json:"writers"`
	Readers  int    `json:"readers"`
	Deleter  bool   `json:"deleter"`
	WIters   int    `json:"writer_iterations"`
	RIters   int    `json:"reader_iterations"`
}

type roundState struct {
	run   *ev.Run
	cfg   roundCfg
	id    string
	s     *memory.Store
	keys  []string
	gens  []atomic.Uint64
	stop  atomic.Bool
	viols atomic.Int64

	verified, staleSeen, staleOps, evictedWrites, created, nospace, partial atomic.Int64
}

func (rs *roundState) violation(sig string, w map[string]interface{}) {
	rs.viols.Add(1)
	w["round"] = rs.cfg
	rs.run.Violation("concurrent/"+sig, rs.id, w)
}

// tracked is a handle used by exactly one goroutine.
type tracked struct {
	f       *memory.File
	keyIdx  int
	gen     uint64
	full    bool // the whole content is known to be written (complete blob)
	evicted bool
}

// checkErr classifies an error of a handle op: nil -> false; ErrEvicted ->
// true (and final); anything else is a violation.
func (rs *roundState) handleErr(h *tracked, op string, err error) (evicted bool) {
	if err == nil || err == io.EOF {
		if h.evicted {
			rs.violation("evicted-handle-works-again/"+op, map[string]interface{}{"key": h.keyIdx, "gen": h.gen})
		}
		return false
	}
	if errors.Is(err, memory.ErrEvicted) {
		if !h.evicted {
			h.evicted = true
			rs.staleSeen.Add(1)
		}
		rs.staleOps.Add(1)
		return true
	}
	rs.violation("handle-op-unexpected-error/"+op, map[string]interface{}{"key": h.keyIdx, "gen": h.gen, "err": err.Error()})
	return true
}

// verifyRead checks bytes returned for [off, off+n) of a handle.
func (rs *roundState) verifyRead(h *tracked, op string, p []byte, off int64, n int, want int) {
	exp := content(h.keyIdx, h.gen, rs.cfg.BlobSize)
	if off+int64(n) > int64(len(exp)) {
		rs.violation("read-beyond-blob/"+op, map[string]interface{}{"key": h.keyIdx, "gen": h.gen, "off": off, "n": n})
		return
	}
	if !bytes.Equal(p[:n], exp[off:off+int64(n)]) {
		sig := "read-returned-bytes-without-own-tag/" + op
		w := map[string]interface{}{"key": h.keyIdx, "gen": h.gen, "off": off, "n": n, "got": fmt.Sprintf("%x", p[:min(n, 48)]), "want": fmt.Sprintf("%x", exp[off:off+int64(min(n, 48))])}
		if off == 0 && n >= hdrLen && string(p[0:4]) == "VC08" {
			w["got_key"] = binary.BigEndian.Uint32(p[4:8])
			w["got_gen"] = binary.BigEndian.Uint64(p[8:16])
			sig = "read-returned-other-generation-or-key/" + op
		}
		rs.violation(sig, w)
		return
	}
	if h.full && n != want {
		rs.violation("short-read-on-complete-blob/"+op, map[string]interface{}{"key": h.keyIdx, "gen": h.gen, "off": off, "n": n, "want": want})
		return
	}
	rs.verified.Add(1)
}

// exercise runs one random operation on a handle owned by this goroutine.
func (rs *roundState) exercise(r *rand.Rand, h *tracked, mayWrite bool) {
	size := rs.cfg.BlobSize
	switch x := r.Intn(10); {
	case x < 4: // ReadAt
		off := int64(r.Intn(size))
		l := 1 + r.Intn(96)
		p := make([]byte, l)
		n, err := h.f.ReadAt(p, off)
		if rs.handleErr(h, "readat", err) {
			if n != 0 {
				rs.violation("bytes-returned-with-evicted-error/readat", map[string]interface{}{"n": n})
			}
			return
		}
		want := l
		if int64(size)-off < int64(l) {
			want = int(int64(size) - off)
		}
		rs.verifyRead(h, "readat", p, off, n, want)
	case x < 6: // Seek + Read
		off := int64(r.Intn(hdrLen + 1)) // always inside the written extent of anything with a header
		if _, err := h.f.Seek(off, io.SeekStart); rs.handleErr(h, "seek", err) {
			return
		}
		l := 1 + r.Intn(96)
		p := make([]byte, l)
		n, err := h.f.Read(p)
		if rs.handleErr(h, "read", err) {
			if n != 0 {
				rs.violation("bytes-returned-with-evicted-error/read", map[string]interface{}{"n": n})
			}
			return
		}
		want := l
		if int64(size)-off < int64(l) {
			want = int(int64(size) - off)
		}
		rs.verifyRead(h, "read", p, off, n, want)
	case x < 7: // Size
		sz := h.f.Size()
		if sz == -1 {
			if !h.evicted {
				h.evicted = true
				rs.staleSeen.Add(1)
			}
			rs.staleOps.Add(1)
			return
		}
		if h.evicted {
			rs.violation("evicted-handle-works-again/size", map[string]interface{}{"key": h.keyIdx, "gen": h.gen, "size": sz})
			return
		}
		if sz > int64(size) || (h.full && sz != int64(size)) || sz < 0 {
			rs.violation("size-mismatch", map[string]interface{}{"key": h.keyIdx, "gen": h.gen, "size": sz, "want": size})
		}
	default: // idempotent rewrite of a chunk of the own content (writers only)
		if !mayWrite || !h.full {
			return
		}
		exp := content(h.keyIdx, h.gen, size)
		off := r.Intn(size)
		l := 1 + r.Intn(64)
		if off+l > size {
			l = size - off
		}
		var n int
		var err error
		if r.Intn(2) == 0 {
			n, err = h.f.WriteAt(exp[off:off+l], int64(off))
		} else {
			if _, err = h.f.Seek(int64(off), io.SeekStart); err == nil {
				n, err = h.f.Write(exp[off : off+l])
			}
		}
		if rs.handleErr(h, "write", err) {
			rs.evictedWrites.Add(1)
			return
		}
		if n != l {
			rs.violation("short-write-on-live-blob", map[string]interface{}{"n": n, "want": l})
		}
	}
}

func (rs *roundState) writer(r *rand.Rand, own []int) {
	var held []*tracked
	size := rs.cfg.BlobSize
	for it := 0; it < rs.cfg.WIters && !rs.stop.Load(); it++ {
		ki := own[r.Intn(len(own))]
		key := rs.keys[ki]
		g := rs.gens[ki].Add(1)
		f, err := rs.s.Create(key, uint64(size))
		switch classify(err) {
		case model.OK:
			rs.created.Add(1)
			h := &tracked{f: f, keyIdx: ki, gen: g}
			exp := content(ki, g, size)
			// front-to-back in chunks (no holes), Write or WriteAt
			ok := true
			for off := 0; off < size && ok; {
				l := 16 + r.Intn(size/2+1)
				if off+l > size {
					l = size - off
				}
				var n int
				if r.Intn(2) == 0 {
					n, err = f.WriteAt(exp[off:off+l], int64(off))
				} else {
					if _, err = f.Seek(int64(off), io.SeekStart); err == nil {
						n, err = f.Write(exp[off : off+l])
					}
				}
				if rs.handleErr(h, "write", err) {
					ok = false // deleted under our feet
					break
				}
				if n != l {
					rs.violation("short-write-on-live-blob", map[string]interface{}{"n": n, "want": l})
					ok = false
				}
				off += l
			}
			if ok {
				md := &rawMD{suffix: "_vc08mva", movable: true, val: content(ki, g, hdrLen)[:16]}
				_ = rs.s.SetMetadata(key, md)
				if c := classify(rs.s.MarkComplete(key)); c == model.OK {
					h.full = true
				} else if c != model.ErrNotExist {
					rs.violation("markcomplete-unexpected-error", map[string]interface{}{"class": c})
				}
			}
			held = append(held, h)
			if len(held) > 10 {
				held = held[1:]
			}
		case model.ErrExist:
			// our previous generation is still live: replace it sometimes
			if r.Intn(2) == 0 {
				_ = rs.s.Delete(key)
			}
		case model.ErrNoSpace:
			rs.nospace.Add(1)
		default:
			rs.violation("create-unexpected-error", map[string]interface{}{"err": fmt.Sprint(err)})
		}
		for j := 0; j < 3 && len(held) > 0; j++ {
			rs.exercise(r, held[r.Intn(len(held))], true)
		}
	}
}

func (rs *roundState) reader(r *rand.Rand) {
	var held []*tracked
	for it := 0; it < rs.cfg.RIters && !rs.stop.Load(); it++ {
		ki := r.Intn(len(rs.keys))
		view := rs.s.ScopeComplete()
		anyScope := r.Intn(10) < 3
		if anyScope {
			view = rs.s.Scoped(storelib.BlobScopeAny)
		}
		f, err := view.Open(rs.keys[ki])
		switch classify(err) {
		case model.OK:
			hdr := make([]byte, hdrLen)
			n, err := f.ReadAt(hdr, 0)
			h := &tracked{f: f, keyIdx: ki, full: !anyScope}
			if rs.handleErr(h, "readat", err) {
				break
			}
			if n < hdrLen {
				if !anyScope {
					rs.violation("short-read-on-complete-blob/header", map[string]interface{}{"key": ki, "n": n})
				}
				rs.partial.Add(1)
				break
			}
			if string(hdr[0:4]) != "VC08" || int(binary.BigEndian.Uint32(hdr[4:8])) != ki {
				rs.violation("read-returned-other-generation-or-key/header", map[string]interface{}{"opened_key": ki, "hdr": fmt.Sprintf("%x", hdr)})
				break
			}
			h.gen = binary.BigEndian.Uint64(hdr[8:16])
			if h.gen == 0 || h.gen > rs.gens[ki].Load() {
				rs.violation("header-carries-unknown-generation", map[string]interface{}{"key": ki, "gen": h.gen})
				break
			}
			rs.verified.Add(1)
			held = append(held, h)
			if len(held) > 12 {
				held = held[1:]
			}
			// metadata written by the owner carries the key's tag
			md := &rawMD{suffix: "_vc08mva"}
			if ok, err := view.GetMetadata(rs.keys[ki], md); err == nil && ok {
				if len(md.val) != 16 || int(binary.BigEndian.Uint32(md.val[4:8])) != ki {
					rs.violation("metadata-of-other-key", map[string]interface{}{"key": ki, "val": fmt.Sprintf("%x", md.val)})
				}
			}
		case model.ErrNotExist, model.ErrOutOfScope:
		default:
			rs.violation("open-unexpected-error", map[string]interface{}{"err": fmt.Sprint(err)})
		}
		for j := 0; j < 4 && len(held) > 0; j++ {
			rs.exercise(r, held[r.Intn(len(held))], false)
		}
	}
}

func (rs *roundState) deleter(r *rand.Rand, iters int) {
	for it := 0; it < iters && !rs.stop.Load(); it++ {
		key := rs.keys[r.Intn(len(rs.keys))]
		var err error
		switch x := r.Intn(10); {
		case x < 4:
			err = rs.s.Delete(key)
		case x < 6:
			err = rs.s.ScopeComplete().Delete(key)
		case x < 8:
			if err = rs.s.BanEviction(key); err == nil {
				time.Sleep(time.Duration(r.Intn(200)) * time.Microsecond)
				err = rs.s.UnbanEviction(key)
			}
		default:
			_, _ = rs.s.Stat(key)
			_, _ = rs.s.Has(key)
		}
		switch classify(err) {
		case model.OK, model.ErrNotExist, model.ErrOutOfScope:
		default:
			rs.violation("deleter-unexpected-error", map[string]interface{}{"err": fmt.Sprint(err)})
		}
		if it%8 == 0 {
			time.Sleep(50 * time.Microsecond)
		}
	}
}

func concurrentRound(t *testing.T, run *ev.Run, i int) {
	id := fmt.Sprintf("round%d", i)
	r := run.Rand(id)
	cfg := roundCfg{Round: i}
	cfg.Writers = 2 + r.Intn(3)
	cfg.Keys = cfg.Writers * (1 + r.Intn(3))
	cfg.BlobSize = []int{64, 200, 1024, 4096}[r.Intn(4)]
	cfg.Capacity = uint64(cfg.BlobSize) * uint64(3+r.Intn(5)) / 2
	cfg.Readers = 2 + r.Intn(5)
	cfg.Deleter = r.Intn(3) > 0
	cfg.WIters = run.N(250, 1500)
	cfg.RIters = run.N(500, 3000)

	rs := &roundState{run: run, cfg: cfg, id: id, s: newStore(t, cfg.Capacity, tally.NoopScope)}
	rs.gens = make([]atomic.Uint64, cfg.Keys)
	for k := 0; k < cfg.Keys; k++ {
		rs.keys = append(rs.keys, fmt.Sprintf("%02x%s", k, gen.Hex(r, 14)))
	}
	var wg sync.WaitGroup
	for w := 0; w < cfg.Writers; w++ {
		var own []int
		for k := w; k < cfg.Keys; k += cfg.Writers {
			own = append(own, k)
		}
		wr := run.Rand(fmt.Sprintf("%s/w%d", id, w))
		wg.Add(1)
		go func() { defer wg.Done(); rs.writer(wr, own) }()
	}
	for x := 0; x < cfg.Readers; x++ {
		rr := run.Rand(fmt.Sprintf("%s/r%d", id, x))
		wg.Add(1)
		go func() { defer wg.Done(); rs.reader(rr) }()
	}
	if cfg.Deleter {
		dr := run.Rand(id + "/d")
		wg.Add(1)
		go func() { defer wg.Done(); rs.deleter(dr, cfg.WIters) }()
	}
	// capacity sampler: every blob reserves BlobSize, so at every instant
	// (List is one critical section) count*BlobSize <= capacity
	samplerDone := make(chan struct{})
	var samples int64
	go func() {
		defer close(samplerDone)
		for !rs.stop.Load() {
			l := rs.s.List()
			samples++
			if uint64(len(l))*uint64(cfg.BlobSize) > cfg.Capacity {
				rs.violation("admitted-over-capacity", map[string]interface{}{"listed": l})
				return
			}
			time.Sleep(20 * time.Microsecond)
		}
	}()
	done := make(chan struct{})
	go func() { wg.Wait(); close(done) }()
	select {
	case <-done:
	case <-time.After(5 * time.Minute):
		rs.stop.Store(true)
		run.Inconclusive(fmt.Sprintf("%s: watchdog fired (workers still running after 5 min)", id))
		<-done
	}
	rs.stop.Store(true)
	<-samplerDone

	// quiescent check: what is left is well-formed and within capacity
	left := rs.s.List()
	if uint64(len(left))*uint64(cfg.BlobSize) > cfg.Capacity {
		rs.violation("admitted-over-capacity", map[string]interface{}{"listed": left})
	}
	for _, key := range rs.s.ScopeComplete().List() {
		f, err := rs.s.Open(key)
		if err != nil {
			rs.violation("listed-blob-not-openable", map[string]interface{}{"key": key, "err": err.Error()})
			continue
		}
		b, _ := io.ReadAll(f)
		ki := -1
		for x, k := range rs.keys {
			if k == key {
				ki = x
			}
		}
		if len(b) != cfg.BlobSize || !bytes.Equal(b, content(ki, binary.BigEndian.Uint64(b[8:16]), cfg.BlobSize)) {
			rs.violation("complete-blob-content-not-one-generation", map[string]interface{}{"key": key, "len": len(b)})
		}
	}

	run.Count("concurrent_rounds", 1)
	run.Count("concurrent_reads_verified_against_tag", rs.verified.Load())
	run.Count("concurrent_handles_gone_stale", rs.staleSeen.Load())
	run.Count("concurrent_ops_on_stale_handles", rs.staleOps.Load())
	run.Count("concurrent_writes_refused_evicted", rs.evictedWrites.Load())
	run.Count("concurrent_blobs_created", rs.created.Load())
	run.Count("concurrent_creates_refused_nospace", rs.nospace.Load())
	run.Count("concurrent_partial_headers_seen", rs.partial.Load())
	run.Count("concurrent_capacity_samples", samples)
	run.Case(ev.JSON(cfg), rs.verified.Load() >= 1 && rs.staleSeen.Load() >= 1)
	if run.WantSample() && i%7 == 0 {
		run.Sample(map[string]interface{}{"phase": 2, "round": cfg, "reads_verified": rs.verified.Load(), "handles_gone_stale": rs.staleSeen.Load()})
	}
}
