//go:build verif

// C09: the tiered store never loses or corrupts a completed blob or metadata
// update.
//
// The real tiered.Store (memory tier + disk tier + background flusher) is
// driven at its client boundary while the flusher's yield points (verifhook
// points plus the memOpen / ioCopy seams) are controlled by internal/sched:
//
//	phase 1  forced interleavings, enumerated: one flush worker, the worker is
//	         always parked at a yield point while the controller decides; for a
//	         scenario (short list of client operations) every placement of the
//	         client operations between the flush steps is executed.
//	phase 2  forced interleavings, random: longer scenarios over two keys, step
//	         counts drawn from the seed, three capacity configurations.
//	phase 3  free running: 1-10 flush workers, several client goroutines, hook
//	         points only perturb (yield / nap); run under -race.
//
// Oracles: a per-key sequential model (absent | incomplete | complete(gen,
// metadata)); scripted histories are compared step by step, concurrent
// histories are checked for linearizability per key with porcupine (timeout =>
// inconclusive). Blob bytes carry their generation in every word, so every read
// identifies the write it came from. After the flushers drained, the disk store
// alone must hold exactly what the model says.
package c09

import (
	"encoding/json"
	"fmt"
	"math/rand"
	"runtime"
	"sort"
	"strings"
	"sync"
	"sync/atomic"
	"testing"
	"time"

	"github.com/anishathalye/porcupine"

	"verif/harness/internal/ev"
	"verif/harness/internal/sched"
)

// ---------------------------------------------------------------------------
// Scenarios
// ---------------------------------------------------------------------------

type sop struct {
	Op    string `json:"op"`
	Key   string `json:"key,omitempty"`
	MD    int    `json:"md,omitempty"`
	Size  int    `json:"size,omitempty"`
	N     int    `json:"n,omitempty"`     // HSeq: bytes to read sequentially (0 = to EOF)
	First string `json:"first,omitempty"` // HSeq: operation issued on the handle before the sequential read
	Fixed bool   `json:"fixed,omitempty"` // executed right after the previous op (no flush steps in between)
}

func (o sop) String() string {
	s := o.Op
	if o.Key != "" {
		s += " " + o.Key
	}
	if strings.Contains(o.Op, "MD") {
		s += fmt.Sprintf(" md%d", o.MD)
	}
	return s
}

type scenario struct {
	Cfg rigCfg `json:"cfg"`
	Ops []sop  `json:"ops"`
}

func (sc scenario) decisions() int {
	n := 0
	for _, o := range sc.Ops {
		if !o.Fixed {
			n++
		}
	}
	return n
}

// prefix: blob A is created with one metadata entry and marked complete (its
// flush is queued), then a handle is opened and kept.
func prefix(sizeA int) []sop {
	return []sop{
		{Op: "Create", Key: "A", Size: sizeA, Fixed: true},
		{Op: "SetMD", Key: "A", MD: 0, Fixed: true},
		{Op: "Mark", Key: "A", Fixed: true},
		{Op: "OpenH", Key: "A", Fixed: true},
		// part of the blob is consumed sequentially while it is still in memory
		{Op: "HSeq", Key: "A", N: 8 * (10 + sizeA%23), Fixed: true},
	}
}

// body alphabet; every entry is one decision point (followers are Fixed).
func alphabet(sizeA, sizeB int) [][]sop {
	return [][]sop{
		{{Op: "SetMD", Key: "A", MD: 0}},
		{{Op: "SetMD", Key: "A", MD: 1}},
		{{Op: "DelMD", Key: "A", MD: 0}},
		{{Op: "GetMD", Key: "A", MD: 0}},
		{{Op: "Read", Key: "A"}},
		{{Op: "HRead", Key: "A"}},
		{{Op: "Delete", Key: "A"}},
		{{Op: "Create", Key: "A", Size: sizeA}},
		{{Op: "Mark", Key: "A"}},
		{{Op: "Create", Key: "A", Size: sizeA}, {Op: "Mark", Key: "A", Fixed: true}},
		{{Op: "Create", Key: "B", Size: sizeB}, {Op: "Mark", Key: "B", Fixed: true}},
		{{Op: "HasC", Key: "A"}},
		{{Op: "ListC"}},
		{{Op: "HSeq", Key: "A", N: 96}},
	}
}

// core alphabet for 3-op bodies (indices into alphabet()).
var coreAlpha = []int{0, 5, 6, 9, 10}

func buildScenario(cfg rigCfg, sizeA, sizeB int, body []int) scenario {
	al := alphabet(sizeA, sizeB)
	ops := prefix(sizeA)
	for _, i := range body {
		ops = append(ops, al[i]...)
	}
	return scenario{Cfg: cfg, Ops: ops}
}

var firstOps = []string{"size", "readat", "seekcur", ""}

func epilogue(keys []string, vanish bool, variant int) []sop {
	var ops []sop
	add := func(o sop) { o.Fixed = true; ops = append(ops, o) }
	add(sop{Op: "Drain"})
	for _, k := range keys {
		add(sop{Op: "Has", Key: k})
		add(sop{Op: "HasC", Key: k})
		add(sop{Op: "Read", Key: k})
		add(sop{Op: "GetMD", Key: k, MD: 0})
		add(sop{Op: "GetMDC", Key: k, MD: 1})
		add(sop{Op: "HRead", Key: k})
	}
	// memory pressure: whatever may be evicted from memory is evicted now
	for _, p := range []string{"P1", "P2"} {
		add(sop{Op: "Create", Key: p, Size: blobMax})
		add(sop{Op: "Mark", Key: p})
		add(sop{Op: "Drain"})
	}
	for i, k := range keys {
		add(sop{Op: "Read", Key: k})
		add(sop{Op: "GetMD", Key: k, MD: 0})
		add(sop{Op: "GetMD", Key: k, MD: 1})
		// the retained handle goes on after the eviction: first a Size / ReadAt /
		// Seek(0,current) / nothing, then sequential Reads to EOF
		add(sop{Op: "HSeq", Key: k, N: 0, First: firstOps[(variant+i)%len(firstOps)]})
		add(sop{Op: "HRead", Key: k})
	}
	add(sop{Op: "List"})
	add(sop{Op: "ListC"})
	if !vanish {
		for _, k := range keys {
			add(sop{Op: "DRead", Key: k})
			add(sop{Op: "DGetMD", Key: k, MD: 0})
			add(sop{Op: "DGetMD", Key: k, MD: 1})
		}
	}
	// a deleted key never blocks re-creation; an existing one reports "exists"
	for _, k := range keys {
		add(sop{Op: "Create", Key: k, Size: blobMin})
	}
	return ops
}

// ---------------------------------------------------------------------------
// Executing one operation
// ---------------------------------------------------------------------------

type handleSet struct {
	mu sync.Mutex
	m  map[string]*handle
}

func (hs *handleSet) get(k string) *handle {
	hs.mu.Lock()
	defer hs.mu.Unlock()
	return hs.m[k]
}

func (hs *handleSet) put(k string, h *handle) {
	hs.mu.Lock()
	hs.m[k] = h
	hs.mu.Unlock()
}

func (r *rig) exec(c int, op sop, hs *handleSet) []hop {
	switch op.Op {
	case "Create":
		h := r.doCreate(c, op.Key, op.Size)
		r.mutated()
		return []hop{h}
	case "Mark":
		h := r.doMark(c, op.Key)
		r.mutated()
		return []hop{h}
	case "Delete":
		h := r.doDelete(c, op.Key)
		r.mutated()
		return []hop{h}
	case "Read":
		return []hop{r.doRead(c, op.Key)}
	case "OpenH":
		hd, h := r.openHandle(c, op.Key)
		if hd != nil {
			hs.put(op.Key, hd)
		}
		return []hop{h}
	case "HRead":
		if hd := hs.get(op.Key); hd != nil {
			h := r.readHandle(c, hd)
			return []hop{h}
		}
		return []hop{r.doRead(c, op.Key)}
	case "HSeq":
		if hd := hs.get(op.Key); hd != nil {
			return r.seqHandle(c, hd, op.N, op.First)
		}
		return nil
	case "Has":
		return []hop{r.doHas(c, op.Key, scopeAny)}
	case "HasC":
		return []hop{r.doHas(c, op.Key, scopeComplete)}
	case "List":
		return r.doList(c, scopeAny)
	case "ListC":
		return r.doList(c, scopeComplete)
	case "SetMD":
		h := r.doSetMD(c, op.Key, op.MD)
		r.mutated()
		return []hop{h}
	case "DelMD":
		h := r.doDelMD(c, op.Key, op.MD)
		r.mutated()
		return []hop{h}
	case "GetMD":
		return []hop{r.doGetMD(c, op.Key, op.MD, scopeAny)}
	case "GetMDC":
		return []hop{r.doGetMD(c, op.Key, op.MD, scopeComplete)}
	case "DRead":
		return []hop{r.doDRead(c, op.Key)}
	case "DGetMD":
		return []hop{r.doDGetMD(c, op.Key, op.MD)}
	}
	panic("unknown op " + op.Op)
}

// ---------------------------------------------------------------------------
// Violations
// ---------------------------------------------------------------------------

type violation struct {
	Sig     string `json:"signature"`
	Symptom string `json:"symptom"`
	Ctx     string `json:"context"`
	Where   string `json:"observed"`
	Key     string `json:"key"`
	Op      string `json:"operation"`
	State   string `json:"model_state"`
	Detail  string `json:"detail,omitempty"`
}

// A signature is <class>/<window>/<observed>: what broke, which flush window
// the key's history went through, and whether it was observed while a flush
// was still in progress or after the flushers had drained.
const (
	ctxRecreated = "key-recreated-while-older-flush-entry-pending"
	ctxMDWindow  = "metadata-written-between-flush-bookkeeping-and-unban"
	ctxDelWindow = "key-deleted-between-flush-open-and-disk-create"
	ctxNone      = "no-special-window"

	whereDuring    = "during-flush"
	whereQuiescent = "quiescent"
)

// windows: which of the three flush windows the history of a key went through.
type windows struct{ recreated, md, del bool }

// pick names the window that can explain a symptom of the given class: a
// metadata write before the unban can only lose an update, a Delete between
// open and create can only make a deleted key show up again.
func (w windows) pick(sym string) string {
	switch {
	case w.recreated:
		return ctxRecreated
	case w.md && symptomClass(sym) == "completed-blob-or-metadata-update-lost":
		return ctxMDWindow
	case w.del && symptomClass(sym) != "completed-blob-or-metadata-update-lost":
		return ctxDelWindow
	}
	return ctxNone
}

func mkSig(sym, ctx, where string) string { return symptomClass(sym) + "/" + ctx + "/" + where }

// scriptedCtx names the flush window the history of key went through (exact:
// the worker was parked there when the operation ran).
func scriptedCtx(hist []hop, key string) windows {
	mdwin, delwin := false, false
	for _, h := range hist {
		if h.In.Key != key || h.Out.Res != rOK {
			continue
		}
		switch h.In.Kind {
		case opCreate:
			if strings.HasPrefix(h.At, "self-stale:") {
				return windows{recreated: true}
			}
		case opSetMD, opDelMD:
			if h.At == "self:"+ptBeforeUnban {
				mdwin = true
			}
		case opDelete:
			if h.At == "self:"+ptMemOpened {
				delwin = true
			}
		}
	}
	return windows{md: mdwin, del: delwin}
}

// freeCtx is the same classification for concurrent histories, from stamps and
// deliberately broad (it only labels): re-created = a Create succeeded on a
// key that had been marked complete before (its older flush entry / queue item
// may still be around); the two other windows are taken to last from the flush
// event that opens them to the next flush event of that key.
func freeCtx(hist []hop, trace []sched.Event, key string, upTo int64) windows {
	type iv struct{ a, b int64 }
	var mdWin, delWin []iv
	var evs []sched.Event
	for _, e := range trace {
		if e.Key == key {
			evs = append(evs, e)
		}
	}
	for i, e := range evs {
		end := int64(1) << 62
		if i+1 < len(evs) {
			end = evs[i+1].Stamp
		}
		switch e.Name {
		case ptMDFlushed, ptBeforeUnban:
			mdWin = append(mdWin, iv{e.Stamp, end + 64})
		case ptStart, ptMemOpened, ptCreated:
			delWin = append(delWin, iv{e.Stamp, end + 64})
		}
	}
	marked, mdwin, delwin := false, false, false
	for _, h := range hist {
		if h.In.Key != key || h.Out.Res != rOK || h.Call > upTo {
			continue
		}
		switch h.In.Kind {
		case opMark:
			marked = true
		case opCreate:
			if marked {
				return windows{recreated: true}
			}
		case opSetMD, opDelMD:
			for _, f := range mdWin {
				if f.a <= h.Ret && h.Call <= f.b {
					mdwin = true
				}
			}
		case opDelete:
			for _, f := range delWin {
				if f.a <= h.Ret && h.Call <= f.b {
					delwin = true
				}
			}
		}
	}
	return windows{md: mdwin, del: delwin}
}

// ---------------------------------------------------------------------------
// Scripted (step mode) runs
// ---------------------------------------------------------------------------

type scriptResult struct {
	Eff       []int
	IdleAfter []bool
	Order     []string
	Hist      []hop
	Viol      *violation
	Aborted   string
	Points    map[string]int64
	Steps     int
	NonTriv   bool
}

type scriptOracle struct {
	cfg    modelCfg
	states map[string][]kstate
	hgen   map[int]int32 // open op id -> generation the handle must show
	hdead  map[int]bool  // open op id -> a Delete of the key ran since
	hkey   map[int]string
	viol   *violation
}

func newScriptOracle(vanish bool) *scriptOracle {
	return &scriptOracle{cfg: modelCfg{vanish: vanish}, states: map[string][]kstate{},
		hgen: map[int]int32{}, hdead: map[int]bool{}, hkey: map[int]string{}}
}

func (o *scriptOracle) st(key string) []kstate {
	if s, ok := o.states[key]; ok {
		return s
	}
	return []kstate{{}}
}

func (o *scriptOracle) fail(h hop, sym, detail string, histf func() []hop) {
	if o.viol != nil {
		return
	}
	ctx := scriptedCtx(histf(), h.In.Key).pick(sym)
	where := whereDuring
	if h.At == "idle" {
		where = whereQuiescent
	}
	o.viol = &violation{Sig: mkSig(sym, ctx, where), Symptom: sym, Ctx: ctx, Where: where, Key: shortKey(h.In.Key),
		Op: h.String(), State: fmt.Sprint(o.st(h.In.Key)), Detail: detail}
}

// apply judges one executed operation against the sequential model.
func (o *scriptOracle) apply(h hop, hist func() []hop) {
	if o.viol != nil {
		return
	}
	key := h.In.Key
	if h.In.Kind == opHRead {
		if o.hdead[h.Ref] || o.cfg.vanish {
			return // handle of a deleted / evictable blob: nothing is promised
		}
		want := o.hgen[h.Ref]
		switch {
		case h.Out.Res != rOK:
			o.fail(h, "retained-handle-broken", "read through a handle opened on a complete blob failed: "+h.Out.Err, hist)
		case h.Out.Gen == 0:
			o.fail(h, "retained-handle-corrupt", h.Note, hist)
		case want != 0 && h.Out.Gen != want:
			o.fail(h, "retained-handle-wrong-generation", fmt.Sprintf("handle opened on generation %d returned generation %d", want, h.Out.Gen), hist)
		}
		return
	}
	cur := o.st(key)
	var next []kstate
	seen := map[kstate]bool{}
	for _, s := range cur {
		for _, n := range o.cfg.step(s, h.In, h.Out) {
			if !seen[n] {
				seen[n] = true
				next = append(next, n)
			}
		}
	}
	if len(next) == 0 {
		o.fail(h, symptom(cur[0], h.In, h.Out), h.Note, hist)
		return
	}
	o.states[key] = next
	switch {
	case (h.In.Kind == opRead || h.In.Kind == opDRead) && h.Out.Res == rOK && h.Out.Gen == 0 && h.Note != "retained-handle-open":
		// sequential history: nothing ran between the Open and the last byte
		sym := "blob-corrupt"
		if strings.HasPrefix(h.Note, "read-error") {
			sym = "blob-unreadable-after-open"
		}
		if h.In.Kind == opDRead {
			sym = "disk-" + sym
		}
		o.fail(h, sym, h.Note, hist)
	case h.In.Kind == opRead && h.Out.Res == rOK && h.Note == "retained-handle-open":
		if len(next) == 1 {
			o.hgen[h.ID] = next[0].Gen
		}
		o.hkey[h.ID] = key
	case h.In.Kind == opDelete && h.Out.Res == rOK:
		for id, k := range o.hkey {
			if k == key {
				o.hdead[id] = true
			}
		}
	}
}

func orderKeyName(k string) string {
	if strings.HasPrefix(k, "~") {
		return ""
	}
	return k
}

// runScripted executes sc with ks[i] flush steps before the i-th decision
// operation (fewer if the flusher runs out of work).
func runScripted(t testing.TB, run *ev.Run, base string, sc scenario, ks []int) (res scriptResult) {
	r := newRigSafe(t, run, base, sc.Cfg, &res)
	if r == nil {
		return res
	}
	defer r.close()
	defer func() {
		if p := recover(); p != nil {
			if a, ok := p.(abortSchedule); ok {
				res.Aborted = a.reason
				return
			}
			panic(p)
		}
	}()
	or := newScriptOracle(sc.Cfg.Vanish)
	hs := &handleSet{m: map[string]*handle{}}
	keys := map[string]bool{}
	all := append([]sop(nil), sc.Ops...)
	for _, o := range sc.Ops {
		if o.Key != "" {
			keys[o.Key] = true
		}
	}
	var klist []string
	for k := range keys {
		klist = append(klist, k)
	}
	sort.Strings(klist)
	variant := len(sc.Ops)
	for _, k := range ks {
		variant += k
	}
	all = append(all, epilogue(klist, sc.Cfg.Vanish, variant)...)
	di := 0
	for _, op := range all {
		if or.viol != nil {
			break
		}
		if !op.Fixed {
			k := 0
			if di < len(ks) {
				k = ks[di]
			}
			a := 0
			for a < k && r.canStep() {
				r.step()
				a++
				res.Steps++
			}
			res.Eff = append(res.Eff, a)
			res.IdleAfter = append(res.IdleAfter, !r.canStep())
			di++
		}
		if op.Op == "Drain" {
			res.Steps += r.drain()
			continue
		}
		for _, h := range r.exec(0, op, hs) {
			or.apply(h, r.history)
		}
	}
	res.Hist = r.history()
	res.Order = r.sess.Order(orderKeyName)
	res.Points = r.sess.Counts()
	res.Viol = or.viol
	for _, h := range res.Hist {
		if strings.HasPrefix(h.At, "self") || strings.HasPrefix(h.At, "other") {
			res.NonTriv = true
			break
		}
	}
	return res
}

func newRigSafe(t testing.TB, run *ev.Run, base string, cfg rigCfg, res *scriptResult) (r *rig) {
	defer func() {
		if p := recover(); p != nil {
			if a, ok := p.(abortSchedule); ok {
				res.Aborted = a.reason
				r = nil
				return
			}
			panic(p)
		}
	}()
	return newRig(t, run, base, cfg, true)
}

type collector struct {
	run        *ev.Run
	t          testing.TB
	mu         sync.Mutex
	seenEff    map[string]bool
	disagree   int
	porcChecks atomic.Int64
}

func histStrings(h []hop) []string {
	out := make([]string, len(h))
	for i, o := range h {
		out[i] = o.String()
	}
	return out
}

// report turns one scripted result into evidence / violations.
func (c *collector) reportScripted(phase string, sc scenario, ks []int, res scriptResult) {
	run := c.run
	caseKey := ev.JSON(map[string]interface{}{"sc": sc, "eff": res.Eff})
	caseID := "S|" + ev.JSON(map[string]interface{}{"sc": sc, "ks": ks})
	if res.Aborted != "" {
		run.Inconclusive(phase + ": schedule aborted: " + res.Aborted + " case=" + caseID)
		return
	}
	run.Case(caseKey, res.NonTriv)
	run.Count("schedules_"+phase, 1)
	run.Count("flush_steps_forced", int64(res.Steps))
	run.Count("client_ops", int64(len(res.Hist)))
	for p, n := range res.Points {
		run.Count("point_"+p, n)
	}
	for _, h := range res.Hist {
		run.Count("op_"+h.In.Kind.String(), 1)
		if h.At != "" && h.At != "idle" && h.In.Kind.mutating() {
			at := h.At
			if i := strings.LastIndexByte(at, '.'); i >= 0 {
				at = at[:strings.IndexByte(at, ':')+1] + at[i+1:]
			}
			run.Distinct("op_x_flush_position", h.In.Kind.String()+"@"+at)
		}
	}
	run.Distinct("interleavings", sched.HashOrder(res.Order))
	if run.WantSample() && res.NonTriv {
		run.Sample(map[string]interface{}{"phase": phase, "config": sc.Cfg.Name, "ops": fmt.Sprint(sc.Ops), "steps_before_each_decision": res.Eff, "order_observed": res.Order})
	}
	// cross-check: porcupine on the same (sequential) history must agree with
	// the step-by-step comparison about model divergences.
	if res.Viol == nil {
		byKey := map[string][]hop{}
		for _, h := range res.Hist {
			byKey[h.In.Key] = append(byKey[h.In.Key], h)
		}
		for k, ops := range byKey {
			lr := checkKey(modelCfg{vanish: sc.Cfg.Vanish}, k, ops, 30*time.Second)
			c.porcChecks.Add(1)
			if lr.Result == porcupine.Illegal {
				c.mu.Lock()
				c.disagree++
				c.mu.Unlock()
				c.t.Errorf("oracle disagreement: porcupine rejects a scripted history the step-by-step model accepted (key %s, culprit %v)", k, lr.Culprit)
			}
		}
		return
	}
	run.Violation(res.Viol.Sig, caseID, map[string]interface{}{
		"phase": phase, "violation": res.Viol, "scenario": sc, "steps_requested": ks, "steps_taken": res.Eff,
		"order_observed": res.Order, "history": histStrings(res.Hist),
	})
}

// enumerate executes every distinct placement of the decision operations of sc
// between the flush steps (odometer over the step counts; a position is not
// increased further once the flusher was idle after its steps).
func (c *collector) enumerate(base string, sc scenario, limit int) (n int, complete bool) {
	nd := sc.decisions()
	ks := make([]int, nd)
	const maxK = 60
	for {
		res := runScripted(c.t, c.run, base, sc, ks)
		c.reportScripted("enumerated", sc, append([]int(nil), ks...), res)
		n++
		if res.Aborted != "" {
			return n, false
		}
		if limit > 0 && n >= limit {
			return n, false
		}
		// a violation cuts the run short: positions not reached count as idle
		i := nd - 1
		for i >= 0 {
			idle := i >= len(res.IdleAfter) || res.IdleAfter[i]
			if !idle && ks[i] < maxK {
				ks[i]++
				break
			}
			ks[i] = 0
			i--
		}
		if i < 0 {
			return n, true
		}
	}
}

// ---------------------------------------------------------------------------
// Free-running runs
// ---------------------------------------------------------------------------

type freeCase struct {
	Index   int    `json:"index"`
	Cfg     rigCfg `json:"cfg"`
	Clients int    `json:"clients"`
	PerCl   int    `json:"ops_per_client"`
	Keys    int    `json:"keys"`
	Seed    int64  `json:"seed"`
}

func freeOp(rnd *rand.Rand, keys []string) sop {
	k := keys[rnd.Intn(len(keys))]
	switch x := rnd.Intn(100); {
	case x < 14:
		return sop{Op: "Put", Key: k, Size: blobMin + 8*rnd.Intn((blobMax-blobMin)/8+1)}
	case x < 18:
		return sop{Op: "Create", Key: k, Size: blobMin + 8*rnd.Intn((blobMax-blobMin)/8+1)}
	case x < 24:
		return sop{Op: "Mark", Key: k}
	case x < 32:
		return sop{Op: "Delete", Key: k}
	case x < 47:
		return sop{Op: "Read", Key: k}
	case x < 52:
		return sop{Op: "OpenH", Key: k}
	case x < 55:
		return sop{Op: "HRead", Key: k}
	case x < 60:
		return sop{Op: "HSeq", Key: k, N: 8 * (4 + rnd.Intn(30)), First: firstOps[rnd.Intn(len(firstOps))]}
	case x < 64:
		return sop{Op: "HasC", Key: k}
	case x < 66:
		return sop{Op: "Has", Key: k}
	case x < 68:
		return sop{Op: "ListC"}
	case x < 69:
		return sop{Op: "List"}
	case x < 82:
		return sop{Op: "SetMD", Key: k, MD: rnd.Intn(nMD)}
	case x < 86:
		return sop{Op: "DelMD", Key: k, MD: rnd.Intn(nMD)}
	case x < 95:
		return sop{Op: "GetMD", Key: k, MD: rnd.Intn(nMD)}
	default:
		return sop{Op: "GetMDC", Key: k, MD: rnd.Intn(nMD)}
	}
}

type freeResult struct {
	Hist    []hop
	Trace   []sched.Event
	Order   []string
	Points  map[string]int64
	Aborted string
	Viols   []violation
	Unknown []string
	NonTriv bool
	PorcOps int
}

func runFree(t testing.TB, run *ev.Run, base string, fc freeCase) (res freeResult) {
	r := newRig(t, run, base, fc.Cfg, false)
	defer r.close()
	prnd := rand.New(rand.NewSource(fc.Seed))
	// hook points only perturb the schedule
	r.sess.SetPolicy(func(name, key string) sched.Action {
		if isSentinelKey(key) {
			return sched.Ignore
		}
		switch x := prnd.Intn(10); {
		case x < 3:
			return sched.Yield
		case x < 5:
			return sched.Nap
		}
		return sched.Pass
	})
	keys := []string{"A", "B", "C"}[:fc.Keys]
	var wg sync.WaitGroup
	for c := 0; c < fc.Clients; c++ {
		wg.Add(1)
		crnd := rand.New(rand.NewSource(fc.Seed*1000 + int64(c)))
		go func(c int) {
			defer wg.Done()
			hs := &handleSet{m: map[string]*handle{}}
			for i := 0; i < fc.PerCl; i++ {
				op := freeOp(crnd, keys)
				if op.Op == "Put" {
					if h := r.doCreate(c, op.Key, op.Size); h.Out.Res == rOK {
						r.doMark(c, op.Key)
					}
					continue
				}
				r.exec(c, op, hs)
				if crnd.Intn(4) == 0 {
					runtime.Gosched()
				}
			}
		}(c)
	}
	done := make(chan struct{})
	go func() { wg.Wait(); close(done) }()
	select {
	case <-done:
	case <-time.After(2 * watchdog):
		res.Aborted = "client goroutines did not finish within the watchdog"
		return res
	}
	if !r.quiesce() {
		res.Aborted = "flush workers did not drain within the watchdog"
		return res
	}
	// quiescent observations (single client)
	hs := &handleSet{m: map[string]*handle{}}
	qc := fc.Clients
	for _, k := range keys {
		r.exec(qc, sop{Op: "Has", Key: k}, hs)
		r.exec(qc, sop{Op: "Read", Key: k}, hs)
		for m := 0; m < nMD; m++ {
			r.exec(qc, sop{Op: "GetMD", Key: k, MD: m}, hs)
		}
		if !fc.Cfg.Vanish {
			r.exec(qc, sop{Op: "DRead", Key: k}, hs)
			for m := 0; m < nMD; m++ {
				r.exec(qc, sop{Op: "DGetMD", Key: k, MD: m}, hs)
			}
		}
	}
	r.exec(qc, sop{Op: "ListC"}, hs)
	res.Hist = r.history()
	res.Trace = r.sess.Trace()
	res.Order = r.sess.Order(orderKeyName)
	res.Points = r.sess.Counts()
	analyzeFree(fc, &res)
	return res
}

// analyzeFree applies the direct oracles and porcupine to a concurrent
// history.
func analyzeFree(fc freeCase, res *freeResult) {
	hist := res.Hist
	byID := map[int]int{}
	for i, h := range hist {
		byID[h.ID] = i
	}
	// a successful Delete overlapping [a, b] excuses what a handle returns
	deleted := func(key string, a, b int64) bool {
		for _, d := range hist {
			if d.In.Kind == opDelete && d.In.Key == key && d.Out.Res == rOK && d.Call < b && d.Ret > a {
				return true
			}
		}
		return false
	}
	where := func(h hop) string {
		if h.Client == fc.Clients {
			return whereQuiescent
		}
		return whereDuring
	}
	addViol := func(h hop, sym, detail string) {
		ctx := freeCtx(hist, res.Trace, h.In.Key, h.Ret).pick(sym)
		res.Viols = append(res.Viols, violation{Sig: mkSig(sym, ctx, where(h)), Symptom: sym, Ctx: ctx, Where: where(h), Key: shortKey(h.In.Key), Op: h.String(), Detail: detail})
	}
	// operations that overlapped a successful Delete of their key
	for i := range hist {
		h := &hist[i]
		switch h.In.Kind {
		case opRead, opGetMD, opHas:
			if deleted(h.In.Key, h.Call, h.Ret) {
				h.In.Tol = true
			}
		}
		// [Call, Ret] of a Read is the Open; the bytes are read afterwards. When a
		// successful Delete overlapped the handle phase, the handle is the handle of
		// a deleted blob (it may even switch to the disk file of a later generation
		// of the key): what it returned says nothing about the state at the Open.
		if h.In.Kind == opRead && h.Out.Res == rOK && h.Out.Gen != 0 && h.ReadEnd > h.Ret && deleted(h.In.Key, h.Call, h.ReadEnd) {
			h.Note += fmt.Sprintf(" (returned generation %d; not judged: a Delete overlapped the handle)", h.Out.Gen)
			h.Out.Gen = 0
		}
	}
	for _, h := range hist {
		switch h.In.Kind {
		case opRead, opDRead:
			if h.Out.Res == rOK && h.Out.Gen == 0 && h.Note != "retained-handle-open" {
				if fc.Cfg.Vanish || deleted(h.In.Key, h.Call, h.ReadEnd) {
					continue
				}
				sym := "blob-corrupt"
				if strings.HasPrefix(h.Note, "read-error") {
					sym = "blob-unreadable-after-open"
				}
				addViol(h, sym, h.Note)
			}
		case opHRead:
			oi, ok := byID[h.Ref]
			if !ok {
				continue
			}
			open := &hist[oi]
			if fc.Cfg.Vanish || deleted(h.In.Key, open.Call, h.Ret) {
				continue
			}
			switch {
			case h.Out.Res != rOK:
				addViol(h, "retained-handle-broken", h.Out.Err)
			case h.Out.Gen == 0:
				addViol(h, "retained-handle-corrupt", h.Note)
			case open.Out.Gen == 0:
				open.Out.Gen = h.Out.Gen // the Open observed this generation
			case open.Out.Gen != h.Out.Gen:
				addViol(h, "retained-handle-wrong-generation", fmt.Sprintf("earlier read through the same handle returned generation %d", open.Out.Gen))
			}
		}
	}
	// linearizability per key
	byKey := map[string][]hop{}
	for _, h := range hist {
		byKey[h.In.Key] = append(byKey[h.In.Key], h)
	}
	var ks []string
	for k := range byKey {
		ks = append(ks, k)
	}
	sort.Strings(ks)
	for _, k := range ks {
		lr := checkKey(modelCfg{vanish: fc.Cfg.Vanish}, k, byKey[k], 60*time.Second)
		res.PorcOps += lr.NumOps
		switch lr.Result {
		case porcupine.Unknown:
			res.Unknown = append(res.Unknown, fmt.Sprintf("porcupine timed out on key %s (%d ops)", shortKey(k), lr.NumOps))
		case porcupine.Illegal:
			upTo, wh := int64(1)<<62, whereDuring
			if lr.Culprit != nil {
				upTo, wh = lr.Culprit.Ret, where(*lr.Culprit)
			}
			ctx := freeCtx(hist, res.Trace, k, upTo).pick(lr.Symptom)
			v := violation{Sig: mkSig(lr.Symptom, ctx, wh), Symptom: lr.Symptom, Ctx: ctx, Where: wh, Key: shortKey(k), State: lr.State.String(), Detail: "history of this key is not linearizable"}
			if lr.Culprit != nil {
				v.Op = lr.Culprit.String()
			}
			res.Viols = append(res.Viols, v)
		}
	}
	// non-trivial: some client operation on a key overlapped a flush of that key
	type iv struct{ a, b int64 }
	fl := map[string][]iv{}
	start := map[string][]int64{}
	for _, e := range res.Trace {
		switch e.Name {
		case ptStart:
			start[e.Key] = append(start[e.Key], e.Stamp)
		case ptBeforeUnban:
			if s := start[e.Key]; len(s) > 0 {
				fl[e.Key] = append(fl[e.Key], iv{s[0], e.Stamp})
				start[e.Key] = s[1:]
			}
		}
	}
	for _, h := range hist {
		for _, f := range fl[h.In.Key] {
			if h.Call < f.b && h.Ret > f.a {
				res.NonTriv = true
			}
		}
	}
}

func (c *collector) reportFree(fc freeCase, res freeResult) {
	run := c.run
	caseID := "F|" + ev.JSON(fc)
	if res.Aborted != "" {
		run.Inconclusive("free-running: " + res.Aborted + " case=" + caseID)
		return
	}
	for _, u := range res.Unknown {
		run.Inconclusive("free-running: " + u + " case=" + caseID)
	}
	run.Case(ev.JSON(fc)+sched.HashOrder(res.Order), res.NonTriv)
	run.Count("histories_free_running", 1)
	run.Count("client_ops", int64(len(res.Hist)))
	run.Count("porcupine_ops_checked", int64(res.PorcOps))
	for p, n := range res.Points {
		run.Count("point_"+p, n)
	}
	for _, h := range res.Hist {
		run.Count("op_"+h.In.Kind.String(), 1)
	}
	run.Distinct("interleavings", sched.HashOrder(res.Order))
	run.Distinct("flush_worker_counts", fmt.Sprint(fc.Cfg.Workers))
	for _, v := range res.Viols {
		v := v
		run.Violation(v.Sig, caseID, map[string]interface{}{
			"phase": "free-running", "violation": v, "case": fc, "history": histStrings(res.Hist), "order_observed": res.Order,
		})
	}
}

// ---------------------------------------------------------------------------
// Entry point
// ---------------------------------------------------------------------------

func pool(n int, jobs []func()) {
	ch := make(chan func())
	var wg sync.WaitGroup
	for i := 0; i < n; i++ {
		wg.Add(1)
		go func() {
			defer wg.Done()
			for j := range ch {
				j()
			}
		}()
	}
	for _, j := range jobs {
		ch <- j
	}
	close(ch)
	wg.Wait()
}

func TestC09(t *testing.T) {
	run := ev.Start(t, "C09", "exploration",
		"Real tiered.Store. (1) enumerated: for each scenario (prefix Create/SetMD/MarkComplete/Open-handle of blob A + 1-3 client operations from a 13-entry alphabet: metadata set/delete/get, read, retained-handle read, delete, re-create, mark complete, put of a second blob (memory pressure), has, list) every placement of the client operations between the steps of the single flush worker (10 yield points per flush) is executed; (2) random: longer scenarios over two keys with seed-drawn step counts in three capacity configurations; (3) free running: 3-6 client goroutines on 2-3 keys with 1-10 flush workers, hook points yield/nap at random. "+
			"A case is one executed schedule/history, distinct by (scenario, steps actually taken) resp. (parameters, observed order); non-trivial when at least one client operation ran while a flush was in progress (scripted: worker parked inside a flush; free-running: stamps of an operation overlap a flush of its key).")
	defer run.Finish()
	run.Assume("the per-key sequential model (absent | incomplete | complete(gen, metadata)) is the specification; List may omit a present key (only listing a deleted key is judged)")
	run.Assume("one writer per key at a time: Create+Write+Close and MarkComplete of one key are serialised by the harness, so a blob is never marked complete while another client is still writing it, and no client writes through a handle of a deleted blob")
	run.Assume("porcupine v1.3.0 decides linearizability of concurrent histories; a timeout is reported as inconclusive")
	run.Assume("handles of deleted blobs and everything in the small-disk configuration that may have been evicted from disk are not judged (only no-corruption / no-resurrection there)")

	base := ev.TempDir(t, "c09-")
	col := &collector{run: run, t: t, seenEff: map[string]bool{}}
	par := runtime.GOMAXPROCS(0)
	if par > 16 {
		par = 16
	}

	// ---- replay of one recorded case ----
	if rc := run.ReplayCase(); rc != "" {
		switch {
		case strings.HasPrefix(rc, "S|"):
			var c struct {
				Sc scenario `json:"sc"`
				Ks []int    `json:"ks"`
			}
			if err := json.Unmarshal([]byte(rc[2:]), &c); err != nil {
				t.Fatalf("replay case: %v", err)
			}
			res := runScripted(t, run, base, c.Sc, c.Ks)
			col.reportScripted("replay", c.Sc, c.Ks, res)
			for _, h := range res.Hist {
				t.Log(h.String())
			}
			t.Log(res.Order)
		case strings.HasPrefix(rc, "F|"):
			var fc freeCase
			if err := json.Unmarshal([]byte(rc[2:]), &fc); err != nil {
				t.Fatalf("replay case: %v", err)
			}
			for i := 0; i < 20; i++ { // schedule is not reproducible; retry a few times
				col.reportFree(fc, runFree(t, run, base, fc))
			}
		}
		return
	}

	// ---- phase 1: enumerated interleavings ----
	rnd := run.Rand("scenarios")
	var scs []scenario
	nAlpha := len(alphabet(0, 0))
	sizes := func() (int, int) {
		return blobMin + 8*rnd.Intn((blobMax-blobMin)/8+1), blobMin + 8*rnd.Intn((blobMax-blobMin)/8+1)
	}
	// all 1-op bodies, small memory
	for i := 0; i < nAlpha; i++ {
		a, b := sizes()
		scs = append(scs, buildScenario(cfgMemSmall, a, b, []int{i}))
	}
	n2 := run.N(14, 0)
	n3 := run.N(3, 0)
	if run.Quick() {
		// seed-chosen 2-op bodies (first from the whole alphabet, second from
		// the core alphabet or vice versa) and 3-op core bodies
		for i := 0; i < n2; i++ {
			a, b := sizes()
			x, y := rnd.Intn(nAlpha), coreAlpha[rnd.Intn(len(coreAlpha))]
			if rnd.Intn(2) == 0 {
				x, y = y, x
			}
			cfg := cfgMemSmall
			if i%7 == 6 {
				cfg = cfgMemBig
			}
			scs = append(scs, buildScenario(cfg, a, b, []int{x, y}))
		}
		for i := 0; i < n3; i++ {
			a, b := sizes()
			scs = append(scs, buildScenario(cfgMemSmall, a, b, []int{
				coreAlpha[rnd.Intn(len(coreAlpha))], coreAlpha[rnd.Intn(len(coreAlpha))], coreAlpha[rnd.Intn(len(coreAlpha))]}))
		}
	} else {
		// full enumeration of every 2-op body (small memory), of every 2-op
		// core body with big memory, and of 24 seed-chosen 3-op core bodies
		for x := 0; x < nAlpha; x++ {
			for y := 0; y < nAlpha; y++ {
				a, b := sizes()
				scs = append(scs, buildScenario(cfgMemSmall, a, b, []int{x, y}))
			}
		}
		for _, x := range coreAlpha {
			for _, y := range coreAlpha {
				a, b := sizes()
				scs = append(scs, buildScenario(cfgMemBig, a, b, []int{x, y}))
			}
		}
		for i := 0; i < 24; i++ {
			a, b := sizes()
			scs = append(scs, buildScenario(cfgMemSmall, a, b, []int{
				coreAlpha[rnd.Intn(len(coreAlpha))], coreAlpha[rnd.Intn(len(coreAlpha))], coreAlpha[rnd.Intn(len(coreAlpha))]}))
		}
	}
	var jobs []func()
	var enumTotal, enumComplete atomic.Int64
	for _, sc := range scs {
		sc := sc
		jobs = append(jobs, func() {
			n, complete := col.enumerate(base, sc, 0)
			enumTotal.Add(int64(n))
			if complete {
				enumComplete.Add(1)
			}
		})
	}
	t0 := time.Now()
	pool(par, jobs)
	run.Set("enumerated_scenarios", len(scs))
	run.Set("enumerated_scenarios_exhausted", enumComplete.Load())
	t.Logf("phase 1: %d scenarios, %d schedules, %.1fs", len(scs), enumTotal.Load(), time.Since(t0).Seconds())

	// ---- phase 2: random forced interleavings ----
	nRand := run.N(600, 8000)

	rr := run.Rand("random-scripted")
	jobs = jobs[:0]
	kdist := []int{0, 0, 0, 1, 1, 2, 2, 3, 4, 6, 9, 13}
	for i := 0; i < nRand; i++ {
		cfg := []rigCfg{cfgMemSmall, cfgMemSmall, cfgMemBig, cfgDiskSmall}[rr.Intn(4)]
		sizeA, sizeB := blobMin+8*rr.Intn(26), blobMin+8*rr.Intn(26)
		al := alphabet(sizeA, sizeB)
		ops := prefix(sizeA)
		n := 3 + rr.Intn(6)
		for j := 0; j < n; j++ {
			e := al[rr.Intn(len(al))]
			// a third of the operations go to the other key
			if rr.Intn(3) == 0 {
				var sw []sop
				for _, o := range e {
					switch o.Key {
					case "A":
						o.Key = "B"
					case "B":
						o.Key = "A"
					}
					sw = append(sw, o)
				}
				e = sw
			}
			ops = append(ops, e...)
		}
		sc := scenario{Cfg: cfg, Ops: ops}
		ks := make([]int, sc.decisions())
		for j := range ks {
			ks[j] = kdist[rr.Intn(len(kdist))]
		}
		jobs = append(jobs, func() {
			res := runScripted(t, run, base, sc, ks)
			col.reportScripted("random", sc, ks, res)
		})
	}
	t0 = time.Now()
	pool(par, jobs)
	t.Logf("phase 2: %d random schedules, %.1fs", nRand, time.Since(t0).Seconds())

	// ---- phase 3: free running ----
	nFree := run.N(240, 2000)

	fr := run.Rand("free-running")
	jobs = jobs[:0]
	for i := 0; i < nFree; i++ {
		cfg := []rigCfg{cfgMemSmall, cfgMemSmall, cfgMemBig, cfgDiskSmall}[fr.Intn(4)]
		cfg.Workers = []int{1, 2, 3, 5, 10}[fr.Intn(5)]
		fc := freeCase{Index: i, Cfg: cfg, Clients: 3 + fr.Intn(4), PerCl: 10 + fr.Intn(9), Keys: 2 + fr.Intn(2), Seed: fr.Int63()}
		jobs = append(jobs, func() { col.reportFree(fc, runFree(t, run, base, fc)) })
	}
	t0 = time.Now()
	pool(par/2+1, jobs)
	t.Logf("phase 3: %d free-running histories, %.1fs", nFree, time.Since(t0).Seconds())
	run.Set("porcupine_cross_checks_on_scripted_histories", col.porcChecks.Load())
	if hub.Unrouted() > 0 {
		t.Logf("note: %d hook calls matched no session", hub.Unrouted())
	}
}
