//go:build verif

package c09

import (
	"fmt"
	"sort"
	"time"

	"github.com/anishathalye/porcupine"
)

// ---------------------------------------------------------------------------
// Sequential model of one key of the tiered store.
//
//	absent | incomplete(gen, md) | complete(gen, md)
//
// gen identifies one successful Create (unique per history); md holds, per
// metadata kind, the id of the last value set (0 = not present).
// ---------------------------------------------------------------------------

type phase uint8

const (
	phAbsent phase = iota
	phIncomplete
	phComplete
)

func (p phase) String() string { return [...]string{"absent", "incomplete", "complete"}[p] }

const nMD = 2

type kstate struct {
	Ph  phase
	Gen int32
	MD  [nMD]int32
}

func (s kstate) String() string {
	if s.Ph == phAbsent {
		return "absent"
	}
	return fmt.Sprintf("%s(gen=%d,md=%v)", s.Ph, s.Gen, s.MD)
}

type opKind uint8

const (
	opCreate opKind = iota // Create + Write(bytes of gen) + Close
	opMark                 // MarkComplete
	opDelete               // Delete
	opRead                 // ScopeComplete().Open + ReadAll
	opHas                  // Has / ScopeComplete().Has
	opListed               // key was contained in the result of List / ScopeComplete().List
	opSetMD                // SetMetadata
	opGetMD                // GetMetadata / ScopeComplete().GetMetadata
	opDelMD                // DeleteMetadata
	opHRead                // read through a retained handle (direct oracle only)
	opDRead                // quiescent: disk store ScopeComplete().Open + ReadAll
	opDGetMD               // quiescent: disk store GetMetadata
)

var opNames = [...]string{"Create", "MarkComplete", "Delete", "Read", "Has", "Listed", "SetMD", "GetMD", "DelMD", "HandleRead", "DiskRead", "DiskGetMD"}

func (k opKind) String() string { return opNames[k] }

func (k opKind) mutating() bool {
	switch k {
	case opCreate, opMark, opDelete, opSetMD, opDelMD:
		return true
	}
	return false
}

type resKind uint8

const (
	rOK resKind = iota
	rExist
	rNotFound
	rOutOfScope
	rErr
)

func (r resKind) String() string {
	return [...]string{"ok", "exists", "not-found", "out-of-scope", "error"}[r]
}

const (
	scopeAny      = 0
	scopeComplete = 1
)

type opIn struct {
	Kind  opKind `json:"-"`
	K     string `json:"kind"`
	Key   string `json:"key"`
	Gen   int32  `json:"gen,omitempty"`   // Create: generation written
	MD    int    `json:"md"`              // metadata kind index
	Val   int32  `json:"val,omitempty"`   // SetMD: value id
	Scope int    `json:"scope,omitempty"` // 0 any, 1 complete
	// Tol: the operation overlapped a successful Delete of its key. Which "not
	// available" answer a reader racing with a Delete gets is not part of the
	// property: when linearized while the key still exists it may see the
	// half-deleted blob (out of scope / any metadata value).
	Tol bool `json:"overlaps_delete,omitempty"`
}

type opOut struct {
	Res resKind `json:"-"`
	R   string  `json:"res"`
	// Read: generation whose exact bytes were returned; 0 with Res==rOK means the
	// content could not be attributed (only possible when excused, see oracle).
	Gen     int32  `json:"gen,omitempty"`
	Found   bool   `json:"found,omitempty"` // GetMD
	Val     int32  `json:"val,omitempty"`   // GetMD
	InStore bool   `json:"in_store,omitempty"`
	InScope bool   `json:"in_scope,omitempty"`
	Err     string `json:"err,omitempty"`
}

// modelCfg: vanish = a complete blob may be evicted (disk smaller than the
// working set), so "disappeared" is not decidable and only no-corruption /
// no-resurrection is checked.
type modelCfg struct{ vanish bool }

// step returns the states the key may be in after (in -> out) was applied in
// state s; empty = this output is impossible in s.
func (c modelCfg) step(s kstate, in opIn, out opOut) []kstate {
	res := c.step1(s, in, out)
	if c.vanish && s.Ph == phComplete {
		res = append(res, c.step1(kstate{}, in, out)...)
	}
	return res
}

func (c modelCfg) step1(s kstate, in opIn, out opOut) []kstate {
	same := []kstate{s}
	exists := s.Ph != phAbsent
	switch in.Kind {
	case opCreate:
		switch out.Res {
		case rOK:
			if !exists {
				return []kstate{{Ph: phIncomplete, Gen: in.Gen}}
			}
		case rExist:
			if exists {
				return same
			}
		case rErr:
			if c.vanish { // no space anywhere: legal only with a small disk
				return same
			}
		}
	case opMark:
		switch out.Res {
		case rOK:
			if exists {
				n := s
				n.Ph = phComplete
				return []kstate{n}
			}
		case rNotFound:
			if !exists {
				return same
			}
		}
	case opDelete:
		switch out.Res {
		case rOK:
			if exists {
				return []kstate{{}}
			}
		case rNotFound:
			if !exists {
				return same
			}
		}
	case opRead:
		switch out.Res {
		case rOK:
			if s.Ph == phComplete && (out.Gen == 0 || out.Gen == s.Gen) {
				return same
			}
		case rNotFound:
			if !exists {
				return same
			}
		case rOutOfScope:
			if s.Ph == phIncomplete || (in.Tol && exists) {
				return same
			}
		}
	case opHas:
		wantStore := exists
		wantScope := exists && (in.Scope == scopeAny || s.Ph == phComplete)
		if out.InStore == wantStore && out.InScope == wantScope {
			return same
		}
		if in.Tol && exists && out.InStore && !out.InScope && in.Scope == scopeComplete {
			return same
		}
	case opListed:
		if exists && (in.Scope == scopeAny || s.Ph == phComplete) {
			return same
		}
	case opSetMD:
		switch out.Res {
		case rOK:
			if exists {
				n := s
				n.MD[in.MD] = in.Val
				return []kstate{n}
			}
		case rNotFound:
			if !exists {
				return same
			}
		}
	case opDelMD:
		switch out.Res {
		case rOK:
			if exists {
				n := s
				n.MD[in.MD] = 0
				return []kstate{n}
			}
		case rNotFound:
			if !exists {
				return same
			}
		}
	case opDRead:
		// after the flushers drained, the disk store alone must hold every
		// completed blob; an incomplete blob may live in memory only.
		switch out.Res {
		case rOK:
			if s.Ph == phComplete && out.Gen == s.Gen {
				return same
			}
		case rNotFound:
			if s.Ph != phComplete {
				return same
			}
		case rOutOfScope:
			if s.Ph == phIncomplete {
				return same
			}
		}
	case opDGetMD:
		switch {
		case s.Ph == phIncomplete:
			return same
		case s.Ph == phAbsent:
			if out.Res == rNotFound {
				return same
			}
		case out.Res == rOK:
			if out.Found == (s.MD[in.MD] != 0) && (!out.Found || out.Val == s.MD[in.MD]) {
				return same
			}
		}
	case opGetMD:
		switch out.Res {
		case rOK:
			if exists && (in.Scope == scopeAny || s.Ph == phComplete) {
				if out.Found == (s.MD[in.MD] != 0) && (!out.Found || out.Val == s.MD[in.MD]) {
					return same
				}
				if in.Tol {
					return same
				}
			}
		case rNotFound:
			if !exists {
				return same
			}
		case rOutOfScope:
			if in.Scope == scopeComplete && (s.Ph == phIncomplete || (in.Tol && exists)) {
				return same
			}
		}
	}
	return nil
}

// symptom names the way (in -> out) contradicts state s. Coarse on purpose: it
// is the stable first half of a violation signature.
func symptom(s kstate, in opIn, out opOut) string {
	exists := s.Ph != phAbsent
	switch in.Kind {
	case opRead:
		switch {
		case out.Res == rOK && s.Ph == phComplete && out.Gen != 0:
			return "blob-wrong-generation"
		case out.Res == rOK && s.Ph == phIncomplete:
			return "incomplete-blob-served-as-complete"
		case out.Res == rOK && !exists:
			return "key-resurfaced"
		case s.Ph == phComplete:
			return "blob-lost"
		case s.Ph == phIncomplete && out.Res == rNotFound:
			return "blob-lost"
		case !exists && out.Res == rOutOfScope:
			return "key-resurfaced"
		}
	case opDRead:
		switch {
		case s.Ph == phComplete && out.Res == rOK:
			return "disk-wrong-generation"
		case s.Ph == phComplete:
			return "disk-missing-completed-blob"
		case s.Ph == phAbsent:
			return "disk-leaked-deleted-key"
		default:
			return "disk-incomplete-blob-marked-complete"
		}
	case opDGetMD:
		if s.Ph == phAbsent {
			return "disk-leaked-deleted-key"
		}
		if out.Res == rOK {
			return "disk-metadata-stale"
		}
		return "disk-missing-completed-blob"
	case opGetMD:
		switch {
		case out.Res == rOK && exists && (in.Scope == scopeAny || s.Ph == phComplete):
			return "metadata-stale"
		case out.Res == rOK && !exists, out.Res == rOutOfScope && !exists:
			return "key-resurfaced"
		case out.Res == rOK && s.Ph == phIncomplete:
			return "incomplete-blob-served-as-complete"
		case out.Res == rNotFound && exists:
			return "blob-lost"
		case out.Res == rOutOfScope && s.Ph == phComplete:
			return "blob-lost"
		}
	case opCreate:
		switch {
		case out.Res == rExist && !exists:
			return "create-blocked"
		case out.Res == rOK && exists:
			return "create-overwrote-existing-key"
		case out.Res == rErr:
			return "create-failed"
		}
	case opMark, opDelete, opSetMD, opDelMD:
		switch {
		case out.Res == rNotFound && exists:
			return "blob-lost"
		case out.Res == rOK && !exists:
			return "key-resurfaced"
		case out.Res == rErr, out.Res == rOutOfScope, out.Res == rExist:
			return "operation-failed-" + in.Kind.String()
		}
	case opHas:
		switch {
		case out.InStore && !exists:
			return "key-resurfaced"
		case !out.InStore && exists:
			return "blob-lost"
		case s.Ph == phComplete && !out.InScope:
			return "blob-lost"
		case s.Ph == phIncomplete && in.Scope == scopeComplete && out.InScope:
			return "incomplete-blob-served-as-complete"
		}
	case opListed:
		if !exists {
			return "key-resurfaced"
		}
		return "incomplete-blob-served-as-complete"
	}
	return "unexpected-result-" + in.Kind.String() + "-" + out.Res.String()
}

// symptomClass folds the symptoms into the three ways the property can break.
func symptomClass(sym string) string {
	switch sym {
	case "blob-lost", "metadata-stale", "blob-wrong-generation", "disk-missing-completed-blob", "disk-metadata-stale",
		"disk-wrong-generation", "create-overwrote-existing-key", "retained-handle-broken", "blob-unreadable-after-open":
		return "completed-blob-or-metadata-update-lost"
	case "key-resurfaced", "create-blocked", "disk-leaked-deleted-key":
		return "deleted-key-resurfaced-or-blocks-recreation"
	case "blob-corrupt", "incomplete-blob-served-as-complete", "disk-incomplete-blob-marked-complete", "disk-blob-corrupt",
		"retained-handle-corrupt", "retained-handle-wrong-generation":
		return "wrong-bytes-served"
	}
	return sym
}

// ---------------------------------------------------------------------------
// History and porcupine glue.
// ---------------------------------------------------------------------------

type hop struct {
	ID     int    `json:"id"`
	Client int    `json:"client"`
	In     opIn   `json:"in"`
	Out    opOut  `json:"out"`
	Call   int64  `json:"call"`
	Ret    int64  `json:"ret"`
	At     string `json:"at,omitempty"` // scripted mode: where the flush worker was parked
	// reads: [Call, Ret] covers only the Open; ReadEnd is the stamp after the
	// last byte was read (the handle phase, judged by the direct oracle).
	ReadEnd int64  `json:"read_end,omitempty"`
	Ref     int    `json:"ref,omitempty"` // HandleRead: id of the open
	Note    string `json:"note,omitempty"`
}

func (o hop) String() string {
	return fmt.Sprintf("#%d c%d [%d,%d] %s(%s gen=%d md=%d val=%d scope=%d) -> %s gen=%d found=%v val=%d has=%v/%v %s @%s",
		o.ID, o.Client, o.Call, o.Ret, o.In.Kind, o.In.Key, o.In.Gen, o.In.MD, o.In.Val, o.In.Scope,
		o.Out.Res, o.Out.Gen, o.Out.Found, o.Out.Val, o.Out.InStore, o.Out.InScope, o.Out.Err, o.At)
}

type linResult struct {
	Key      string
	Result   porcupine.CheckResult
	Culprit  *hop   // first operation that could not be linearized (Illegal only)
	State    kstate // one model state reached by the longest partial linearization
	Symptom  string
	NumOps   int
	Duration time.Duration
}

// checkKey runs porcupine on the operations of one key.
func checkKey(cfg modelCfg, key string, ops []hop, timeout time.Duration) linResult {
	nm := porcupine.NondeterministicModel{
		Init: func() []interface{} { return []interface{}{kstate{}} },
		Step: func(state, input, output interface{}) []interface{} {
			ns := cfg.step(state.(kstate), input.(opIn), output.(opOut))
			out := make([]interface{}, len(ns))
			for i, s := range ns {
				out[i] = s
			}
			return out
		},
		Equal: func(a, b interface{}) bool { return a.(kstate) == b.(kstate) },
	}
	model := nm.ToModel()
	pops := make([]porcupine.Operation, 0, len(ops))
	byID := map[int]*hop{}
	for i := range ops {
		o := &ops[i]
		if o.In.Kind == opHRead {
			continue
		}
		byID[o.ID] = o
		pops = append(pops, porcupine.Operation{ClientId: o.Client, Input: o.In, Output: o.Out, Call: o.Call, Return: o.Ret, Metadata: o.ID})
	}
	t0 := time.Now()
	res, info := porcupine.CheckOperationsVerbose(model, pops, timeout)
	lr := linResult{Key: key, Result: res, NumOps: len(pops), Duration: time.Since(t0)}
	if res != porcupine.Illegal {
		return lr
	}
	// Longest partial linearization; the culprit is the not-linearized operation
	// with the earliest return (everything else could still be ordered after it).
	var best []porcupine.Operation
	for _, part := range info.PartialLinearizationsOperations() {
		for _, lin := range part {
			if len(lin) > len(best) {
				best = lin
			}
		}
	}
	done := map[int]bool{}
	states := []kstate{{}}
	for _, po := range best {
		id := po.Metadata.(int)
		done[id] = true
		var next []kstate
		for _, s := range states {
			next = append(next, cfg.step(s, po.Input.(opIn), po.Output.(opOut))...)
		}
		if len(next) > 0 {
			states = next
		}
	}
	var rest []*hop
	for id, o := range byID {
		if !done[id] {
			rest = append(rest, o)
		}
	}
	sort.Slice(rest, func(i, j int) bool {
		if rest[i].Ret != rest[j].Ret {
			return rest[i].Ret < rest[j].Ret
		}
		return rest[i].ID < rest[j].ID
	})
	if len(rest) > 0 {
		lr.Culprit = rest[0]
		lr.State = states[0]
		lr.Symptom = symptom(states[0], rest[0].In, rest[0].Out)
	} else {
		lr.Symptom = "nonlinearizable"
	}
	return lr
}
