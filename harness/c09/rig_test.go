//go:build verif

package c09

import (
	"encoding/binary"
	"errors"
	"fmt"
	"io"
	"math"
	"os"
	"path/filepath"
	"regexp"
	"sort"
	"strconv"
	"strings"
	"sync"
	"sync/atomic"
	"testing"
	"time"

	"github.com/uber-go/tally"

	storelib "github.com/uber/kraken/lib/store"
	"github.com/uber/kraken/lib/store/disk"
	"github.com/uber/kraken/lib/store/memory"
	"github.com/uber/kraken/lib/store/metadata"
	"github.com/uber/kraken/lib/store/tiered"
	"github.com/uber/kraken/utils/verifhook"

	"verif/harness/internal/ev"
	"verif/harness/internal/sched"
)

// ---------------------------------------------------------------------------
// One monotonic counter for client call/return stamps and hook events.
// ---------------------------------------------------------------------------

var stampCtr atomic.Int64

func stamp() int64 { return stampCtr.Add(1) }

var (
	hub       = sched.NewHub(stamp)
	seamsOnce sync.Once
	fileKeys  sync.Map // *memory.File -> key, between memOpen and ioCopy
)

const (
	ptStart       = "tiered.flush.start"
	ptMemOpened   = "seam.mem_opened"
	ptCreated     = "tiered.flush.created"
	ptBeforeCopy  = "tiered.flush.before_copy"
	ptCopyMid     = "seam.copy_mid"
	ptCopied      = "tiered.flush.copied"
	ptMarked      = "tiered.flush.marked_complete"
	ptMDSnapshot  = "tiered.flush.md_snapshot"
	ptMDFlushed   = "tiered.flush.md_flushed"
	ptBeforeUnban = "tiered.flush.before_unban"
)

// installSeams installs the hook handler and the memOpen / ioCopy seams. It is
// called once, before the first store exists (the seams are plain package
// variables read by the flush workers).
func installSeams() {
	seamsOnce.Do(func() {
		verifhook.Set(hub.Handle)
		tiered.VerifC09SetSeams(
			func(mem *memory.Store, key string) (*memory.File, error) {
				f, err := mem.Open(key)
				if err == nil {
					fileKeys.Store(f, key)
				}
				// window: memory handle open, disk entry not yet created
				hub.Handle(ptMemOpened, key)
				return f, err
			},
			func(dst io.Writer, src io.Reader) (int64, error) {
				mf, _ := src.(*memory.File)
				key := ""
				if mf != nil {
					if k, ok := fileKeys.LoadAndDelete(mf); ok {
						key = k.(string)
					}
				}
				var size int64 = -1
				if mf != nil {
					size = mf.Size()
				}
				// small explicit buffer: io.Copy would allocate 32 KiB per call
				buf := make([]byte, 512)
				if key == "" || size < 2 {
					return io.CopyBuffer(dst, src, buf)
				}
				n1, err := io.CopyBuffer(dst, io.LimitReader(src, size/2), buf)
				if err == nil && n1 < size/2 {
					err = io.EOF
				}
				if err != nil {
					if err == io.EOF {
						return n1, nil
					}
					return n1, err
				}
				// window: half of the bytes are on disk
				hub.Handle(ptCopyMid, key)
				n2, err := io.CopyBuffer(dst, src, buf)
				return n1 + n2, err
			})
	})
}

// ---------------------------------------------------------------------------
// Blob content: every 8-byte word carries (generation, word index), so any
// byte range identifies the generation it came from.
// ---------------------------------------------------------------------------

func blobBytes(gen int32, size int) []byte {
	b := make([]byte, size)
	for w := 0; w*8 < size; w++ {
		var word [8]byte
		binary.BigEndian.PutUint32(word[0:], uint32(gen))
		binary.BigEndian.PutUint32(word[4:], uint32(w))
		copy(b[w*8:], word[:])
	}
	return b
}

// attribute returns the generation whose canonical bytes equal b exactly, or 0
// and a description of what b looks like.
func (g *gens) attribute(b []byte) (int32, string) {
	if len(b) < 8 {
		return 0, fmt.Sprintf("short(%d bytes)", len(b))
	}
	gen := int32(binary.BigEndian.Uint32(b[0:]))
	size, ok := g.size(gen)
	if !ok {
		return 0, fmt.Sprintf("unknown-generation(%d)", gen)
	}
	if len(b) != size {
		return 0, fmt.Sprintf("length %d != %d of generation %d", len(b), size, gen)
	}
	want := blobBytes(gen, size)
	for i := range b {
		if b[i] != want[i] {
			return 0, fmt.Sprintf("generation %d bytes differ at offset %d (word says generation %d)", gen, i, binary.BigEndian.Uint32(b[i/8*8:]))
		}
	}
	return gen, ""
}

// gens hands out generation ids (unique per rig) and remembers sizes.
type gens struct {
	mu    sync.Mutex
	next  int32
	sizes map[int32]int
	keys  map[int32]string
}

func (g *gens) alloc(key string, size int) int32 {
	g.mu.Lock()
	defer g.mu.Unlock()
	g.next++
	g.sizes[g.next] = size
	g.keys[g.next] = key
	return g.next
}

func (g *gens) size(gen int32) (int, bool) {
	g.mu.Lock()
	defer g.mu.Unlock()
	s, ok := g.sizes[gen]
	return s, ok
}

// ---------------------------------------------------------------------------
// Metadata kinds: index 0 = kraken's LastAccessTime (value id = Unix seconds),
// index 1 = a string-valued movable kind registered by the harness.
// ---------------------------------------------------------------------------

const vmetaSuffix = "_verifc09md"

type vmeta struct{ V string }

func (m *vmeta) GetSuffix() string          { return vmetaSuffix }
func (m *vmeta) Movable() bool              { return true }
func (m *vmeta) Serialize() ([]byte, error) { return []byte(m.V), nil }
func (m *vmeta) Deserialize(b []byte) error { m.V = string(b); return nil }

type vmetaFactory struct{}

func (vmetaFactory) Create(string) metadata.Metadata { return &vmeta{} }

func init() { metadata.Register(regexp.MustCompile("^"+vmetaSuffix+"$"), vmetaFactory{}) }

func mdSuffix(i int) string {
	if i == 0 {
		return (&metadata.LastAccessTime{}).GetSuffix()
	}
	return vmetaSuffix
}

func mdNew(i int, val int32) metadata.Metadata {
	if i == 0 {
		return metadata.NewLastAccessTime(time.Unix(int64(val), 0))
	}
	return &vmeta{V: "v" + strconv.Itoa(int(val))}
}

func mdValue(i int, md metadata.Metadata) int32 {
	if i == 0 {
		return int32(md.(*metadata.LastAccessTime).Time.Unix())
	}
	v, err := strconv.Atoi(strings.TrimPrefix(md.(*vmeta).V, "v"))
	if err != nil {
		return -1
	}
	return int32(v)
}

// ---------------------------------------------------------------------------
// Rig: one real tiered.Store + its session + the history recorded at the
// client boundary.
// ---------------------------------------------------------------------------

type rigCfg struct {
	Name    string `json:"name"`
	MemCap  uint64 `json:"mem_cap"`
	DiskCap uint64 `json:"disk_cap"`
	Workers int    `json:"workers"`
	Vanish  bool   `json:"vanish"` // disk smaller than the working set
}

const (
	blobMin = 800
	blobMax = 1000
)

var (
	cfgMemSmall  = rigCfg{Name: "mem-1.5-blobs/disk-big", MemCap: 1500, DiskCap: 1 << 30}
	cfgMemBig    = rigCfg{Name: "mem-big/disk-big", MemCap: 1 << 20, DiskCap: 1 << 30}
	cfgDiskSmall = rigCfg{Name: "mem-1.5-blobs/disk-2.5-blobs", MemCap: 1500, DiskCap: 2500, Vanish: true}
)

var rigSeq atomic.Int64

type abortSchedule struct{ reason string }

type sentinel struct {
	key string
	mut int // r.mutCount when it was enqueued
}

type rig struct {
	t    testing.TB
	run  *ev.Run
	cfg  rigCfg
	sid  string
	dir  string
	st   *tiered.Store
	disk *disk.Store
	sess *sched.Session
	gens *gens

	hmu   sync.Mutex
	ops   []hop
	nextI int

	klocks sync.Map // key -> *sync.Mutex (one writer at a time per key)

	// step mode (single flush worker, controller goroutine only)
	stepMode  bool
	cur       *sched.Arrival
	curSent   *sentinel
	pending   []*sentinel // enqueued, not yet reached
	passed    []*sentinel // flush finished, to be deleted
	sentSeq   int
	mutCount  int
	holdsKey  string // real key (short name) whose flush the worker holds
	holdsAt   string
	holdsGenN int // number of Creates of holdsKey seen when the flush started
	creates   map[string]int

	valSeq atomic.Int32
}

func shortKey(key string) string {
	if i := strings.IndexByte(key, '.'); i >= 0 {
		return key[i+1:]
	}
	return key
}

func isSentinelKey(key string) bool { return strings.HasPrefix(shortKey(key), "~") }

func newRig(t testing.TB, run *ev.Run, base string, cfg rigCfg, stepMode bool) *rig {
	installSeams()
	r := &rig{t: t, run: run, cfg: cfg, stepMode: stepMode,
		gens:    &gens{sizes: map[int32]int{}, keys: map[int32]string{}},
		creates: map[string]int{}}
	r.sid = "r" + strconv.FormatInt(rigSeq.Add(1), 10)
	r.dir = filepath.Join(base, r.sid)
	if cfg.Workers == 0 {
		r.cfg.Workers = 1
	}
	if stepMode {
		r.cfg.Workers = 1
		r.sess = hub.NewSession(r.sid, func(name, key string) sched.Action {
			if isSentinelKey(key) {
				if name == ptStart {
					return sched.Park
				}
				return sched.Ignore
			}
			return sched.Park
		})
	} else {
		r.sess = hub.NewSession(r.sid, nil)
	}
	st, dk, err := tiered.NewStore(&tiered.Config{
		NumFlushWorkers: r.cfg.Workers,
		DiskConfig:      &disk.Config{RootDir: r.dir, CapacityBytes: cfg.DiskCap},
		MemConfig:       &memory.Config{CapacityBytes: cfg.MemCap, GOMEMLIMITBytes: math.MaxInt64},
	}, tally.NoopScope)
	if err != nil {
		t.Fatalf("tiered.NewStore: %v", err)
	}
	r.st, r.disk = st, dk
	if stepMode {
		// Park the worker at a sentinel: from now on it is never idle and never
		// running while the controller decides.
		r.enqueueSentinel()
		a := r.next()
		r.arrived(a)
	}
	return r
}

func (r *rig) close() {
	r.sess.Close()
	tiered.VerifC09StopFlusher(r.st)
	os.RemoveAll(r.dir)
}

func (r *rig) key(short string) string { return r.sid + "." + short }

func (r *rig) newVal() int32 { return r.valSeq.Add(1) + 100 }

func (r *rig) klock(key string) *sync.Mutex {
	m, _ := r.klocks.LoadOrStore(key, &sync.Mutex{})
	return m.(*sync.Mutex)
}

// ---- history ----

func (r *rig) record(client int, in opIn, out opOut, call, ret, readEnd int64, note string, ref ...int) hop {
	in.K = in.Kind.String()
	out.R = out.Res.String()
	r.hmu.Lock()
	defer r.hmu.Unlock()
	h := hop{ID: r.nextI, Client: client, In: in, Out: out, Call: call, Ret: ret, ReadEnd: readEnd, Note: note}
	if len(ref) > 0 {
		h.Ref = ref[0]
	}
	if r.stepMode {
		h.At = r.position(shortKey(in.Key))
	}
	r.nextI++
	r.ops = append(r.ops, h)
	return h
}

func (r *rig) history() []hop {
	r.hmu.Lock()
	defer r.hmu.Unlock()
	return append([]hop(nil), r.ops...)
}

func classifyErr(err error) (resKind, string) {
	switch {
	case err == nil:
		return rOK, ""
	case errors.Is(err, storelib.ErrOutOfScope):
		return rOutOfScope, ""
	case errors.Is(err, os.ErrNotExist):
		return rNotFound, ""
	case errors.Is(err, os.ErrExist):
		return rExist, ""
	}
	return rErr, err.Error()
}

// ---- client operations (the client boundary: stamp, call, stamp) ----

func (r *rig) doCreate(c int, short string, size int) hop {
	key := r.key(short)
	gen := r.gens.alloc(short, size)
	data := blobBytes(gen, size)
	l := r.klock(key)
	l.Lock()
	defer l.Unlock()
	r.mark("Create", short)
	call := stamp()
	f, err := r.st.Create(key, uint64(size))
	res, es := classifyErr(err)
	note := ""
	if err == nil {
		if _, werr := f.Write(data); werr != nil {
			note = "write: " + werr.Error()
		}
		if cerr := f.Close(); cerr != nil {
			note += " close: " + cerr.Error()
		}
	}
	ret := stamp()
	if res == rOK && r.stepMode {
		r.creates[short]++
	}
	return r.record(c, opIn{Kind: opCreate, Key: key, Gen: gen}, opOut{Res: res, Err: es}, call, ret, 0, note)
}

func (r *rig) doMark(c int, short string) hop {
	key := r.key(short)
	l := r.klock(key)
	l.Lock()
	defer l.Unlock()
	r.mark("MarkComplete", short)
	call := stamp()
	err := r.st.MarkComplete(key)
	ret := stamp()
	res, es := classifyErr(err)
	return r.record(c, opIn{Kind: opMark, Key: key}, opOut{Res: res, Err: es}, call, ret, 0, "")
}

func (r *rig) doDelete(c int, short string) hop {
	key := r.key(short)
	r.mark("Delete", short)
	call := stamp()
	err := r.st.Delete(key)
	ret := stamp()
	res, es := classifyErr(err)
	return r.record(c, opIn{Kind: opDelete, Key: key}, opOut{Res: res, Err: es}, call, ret, 0, "")
}

// doRead opens the blob in the complete scope and reads it to the end. The
// linearizable part is the Open; what the handle then returns is judged by
// the direct oracle (readVerdict).
func (r *rig) doRead(c int, short string) hop {
	key := r.key(short)
	r.mark("Read", short)
	call := stamp()
	f, err := r.st.ScopeComplete().Open(key)
	ret := stamp()
	res, es := classifyErr(err)
	out := opOut{Res: res, Err: es}
	note := ""
	var end int64
	if err == nil {
		b, rerr := io.ReadAll(f)
		f.Close()
		end = stamp()
		if rerr != nil {
			note = "read-error: " + rerr.Error()
		} else if g, why := r.gens.attribute(b); g != 0 {
			out.Gen = g
		} else {
			note = "content: " + why
		}
	}
	return r.record(c, opIn{Kind: opRead, Key: key, Scope: scopeComplete}, out, call, ret, end, note)
}

func (r *rig) doHas(c int, short string, scope int) hop {
	key := r.key(short)
	r.mark("Has", short)
	s := r.st
	if scope == scopeComplete {
		s = s.ScopeComplete()
	}
	call := stamp()
	inStore, inScope := s.Has(key)
	ret := stamp()
	return r.record(c, opIn{Kind: opHas, Key: key, Scope: scope}, opOut{Res: rOK, InStore: inStore, InScope: inScope}, call, ret, 0, "")
}

// doList records one "Listed" observation per real key that the listing
// contained. Keys missing from a listing are only counted (List promises
// nothing about completeness in the property statement).
func (r *rig) doList(c int, scope int) []hop {
	r.mark("List", "*")
	s := r.st
	if scope == scopeComplete {
		s = s.ScopeComplete()
	}
	call := stamp()
	keys := s.List()
	ret := stamp()
	sort.Strings(keys)
	var out []hop
	for _, k := range keys {
		if sched.SessionID(k) != r.sid || isSentinelKey(k) {
			continue
		}
		out = append(out, r.record(c, opIn{Kind: opListed, Key: k, Scope: scope}, opOut{Res: rOK}, call, ret, 0, ""))
	}
	return out
}

func (r *rig) doSetMD(c int, short string, md int) hop {
	key := r.key(short)
	val := r.newVal()
	r.mark("SetMD", short)
	call := stamp()
	err := r.st.SetMetadata(key, mdNew(md, val))
	ret := stamp()
	res, es := classifyErr(err)
	return r.record(c, opIn{Kind: opSetMD, Key: key, MD: md, Val: val}, opOut{Res: res, Err: es}, call, ret, 0, "")
}

func (r *rig) doDelMD(c int, short string, md int) hop {
	key := r.key(short)
	r.mark("DelMD", short)
	call := stamp()
	err := r.st.DeleteMetadata(key, mdSuffix(md))
	ret := stamp()
	res, es := classifyErr(err)
	return r.record(c, opIn{Kind: opDelMD, Key: key, MD: md}, opOut{Res: res, Err: es}, call, ret, 0, "")
}

func (r *rig) doGetMD(c int, short string, md int, scope int) hop {
	key := r.key(short)
	r.mark("GetMD", short)
	s := r.st
	if scope == scopeComplete {
		s = s.ScopeComplete()
	}
	m := mdNew(md, 0)
	call := stamp()
	ok, err := s.GetMetadata(key, m)
	ret := stamp()
	res, es := classifyErr(err)
	out := opOut{Res: res, Err: es}
	if err == nil && ok {
		out.Found = true
		out.Val = mdValue(md, m)
	}
	return r.record(c, opIn{Kind: opGetMD, Key: key, MD: md, Scope: scope}, out, call, ret, 0, "")
}

// handle is a retained complete-scope handle.
type handle struct {
	short  string
	f      *tiered.File
	open   hop // the Read-like open record
	gen    int32
	seqOff int // bytes consumed so far by sequential Reads through this handle
}

// openHandle opens a handle that is kept across later operations. The open is
// recorded like a Read whose generation is filled in by the first full read.
func (r *rig) openHandle(c int, short string) (*handle, hop) {
	key := r.key(short)
	r.mark("OpenHandle", short)
	call := stamp()
	f, err := r.st.ScopeComplete().Open(key)
	ret := stamp()
	res, es := classifyErr(err)
	h := r.record(c, opIn{Kind: opRead, Key: key, Scope: scopeComplete}, opOut{Res: res, Err: es}, call, ret, ret, "retained-handle-open")
	if err != nil {
		return nil, h
	}
	return &handle{short: short, f: f, open: h}, h
}

// readHandle reads the whole blob through the retained handle with ReadAt
// (documented thread-safe, offset independent).
func (r *rig) readHandle(c int, hd *handle) hop {
	key := r.key(hd.short)
	r.mark("HandleRead", hd.short)
	call := stamp()
	size := hd.f.Size()
	var b []byte
	var rerr error
	if size > 0 {
		b = make([]byte, size)
		var n int
		n, rerr = hd.f.ReadAt(b, 0)
		if rerr == io.EOF && int64(n) == size {
			rerr = nil
		}
		b = b[:n]
	}
	ret := stamp()
	out := opOut{Res: rOK}
	note := fmt.Sprintf("handle-of-op#%d size=%d", hd.open.ID, size)
	if rerr != nil {
		out.Res = rErr
		out.Err = rerr.Error()
	} else if g, why := r.gens.attribute(b); g != 0 {
		out.Gen = g
	} else {
		note += " content: " + why
	}
	return r.record(c, opIn{Kind: opHRead, Key: key, Scope: scopeComplete}, out, call, ret, ret, note, hd.open.ID)
}

// ---- step mode ----

const watchdog = 60 * time.Second

func (r *rig) mark(label, short string) {
	if r.stepMode {
		r.sess.Mark(label, r.key(short))
	}
}

// position describes where the single flush worker is parked relative to key.
func (r *rig) position(short string) string {
	switch {
	case r.holdsKey == "":
		return "idle"
	case r.holdsKey == short:
		if r.creates[short] > r.holdsGenN {
			// the worker holds the flush of an older generation of this key
			return "self-stale:" + r.holdsAt
		}
		return "self:" + r.holdsAt
	}
	return "other:" + r.holdsAt
}

func (r *rig) next() *sched.Arrival {
	a, ok := r.sess.Next(watchdog)
	if !ok {
		panic(abortSchedule{"flush worker did not reach a yield point within the watchdog"})
	}
	return a
}

func (r *rig) arrived(a *sched.Arrival) {
	if r.curSent != nil {
		r.passed = append(r.passed, r.curSent)
	}
	r.cur, r.curSent = a, nil
	if isSentinelKey(a.Key) {
		for i, s := range r.pending {
			if s.key == a.Key {
				r.curSent = s
				r.pending = append(r.pending[:i], r.pending[i+1:]...)
				break
			}
		}
		r.holdsKey, r.holdsAt = "", ""
		return
	}
	sk := shortKey(a.Key)
	if a.Name == ptStart || r.holdsKey != sk {
		r.holdsGenN = r.creates[sk]
	}
	r.holdsKey, r.holdsAt = sk, a.Name
}

func (r *rig) enqueueSentinel() {
	r.sentSeq++
	s := &sentinel{key: r.key("~" + strconv.Itoa(r.sentSeq)), mut: r.mutCount}
	f, err := r.st.Create(s.key, 0)
	if err != nil {
		panic(abortSchedule{"sentinel create: " + err.Error()})
	}
	f.Close()
	if err := r.st.MarkComplete(s.key); err != nil {
		panic(abortSchedule{"sentinel mark complete: " + err.Error()})
	}
	r.pending = append(r.pending, s)
}

func (r *rig) reapSentinels() {
	for _, s := range r.passed {
		_ = r.st.Delete(s.key)
	}
	r.passed = r.passed[:0]
}

// mutated must be called after every client operation that may enqueue flush
// work.
func (r *rig) mutated() {
	if r.stepMode {
		r.mutCount++
	}
}

func (r *rig) hasQueuedRealWork() bool {
	for _, k := range tiered.VerifC09FlusherTracked(r.st) {
		if !isSentinelKey(k) {
			return true
		}
	}
	return false
}

// canStep reports whether the flush worker has a step to take: it is parked
// inside the flush of a real key, or parked at a sentinel with real work queued.
func (r *rig) canStep() bool {
	if r.curSent == nil {
		return true
	}
	return r.hasQueuedRealWork()
}

// step releases the parked flush worker and waits until it parks again: at the
// next point of a real key, or (when it ran out of real work) at the start of
// a sentinel. Leaving the last point of a flush (the unban) is a step too; its
// completion is what the arrival at the sentinel proves.
func (r *rig) step() {
	for i := 0; ; i++ {
		fresh := false
		for _, s := range r.pending {
			if s.mut == r.mutCount {
				fresh = true
			}
		}
		if !fresh {
			r.enqueueSentinel()
		}
		wasReal := r.curSent == nil
		r.cur.Release()
		a := r.next()
		r.arrived(a)
		r.reapSentinels()
		if wasReal || r.curSent == nil {
			return
		}
		// sentinel -> sentinel: the queue only held aborted entries
		if !r.hasQueuedRealWork() {
			return
		}
		if i > 50 {
			panic(abortSchedule{"flush worker keeps skipping queue entries"})
		}
	}
}

// drain steps until the flusher has no real work left; returns the number of
// steps taken.
func (r *rig) drain() int {
	n := 0
	for r.canStep() {
		r.step()
		n++
		if n > 500 {
			panic(abortSchedule{"flusher did not become idle within 500 steps"})
		}
	}
	return n
}

// ---- free-running mode ----

// quiesce waits until every flush worker is parked at the start of a distinct
// sentinel, i.e. all earlier flush work has finished, then lets them go.
func (r *rig) quiesce() bool {
	n := r.cfg.Workers
	var mu sync.Mutex
	got := map[string]bool{}
	r.sess.SetPolicy(func(name, key string) sched.Action {
		if isSentinelKey(key) {
			if name == ptStart {
				return sched.Park
			}
			return sched.Ignore
		}
		return sched.Pass
	})
	var keys []string
	for i := 0; i < n; i++ {
		r.sentSeq++
		k := r.key("~q" + strconv.Itoa(r.sentSeq))
		f, err := r.st.Create(k, 0)
		if err != nil {
			return false
		}
		f.Close()
		if err := r.st.MarkComplete(k); err != nil {
			return false
		}
		keys = append(keys, k)
	}
	var parked []*sched.Arrival
	for len(parked) < n {
		a, ok := r.sess.Next(watchdog)
		if !ok {
			for _, p := range parked {
				p.Release()
			}
			return false
		}
		mu.Lock()
		got[a.Key] = true
		mu.Unlock()
		parked = append(parked, a)
	}
	r.sess.SetPolicy(func(name, key string) sched.Action {
		if isSentinelKey(key) {
			return sched.Ignore
		}
		return sched.Pass
	})
	for _, p := range parked {
		p.Release()
	}
	for _, k := range keys {
		_ = r.st.Delete(k)
	}
	return true
}

// ---- quiescent observations of the disk store alone ----

func (r *rig) doDRead(c int, short string) hop {
	key := r.key(short)
	r.mark("DiskRead", short)
	call := stamp()
	f, err := r.disk.ScopeComplete().Open(key)
	res, es := classifyErr(err)
	out := opOut{Res: res, Err: es}
	note := ""
	if err == nil {
		b, rerr := io.ReadAll(f)
		f.Close()
		if rerr != nil {
			note = "read-error: " + rerr.Error()
		} else if g, why := r.gens.attribute(b); g != 0 {
			out.Gen = g
		} else {
			note = "content: " + why
		}
	}
	ret := stamp()
	return r.record(c, opIn{Kind: opDRead, Key: key, Scope: scopeComplete}, out, call, ret, 0, note)
}

func (r *rig) doDGetMD(c int, short string, md int) hop {
	key := r.key(short)
	r.mark("DiskGetMD", short)
	m := mdNew(md, 0)
	call := stamp()
	ok, err := r.disk.GetMetadata(key, m)
	ret := stamp()
	res, es := classifyErr(err)
	out := opOut{Res: res, Err: es}
	if err == nil && ok {
		out.Found = true
		out.Val = mdValue(md, m)
	}
	return r.record(c, opIn{Kind: opDGetMD, Key: key, MD: md}, out, call, ret, 0, "")
}

// ---- sequential reads through a retained handle ----

// seqChunk judges n bytes that the handle's sequential Reads returned at
// logical offset off: they must be exactly bytes [off, off+n) of one
// generation; atEOF additionally requires off+n to be that blob's length.
// It returns the generation, or 0 and why not.
func (r *rig) seqChunk(hd *handle, b []byte, off int, atEOF bool) (int32, string) {
	gen := hd.gen
	if len(b) >= 8 && off%8 == 0 {
		gen = int32(binary.BigEndian.Uint32(b[0:]))
	}
	if gen == 0 {
		return 0, "" // nothing read yet, nothing to say
	}
	size, ok := r.gens.size(gen)
	if !ok {
		return 0, fmt.Sprintf("sequential read at offset %d returned bytes of unknown generation %d", off, gen)
	}
	if off+len(b) > size {
		return 0, fmt.Sprintf("sequential reads returned %d bytes in total, blob of generation %d has %d", off+len(b), gen, size)
	}
	want := blobBytes(gen, size)[off : off+len(b)]
	for i := range b {
		if b[i] != want[i] {
			w := (i / 8) * 8
			got := "?"
			if w+8 <= len(b) {
				got = fmt.Sprintf("generation %d word %d", binary.BigEndian.Uint32(b[w:]), binary.BigEndian.Uint32(b[w+4:]))
			}
			return 0, fmt.Sprintf("sequential read at logical offset %d: byte %d differs from generation %d (stream shows %s, expected word %d)", off, off+i, gen, got, (off+w)/8)
		}
	}
	if atEOF && off+len(b) != size {
		return 0, fmt.Sprintf("sequential reads hit EOF after %d bytes, blob of generation %d has %d", off+len(b), gen, size)
	}
	return gen, ""
}

// readSome reads up to n bytes sequentially (n <= 0: until EOF).
func readSome(f *tiered.File, n int) (b []byte, eof bool, err error) {
	buf := make([]byte, 256)
	for n <= 0 || len(b) < n {
		want := len(buf)
		if n > 0 && n-len(b) < want {
			want = n - len(b)
		}
		k, e := f.Read(buf[:want])
		b = append(b, buf[:k]...)
		if e == io.EOF {
			return b, true, nil
		}
		if e != nil {
			return b, false, e
		}
		if k == 0 {
			return b, false, errors.New("Read returned 0 bytes without error")
		}
	}
	return b, false, nil
}

// seqHandle reads n bytes (multiple of 8) sequentially through the retained
// handle, after an optional first operation that is not a sequential Read:
// first = "size" | "readat" | "seekcur" | "" ; n <= 0 reads to EOF and then
// also checks Size and ReadAt.
func (r *rig) seqHandle(c int, hd *handle, n int, first string) []hop {
	key := r.key(hd.short)
	r.mark("HandleSeq"+first, hd.short)
	call := stamp()
	note := fmt.Sprintf("handle-of-op#%d sequential from offset %d first=%q", hd.open.ID, hd.seqOff, first)
	var problems []string
	var opErr error
	size := int64(-1)
	switch first {
	case "size":
		size = hd.f.Size()
	case "readat":
		p := make([]byte, 64)
		k, e := hd.f.ReadAt(p, 128)
		if e != nil && e != io.EOF {
			opErr = e
		} else if k >= 8 {
			g := int32(binary.BigEndian.Uint32(p[0:]))
			if sz, ok := r.gens.size(g); !ok || 128+k > sz || string(p[:k]) != string(blobBytes(g, sz)[128:128+k]) {
				problems = append(problems, "ReadAt(64 bytes at 128) returned other bytes than the blob has there")
			}
		}
	case "seekcur":
		o, e := hd.f.Seek(0, io.SeekCurrent)
		if e != nil {
			opErr = e
		} else if int(o) != hd.seqOff {
			problems = append(problems, fmt.Sprintf("Seek(0, current) = %d after %d bytes were read sequentially", o, hd.seqOff))
		}
	}
	var b []byte
	eof := false
	if opErr == nil {
		b, eof, opErr = readSome(hd.f, n)
	}
	off := hd.seqOff
	hd.seqOff += len(b)
	out := opOut{Res: rOK}
	if opErr != nil {
		out.Res, out.Err = rErr, opErr.Error()
	} else {
		g, why := r.seqChunk(hd, b, off, eof)
		if why != "" {
			problems = append(problems, why)
		}
		if g != 0 {
			hd.gen = g
		}
		if eof && g != 0 {
			if sz, _ := r.gens.size(g); size >= 0 && int(size) != sz {
				problems = append(problems, fmt.Sprintf("Size() = %d, blob of generation %d has %d bytes", size, g, sz))
			}
			if s2 := hd.f.Size(); s2 > 0 {
				if sz, _ := r.gens.size(g); int(s2) != sz {
					problems = append(problems, fmt.Sprintf("Size() = %d after EOF, blob has %d bytes", s2, sz))
				}
			}
		}
		if len(problems) == 0 {
			out.Gen = hd.gen
		} else {
			note += " content: " + strings.Join(problems, "; ")
		}
		if out.Gen == 0 && len(problems) == 0 {
			return nil // nothing was read and nothing is known about the handle yet
		}
	}
	ret := stamp()
	return []hop{r.record(c, opIn{Kind: opHRead, Key: key, Scope: scopeComplete}, out, call, ret, ret, note, hd.open.ID)}
}
