// C10: files awaiting write-back are never deleted; cleanup removes exactly
// idle files.
//
// Three model-diff monitors on the real code, one per clause of the statement:
//
//	(a) c10a_test.go  base file stores with a bounded LRU file map: histories
//	    of create / write / read / peek / persist / unpersist / delete / move /
//	    clock ticks with overflowing creates and reloads after eviction.
//	(b) c10b_test.go  the cleanup manager's passes (normal, aggressive TTL with
//	    lower threshold, usage-driven policy, the real dispatcher, the periodic
//	    job on a mock clock) over generated directories.
//	(c) c10c_test.go  POST /forcecleanup on an in-process origin blob server
//	    with a real write-back manager and one scripted backend per namespace
//	    (blobs owed to one or two namespaces).
//	(k) c10k_test.go  delete requests, persist-flag changes and LRU evictions
//	    interleaved on a capacity-1..2 file map after a restart: directed
//	    schedules (one operation held between "entry loaded" and "entry stored")
//	    and free-running goroutines, judged on the recorded history.
//	(r) c10r_test.go  last-access bookkeeping across a reload of the file map
//	    (restart, refused delete of a persisted file, LRU eviction of a
//	    persisted file), judged by the real cleanup pass.
package c10

import (
	"fmt"
	"io"
	stdlog "log"
	"sync"
	"testing"

	"github.com/uber/kraken/utils/log"
	"go.uber.org/zap"

	"verif/harness/internal/ev"
)

func init() {
	zc := zap.NewProductionConfig()
	zc.OutputPaths = []string{}
	zc.ErrorOutputPaths = []string{}
	log.ConfigureLogger(zc)
	stdlog.SetOutput(io.Discard) // goose migration chatter
}

func TestC10(t *testing.T) {
	run := ev.Start(t, "C10", "exploration",
		"(a) PRNG histories of 40-80 FileOp calls over 5-7 names on NewLRUFileStore / NewCASFileStoreWithLRUMap with capacity 1-4 and a "+
			"mock clock; non-trivial = >=1 LRU eviction and >=1 of {eviction whose victim is persisted, DeleteFile refused with ErrFilePersisted}. "+
			"(b) generated directories of 3-12 files (ages and idle times placed >=3 s off every limit, last-access sidecar present/absent, persist "+
			"true/false/absent) x generated CleanupConfig x pass {normal via the real dispatcher, ttlBasedCleanup, aggressive TTL with lower threshold and "+
			"injected usage, usage-driven policy with injected usage, real dispatcher in aggressive mode, periodic job on a mock ticker} x {same store "+
			"instance, fresh instance}; non-trivial = >=1 file deleted and >=1 persisted file that the pass would otherwise have deleted. "+
			"(c) forced-cleanup scenarios on an in-process blob server: 3-6 blobs (persisted via public upload under one or two namespaces - the second through "+
			"the upload-conflict path, giving two pending write-back tasks -, duplicate upload with delay, unpersisted via transfer), one scripted backend per "+
			"namespace, six fault scripts (all failing then healthy, first/second backend failing, partially failing, healthy from the start, failing twice); "+
			"non-trivial = >=1 persisted blob survived a failing backend and >=1 was deleted after write-back. "+
			"(r) 2-5 files created through the store on a mock clock, aged to TTI/2..3*TTI, entries dropped from the file map (restart / refused persisted "+
			"delete / LRU eviction of persisted files), accessed again (read, write, unpersist) seconds to minutes after the reload, pause of 30 s..TTI+400 s, "+
			"then the real cleanup pass; non-trivial = >=1 access after a reload and >=2 files judged. "+
			"(k) directed schedules: DeleteFile (or stat/read followed by DeleteFile) of a file that is on disk but not in the capacity-1..2 map is held between "+
			"loading its entry and storing it, meanwhile one of 11 templates of complete operations runs (set/clear persist, refused delete, accesses that evict the "+
			"file from the map), then it resumes; free-running rounds: 3-5 goroutines x 30 generated ops on 4-7 files; non-trivial = >=1 operation on the target "+
			"completed while the delete was held / >=1 refused and >=1 successful delete. distinct = distinct generated case.")
	defer run.Finish()
	run.Assume("file presence, bytes and sidecars are observed directly on disk (os.Stat/ReadFile), not through the store")
	run.Assume("(a) the order of the file map is read through the read-only probe base.VerifC10MapOrder; recency rules are checked on it step by step: a read/write/metadata-write/move/create puts the entry first, a peek (stat/path/metadata read) may or may not, nothing else reorders")
	run.Assume("(b) files without a last-access sidecar may or may not be removed by the idle rule (DESIGN 3.40); ages/idle times are never placed within 3 s of a limit")
	run.Assume("(b) the amount the usage-driven pass deletes is only bounded loosely (statement constrains order and protection, not the amount); deleting below the lower threshold is counted, not flagged")
	run.Assume("(c) the scripted backends and the sqlite-backed write-back store are trusted fakes/outer boundaries; 'awaiting write-back' = the persist mark is set when the pass starts; a mark cleared by a partially successful write-back is counted, not flagged")
	run.Assume("(b) a name that is listed but cannot be stat'ed (leftover entry directory without data file, file deleted by a request right after the listing) is not judged; every other file is")
	run.Assume("(k) target names are never re-created; overlapping operations may take effect in either order; the hold point is on entry to FileMap.TryStore through the pass-through wrapper base.VerifC10NewGatedLRUFileStore")
	run.Assume("(r) the last-access record has a documented 5 min resolution: a file counts as recently used when its true idle time + 5 min < TTI, as idle when true idle time > TTI; in between either outcome")

	base := ev.TempDir(t, "c10-")
	replay := run.ReplayCase()
	type job struct {
		id string
		f  func()
	}
	var jobs []job
	for i := 0; i < run.N(300, 8000); i++ {
		i := i
		jobs = append(jobs, job{fmt.Sprintf("a%d", i), func() { partA(t, run, base, i) }})
	}
	for i := 0; i < run.N(360, 9500); i++ {
		i := i
		jobs = append(jobs, job{fmt.Sprintf("b%d", i), func() { partB(t, run, base, i) }})
	}
	for i := 0; i < run.N(12, 72); i++ {
		i := i
		jobs = append(jobs, job{fmt.Sprintf("c%d", i), func() { partC(t, run, base, i) }})
	}
	for i := 0; i < run.N(240, 4500); i++ {
		i := i
		jobs = append(jobs, job{fmt.Sprintf("r%d", i), func() { partR(t, run, base, i) }})
	}
	for i := 0; i < run.N(88, 2300); i++ {
		i := i
		jobs = append(jobs, job{fmt.Sprintf("k%d", i), func() { partKDirected(t, run, base, i) }})
	}
	for i := 0; i < run.N(10, 190); i++ {
		i := i
		jobs = append(jobs, job{fmt.Sprintf("kf%d", i), func() { partKFree(t, run, base, i) }})
	}
	ch := make(chan job, 64)
	var wg sync.WaitGroup
	for w := 0; w < 12; w++ {
		wg.Add(1)
		go func() {
			defer wg.Done()
			for j := range ch {
				j.f()
			}
		}()
	}
	for _, j := range jobs {
		if replay != "" && replay != j.id {
			continue
		}
		ch <- j
	}
	close(ch)
	wg.Wait()
}
