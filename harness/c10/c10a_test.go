package c10

import (
	"bytes"
	"fmt"
	"io"
	"math/rand"
	"os"
	"path/filepath"
	"testing"
	"time"

	"github.com/andres-erbsen/clock"
	"github.com/uber/kraken/lib/store/base"
	"github.com/uber/kraken/lib/store/metadata"

	"verif/harness/internal/ev"
	"verif/harness/internal/gen"
)

// ---- part (a): persist flag vs. delete / LRU eviction / reload ----

type aOp struct {
	Kind  string `json:"k"`
	Name  int    `json:"n"`
	State int    `json:"s,omitempty"`
	Len   int    `json:"len,omitempty"`
	Val   bool   `json:"v,omitempty"`
	Tick  int    `json:"tick_s,omitempty"`
}

type aCfg struct {
	Index    int      `json:"index"`
	CAS      bool     `json:"cas_layout"`
	Capacity int      `json:"capacity"`
	Names    []string `json:"names"`
}

type aFile struct {
	state   int
	bytes   []byte
	persist *bool
}

type partAState struct {
	run    *ev.Run
	caseID string
	cfg    aCfg
	ops    []aOp
	dirs   [2]string
	states [2]base.FileState
	fs     base.FileStore
	clk    *clock.Mock
	files  map[string]*aFile
	trace  []string
	failed bool

	evictions, persistedEvictions, refusedDeletes, reloads int
}

func (p *partAState) fail(sig string, w map[string]interface{}) {
	p.failed = true
	model := map[string]interface{}{}
	for n, f := range p.files {
		ps := "absent"
		if f.persist != nil {
			ps = fmt.Sprint(*f.persist)
		}
		model[n] = map[string]interface{}{"state": f.state, "len": len(f.bytes), "persist": ps}
	}
	w["config"] = p.cfg
	w["ops"] = p.ops
	w["trace"] = p.trace
	w["model_files"] = model
	p.run.Violation("filestore/"+sig, p.caseID, w)
}

func (p *partAState) relDir(name string) string {
	if !p.cfg.CAS {
		return name
	}
	d := ""
	for i := 0; i < base.DefaultShardIDLength && i < len(name)/2; i++ {
		d = filepath.Join(d, name[i*2:i*2+2])
	}
	return filepath.Join(d, name)
}

func (p *partAState) dataPath(state int, name string) string {
	return filepath.Join(p.dirs[state], p.relDir(name), base.DefaultDataFileName)
}

func (p *partAState) op() base.FileOp {
	return p.fs.NewFileOp().AcceptState(p.states[0]).AcceptState(p.states[1])
}

func (p *partAState) order() []string {
	o, ok := base.VerifC10MapOrder(p.fs)
	if !ok {
		panic("VerifC10MapOrder: unexpected store type")
	}
	return o
}

func indexOf(s []string, x string) int {
	for i, v := range s {
		if v == x {
			return i
		}
	}
	return -1
}

func without(s []string, drop ...string) []string {
	out := []string{}
	for _, v := range s {
		if indexOf(drop, v) < 0 {
			out = append(out, v)
		}
	}
	return out
}

func sameSeq(a, b []string) bool {
	if len(a) != len(b) {
		return false
	}
	for i := range a {
		if a[i] != b[i] {
			return false
		}
	}
	return true
}

func isPersisted(f *aFile) bool { return f != nil && f.persist != nil && *f.persist }

func tagged(name string, gen, n int) []byte {
	b := make([]byte, n)
	tag := fmt.Sprintf("%s#%d|", name, gen)
	for i := range b {
		b[i] = tag[i%len(tag)]
	}
	return b
}

func genAOps(r *rand.Rand, names, n int) []aOp {
	var ops []aOp
	for len(ops) < n {
		o := aOp{Name: r.Intn(names)}
		switch x := r.Intn(100); {
		case x < 24:
			o.Kind, o.State, o.Len = "create", r.Intn(2), r.Intn(40)
		case x < 32:
			o.Kind = "write"
		case x < 42:
			o.Kind = "read"
		case x < 47:
			o.Kind = "stat"
		case x < 50:
			o.Kind = "path"
		case x < 53:
			o.Kind = "getlat"
		case x < 66:
			o.Kind, o.Val = "persist", true
		case x < 70:
			o.Kind, o.Val = "persist", false
		case x < 75:
			o.Kind = "unpersist"
		case x < 88:
			o.Kind = "delete"
		case x < 94:
			o.Kind, o.State = "move", r.Intn(2)
		default:
			o.Kind, o.Tick = "tick", []int{30, 290, 301, 3600, 86400}[r.Intn(5)]
		}
		ops = append(ops, o)
	}
	return ops
}

func partA(t *testing.T, run *ev.Run, baseDir string, i int) {
	caseID := fmt.Sprintf("a%d", i)
	r := run.Rand(caseID)
	cfg := aCfg{Index: i, CAS: r.Intn(2) == 0, Capacity: 1 + r.Intn(4)}
	nn := 5 + r.Intn(3)
	pre := gen.Hex(r, 4)
	seen := map[string]bool{}
	for len(cfg.Names) < nn {
		var n string
		if cfg.CAS {
			n = pre + gen.Hex(r, 12)
			if r.Intn(4) == 0 {
				n = gen.Hex(r, 64)
			}
		} else {
			n = "f" + gen.Hex(r, 6)
		}
		if !seen[n] {
			seen[n] = true
			cfg.Names = append(cfg.Names, n)
		}
	}
	ops := genAOps(r, nn, 40+r.Intn(41))
	root := filepath.Join(baseDir, caseID)
	defer os.RemoveAll(root)
	p := &partAState{run: run, caseID: caseID, cfg: cfg, ops: ops, files: map[string]*aFile{}}
	p.dirs = [2]string{filepath.Join(root, "upload"), filepath.Join(root, "cache")}
	for k, d := range p.dirs {
		if err := os.MkdirAll(d, 0o775); err != nil {
			t.Fatal(err)
		}
		p.states[k] = base.NewFileState(d)
	}
	p.clk = clock.NewMock()
	p.clk.Set(time.Date(2026, 3, 1, 0, 0, 0, 0, time.UTC))
	if cfg.CAS {
		p.fs = base.NewCASFileStoreWithLRUMap(cfg.Capacity, p.clk)
	} else {
		p.fs = base.NewLRUFileStore(cfg.Capacity, p.clk)
	}
	genCounter := 0
	for _, o := range ops {
		genCounter++
		p.step(o, genCounter)
		if p.failed {
			break
		}
	}
	run.Case("a|"+ev.JSON(cfg)+ev.JSON(ops), p.evictions >= 1 && p.persistedEvictions+p.refusedDeletes >= 1)
	run.Count("a_histories", 1)
	run.Count("a_steps", int64(len(p.trace)))
	run.Count("a_lru_evictions", int64(p.evictions))
	run.Count("a_lru_evictions_of_persisted_entries", int64(p.persistedEvictions))
	run.Count("a_deletes_refused_persisted", int64(p.refusedDeletes))
	run.Count("a_reloads_after_eviction", int64(p.reloads))
	if run.WantSample() && i%401 == 0 {
		tr := p.trace
		if len(tr) > 20 {
			tr = tr[:20]
		}
		run.Sample(map[string]interface{}{"part": "a", "config": cfg, "first_steps": tr})
	}
}

func (p *partAState) step(o aOp, gen int) {
	name := p.cfg.Names[o.Name]
	if o.Kind == "tick" {
		p.clk.Add(time.Duration(o.Tick) * time.Second)
		p.trace = append(p.trace, fmt.Sprintf("tick %ds", o.Tick))
		return
	}
	order0 := p.order()
	before := p.files[name]
	inMap0 := indexOf(order0, name) >= 0
	adds := !inMap0 && before != nil // reload of a file that is on disk but not in the map
	access := false                  // the op is a read/write-level access of name
	var err error
	desc := fmt.Sprintf("%s(%s)", o.Kind, name)
	fop := p.op()
	w := map[string]interface{}{"op": o, "name": name, "map_order_before": order0}

	switch o.Kind {
	case "create":
		err = fop.CreateFile(name, p.states[o.State], int64(o.Len))
		if before != nil {
			access = true
			if !os.IsExist(err) {
				w["err"] = fmt.Sprint(err)
				p.fail("create-of-existing-file-not-refused", w)
				return
			}
		} else {
			if err != nil {
				w["err"] = fmt.Sprint(err)
				p.fail("create-failed", w)
				return
			}
			adds, access = true, true
			p.files[name] = &aFile{state: o.State, bytes: make([]byte, o.Len)}
		}
	case "write":
		var rw base.FileReadWriter
		rw, err = fop.GetFileReadWriter(name, 0, 0)
		if before == nil {
			if !os.IsNotExist(err) {
				w["err"] = fmt.Sprint(err)
				p.fail("open-of-missing-file-succeeded", w)
				return
			}
			break
		}
		access = true
		if err != nil {
			w["err"] = fmt.Sprint(err)
			p.fail("open-for-write-failed", w)
			return
		}
		nb := tagged(name, gen, len(before.bytes))
		if len(nb) > 0 {
			if _, err = rw.WriteAt(nb, 0); err != nil {
				w["err"] = fmt.Sprint(err)
				p.fail("write-failed", w)
				return
			}
		}
		rw.Close()
		before.bytes = nb
	case "read":
		var rd base.FileReader
		rd, err = fop.GetFileReader(name, 0)
		if before == nil {
			if !os.IsNotExist(err) {
				w["err"] = fmt.Sprint(err)
				p.fail("open-of-missing-file-succeeded", w)
				return
			}
			break
		}
		access = true
		if err != nil {
			w["err"] = fmt.Sprint(err)
			sig := "read-failed"
			if isPersisted(before) {
				sig = "persisted-file-unreadable"
			}
			p.fail(sig, w)
			return
		}
		got, _ := io.ReadAll(rd)
		rd.Close()
		if !bytes.Equal(got, before.bytes) {
			w["got"], w["want"] = string(got), string(before.bytes)
			p.fail("read-bytes-mismatch", w)
			return
		}
	case "stat", "path", "getlat":
		switch o.Kind {
		case "stat":
			var fi os.FileInfo
			fi, err = fop.GetFileStat(name)
			if before != nil && err == nil && fi.Size() != int64(len(before.bytes)) {
				w["size"] = fi.Size()
				p.fail("stat-size-mismatch", w)
				return
			}
		case "path":
			var pth string
			pth, err = fop.GetFilePath(name)
			if before != nil && err == nil && pth != p.dataPath(before.state, name) {
				w["path"] = pth
				p.fail("path-mismatch", w)
				return
			}
		case "getlat":
			var lat metadata.LastAccessTime
			err = fop.GetFileMetadata(name, &lat)
			if before != nil && os.IsNotExist(err) {
				err = nil // no sidecar: fine
			}
		}
		if before == nil {
			if !os.IsNotExist(err) {
				w["err"] = fmt.Sprint(err)
				p.fail("peek-of-missing-file-succeeded", w)
				return
			}
		} else if err != nil {
			w["err"] = fmt.Sprint(err)
			p.fail("peek-failed", w)
			return
		}
	case "persist":
		_, err = fop.SetFileMetadata(name, metadata.NewPersist(o.Val))
		desc = fmt.Sprintf("persist(%s,%v)", name, o.Val)
		if before == nil {
			if !os.IsNotExist(err) {
				w["err"] = fmt.Sprint(err)
				p.fail("metadata-write-on-missing-file-succeeded", w)
				return
			}
			break
		}
		access = true
		if err != nil {
			w["err"] = fmt.Sprint(err)
			p.fail("set-persist-failed", w)
			return
		}
		v := o.Val
		before.persist = &v
	case "unpersist":
		err = fop.DeleteFileMetadata(name, &metadata.Persist{})
		if before == nil {
			if !os.IsNotExist(err) {
				w["err"] = fmt.Sprint(err)
				p.fail("metadata-write-on-missing-file-succeeded", w)
				return
			}
			break
		}
		access = true
		if err != nil {
			w["err"] = fmt.Sprint(err)
			p.fail("delete-persist-failed", w)
			return
		}
		before.persist = nil
	case "delete":
		err = fop.DeleteFile(name)
		switch {
		case before == nil:
			if !os.IsNotExist(err) {
				w["err"] = fmt.Sprint(err)
				p.fail("delete-of-missing-file-succeeded", w)
				return
			}
		case isPersisted(before):
			if err != base.ErrFilePersisted {
				w["err"] = fmt.Sprint(err)
				p.fail("delete-of-persisted-file-not-refused", w)
				return
			}
			p.refusedDeletes++
		default:
			if err != nil {
				w["err"] = fmt.Sprint(err)
				p.fail("delete-failed", w)
				return
			}
			delete(p.files, name)
		}
	case "move":
		err = fop.MoveFile(name, p.states[o.State])
		desc = fmt.Sprintf("move(%s,->%d)", name, o.State)
		switch {
		case before == nil:
			if !os.IsNotExist(err) {
				w["err"] = fmt.Sprint(err)
				p.fail("move-of-missing-file-succeeded", w)
				return
			}
		case before.state == o.State:
			access = true
			if !os.IsExist(err) {
				w["err"] = fmt.Sprint(err)
				p.fail("move-to-own-state-not-refused", w)
				return
			}
		default:
			access = true
			if err != nil {
				w["err"] = fmt.Sprint(err)
				p.fail("move-failed", w)
				return
			}
			before.state = o.State
		}
	}

	order1 := p.order()
	w["map_order_after"] = order1
	p.trace = append(p.trace, fmt.Sprintf("%s -> %v map=%v", desc, err, order1))
	if adds && before != nil && o.Kind != "create" {
		p.reloads++
	} else if adds && before != nil {
		p.reloads++
	}

	// --- file-map rules ---
	if len(order1) > p.cfg.Capacity {
		p.fail("file-map-exceeds-capacity", w)
		return
	}
	var removed []string
	for _, n := range order0 {
		if n != name && indexOf(order1, n) < 0 {
			removed = append(removed, n)
		}
	}
	for _, n := range order1 {
		if n != name && indexOf(order0, n) < 0 {
			w["entry"] = n
			p.fail("unrelated-entry-appeared-in-file-map", w)
			return
		}
	}
	var victim string
	if len(removed) > 1 {
		w["removed"] = removed
		p.fail("more-than-one-entry-evicted", w)
		return
	}
	if len(removed) == 1 {
		victim = removed[0]
		w["victim"] = victim
		if !adds {
			p.fail("entry-evicted-without-overflow", w)
			return
		}
		if len(order0) < p.cfg.Capacity {
			p.fail("entry-evicted-below-capacity", w)
			return
		}
		if victim != order0[len(order0)-1] {
			w["least_recently_accessed"] = order0[len(order0)-1]
			p.fail("lru-victim-not-least-recently-accessed", w)
			return
		}
		p.evictions++
		if vf := p.files[victim]; isPersisted(vf) {
			p.persistedEvictions++
		}
	}
	// recency: an access puts the entry first; a peek may or may not; the
	// relative order of all other entries never changes
	if pos := indexOf(order1, name); pos >= 0 {
		if (access || adds) && pos != 0 {
			p.fail("access-did-not-refresh-recency", w)
			return
		}
	}
	rest0 := without(order0, append([]string{name}, removed...)...)
	rest1 := without(order1, name)
	if !sameSeq(rest0, rest1) {
		p.fail("recency-of-untouched-entries-changed", w)
		return
	}

	// --- disk truth: every file of the model is on disk with its bytes and
	// persist flag, everything else is gone ---
	if victim != "" {
		if vf := p.files[victim]; vf != nil && !isPersisted(vf) {
			if _, serr := os.Stat(p.dataPath(vf.state, victim)); serr != nil {
				delete(p.files, victim) // evicted and removed: the normal outcome
			} else {
				p.run.Count("a_evicted_entry_left_on_disk", 1)
			}
		}
	}
	for _, n := range p.cfg.Names {
		f := p.files[n]
		for st := 0; st < 2; st++ {
			dp := p.dataPath(st, n)
			b, rerr := os.ReadFile(dp)
			onDisk := rerr == nil
			want := f != nil && f.state == st
			if want && !onDisk {
				cause := o.Kind
				if n == victim {
					cause = "lru-eviction"
				} else if n != name {
					cause = "side-effect-of-" + o.Kind
				}
				w["lost"] = n
				if isPersisted(f) {
					p.fail("persisted-file-removed/"+cause, w)
				} else {
					p.fail("file-vanished-without-cause/"+cause, w)
				}
				return
			}
			if !want && onDisk {
				w["file"], w["state"] = n, st
				p.fail("deleted-or-moved-file-still-present/"+o.Kind, w)
				return
			}
			if want {
				if !bytes.Equal(b, f.bytes) {
					w["file"], w["got"], w["want"] = n, string(b), string(f.bytes)
					p.fail("file-bytes-changed", w)
					return
				}
				pb, perr := os.ReadFile(filepath.Join(filepath.Dir(dp), "_persist"))
				switch {
				case f.persist == nil && perr == nil:
					w["file"], w["sidecar"] = n, string(pb)
					p.fail("persist-flag-appeared", w)
					return
				case f.persist != nil && (perr != nil || string(pb) != fmt.Sprint(*f.persist)):
					w["file"], w["sidecar"], w["want"] = n, string(pb), *f.persist
					p.fail("persist-flag-lost/"+o.Kind, w)
					return
				}
			}
		}
	}
}
