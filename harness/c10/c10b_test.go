package c10

import (
	"bytes"
	"fmt"
	"os"
	"path/filepath"
	"sort"
	"testing"
	"time"

	"github.com/andres-erbsen/clock"
	"github.com/uber-go/tally"
	"github.com/uber/kraken/lib/store"
	"github.com/uber/kraken/lib/store/base"
	"github.com/uber/kraken/lib/store/metadata"
	"github.com/uber/kraken/utils/diskspaceutil"

	"verif/harness/internal/ev"
	"verif/harness/internal/gen"
)

// ---- part (b): the cleanup manager's passes ----

type bFile struct {
	Name    string `json:"name"`
	Size    int    `json:"size"`
	AgeS    int64  `json:"age_s"` // now - mtime
	HasLAT  bool   `json:"has_lat"`
	IdleS   int64  `json:"idle_s"`  // now - last access time
	Persist string `json:"persist"` // absent|true|false
	content []byte
}

type bCfg struct {
	Index     int     `json:"index"`
	Mode      string  `json:"mode"`
	StoreKind int     `json:"store_kind"` // 0 local, 1 CAS, 2 local+LRU map, 3 CAS+LRU map
	Fresh     bool    `json:"fresh_store_instance"`
	TTLs      int64   `json:"ttl_s"`
	TTIs      int64   `json:"tti_s"`
	AggrTTLs  int64   `json:"aggressive_ttl_s"`
	Lower     int     `json:"aggressive_lower_threshold"`
	Total     uint64  `json:"disk_total_bytes"`
	Used      uint64  `json:"disk_used_bytes"`
	Files     []bFile `json:"files"`
	// entry directories without a data file (left behind by a failed
	// MoveFileFrom); only content-addressable layouts list them
	BadEntries []string `json:"leftover_entry_dirs_without_data,omitempty"`
	// a file removed by a delete request right after the pass listed the
	// directory (not judged)
	RaceVictim string `json:"file_deleted_right_after_listing,omitempty"`
}

// racingOp is the FileOp handed to the cleanup pass when a delete request
// races it: the request lands right after the pass has listed the names.
type racingOp struct {
	base.FileOp
	victim string
	fired  bool
}

func (o *racingOp) ListNames() ([]string, error) {
	names, err := o.FileOp.ListNames()
	if err == nil && !o.fired {
		o.fired = true
		_ = o.FileOp.DeleteFile(o.victim)
	}
	return names, err
}

var bModes = []string{"normal-dispatcher", "ttl-pass", "aggressive-ttl-lower", "usage-policy", "dispatcher-aggressive-ttl", "dispatcher-aggressive-policy", "periodic-job"}

func newFileStore(kind int, clk clock.Clock) base.FileStore {
	switch kind {
	case 0:
		return base.NewLocalFileStore(clk)
	case 1:
		return base.NewCASFileStore(clk)
	case 2:
		return base.NewLRUFileStore(10000, clk)
	}
	return base.NewCASFileStoreWithLRUMap(10000, clk)
}

func bDataPath(dir string, kind int, name string) string {
	if kind == 0 || kind == 2 {
		return filepath.Join(dir, name, base.DefaultDataFileName)
	}
	d := dir
	for i := 0; i < base.DefaultShardIDLength && i < len(name)/2; i++ {
		d = filepath.Join(d, name[i*2:i*2+2])
	}
	return filepath.Join(d, name, base.DefaultDataFileName)
}

// around picks a duration relative to a limit, never within 3 s of it.
func around(r interface{ Intn(int) int }, limit int64) int64 {
	switch r.Intn(6) {
	case 0:
		return limit / 2
	case 1:
		return limit - 3
	case 2:
		return limit + 3
	case 3:
		return limit * 2
	case 4:
		return limit + 60 + int64(r.Intn(100000))
	}
	v := int64(r.Intn(int(limit)))
	if limit-v < 3 {
		v = limit - 3
	}
	return v
}

func partB(t *testing.T, run *ev.Run, baseDir string, i int) {
	caseID := fmt.Sprintf("b%d", i)
	r := run.Rand(caseID)
	cfg := bCfg{Index: i, Mode: bModes[i%len(bModes)], StoreKind: r.Intn(4), Fresh: r.Intn(2) == 0}
	if cfg.Mode == "periodic-job" && i%(len(bModes)*6) != len(bModes)-1 {
		// the periodic path needs a wall-clock wait: a sixth of its slots only
		cfg.Mode = "normal-dispatcher"
	}
	cfg.TTLs = []int64{0, 1800, 7200, 86400}[r.Intn(4)]
	cfg.TTIs = []int64{0, 600, 3600, 21600}[r.Intn(4)]
	cfg.AggrTTLs = []int64{0, 300, 3600}[r.Intn(3)]
	effTTI := cfg.TTIs
	if effTTI == 0 {
		effTTI = 21600 // applyDefaults: 6h
	}
	effAggrTTL := cfg.AggrTTLs
	if effAggrTTL == 0 {
		effAggrTTL = 3600 // applyDefaults: 1h when aggressive cleanup is on
	}
	ttlInForce := cfg.TTLs
	switch cfg.Mode {
	case "aggressive-ttl-lower", "dispatcher-aggressive-ttl":
		ttlInForce = effAggrTTL
	}

	now := time.Date(2026, 3, 1, 0, 0, 0, 0, time.UTC)
	const interval = 600 // periodic job
	nf := 3 + r.Intn(10)
	seen := map[string]bool{}
	var totalBytes int64
	for len(cfg.Files) < nf {
		name := gen.Hex(r, 4)[:2] + gen.Hex(r, 14)
		if r.Intn(5) == 0 {
			name = gen.Hex(r, 64)
		}
		if seen[name] {
			continue
		}
		seen[name] = true
		f := bFile{Name: name, Size: r.Intn(3000), HasLAT: r.Intn(5) > 0}
		if r.Intn(8) == 0 {
			f.Size = 0
		}
		f.Persist = []string{"absent", "absent", "absent", "true", "true", "false"}[r.Intn(6)]
		if cfg.Mode == "usage-policy" || cfg.Mode == "dispatcher-aggressive-policy" {
			// classes by |mtime - last access|: 0 s (never served), 3 s..44 min
			// (served), > 45 min (certainly in an agent); 3 s off every limit
			f.IdleS = 60 + int64(r.Intn(200000))
			var diff int64
			switch r.Intn(6) {
			case 0, 1:
				diff = 0
			case 2:
				diff = 4 + int64(r.Intn(2600))
			case 3:
				diff = 2700 - 3
			case 4:
				diff = 2700 + 3
			case 5:
				diff = 2700 + 60 + int64(r.Intn(100000))
			}
			// usually downloaded first and accessed later; sometimes reversed
			if r.Intn(5) == 0 && f.IdleS > diff+10 {
				f.AgeS = f.IdleS - diff
			} else {
				f.AgeS = f.IdleS + diff
			}
		} else {
			if ttlInForce > 0 {
				f.AgeS = around(r, ttlInForce)
			} else {
				f.AgeS = int64(r.Intn(300000))
			}
			f.IdleS = around(r, effTTI)
			if f.AgeS < 0 {
				f.AgeS = 0
			}
		}
		if cfg.Mode == "periodic-job" && f.Size == 0 {
			f.Size = 1 + r.Intn(100)
		}
		f.content = gen.Bytes(r, f.Size)
		totalBytes += int64(f.Size)
		cfg.Files = append(cfg.Files, f)
	}
	// injected disk usage: used >= what the files occupy
	cfg.Lower = []int{0, 10, 30, 50, 70}[r.Intn(5)]
	if cfg.Mode == "aggressive-ttl-lower" || cfg.Mode == "usage-policy" {
		if cfg.Lower == 0 {
			cfg.Lower = 40
		}
		cfg.Total = uint64(totalBytes)*uint64(1+r.Intn(4)) + uint64(r.Intn(5000)) + 100
		cfg.Used = uint64(totalBytes) + uint64(r.Int63n(int64(cfg.Total-uint64(totalBytes))+1))
	}
	if cfg.Mode != "periodic-job" {
		if (cfg.StoreKind == 1 || cfg.StoreKind == 3) && r.Intn(2) == 0 {
			for k := 0; k < 1+r.Intn(2); k++ {
				bad := gen.Hex(r, 16)
				if r.Intn(2) == 0 {
					bad = "00" + gen.Hex(r, 14) // sorts before (almost) everything
				}
				if !seen[bad] {
					seen[bad] = true
					cfg.BadEntries = append(cfg.BadEntries, bad)
				}
			}
		}
		if r.Intn(3) == 0 {
			var cands []string
			for _, f := range cfg.Files {
				if f.Persist != "true" {
					cands = append(cands, f.Name)
				}
			}
			if len(cands) > 0 && len(cfg.Files) > 3 {
				sort.Strings(cands)
				// an early name in listing order, so that files are listed after it
				cfg.RaceVictim = cands[r.Intn((len(cands)+1)/2)]
			}
		}
	}
	usage := func() (diskspaceutil.UsageInfo, error) {
		return diskspaceutil.UsageInfo{Util: int(cfg.Used * 100 / cfg.Total), TotalBytes: cfg.Total, UsedBytes: cfg.Used, FreeBytes: cfg.Total - cfg.Used}, nil
	}

	// --- build the directory through a real store ---
	dir := filepath.Join(baseDir, caseID)
	defer os.RemoveAll(dir)
	if err := os.MkdirAll(dir, 0o775); err != nil {
		t.Fatal(err)
	}
	clk := clock.NewMock()
	buildNow := now
	if cfg.Mode == "periodic-job" {
		buildNow = now.Add(-interval * time.Second)
	}
	clk.Set(buildNow)
	state := base.NewFileState(dir)
	fs := newFileStore(cfg.StoreKind, clk)
	op := func(s base.FileStore) base.FileOp { return s.NewFileOp().AcceptState(state) }
	for _, f := range cfg.Files {
		must := func(err error, what string) {
			if err != nil {
				t.Fatalf("%s: building %s: %v", caseID, what, err)
			}
		}
		must(op(fs).CreateFile(f.Name, state, int64(f.Size)), "create")
		if f.Size > 0 {
			rw, err := op(fs).GetFileReadWriter(f.Name, 0, 0)
			must(err, "open")
			_, err = rw.WriteAt(f.content, 0)
			must(err, "write")
			rw.Close()
		}
		switch f.Persist {
		case "true":
			_, err := op(fs).SetFileMetadata(f.Name, metadata.NewPersist(true))
			must(err, "persist")
		case "false":
			_, err := op(fs).SetFileMetadata(f.Name, metadata.NewPersist(false))
			must(err, "persist")
		}
		if f.HasLAT {
			_, err := op(fs).SetFileMetadata(f.Name, metadata.NewLastAccessTime(now.Add(-time.Duration(f.IdleS)*time.Second)))
			must(err, "lat")
		} else {
			must(op(fs).DeleteFileMetadata(f.Name, &metadata.LastAccessTime{}), "del lat")
		}
		mt := now.Add(-time.Duration(f.AgeS) * time.Second)
		must(os.Chtimes(bDataPath(dir, cfg.StoreKind, f.Name), mt, mt), "chtimes")
	}
	for _, bad := range cfg.BadEntries {
		// a failed MoveFileFrom leaves the entry directory (with the
		// last-access sidecar written by the file map) but no data file
		if err := op(fs).MoveFileFrom(bad, state, filepath.Join(baseDir, caseID+"-no-such-source")); err == nil {
			t.Fatalf("%s: MoveFileFrom of a missing source succeeded", caseID)
		}
		bd := filepath.Dir(bDataPath(dir, cfg.StoreKind, bad))
		if _, err := os.Stat(bd); err != nil {
			// layout did not keep the directory: plant it
			if err := os.MkdirAll(bd, 0o775); err != nil {
				t.Fatal(err)
			}
		}
		if _, err := os.Stat(bDataPath(dir, cfg.StoreKind, bad)); err == nil {
			t.Fatalf("%s: leftover entry has a data file", caseID)
		}
	}
	if cfg.Fresh {
		fs = newFileStore(cfg.StoreKind, clk) // as after a restart: empty file map
	}
	passOp := func() base.FileOp {
		if cfg.RaceVictim != "" {
			return &racingOp{FileOp: op(fs), victim: cfg.RaceVictim}
		}
		return op(fs)
	}

	// --- run the pass ---
	stats := tally.NewTestScope("", nil)
	m := store.VerifC10NewCleanupManager(clk, stats)
	defer m.Stop()
	cc := store.CleanupConfig{
		Interval: interval * time.Second,
		TTI:      time.Duration(cfg.TTIs) * time.Second, TTL: time.Duration(cfg.TTLs) * time.Second,
		AggressiveTTL: time.Duration(cfg.AggrTTLs) * time.Second,
	}
	var perr error
	skipped := false
	switch cfg.Mode {
	case "normal-dispatcher":
		_, perr = m.Cleanup(passOp(), store.VerifC10ApplyDefaults(cc), i%2 == 0)
	case "ttl-pass":
		_, perr = m.TTLBasedCleanup(passOp(), time.Duration(effTTI)*time.Second, time.Duration(cfg.TTLs)*time.Second, 0, usage)
	case "aggressive-ttl-lower":
		_, perr = m.TTLBasedCleanup(passOp(), time.Duration(effTTI)*time.Second, time.Duration(effAggrTTL)*time.Second, cfg.Lower, usage)
	case "usage-policy":
		cc.AggressiveThreshold, cc.AggressiveLowerThreshold = 1, cfg.Lower
		_, perr = m.CustomPolicyBasedCleanup(passOp(), store.VerifC10ApplyDefaults(cc), usage)
	case "dispatcher-aggressive-ttl", "dispatcher-aggressive-policy":
		// the real dispatcher reads the real disk: aggressive mode is certain
		// with threshold 1 once the disk is >= 2% full
		real, err := diskspaceutil.Usage()
		if err != nil || real.Util < 2 {
			skipped = true
			break
		}
		cc.AggressiveThreshold = 1
		withPolicy := false
		if cfg.Mode == "dispatcher-aggressive-policy" {
			cc.AggressiveLowerThreshold, withPolicy = 1, true
			cfg.Lower = 1
		} else {
			cc.AggressiveLowerThreshold = []int{0, 1}[i%2]
			cfg.Lower = cc.AggressiveLowerThreshold
		}
		_, perr = m.Cleanup(passOp(), store.VerifC10ApplyDefaults(cc), withPolicy)
	case "periodic-job":
		m.AddJob("c10", cc, op(fs))
		clk.Add(interval * time.Second)
		deadline := time.Now().Add(180 * time.Second)
		done := false
		for !done && time.Now().Before(deadline) {
			// the job publishes the scanned bytes (> 0 here) once the pass is over
			for _, g := range stats.Snapshot().Gauges() {
				if g.Name() == "disk_usage" && int64(g.Value()) == totalBytes {
					done = true
				}
			}
			if !done {
				time.Sleep(2 * time.Millisecond)
			}
		}
		if !done {
			run.Inconclusive(caseID + ": periodic cleanup job did not report within 180 s of the mock tick")
			return
		}
		m.Stop()
	}
	if skipped {
		run.Count("b_skipped_real_disk_below_2_percent", 1)
		return
	}
	w := map[string]interface{}{"config": cfg, "now": now.Format(time.RFC3339)}
	viol := func(sig string, extra map[string]interface{}) {
		for k, v := range extra {
			w[k] = v
		}
		run.Violation("cleanup/"+sig, caseID, w)
	}
	if perr != nil {
		// not a verdict by itself: the files decide
		w["pass_error"] = perr.Error()
		run.Count("b_pass_returned_error", 1)
	}
	// the file removed by the racing delete request is not judged
	judgedFiles := cfg.Files
	if cfg.RaceVictim != "" {
		judgedFiles = nil
		for _, f := range cfg.Files {
			if f.Name != cfg.RaceVictim {
				judgedFiles = append(judgedFiles, f)
			}
		}
		if _, err := os.Stat(bDataPath(dir, cfg.StoreKind, cfg.RaceVictim)); err == nil {
			viol("racing-delete-request-did-not-remove-file/"+cfg.Mode, nil)
			return
		}
		run.Count("b_cases_with_delete_racing_the_listing", 1)
	}
	if len(cfg.BadEntries) > 0 {
		run.Count("b_cases_with_leftover_entry_dirs", 1)
	}

	// --- observe the directory ---
	deleted := map[string]bool{}
	var delNames []string
	for _, f := range judgedFiles {
		b, err := os.ReadFile(bDataPath(dir, cfg.StoreKind, f.Name))
		if err != nil {
			deleted[f.Name] = true
			delNames = append(delNames, f.Name)
			continue
		}
		if !bytes.Equal(b, f.content) {
			viol("survivor-bytes-changed/"+cfg.Mode, map[string]interface{}{"file": f.Name})
			return
		}
		if f.Persist == "true" {
			pb, _ := os.ReadFile(filepath.Join(filepath.Dir(bDataPath(dir, cfg.StoreKind, f.Name)), "_persist"))
			if string(pb) != "true" {
				viol("persist-flag-lost/"+cfg.Mode, map[string]interface{}{"file": f.Name, "sidecar": string(pb)})
				return
			}
		}
	}
	sort.Strings(delNames)
	w["deleted"] = delNames

	protected := 0
	ready := func(f bFile, ttl int64) bool {
		return (ttl > 0 && f.AgeS > ttl) || (f.HasLAT && f.IdleS > effTTI)
	}
	// persisted files are never removed, whatever the pass
	for _, f := range judgedFiles {
		if f.Persist == "true" {
			if deleted[f.Name] {
				viol("persisted-file-removed/"+cfg.Mode, map[string]interface{}{"file": f})
				return
			}
			if ready(f, ttlInForce) || cfg.Mode == "usage-policy" || cfg.Mode == "dispatcher-aggressive-policy" {
				protected++
			}
		}
	}
	switch cfg.Mode {
	case "normal-dispatcher", "ttl-pass", "dispatcher-aggressive-ttl", "periodic-job":
		// exact rule (with the TTL in force)
		for _, f := range judgedFiles {
			if f.Persist == "true" {
				continue
			}
			expired := ttlInForce > 0 && f.AgeS > ttlInForce
			switch {
			case expired || (f.HasLAT && f.IdleS > effTTI):
				if !deleted[f.Name] {
					viol("idle-or-expired-file-kept/"+cfg.Mode, map[string]interface{}{"file": f, "ttl_in_force_s": ttlInForce, "tti_s": effTTI})
					return
				}
			case !f.HasLAT:
				// idle rule without a sidecar: either outcome (3.40)
			default:
				if deleted[f.Name] {
					viol("fresh-file-deleted/"+cfg.Mode, map[string]interface{}{"file": f, "ttl_in_force_s": ttlInForce, "tti_s": effTTI})
					return
				}
			}
		}
	case "aggressive-ttl-lower":
		low := cfg.Total * uint64(cfg.Lower) / 100
		var sumD, maxD int64
		allReady := true
		for _, f := range judgedFiles {
			if f.Persist == "true" {
				continue
			}
			isReady := ready(f, ttlInForce)
			if deleted[f.Name] {
				if !isReady && f.HasLAT {
					viol("fresh-file-deleted/"+cfg.Mode, map[string]interface{}{"file": f, "ttl_in_force_s": ttlInForce, "tti_s": effTTI})
					return
				}
				sumD += int64(f.Size)
				if int64(f.Size) > maxD {
					maxD = int64(f.Size)
				}
			} else if isReady {
				allReady = false
			}
		}
		// every deletion must start while usage is above the threshold:
		// with the largest victim last, used - (sum - max) > low
		if len(delNames) > 0 && int64(cfg.Used)-(sumD-maxD) <= int64(low) {
			viol("deleted-after-lower-threshold-reached/"+cfg.Mode, map[string]interface{}{"low_bytes": low, "deleted_bytes": sumD})
			return
		}
		// threshold unreachable even by deleting everything => exact rule
		if int64(cfg.Used)-totalBytes > int64(low) && !allReady {
			viol("idle-or-expired-file-kept/"+cfg.Mode, map[string]interface{}{"low_bytes": low})
			return
		}
	case "usage-policy", "dispatcher-aggressive-policy":
		type cand struct {
			f     bFile
			class int
		}
		var cands []cand
		var sumD, maxD int64
		for _, f := range judgedFiles {
			if deleted[f.Name] {
				sumD += int64(f.Size)
				if int64(f.Size) > maxD {
					maxD = int64(f.Size)
				}
			}
			if f.Persist == "true" || !f.HasLAT {
				continue
			}
			diff := f.AgeS - f.IdleS
			if diff < 0 {
				diff = -diff
			}
			c := cand{f: f, class: 2} // not served to a consumer
			if diff > 2700 {
				c.class = 0 // certainly in an agent (sub-class of served)
			} else if diff > 1 {
				c.class = 1 // served
			}
			cands = append(cands, c)
		}
		// deletion order: no kept candidate may rank strictly before a deleted one
		for _, d := range cands {
			if !deleted[d.f.Name] {
				continue
			}
			for _, k := range cands {
				if deleted[k.f.Name] {
					continue
				}
				before := k.class < d.class || (k.class == d.class && k.f.IdleS > d.f.IdleS)
				if before {
					sig := "usage-policy-unserved-file-deleted-before-served-one"
					if k.class == d.class {
						sig = "usage-policy-more-recently-accessed-file-deleted-first"
					} else if d.class != 2 {
						sig = "usage-policy-agent-cached-file-kept-while-other-served-deleted"
					}
					viol(sig+"/"+cfg.Mode, map[string]interface{}{"deleted_file": d.f, "deleted_class": d.class, "kept_file": k.f, "kept_class": k.class})
					return
				}
			}
		}
		if cfg.Mode == "usage-policy" {
			minB := int64(cfg.Total * uint64(cfg.Lower) / 100)
			// generous bound: never keeps deleting after total-min bytes are freed
			if len(delNames) > 0 && sumD-maxD >= int64(cfg.Total)-minB {
				viol("usage-policy-kept-deleting-after-target/"+cfg.Mode, map[string]interface{}{"deleted_bytes": sumD})
				return
			}
			// never stops early: a candidate is left only when usage is at/below the threshold
			left := false
			for _, k := range cands {
				if !deleted[k.f.Name] {
					left = true
				}
			}
			if left && int64(cfg.Used)-sumD > minB {
				viol("usage-policy-stopped-above-lower-threshold/"+cfg.Mode, map[string]interface{}{"deleted_bytes": sumD, "min_bytes": minB})
				return
			}
			if len(delNames) > 0 && int64(cfg.Used)-(sumD-maxD) <= minB {
				run.Count("b_usage_policy_deleted_below_lower_threshold", 1)
			}
		} else {
			for _, k := range cands {
				if !deleted[k.f.Name] {
					viol("idle-or-expired-file-kept/"+cfg.Mode, map[string]interface{}{"file": k.f})
					return
				}
			}
		}
	}
	run.Case("b|"+ev.JSON(cfg), len(delNames) >= 1 && protected >= 1)
	run.Count("b_cases", 1)
	run.Count("b_mode_"+cfg.Mode, 1)
	run.Count("b_files", int64(len(cfg.Files)))
	run.Count("b_files_deleted", int64(len(delNames)))
	run.Count("b_persisted_files_protected", int64(protected))
	if run.WantSample() && i%353 == 0 {
		run.Sample(map[string]interface{}{"part": "b", "config": cfg, "deleted": delNames})
	}
}
