package c10

import (
	"bytes"
	"context"
	"encoding/json"
	"errors"
	"fmt"
	"io"
	"net"
	"net/http"
	"os"
	"path/filepath"
	"sync"
	"testing"
	"time"

	"github.com/andres-erbsen/clock"
	"github.com/c2h5oh/datasize"
	"github.com/uber-go/tally"
	"github.com/uber/kraken/core"
	"github.com/uber/kraken/lib/backend"
	"github.com/uber/kraken/lib/backend/backenderrors"
	"github.com/uber/kraken/lib/blobrefresh"
	"github.com/uber/kraken/lib/hashring"
	"github.com/uber/kraken/lib/healthcheck"
	"github.com/uber/kraken/lib/hostlist"
	"github.com/uber/kraken/lib/metainfogen"
	"github.com/uber/kraken/lib/persistedretry"
	"github.com/uber/kraken/lib/persistedretry/writeback"
	"github.com/uber/kraken/lib/store"
	"github.com/uber/kraken/lib/store/metadata"
	"github.com/uber/kraken/localdb"
	"github.com/uber/kraken/origin/blobclient"
	"github.com/uber/kraken/origin/blobserver"
	"github.com/uber/kraken/utils/httputil"

	"verif/harness/internal/ev"
	"verif/harness/internal/gen"
)

// ---- part (c): POST /forcecleanup on an in-process origin ----

// scriptedBackend is the remote storage: healthy / failing per phase, per name.
type scriptedBackend struct {
	mu       sync.Mutex
	blobs    map[string][]byte
	failAll  bool
	failName map[string]bool
	uploads  int
	refused  int
}

func (b *scriptedBackend) failing(name string) bool { return b.failAll || b.failName[name] }

func (b *scriptedBackend) Stat(namespace, name string) (*core.BlobInfo, error) {
	b.mu.Lock()
	defer b.mu.Unlock()
	if b.failing(name) {
		return nil, errors.New("scripted backend: unavailable")
	}
	if v, ok := b.blobs[name]; ok {
		return core.NewBlobInfo(int64(len(v))), nil
	}
	return nil, backenderrors.ErrBlobNotFound
}

func (b *scriptedBackend) Upload(namespace, name string, src io.Reader) error {
	data, err := io.ReadAll(src)
	b.mu.Lock()
	defer b.mu.Unlock()
	if b.failing(name) {
		b.refused++
		return errors.New("scripted backend: unavailable")
	}
	if err != nil {
		return err
	}
	b.blobs[name] = data
	b.uploads++
	return nil
}

func (b *scriptedBackend) Download(namespace, name string, dst io.Writer) error {
	b.mu.Lock()
	defer b.mu.Unlock()
	if b.failing(name) {
		return errors.New("scripted backend: unavailable")
	}
	v, ok := b.blobs[name]
	if !ok {
		return backenderrors.ErrBlobNotFound
	}
	_, err := dst.Write(v)
	return err
}

func (b *scriptedBackend) List(prefix string, opts ...backend.ListOption) (*backend.ListResult, error) {
	return &backend.ListResult{}, nil
}
func (b *scriptedBackend) Close() error { return nil }

func (b *scriptedBackend) get(name string) ([]byte, bool) {
	b.mu.Lock()
	defer b.mu.Unlock()
	v, ok := b.blobs[name]
	return v, ok
}

var localdbMu sync.Mutex

type noClusters struct{}

func (noClusters) Provide(dns string) (blobclient.ClusterClient, error) {
	return nil, errors.New("no remote clusters in this scenario")
}

type cBlob struct {
	Kind       string   `json:"kind"` // public-upload | public-upload-two-namespaces | duplicate-upload-delayed | transfer
	Size       int      `json:"size"`
	Digest     string   `json:"digest"`
	Namespaces []string `json:"namespaces,omitempty"` // namespaces the blob is owed to (one write-back task each)
	content    []byte
}

type cCfg struct {
	Index    int     `json:"index"`
	Scenario string  `json:"scenario"`
	Blobs    []cBlob `json:"blobs"`
	FailIdx  []int   `json:"second_pass_failing_blobs,omitempty"`
}

// health[phase] = {backend A failing, backend B failing}; phases: populate,
// first forced cleanup, second forced cleanup.
type cScript struct {
	name   string
	health [3][2]bool
}

var cScenarios = []cScript{
	{"failing-then-healthy", [3][2]bool{{true, true}, {true, true}, {false, false}}},
	{"two-ns-first-backend-fails", [3][2]bool{{true, true}, {true, false}, {false, false}}},
	{"failing-then-partially-healthy", [3][2]bool{{true, true}, {true, true}, {false, false}}},
	{"two-ns-second-backend-fails", [3][2]bool{{true, true}, {false, true}, {false, false}}},
	{"healthy-from-start", [3][2]bool{{false, false}, {false, false}, {false, false}}},
	{"failing-twice", [3][2]bool{{true, true}, {true, true}, {true, true}}},
}

var cNamespaces = [2]string{"c10-ns-a", "c10-ns-b"}

func partC(t *testing.T, run *ev.Run, baseDir string, i int) {
	caseID := fmt.Sprintf("c%d", i)
	r := run.Rand(caseID)
	script := cScenarios[i%len(cScenarios)]
	cfg := cCfg{Index: i, Scenario: script.name}
	nb := 3 + r.Intn(4)
	for k := 0; k < nb; k++ {
		b := cBlob{Size: 1 + r.Intn(6000)}
		switch x := r.Intn(10); {
		case x < 3:
			b.Kind = "public-upload"
		case x < 5:
			b.Kind = "public-upload-two-namespaces"
		case x < 7:
			b.Kind = "duplicate-upload-delayed"
		default:
			b.Kind = "transfer"
		}
		switch k {
		case 0, 2:
			b.Kind = "public-upload-two-namespaces"
		case 1:
			b.Kind = "transfer"
		}
		switch b.Kind {
		case "public-upload", "duplicate-upload-delayed":
			b.Namespaces = []string{cNamespaces[r.Intn(2)]}
		case "public-upload-two-namespaces":
			// the same layer pushed under two namespaces; both push orders
			// occur in every scenario (blob 0: a then b, blob 2: b then a)
			b.Namespaces = []string{cNamespaces[0], cNamespaces[1]}
			if k == 2 || (k > 2 && r.Intn(2) == 0) {
				b.Namespaces = []string{cNamespaces[1], cNamespaces[0]}
			}
		}
		b.content = gen.Bytes(r, b.Size)
		b.Digest = gen.SHA256Hex(b.content)
		cfg.Blobs = append(cfg.Blobs, b)
	}
	if cfg.Scenario == "failing-then-partially-healthy" {
		for k, b := range cfg.Blobs {
			if b.Kind != "transfer" && r.Intn(2) == 0 {
				cfg.FailIdx = append(cfg.FailIdx, k)
			}
		}
	}
	w := map[string]interface{}{"config": cfg}
	viol := func(sig string, extra map[string]interface{}) {
		for k, v := range extra {
			w[k] = v
		}
		run.Violation("forcecleanup/"+sig, caseID, w)
	}
	fatal := func(what string, err error) { t.Fatalf("%s: %s: %v", caseID, what, err) }

	root := filepath.Join(baseDir, caseID)
	defer os.RemoveAll(root)
	cas, err := store.NewCAStore(store.CAStoreConfig{
		UploadDir: filepath.Join(root, "upload"), CacheDir: filepath.Join(root, "cache"),
		UploadCleanup: store.CleanupConfig{Disabled: true}, CacheCleanup: store.CleanupConfig{Disabled: true},
	}, tally.NoopScope)
	if err != nil {
		fatal("ca store", err)
	}
	// goose (schema migrations) keeps global state: one localdb.New at a time,
	// as in production where it runs once per process
	localdbMu.Lock()
	db, err := localdb.New(localdb.Config{Source: filepath.Join(root, "db", "kraken.db")})
	localdbMu.Unlock()
	if err != nil {
		fatal("localdb", err)
	}
	defer db.Close()
	// one scripted backend per namespace
	bes := map[string]*scriptedBackend{}
	backends := backend.ManagerFixture()
	for _, ns := range cNamespaces {
		bes[ns] = &scriptedBackend{blobs: map[string][]byte{}, failName: map[string]bool{}}
		if err := backends.Register("^"+ns+"$", bes[ns], false); err != nil {
			fatal("register backend", err)
		}
	}
	setHealth := func(phase int) {
		for k, ns := range cNamespaces {
			bes[ns].mu.Lock()
			bes[ns].failAll = script.health[phase][k]
			bes[ns].mu.Unlock()
		}
	}
	failingNow := func(ns string) bool {
		bes[ns].mu.Lock()
		defer bes[ns].mu.Unlock()
		return bes[ns].failAll
	}
	setHealth(0)
	wbm, err := persistedretry.NewManager(persistedretry.Config{
		IncomingBuffer: 100, RetryBuffer: 100, NumIncomingWorkers: 1, NumRetryWorkers: 1,
		MaxTaskThroughput: time.Millisecond,
		RetryInterval:     24 * time.Hour, PollRetriesInterval: 24 * time.Hour, // failed tasks only run through SyncExec
		SyncRetryBackoff: httputil.ExponentialBackOffConfig{
			Enabled: true, InitialInterval: time.Millisecond, Multiplier: 1, MaxInterval: 2 * time.Millisecond, MaxRetries: 1},
	}, tally.NoopScope, writeback.NewStore(db), writeback.NewExecutor(tally.NoopScope, cas, backends))
	if err != nil {
		fatal("writeback manager", err)
	}
	defer wbm.Close()

	l, err := net.Listen("tcp", "127.0.0.1:0")
	if err != nil {
		fatal("listen", err)
	}
	addr := l.Addr().String()
	ring := hashring.New(hashring.Config{MaxReplica: 1}, hostlist.Fixture(addr), healthcheck.IdentityFilter{}, tally.NoopScope)
	mg, err := metainfogen.New(metainfogen.Config{
		PieceLengths: map[datasize.ByteSize]datasize.ByteSize{0: 4 * datasize.KB}}, cas)
	if err != nil {
		fatal("metainfogen", err)
	}
	br := blobrefresh.New(blobrefresh.Config{}, tally.NoopScope, cas, backends, mg)
	pctx, err := core.NewPeerContext(core.RandomPeerIDFactory, "zone", "cluster", "127.0.0.1", 1, true)
	if err != nil {
		fatal("peer context", err)
	}
	// the server's clock is far ahead of every file's mtime: everything is expired for ttl_hr=0
	clk := clock.NewMock()
	clk.Set(time.Date(2100, 1, 1, 0, 0, 0, 0, time.UTC))
	srv, err := blobserver.New(blobserver.Config{}, tally.NoopScope, clk, addr, ring, cas,
		blobclient.NewProvider(), noClusters{}, pctx, backends, br, mg, wbm)
	if err != nil {
		fatal("blobserver", err)
	}
	hs := &http.Server{Handler: srv.Handler()}
	go hs.Serve(l)
	defer hs.Close()
	cl := blobclient.New(addr, blobclient.WithChunkSize(1024))

	// --- populate through the real endpoints ---
	for _, b := range cfg.Blobs {
		d, err := core.NewSHA256DigestFromHex(b.Digest)
		if err != nil {
			fatal("digest", err)
		}
		switch b.Kind {
		case "public-upload", "public-upload-two-namespaces":
			// the second namespace goes through the upload-conflict path,
			// which adds a second write-back task for the same digest
			for _, ns := range b.Namespaces {
				if err = cl.UploadBlob(context.Background(), ns, d, bytes.NewReader(b.content), uint64(b.Size)); err != nil {
					break
				}
			}
		case "duplicate-upload-delayed":
			err = cl.DuplicateUploadBlob(b.Namespaces[0], d, bytes.NewReader(b.content), uint64(b.Size), time.Hour)
		case "transfer":
			err = cl.TransferBlob(d, bytes.NewReader(b.content), uint64(b.Size))
		}
		if err != nil {
			fatal("populate "+b.Kind, err)
		}
	}
	// wait until the asynchronous write-back attempts of the public uploads
	// have finished (failing backend -> task marked failed; healthy -> uploaded
	// and persist flag cleared)
	deadline := time.Now().Add(180 * time.Second)
	for _, b := range cfg.Blobs {
		if b.Kind != "public-upload" && b.Kind != "public-upload-two-namespaces" {
			continue
		}
		for {
			tasks, err := wbm.Find(writeback.NewNameQuery(b.Digest))
			if err != nil {
				fatal("find tasks", err)
			}
			settled := true
			for _, ns := range b.Namespaces {
				if failingNow(ns) {
					found := false
					for _, tk := range tasks {
						if wt, ok := tk.(*writeback.Task); ok && wt.Namespace == ns && wt.Failures > 0 {
							found = true
						}
					}
					settled = settled && found
				} else {
					_, has := bes[ns].get(b.Digest)
					pending := false
					for _, tk := range tasks {
						if wt, ok := tk.(*writeback.Task); ok && wt.Namespace == ns {
							pending = true
						}
					}
					settled = settled && has && !pending
				}
			}
			if settled {
				break
			}
			if time.Now().After(deadline) {
				run.Inconclusive(caseID + ": asynchronous write-back did not settle within 180 s")
				return
			}
			time.Sleep(2 * time.Millisecond)
		}
	}

	persistedNow := func(name string) bool {
		var pm metadata.Persist
		if err := cas.GetCacheFileMetadata(name, &pm); err != nil {
			return false
		}
		return pm.Value
	}
	inCache := func(b cBlob) (bool, bool) {
		rd, err := cas.GetCacheFileReader(b.Digest)
		if err != nil {
			return false, false
		}
		defer rd.Close()
		got, _ := io.ReadAll(rd)
		return true, bytes.Equal(got, b.content)
	}
	forceCleanup := func() (map[string]interface{}, error) {
		resp, err := httputil.Post(fmt.Sprintf("http://%s/forcecleanup?ttl_hr=0", addr), httputil.SendTimeout(2*time.Minute))
		if err != nil {
			return nil, err
		}
		defer resp.Body.Close()
		var out map[string]interface{}
		err = json.NewDecoder(resp.Body).Decode(&out)
		return out, err
	}
	pendingTasks := func(name string) []string {
		var out []string
		tasks, _ := wbm.Find(writeback.NewNameQuery(name))
		for _, tk := range tasks {
			if wt, ok := tk.(*writeback.Task); ok {
				out = append(out, wt.Namespace)
			}
		}
		return out
	}
	wasPersisted := map[string]bool{}
	wasCached := map[string]bool{}
	markState := func(key string) {
		st := map[string]interface{}{}
		for _, b := range cfg.Blobs {
			wasPersisted[b.Digest] = persistedNow(b.Digest)
			wasCached[b.Digest], _ = inCache(b)
			st[b.Digest] = map[string]interface{}{"persist_flag": wasPersisted[b.Digest], "pending_writeback_tasks": pendingTasks(b.Digest)}
		}
		w[key] = st
	}

	// check: a blob that carried the awaiting-write-back mark before a pass
	// is, after the pass, either still cached with its bytes or held, with
	// identical bytes, by the backend of EVERY namespace it is owed to
	multiPending := 0
	check := func(pass string) (survived, deletedAfterWriteback int, ok bool) {
		for _, b := range cfg.Blobs {
			present, same := inCache(b)
			if present && !same {
				viol("cached-bytes-changed/"+pass, map[string]interface{}{"blob": b})
				return 0, 0, false
			}
			if !wasPersisted[b.Digest] {
				if !present && wasCached[b.Digest] {
					// deleted in this pass without the mark: if a backend it
					// is owed to still lacks it, the mark had been cleared by an
					// earlier, partially successful write-back. Outside the
					// statement (which speaks about marked files): counted only.
					for _, ns := range b.Namespaces {
						if _, has := bes[ns].get(b.Digest); !has {
							run.Count("c_unmarked_blob_deleted_with_writeback_still_pending", 1)
							break
						}
					}
				}
				continue
			}
			if present {
				survived++
				continue
			}
			for _, ns := range b.Namespaces {
				remote, has := bes[ns].get(b.Digest)
				if !has || !bytes.Equal(remote, b.content) {
					sig := "blob-awaiting-writeback-deleted-without-backup/"
					if len(b.Namespaces) > 1 {
						sig = "blob-awaiting-writeback-for-several-namespaces-deleted-without-backup-in-one/"
					}
					viol(sig+pass, map[string]interface{}{
						"blob": b, "namespace_without_backup": ns, "backend_has_it": has, "backend_failing": failingNow(ns)})
					return 0, 0, false
				}
			}
			deletedAfterWriteback++
		}
		return survived, deletedAfterWriteback, true
	}

	markState("state_before_first_pass")
	for _, b := range cfg.Blobs {
		if wasPersisted[b.Digest] && len(pendingTasks(b.Digest)) > 1 {
			multiPending++
		}
	}
	setHealth(1)
	resp1, err := forceCleanup()
	if err != nil {
		fatal("forcecleanup 1", err)
	}
	w["first_pass_response"] = resp1
	s1, d1, ok := check("first-pass-" + cfg.Scenario)
	if !ok {
		return
	}
	// a mark cleared although a write-back is still pending (outside the
	// statement, which speaks about marked files): counted only
	for _, b := range cfg.Blobs {
		if wasPersisted[b.Digest] && !persistedNow(b.Digest) && len(pendingTasks(b.Digest)) > 0 {
			if present, _ := inCache(b); present {
				for _, ns := range b.Namespaces {
					if _, has := bes[ns].get(b.Digest); !has {
						run.Count("c_mark_cleared_while_writeback_pending_for_other_namespace", 1)
						break
					}
				}
			}
		}
	}
	// second pass
	markState("state_before_second_pass")
	setHealth(2)
	for _, k := range cfg.FailIdx {
		for _, ns := range cNamespaces {
			bes[ns].mu.Lock()
			bes[ns].failName[cfg.Blobs[k].Digest] = true
			bes[ns].mu.Unlock()
		}
	}
	resp2, err := forceCleanup()
	if err != nil {
		fatal("forcecleanup 2", err)
	}
	w["second_pass_response"] = resp2
	s2, d2, ok := check("second-pass-" + cfg.Scenario)
	if !ok {
		return
	}
	unp := 0
	for _, b := range cfg.Blobs {
		if b.Kind == "transfer" {
			if present, _ := inCache(b); !present {
				unp++
			}
		}
	}
	nontrivial := (s1 >= 1 && d1+d2 >= 1) || (cfg.Scenario == "healthy-from-start" && d1+d2 >= 1) || (cfg.Scenario == "failing-twice" && s2 >= 1)
	run.Case("c|"+ev.JSON(cfg), nontrivial)
	run.Count("c_scenarios", 1)
	run.Count("c_scenario_"+cfg.Scenario, 1)
	run.Count("c_blobs", int64(len(cfg.Blobs)))
	run.Count("c_blobs_with_several_pending_writebacks", int64(multiPending))
	run.Count("c_persisted_blobs_survived_first_pass", int64(s1))
	run.Count("c_persisted_blobs_survived_second_pass", int64(s2))
	run.Count("c_persisted_blobs_deleted_after_writeback", int64(d1+d2))
	run.Count("c_unpersisted_blobs_cleaned", int64(unp))
	for _, ns := range cNamespaces {
		bes[ns].mu.Lock()
		run.Count("c_backend_uploads", int64(bes[ns].uploads))
		run.Count("c_backend_uploads_refused", int64(bes[ns].refused))
		bes[ns].mu.Unlock()
	}
	if run.WantSample() && i%5 == 0 {
		run.Sample(map[string]interface{}{"part": "c", "config": cfg, "first_pass": resp1, "second_pass": resp2})
	}
}
