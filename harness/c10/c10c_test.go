package c10

import (
	"bytes"
	"context"
	"encoding/json"
	"errors"
	"fmt"
	"io"
	"net"
	"net/http"
	"os"
	"path/filepath"
	"sync"
	"testing"
	"time"

	"github.com/andres-erbsen/clock"
	"github.com/c2h5oh/datasize"
	"github.com/uber-go/tally"
	"github.com/uber/kraken/core"
	"github.com/uber/kraken/lib/backend"
	"github.com/uber/kraken/lib/backend/backenderrors"
	"github.com/uber/kraken/lib/blobrefresh"
	"github.com/uber/kraken/lib/hashring"
	"github.com/uber/kraken/lib/healthcheck"
	"github.com/uber/kraken/lib/hostlist"
	"github.com/uber/kraken/lib/metainfogen"
	"github.com/uber/kraken/lib/persistedretry"
	"github.com/uber/kraken/lib/persistedretry/writeback"
	"github.com/uber/kraken/lib/store"
	"github.com/uber/kraken/lib/store/metadata"
	"github.com/uber/kraken/localdb"
	"github.com/uber/kraken/origin/blobclient"
	"github.com/uber/kraken/origin/blobserver"
	"github.com/uber/kraken/utils/httputil"

	"verif/harness/internal/ev"
	"verif/harness/internal/gen"
)

// ---- part (c): POST /forcecleanup on an in-process origin ----

// scriptedBackend is the remote storage: healthy / failing per phase, per name.
type scriptedBackend struct {
	mu       sync.Mutex
	blobs    map[string][]byte
	failAll  bool
	failName map[string]bool
	uploads  int
	refused  int
}

func (b *scriptedBackend) failing(name string) bool { return b.failAll || b.failName[name] }

func (b *scriptedBackend) Stat(namespace, name string) (*core.BlobInfo, error) {
	b.mu.Lock()
	defer b.mu.Unlock()
	if b.failing(name) {
		return nil, errors.New("scripted backend: unavailable")
	}
	if v, ok := b.blobs[name]; ok {
		return core.NewBlobInfo(int64(len(v))), nil
	}
	return nil, backenderrors.ErrBlobNotFound
}

func (b *scriptedBackend) Upload(namespace, name string, src io.Reader) error {
	data, err := io.ReadAll(src)
	b.mu.Lock()
	defer b.mu.Unlock()
	if b.failing(name) {
		b.refused++
		return errors.New("scripted backend: unavailable")
	}
	if err != nil {
		return err
	}
	b.blobs[name] = data
	b.uploads++
	return nil
}

func (b *scriptedBackend) Download(namespace, name string, dst io.Writer) error {
	b.mu.Lock()
	defer b.mu.Unlock()
	if b.failing(name) {
		return errors.New("scripted backend: unavailable")
	}
	v, ok := b.blobs[name]
	if !ok {
		return backenderrors.ErrBlobNotFound
	}
	_, err := dst.Write(v)
	return err
}

func (b *scriptedBackend) List(prefix string, opts ...backend.ListOption) (*backend.ListResult, error) {
	return &backend.ListResult{}, nil
}
func (b *scriptedBackend) Close() error { return nil }

func (b *scriptedBackend) get(name string) ([]byte, bool) {
	b.mu.Lock()
	defer b.mu.Unlock()
	v, ok := b.blobs[name]
	return v, ok
}

var localdbMu sync.Mutex

type noClusters struct{}

func (noClusters) Provide(dns string) (blobclient.ClusterClient, error) {
	return nil, errors.New("no remote clusters in this scenario")
}

type cBlob struct {
	Kind    string `json:"kind"` // public-upload | duplicate-upload-delayed | transfer
	Size    int    `json:"size"`
	Digest  string `json:"digest"`
	content []byte
}

type cCfg struct {
	Index    int     `json:"index"`
	Scenario string  `json:"scenario"`
	Blobs    []cBlob `json:"blobs"`
	FailIdx  []int   `json:"second_pass_failing_blobs,omitempty"`
}

var cScenarios = []string{"failing-then-healthy", "failing-then-partially-healthy", "healthy-from-start", "failing-twice"}

const cNamespace = "c10-namespace"

func partC(t *testing.T, run *ev.Run, baseDir string, i int) {
	caseID := fmt.Sprintf("c%d", i)
	r := run.Rand(caseID)
	cfg := cCfg{Index: i, Scenario: cScenarios[i%len(cScenarios)]}
	nb := 3 + r.Intn(4)
	for k := 0; k < nb; k++ {
		b := cBlob{Size: 1 + r.Intn(6000)}
		switch x := r.Intn(10); {
		case x < 4:
			b.Kind = "public-upload"
		case x < 7:
			b.Kind = "duplicate-upload-delayed"
		default:
			b.Kind = "transfer"
		}
		if k == 0 {
			b.Kind = "public-upload"
		}
		if k == 1 {
			b.Kind = "transfer"
		}
		b.content = gen.Bytes(r, b.Size)
		b.Digest = gen.SHA256Hex(b.content)
		cfg.Blobs = append(cfg.Blobs, b)
	}
	if cfg.Scenario == "failing-then-partially-healthy" {
		for k, b := range cfg.Blobs {
			if b.Kind != "transfer" && r.Intn(2) == 0 {
				cfg.FailIdx = append(cfg.FailIdx, k)
			}
		}
	}
	w := map[string]interface{}{"config": cfg}
	viol := func(sig string, extra map[string]interface{}) {
		for k, v := range extra {
			w[k] = v
		}
		run.Violation("forcecleanup/"+sig, caseID, w)
	}
	fatal := func(what string, err error) { t.Fatalf("%s: %s: %v", caseID, what, err) }

	root := filepath.Join(baseDir, caseID)
	defer os.RemoveAll(root)
	cas, err := store.NewCAStore(store.CAStoreConfig{
		UploadDir: filepath.Join(root, "upload"), CacheDir: filepath.Join(root, "cache"),
		UploadCleanup: store.CleanupConfig{Disabled: true}, CacheCleanup: store.CleanupConfig{Disabled: true},
	}, tally.NoopScope)
	if err != nil {
		fatal("ca store", err)
	}
	// goose (schema migrations) keeps global state: one localdb.New at a time,
	// as in production where it runs once per process
	localdbMu.Lock()
	db, err := localdb.New(localdb.Config{Source: filepath.Join(root, "db", "kraken.db")})
	localdbMu.Unlock()
	if err != nil {
		fatal("localdb", err)
	}
	defer db.Close()
	be := &scriptedBackend{blobs: map[string][]byte{}, failName: map[string]bool{}}
	be.failAll = cfg.Scenario != "healthy-from-start"
	backends := backend.ManagerFixture()
	if err := backends.Register(cNamespace, be, false); err != nil {
		fatal("register backend", err)
	}
	wbm, err := persistedretry.NewManager(persistedretry.Config{
		IncomingBuffer: 100, RetryBuffer: 100, NumIncomingWorkers: 1, NumRetryWorkers: 1,
		MaxTaskThroughput: time.Millisecond,
		RetryInterval:     24 * time.Hour, PollRetriesInterval: 24 * time.Hour, // failed tasks only run through SyncExec
		SyncRetryBackoff: httputil.ExponentialBackOffConfig{
			Enabled: true, InitialInterval: time.Millisecond, Multiplier: 1, MaxInterval: 2 * time.Millisecond, MaxRetries: 1},
	}, tally.NoopScope, writeback.NewStore(db), writeback.NewExecutor(tally.NoopScope, cas, backends))
	if err != nil {
		fatal("writeback manager", err)
	}
	defer wbm.Close()

	l, err := net.Listen("tcp", "127.0.0.1:0")
	if err != nil {
		fatal("listen", err)
	}
	addr := l.Addr().String()
	ring := hashring.New(hashring.Config{MaxReplica: 1}, hostlist.Fixture(addr), healthcheck.IdentityFilter{}, tally.NoopScope)
	mg, err := metainfogen.New(metainfogen.Config{
		PieceLengths: map[datasize.ByteSize]datasize.ByteSize{0: 4 * datasize.KB}}, cas)
	if err != nil {
		fatal("metainfogen", err)
	}
	br := blobrefresh.New(blobrefresh.Config{}, tally.NoopScope, cas, backends, mg)
	pctx, err := core.NewPeerContext(core.RandomPeerIDFactory, "zone", "cluster", "127.0.0.1", 1, true)
	if err != nil {
		fatal("peer context", err)
	}
	// the server's clock is far ahead of every file's mtime: everything is expired for ttl_hr=0
	clk := clock.NewMock()
	clk.Set(time.Date(2100, 1, 1, 0, 0, 0, 0, time.UTC))
	srv, err := blobserver.New(blobserver.Config{}, tally.NoopScope, clk, addr, ring, cas,
		blobclient.NewProvider(), noClusters{}, pctx, backends, br, mg, wbm)
	if err != nil {
		fatal("blobserver", err)
	}
	hs := &http.Server{Handler: srv.Handler()}
	go hs.Serve(l)
	defer hs.Close()
	cl := blobclient.New(addr, blobclient.WithChunkSize(1024))

	// --- populate through the real endpoints ---
	for _, b := range cfg.Blobs {
		d, err := core.NewSHA256DigestFromHex(b.Digest)
		if err != nil {
			fatal("digest", err)
		}
		switch b.Kind {
		case "public-upload":
			err = cl.UploadBlob(context.Background(), cNamespace, d, bytes.NewReader(b.content), uint64(b.Size))
		case "duplicate-upload-delayed":
			err = cl.DuplicateUploadBlob(cNamespace, d, bytes.NewReader(b.content), uint64(b.Size), time.Hour)
		case "transfer":
			err = cl.TransferBlob(d, bytes.NewReader(b.content), uint64(b.Size))
		}
		if err != nil {
			fatal("populate "+b.Kind, err)
		}
	}
	// wait until the asynchronous write-back attempts of the public uploads
	// have finished (failed -> task marked failed; healthy -> persist cleared)
	deadline := time.Now().Add(180 * time.Second)
	for _, b := range cfg.Blobs {
		if b.Kind != "public-upload" {
			continue
		}
		for {
			settled := false
			if be.failAll {
				tasks, err := wbm.Find(writeback.NewNameQuery(b.Digest))
				if err != nil {
					fatal("find tasks", err)
				}
				settled = len(tasks) > 0 && tasks[0].GetFailures() > 0
			} else {
				var pm metadata.Persist
				err := cas.GetCacheFileMetadata(b.Digest, &pm)
				settled = os.IsNotExist(err)
			}
			if settled {
				break
			}
			if time.Now().After(deadline) {
				run.Inconclusive(caseID + ": asynchronous write-back did not settle within 180 s")
				return
			}
			time.Sleep(2 * time.Millisecond)
		}
	}

	persistedNow := func(name string) bool {
		var pm metadata.Persist
		if err := cas.GetCacheFileMetadata(name, &pm); err != nil {
			return false
		}
		return pm.Value
	}
	inCache := func(b cBlob) (bool, bool) {
		rd, err := cas.GetCacheFileReader(b.Digest)
		if err != nil {
			return false, false
		}
		defer rd.Close()
		got, _ := io.ReadAll(rd)
		return true, bytes.Equal(got, b.content)
	}
	forceCleanup := func() (map[string]interface{}, error) {
		resp, err := httputil.Post(fmt.Sprintf("http://%s/forcecleanup?ttl_hr=0", addr), httputil.SendTimeout(2*time.Minute))
		if err != nil {
			return nil, err
		}
		defer resp.Body.Close()
		var out map[string]interface{}
		err = json.NewDecoder(resp.Body).Decode(&out)
		return out, err
	}
	wasPersisted := map[string]bool{}
	for _, b := range cfg.Blobs {
		wasPersisted[b.Digest] = persistedNow(b.Digest)
	}
	w["persisted_before_first_pass"] = wasPersisted

	// check: a blob that was awaiting write-back before a pass is, after the
	// pass, either still cached with its bytes or held by the backend
	check := func(pass string) (survived, deletedAfterWriteback int, ok bool) {
		for _, b := range cfg.Blobs {
			present, same := inCache(b)
			if present && !same {
				viol("cached-bytes-changed/"+pass, map[string]interface{}{"blob": b})
				return 0, 0, false
			}
			if !wasPersisted[b.Digest] {
				continue
			}
			if present {
				survived++
				continue
			}
			remote, has := be.get(b.Digest)
			if !has || !bytes.Equal(remote, b.content) {
				viol("blob-awaiting-writeback-deleted-without-backup/"+pass, map[string]interface{}{
					"blob": b, "backend_has_it": has, "backend_failing": be.failAll})
				return 0, 0, false
			}
			deletedAfterWriteback++
		}
		return survived, deletedAfterWriteback, true
	}

	resp1, err := forceCleanup()
	if err != nil {
		fatal("forcecleanup 1", err)
	}
	w["first_pass_response"] = resp1
	s1, d1, ok := check("first-pass-" + cfg.Scenario)
	if !ok {
		return
	}
	if be.failAll && d1 > 0 {
		// cannot happen without a violation above (backend never accepted anything)
		panic("harness: deletedAfterWriteback with failing backend")
	}
	// second pass
	for _, b := range cfg.Blobs {
		wasPersisted[b.Digest] = persistedNow(b.Digest)
	}
	w["persisted_before_second_pass"] = wasPersisted
	be.mu.Lock()
	if cfg.Scenario != "failing-twice" {
		be.failAll = false
	}
	for _, k := range cfg.FailIdx {
		be.failName[cfg.Blobs[k].Digest] = true
	}
	be.mu.Unlock()
	resp2, err := forceCleanup()
	if err != nil {
		fatal("forcecleanup 2", err)
	}
	w["second_pass_response"] = resp2
	s2, d2, ok := check("second-pass-" + cfg.Scenario)
	if !ok {
		return
	}
	// blobs whose write-back still fails must have survived
	for _, k := range cfg.FailIdx {
		if present, _ := inCache(cfg.Blobs[k]); !present && wasPersisted[cfg.Blobs[k].Digest] {
			viol("blob-awaiting-writeback-deleted-without-backup/second-pass-"+cfg.Scenario, map[string]interface{}{"blob": cfg.Blobs[k]})
			return
		}
	}
	unp := 0
	for _, b := range cfg.Blobs {
		if b.Kind == "transfer" {
			if present, _ := inCache(b); !present {
				unp++
			}
		}
	}
	run.Case("c|"+ev.JSON(cfg), (s1 >= 1 || cfg.Scenario == "healthy-from-start") && d1+d2 >= 1 || (cfg.Scenario == "failing-twice" && s2 >= 1))
	run.Count("c_scenarios", 1)
	run.Count("c_blobs", int64(len(cfg.Blobs)))
	run.Count("c_persisted_blobs_survived_failing_backend", int64(s1))
	run.Count("c_persisted_blobs_survived_second_pass", int64(s2))
	run.Count("c_persisted_blobs_deleted_after_writeback", int64(d1+d2))
	run.Count("c_unpersisted_blobs_cleaned", int64(unp))
	be.mu.Lock()
	run.Count("c_backend_uploads", int64(be.uploads))
	run.Count("c_backend_uploads_refused", int64(be.refused))
	be.mu.Unlock()
	if run.WantSample() && i%5 == 0 {
		run.Sample(map[string]interface{}{"part": "c", "config": cfg, "first_pass": resp1, "second_pass": resp2})
	}
}
