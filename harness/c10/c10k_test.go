package c10

import (
	"bytes"
	"fmt"
	"io"
	"math/rand"
	"os"
	"path/filepath"
	"runtime"
	"sync"
	"sync/atomic"
	"testing"
	"time"

	"github.com/andres-erbsen/clock"
	"github.com/uber/kraken/lib/store/base"
	"github.com/uber/kraken/lib/store/metadata"

	"verif/harness/internal/ev"
	"verif/harness/internal/gen"
)

// ---- part (k): delete requests, persist-flag changes and LRU evictions
// interleaved on a bounded file map after a restart (files on disk, empty map) ----
//
// Directed schedules: one goroutine's DeleteFile(X) is held at the preemption
// point between "entry loaded from disk" and "entry stored into the map" (gate
// on entry to FileMap.TryStore, see base.VerifC10NewGatedLRUFileStore) while
// the main goroutine runs a generated sequence of complete operations
// (set/clear persist, refused deletes, accesses of other names that evict X
// from the capacity-1..2 map), then the delete resumes. Free-running rounds:
// several goroutines with generated scripts on the same kind of store, under
// the race detector.
//
// Oracle on the recorded history (call/return stamps from one counter; target
// names are never re-created): a DeleteFile(X) that returned nil is legal only
// if every successful persist=true write on X that was called before the delete
// returned can have been cleared before the delete took effect, i.e. a
// successful clear overlaps or follows it and was called before the delete
// returned. A file with a successful persist=true write and no clear at all is
// on disk with its bytes and its flag at the end. Overlapping operations are
// otherwise free to take effect in either order.

type kOp struct {
	ID   int    `json:"id"`
	G    string `json:"g"`
	Kind string `json:"k"` // delete | persist | unpersist | persist-false | read | stat | create
	Name string `json:"name"`
	Call int64  `json:"call"`
	Ret  int64  `json:"ret"`
	Res  string `json:"res"`
	Gone bool   `json:"file_absent_when_delete_returned,omitempty"`
}

type kRecorder struct {
	mu    sync.Mutex
	stamp atomic.Int64
	ops   []kOp
}

func (k *kRecorder) do(g, kind, name string, f func() error, absent func() bool) error {
	call := k.stamp.Add(1)
	err := f()
	gone := absent != nil && absent() // observed before the return stamp is taken
	ret := k.stamp.Add(1)
	res := "ok"
	switch {
	case err == base.ErrFilePersisted:
		res = "refused-persisted"
	case err != nil && os.IsNotExist(err):
		res = "notexist"
	case err != nil && os.IsExist(err):
		res = "exists"
	case err != nil:
		res = "error: " + err.Error()
	}
	k.mu.Lock()
	k.ops = append(k.ops, kOp{ID: len(k.ops), G: g, Kind: kind, Name: name, Call: call, Ret: ret, Res: res, Gone: gone})
	k.mu.Unlock()
	return err
}

type kEnv struct {
	dir    string
	cas    bool
	state  base.FileState
	fs     base.FileStore
	rec    *kRecorder
	bodies map[string][]byte
}

func (e *kEnv) op() base.FileOp { return e.fs.NewFileOp().AcceptState(e.state) }

func (e *kEnv) dataPath(name string) string {
	kind := 0
	if e.cas {
		kind = 1
	}
	return bDataPath(e.dir, kind, name)
}

func (e *kEnv) exec(g, kind, name string) error {
	var absent func() bool
	if kind == "delete" {
		absent = func() bool { _, err := os.Stat(e.dataPath(name)); return err != nil }
	}
	return e.rec.do(g, kind, name, e.body(kind, name), absent)
}

func (e *kEnv) body(kind, name string) func() error {
	return func() error {
		switch kind {
		case "delete":
			return e.op().DeleteFile(name)
		case "persist":
			_, err := e.op().SetFileMetadata(name, metadata.NewPersist(true))
			return err
		case "persist-false":
			_, err := e.op().SetFileMetadata(name, metadata.NewPersist(false))
			return err
		case "unpersist":
			return e.op().DeleteFileMetadata(name, &metadata.Persist{})
		case "read":
			rd, err := e.op().GetFileReader(name, 0)
			if err != nil {
				return err
			}
			got, _ := io.ReadAll(rd)
			rd.Close()
			if !bytes.Equal(got, e.bodies[name]) {
				return fmt.Errorf("read returned other bytes")
			}
			return nil
		case "stat":
			_, err := e.op().GetFileStat(name)
			return err
		case "create":
			return e.op().CreateFile(name, e.state, 3)
		}
		panic("unknown op " + kind)
	}
}

// firstLife writes the files through an ordinary store, then the process
// "restarts": the store under test starts with an empty map.
func newKEnv(t *testing.T, dir string, cas bool, names []string, r *rand.Rand, clk clock.Clock) *kEnv {
	if err := os.MkdirAll(dir, 0o775); err != nil {
		t.Fatal(err)
	}
	e := &kEnv{dir: dir, cas: cas, state: base.NewFileState(dir), rec: &kRecorder{}, bodies: map[string][]byte{}}
	var first base.FileStore
	if cas {
		first = base.NewCASFileStore(clk)
	} else {
		first = base.NewLocalFileStore(clk)
	}
	for _, n := range names {
		body := gen.Bytes(r, 1+r.Intn(64))
		e.bodies[n] = body
		o := first.NewFileOp().AcceptState(e.state)
		if err := o.CreateFile(n, e.state, int64(len(body))); err != nil {
			t.Fatalf("first life create: %v", err)
		}
		rw, err := first.NewFileOp().AcceptState(e.state).GetFileReadWriter(n, 0, 0)
		if err != nil {
			t.Fatalf("first life open: %v", err)
		}
		rw.WriteAt(body, 0)
		rw.Close()
	}
	return e
}

func isClear(o kOp) bool {
	return (o.Kind == "unpersist" || o.Kind == "persist-false") && o.Res == "ok"
}

// judge applies the history oracle to the target names. The file is observed
// on disk right after every delete request returned and at the end; whenever
// it is absent at stamp tau, every successful persist=true write called before
// tau must have a successful clear that was called before tau and returned
// after that write was called. What DeleteFile returned does not decide: a
// request that loses the race against another request for the same name may
// return nil without having removed anything.
func (e *kEnv) judge(targets []string, viol func(sig string, w map[string]interface{})) bool {
	ops := e.rec.ops
	end := e.rec.stamp.Add(1)
	for _, x := range targets {
		b, err := os.ReadFile(e.dataPath(x))
		if err == nil && !bytes.Equal(b, e.bodies[x]) {
			viol("file-bytes-changed", map[string]interface{}{"file": x})
			return false
		}
		type obs struct {
			tau int64
			by  *kOp
		}
		var absences []obs
		for i := range ops {
			if d := &ops[i]; d.Name == x && d.Kind == "delete" && d.Gone {
				absences = append(absences, obs{d.Ret, d})
			}
		}
		if err != nil {
			absences = append(absences, obs{end, nil})
		}
		for _, a := range absences {
			for _, p := range ops {
				if p.Name != x || p.Kind != "persist" || p.Res != "ok" || p.Call >= a.tau {
					continue
				}
				cleared := false
				for _, c := range ops {
					if c.Name == x && isClear(c) && c.Call < a.tau && c.Ret > p.Call {
						cleared = true
					}
				}
				if cleared {
					continue
				}
				sig := "persisted-file-removed-without-delete-request"
				for _, d := range ops {
					if d.Name == x && d.Kind == "delete" && d.Res == "ok" && d.Ret <= a.tau {
						sig = "persisted-file-removed-by-delete-request"
					}
				}
				viol(sig, map[string]interface{}{"file": x, "absent_at_stamp": a.tau, "observed_after": a.by, "persist": p})
				return false
			}
		}
		if err == nil {
			// still there: a persist=true write with no clear ever called keeps its flag
			anyPersist, anyClearCalled := false, false
			for _, o := range ops {
				if o.Name == x && o.Kind == "persist" && o.Res == "ok" {
					anyPersist = true
				}
				if o.Name == x && (o.Kind == "unpersist" || o.Kind == "persist-false") {
					anyClearCalled = true
				}
			}
			if anyPersist && !anyClearCalled {
				flag, _ := os.ReadFile(filepath.Join(filepath.Dir(e.dataPath(x)), "_persist"))
				if string(flag) != "true" {
					viol("persist-flag-lost", map[string]interface{}{"file": x, "sidecar": string(flag)})
					return false
				}
			}
		}
	}
	return true
}

var kTemplates = [][]string{
	{"persist", "evict"},
	{"persist", "evict", "evict"},
	{"persist", "delete", "evict"},
	{"persist", "delete"},
	{"persist", "unpersist", "evict"},
	{"persist", "persist-false", "evict"},
	{"evict"},
	{"persist", "unpersist", "persist", "evict"},
	{"persist"},
	{"persist", "read", "evict", "stat-other"},
	{"persist-false", "persist", "evict"},
}

func partKDirected(t *testing.T, run *ev.Run, baseDir string, i int) {
	caseID := fmt.Sprintf("k%d", i)
	r := run.Rand(caseID)
	cas := r.Intn(2) == 0
	capacity := 1 + r.Intn(2)
	tpl := kTemplates[i%len(kTemplates)]
	held := []string{"delete", "delete", "delete", "stat", "read"}[r.Intn(5)] // the op that is held at the gate
	names := []string{gen.Hex(r, 16), gen.Hex(r, 16), gen.Hex(r, 16), gen.Hex(r, 16)}
	x := names[0]
	cfg := map[string]interface{}{"index": i, "cas_layout": cas, "capacity": capacity, "template": tpl, "held_op": held, "target": x, "others": names[1:]}
	dir := filepath.Join(baseDir, caseID)
	defer os.RemoveAll(dir)
	clk := clock.NewMock()
	clk.Set(time.Date(2026, 3, 1, 0, 0, 0, 0, time.UTC))
	e := newKEnv(t, dir, cas, names, r, clk)

	var armed atomic.Bool
	entered, release := make(chan struct{}), make(chan struct{})
	e.fs = base.VerifC10NewGatedLRUFileStore(capacity, clk, cas, func(name string) {
		if name == x && armed.CompareAndSwap(true, false) {
			close(entered)
			<-release
		}
	})
	viol := func(sig string, w map[string]interface{}) {
		w["config"], w["history"] = cfg, e.rec.ops
		run.Violation("interleaving/"+sig, caseID, w)
	}
	armed.Store(true)
	done := make(chan struct{})
	go func() {
		defer close(done)
		e.exec("held", held, x)
		if held != "delete" {
			// the delete request follows on the entry this goroutine loaded
			e.exec("held", "delete", x)
		}
	}()
	select {
	case <-entered:
	case <-time.After(120 * time.Second):
		run.Inconclusive(caseID + ": held operation did not reach the file map within 120 s")
		close(release)
		<-done
		return
	}
	other := 1
	meanwhile := 0
	for _, step := range tpl {
		switch step {
		case "evict":
			// touching `capacity` other names pushes X out of the map
			for k := 0; k < capacity; k++ {
				e.exec("main", []string{"stat", "read"}[r.Intn(2)], names[1+(other%3)])
				other++
			}
		case "stat-other":
			e.exec("main", "stat", names[1+(other%3)])
			other++
		default:
			e.exec("main", step, x)
			meanwhile++
		}
		if r.Intn(4) == 0 {
			clk.Add(time.Duration(1+r.Intn(400)) * time.Second)
		}
	}
	close(release)
	select {
	case <-done:
	case <-time.After(120 * time.Second):
		run.Inconclusive(caseID + ": held operation did not return within 120 s")
		return
	}
	if !e.judge([]string{x}, viol) {
		return
	}
	run.Case("k|"+ev.JSON(cfg), meanwhile >= 1)
	run.Count("k_directed_schedules", 1)
	run.Count("k_directed_ops", int64(len(e.rec.ops)))
	for _, o := range e.rec.ops {
		if o.Kind == "delete" && o.Name == x {
			run.Count("k_delete_"+map[bool]string{true: "refused_persisted", false: "other"}[o.Res == "refused-persisted"], 1)
		}
	}
	if run.WantSample() && i%23 == 0 {
		run.Sample(map[string]interface{}{"part": "k-directed", "config": cfg, "history": e.rec.ops})
	}
}

func partKFree(t *testing.T, run *ev.Run, baseDir string, i int) {
	caseID := fmt.Sprintf("kf%d", i)
	r := run.Rand(caseID)
	cas := r.Intn(2) == 0
	capacity := 1 + r.Intn(2)
	nt := 4 + r.Intn(4)
	var names []string
	for k := 0; k < nt; k++ {
		names = append(names, gen.Hex(r, 16))
	}
	workers := 3 + r.Intn(3)
	cfg := map[string]interface{}{"index": i, "cas_layout": cas, "capacity": capacity, "targets": names, "goroutines": workers}
	dir := filepath.Join(baseDir, caseID)
	defer os.RemoveAll(dir)
	clk := clock.NewMock()
	clk.Set(time.Date(2026, 3, 1, 0, 0, 0, 0, time.UTC))
	e := newKEnv(t, dir, cas, names, r, clk)
	// the gate only yields: it widens the window between load and store
	e.fs = base.VerifC10NewGatedLRUFileStore(capacity, clk, cas, func(string) { runtime.Gosched() })
	var wg sync.WaitGroup
	for g := 0; g < workers; g++ {
		gr := run.Rand(fmt.Sprintf("%s/g%d", caseID, g))
		gname := fmt.Sprintf("g%d", g)
		wg.Add(1)
		go func() {
			defer wg.Done()
			for n := 0; n < 30; n++ {
				x := names[gr.Intn(len(names))]
				switch v := gr.Intn(20); {
				case v < 5:
					e.exec(gname, "delete", x)
				case v < 10:
					e.exec(gname, "persist", x)
				case v < 12:
					e.exec(gname, "unpersist", x)
				case v < 13:
					e.exec(gname, "persist-false", x)
				case v < 16:
					e.exec(gname, "read", x)
				case v < 18:
					e.exec(gname, "stat", x)
				default:
					e.exec(gname, "create", "ee"+gen.Hex(gr, 14)) // overflowing create of a fresh name
				}
			}
		}()
	}
	done := make(chan struct{})
	go func() { wg.Wait(); close(done) }()
	select {
	case <-done:
	case <-time.After(180 * time.Second):
		run.Inconclusive(caseID + ": free-running round did not finish within 180 s")
		return
	}
	viol := func(sig string, w map[string]interface{}) {
		w["config"], w["history"] = cfg, e.rec.ops
		run.Violation("interleaving/"+sig, caseID, w)
	}
	for _, o := range e.rec.ops {
		if len(o.Res) > 6 && o.Res[:6] == "error:" {
			run.Count("k_free_ops_with_other_errors", 1) // not part of the statement
		}
	}
	if !e.judge(names, viol) {
		return
	}
	refused, deleted := 0, 0
	for _, o := range e.rec.ops {
		if o.Kind == "delete" && o.Res == "refused-persisted" {
			refused++
		}
		if o.Kind == "delete" && o.Res == "ok" {
			deleted++
			if !o.Gone {
				run.Count("k_free_delete_returned_nil_without_removing", 1)
			}
		}
	}
	run.Case("kf|"+ev.JSON(cfg), refused >= 1 && deleted >= 1)
	run.Count("k_free_rounds", 1)
	run.Count("k_free_ops", int64(len(e.rec.ops)))
	run.Count("k_free_deletes_refused_persisted", int64(refused))
	run.Count("k_free_deletes_ok", int64(deleted))
}
