package c10

import (
	"bytes"
	"fmt"
	"io"
	"os"
	"path/filepath"
	"sort"
	"testing"
	"time"

	"github.com/andres-erbsen/clock"
	"github.com/uber-go/tally"
	"github.com/uber/kraken/lib/store"
	"github.com/uber/kraken/lib/store/base"
	"github.com/uber/kraken/lib/store/metadata"

	"verif/harness/internal/ev"
	"verif/harness/internal/gen"
)

// ---- part (r): last-access bookkeeping across a reload, judged by the real
// cleanup pass ----
//
// Files are created and accessed only through the real store API on a mock
// clock; their entries are dropped from the in-memory file map the ways that
// happens in production (new store instance on the same directory, refused
// delete of a persisted file, LRU eviction of a persisted file), the files are
// accessed again after the reload, and then the real cleanup pass runs.
// Oracle (statement: "removes exactly the unprotected files whose last access
// is older than the idle limit"), with the documented 5 min resolution of the
// last-access record as the only tolerance: a file accessed less than
// TTI-5min ago must survive, an unprotected file idle for more than TTI must
// be removed, persisted files always survive.

const latResolutionS = 300

type rFile struct {
	Name    string `json:"name"`
	Persist bool   `json:"persisted_at_creation"`
	content []byte
}

type rStep struct {
	Kind     string `json:"k"` // advance | read | write | unpersist | persist-false
	File     int    `json:"f,omitempty"`
	AdvanceS int64  `json:"s,omitempty"`
}

type rCfg struct {
	Index        int     `json:"index"`
	StoreKind    int     `json:"store_kind"` // 0 local, 1 CAS, 2 local+LRU map, 3 CAS+LRU map
	Capacity     int     `json:"lru_capacity,omitempty"`
	TTIs         int64   `json:"tti_s"`
	DropMode     string  `json:"drop_mode"` // restart | refused-delete | lru-eviction
	AgeBeforeS   int64   `json:"age_before_drop_s"`
	Files        []rFile `json:"files"`
	Steps        []rStep `json:"steps_after_drop"`
	CleanupFresh bool    `json:"cleanup_on_fresh_instance"`
}

var rDropModes = []string{"restart", "refused-delete", "lru-eviction"}

func partR(t *testing.T, run *ev.Run, baseDir string, i int) {
	caseID := fmt.Sprintf("r%d", i)
	r := run.Rand(caseID)
	cfg := rCfg{Index: i, DropMode: rDropModes[i%len(rDropModes)], TTIs: []int64{1800, 3600, 21600}[r.Intn(3)]}
	cfg.StoreKind = r.Intn(4)
	if cfg.DropMode == "lru-eviction" {
		cfg.StoreKind = 2 + r.Intn(2)
		cfg.Capacity = 1 + r.Intn(2)
	}
	cfg.CleanupFresh = r.Intn(3) == 0 || cfg.DropMode == "lru-eviction"
	cfg.AgeBeforeS = []int64{cfg.TTIs / 2, cfg.TTIs - 360, cfg.TTIs + 600, 3 * cfg.TTIs}[r.Intn(4)]
	nf := 2 + r.Intn(4)
	seen := map[string]bool{}
	for len(cfg.Files) < nf {
		name := gen.Hex(r, 16)
		if seen[name] {
			continue
		}
		seen[name] = true
		f := rFile{Name: name, content: gen.Bytes(r, 1+r.Intn(200))}
		switch cfg.DropMode {
		case "lru-eviction":
			f.Persist = true // so that filling the map never deletes anything
		case "refused-delete":
			f.Persist = len(cfg.Files) == 0 || r.Intn(3) > 0
		default:
			f.Persist = r.Intn(3) == 0
		}
		cfg.Files = append(cfg.Files, f)
	}
	// after the drop: accesses within minutes of the reload, a short or a
	// long pause, sometimes a second round of accesses
	rounds := 1 + r.Intn(2)
	for rd := 0; rd < rounds; rd++ {
		for k := range cfg.Files {
			if r.Intn(3) == 0 {
				continue // not accessed in this round
			}
			kind := []string{"read", "read", "write", "unpersist", "unpersist", "persist-false"}[r.Intn(6)]
			cfg.Steps = append(cfg.Steps, rStep{Kind: kind, File: k})
			if r.Intn(2) == 0 {
				cfg.Steps = append(cfg.Steps, rStep{Kind: "advance", AdvanceS: int64(5 + r.Intn(200))})
			}
		}
		cfg.Steps = append(cfg.Steps, rStep{Kind: "advance", AdvanceS: []int64{30, 120, 240, 420, 1200, cfg.TTIs + 400}[r.Intn(6)]})
	}

	w := map[string]interface{}{"config": cfg}
	viol := func(sig string, extra map[string]interface{}) {
		for k, v := range extra {
			w[k] = v
		}
		run.Violation("reload/"+sig+"/"+cfg.DropMode, caseID, w)
	}
	must := func(err error, what string) {
		if err != nil {
			t.Fatalf("%s: %s: %v", caseID, what, err)
		}
	}
	dir := filepath.Join(baseDir, caseID)
	defer os.RemoveAll(dir)
	must(os.MkdirAll(dir, 0o775), "mkdir")
	clk := clock.NewMock()
	t0 := time.Date(2026, 3, 1, 0, 0, 0, 0, time.UTC)
	clk.Set(t0)
	state := base.NewFileState(dir)
	lruCap := 10000
	if cfg.DropMode == "lru-eviction" {
		lruCap = cfg.Capacity
	}
	newStore := func(kind int) base.FileStore {
		switch kind {
		case 0:
			return base.NewLocalFileStore(clk)
		case 1:
			return base.NewCASFileStore(clk)
		case 2:
			return base.NewLRUFileStore(lruCap, clk)
		}
		return base.NewCASFileStoreWithLRUMap(lruCap, clk)
	}
	fs := newStore(cfg.StoreKind)
	op := func() base.FileOp { return fs.NewFileOp().AcceptState(state) }

	lastAccess := map[string]time.Time{}
	persisted := map[string]bool{}
	readBack := func(f rFile) error {
		rd, err := op().GetFileReader(f.Name, 0)
		if err != nil {
			return err
		}
		got, _ := io.ReadAll(rd)
		rd.Close()
		if !bytes.Equal(got, f.content) {
			return fmt.Errorf("bytes differ")
		}
		return nil
	}
	// 1. create at t0 (creation and the initial write are accesses)
	for _, f := range cfg.Files {
		must(op().CreateFile(f.Name, state, int64(len(f.content))), "create")
		rw, err := op().GetFileReadWriter(f.Name, 0, 0)
		must(err, "open")
		_, err = rw.WriteAt(f.content, 0)
		must(err, "write")
		rw.Close()
		if f.Persist {
			_, err := op().SetFileMetadata(f.Name, metadata.NewPersist(true))
			must(err, "persist")
			persisted[f.Name] = true
		}
		lastAccess[f.Name] = clk.Now()
	}
	// 2. time passes without any access
	clk.Add(time.Duration(cfg.AgeBeforeS) * time.Second)
	// 3. the entries leave the in-memory map
	switch cfg.DropMode {
	case "restart":
		fs = newStore(cfg.StoreKind)
	case "refused-delete":
		for _, f := range cfg.Files {
			if !f.Persist {
				continue
			}
			if err := op().DeleteFile(f.Name); err != base.ErrFilePersisted {
				viol("delete-of-persisted-file-not-refused", map[string]interface{}{"file": f.Name, "err": fmt.Sprint(err)})
				return
			}
		}
	case "lru-eviction":
		for k := 0; k < cfg.Capacity; k++ {
			name := "ff" + gen.Hex(r, 14)
			must(op().CreateFile(name, state, 1), "create filler")
			_, err := op().SetFileMetadata(name, metadata.NewPersist(true))
			must(err, "persist filler")
		}
	}
	// 4./5. accesses after the reload and pauses
	accessesAfterReload := 0
	for _, s := range cfg.Steps {
		if s.Kind == "advance" {
			clk.Add(time.Duration(s.AdvanceS) * time.Second)
			continue
		}
		f := cfg.Files[s.File]
		if _, err := os.Stat(rDataPath(dir, cfg.StoreKind, f.Name)); err != nil {
			continue // evicted from a full LRU map after it lost its protection: gone legitimately
		}
		var err error
		switch s.Kind {
		case "read":
			err = readBack(f)
		case "write":
			var rw base.FileReadWriter
			if rw, err = op().GetFileReadWriter(f.Name, 0, 0); err == nil {
				_, err = rw.WriteAt(f.content, 0)
				rw.Close()
			}
		case "unpersist":
			if err = op().DeleteFileMetadata(f.Name, &metadata.Persist{}); err == nil {
				persisted[f.Name] = false
			}
		case "persist-false":
			if _, err = op().SetFileMetadata(f.Name, metadata.NewPersist(false)); err == nil {
				persisted[f.Name] = false
			}
		}
		if err != nil {
			sig := "access-after-reload-failed"
			if persisted[f.Name] {
				sig = "persisted-file-unreadable-after-reload"
			}
			viol(sig, map[string]interface{}{"file": f.Name, "step": s, "err": err.Error()})
			return
		}
		lastAccess[f.Name] = clk.Now()
		accessesAfterReload++
	}
	// 6. the real cleanup pass
	present := map[string]bool{}
	for _, f := range cfg.Files {
		if _, err := os.Stat(rDataPath(dir, cfg.StoreKind, f.Name)); err == nil {
			present[f.Name] = true
		}
	}
	cleanupStore := fs
	if cfg.CleanupFresh {
		// a store without a bounded map, same layout (a bounded map would evict while scanning)
		if cfg.StoreKind == 0 || cfg.StoreKind == 2 {
			cleanupStore = base.NewLocalFileStore(clk)
		} else {
			cleanupStore = base.NewCASFileStore(clk)
		}
	}
	m := store.VerifC10NewCleanupManager(clk, tally.NoopScope)
	defer m.Stop()
	cc := store.VerifC10ApplyDefaults(store.CleanupConfig{TTI: time.Duration(cfg.TTIs) * time.Second})
	if _, err := m.Cleanup(cleanupStore.NewFileOp().AcceptState(state), cc, i%2 == 0); err != nil {
		viol("pass-returned-error", map[string]interface{}{"err": err.Error()})
		return
	}
	now := clk.Now()
	judged, removed := 0, 0
	type verdict struct {
		File    string `json:"file"`
		IdleS   int64  `json:"true_idle_s"`
		Persist bool   `json:"persisted"`
		Gone    bool   `json:"removed"`
	}
	var table []verdict
	for _, f := range cfg.Files {
		if !present[f.Name] {
			continue
		}
		_, serr := os.Stat(rDataPath(dir, cfg.StoreKind, f.Name))
		idle := int64(now.Sub(lastAccess[f.Name]) / time.Second)
		table = append(table, verdict{f.Name, idle, persisted[f.Name], serr != nil})
	}
	sort.Slice(table, func(a, b int) bool { return table[a].File < table[b].File })
	w["tti_s"], w["files_before_pass"] = cfg.TTIs, table
	for _, v := range table {
		switch {
		case v.Persist:
			judged++
			if v.Gone {
				viol("persisted-file-removed", map[string]interface{}{"file": v})
				return
			}
		case v.IdleS+latResolutionS+3 < cfg.TTIs:
			judged++
			if v.Gone {
				viol("recently-accessed-file-removed-as-idle", map[string]interface{}{"file": v})
				return
			}
		case v.IdleS > cfg.TTIs+3:
			judged++
			if !v.Gone {
				viol("idle-file-kept", map[string]interface{}{"file": v})
				return
			}
			removed++
		}
	}
	run.Case("r|"+ev.JSON(cfg), accessesAfterReload >= 1 && judged >= 2)
	run.Count("r_cases", 1)
	run.Count("r_drop_"+cfg.DropMode, 1)
	run.Count("r_accesses_after_reload", int64(accessesAfterReload))
	run.Count("r_files_judged", int64(judged))
	run.Count("r_idle_files_removed", int64(removed))
	if run.WantSample() && i%97 == 0 {
		run.Sample(map[string]interface{}{"part": "r", "config": cfg, "files_before_pass": table})
	}
}

func rDataPath(dir string, kind int, name string) string { return bDataPath(dir, kind, name) }
