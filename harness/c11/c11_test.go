// C11: no client-supplied name makes a store touch files outside its directory.
//
// fs-watch engine. A child process (cmd/c11srv, built from /repo's working
// tree) hosts the real kraken HTTP handlers on real stores laid out as
// <S>/l1/l2/l3/<component>/{upload,cache,download,db} with canary files in every
// ancestor directory. It runs under `strace -f -y -xx -e trace=%file`. The parent
// sends generated requests as raw request lines over TCP (so no client
// normalises the path), one at a time. The child brackets every request that
// reaches a kraken handler with sentinel stat calls and reports the route
// parameters exactly as httputil.ParseParam decodes them.
//
// Oracle, on the strace log after the child's "ready" sentinel:
//   - every path named by a file syscall, resolved against its dirfd / cwd and
//     cleaned, lies inside one of the server's store directories (or in a
//     small fixed list of system files the Go runtime / resolver read);
//   - no syscall creates, renames or removes a store directory itself;
//   - the canary tree outside the stores is byte-identical after every request;
//   - a storing endpoint never answers 2xx for a name whose entry directory
//     would not lie strictly inside the store directory.
package c11

import (
	"bufio"
	"bytes"
	"crypto/sha256"
	"encoding/hex"
	"fmt"
	"io"
	"math/rand"
	"net"
	"net/http"
	"net/url"
	"os"
	"path/filepath"
	"sort"
	"strconv"
	"strings"
	"sync"
	"testing"
	"time"

	"verif/harness/internal/ev"
	"verif/harness/internal/proc"
)

const sentinel = "/c11-sentinel"

// ---------------------------------------------------------------------------
// components and routes

type route struct {
	id      string // stable id used in signatures / coverage
	method  string
	path    string   // template with {slot} placeholders; {*} = wildcard rest
	query   string   // fixed query string
	body    string   // "", "json-delay", "json-repl", "blob", "notif", "prefetch"
	storing bool     // a 2xx claims something was stored under the name slots
	keyed   []string // slots that become store entry names
}

type component struct {
	name   string
	stores []string
	args   []string
	routes []route
}

var components = map[string]*component{
	"buildindex": {
		name: "buildindex", stores: []string{"upload", "cache", "db"},
		routes: []route{
			{id: "put-tag", method: "PUT", path: "/tags/{tag}/digest/{digest}", storing: true, keyed: []string{"tag"}},
			{id: "put-tag-replicate", method: "PUT", path: "/tags/{tag}/digest/{digest}", query: "replicate=true", storing: true, keyed: []string{"tag"}},
			{id: "head-tag", method: "HEAD", path: "/tags/{tag}"},
			{id: "get-tag", method: "GET", path: "/tags/{tag}", keyed: []string{"tag"}},
			{id: "list-repo", method: "GET", path: "/repositories/{repo}/tags"},
			{id: "list", method: "GET", path: "/list/{*}"},
			{id: "replicate-tag", method: "POST", path: "/remotes/tags/{tag}", keyed: []string{"tag"}},
			{id: "dup-replicate", method: "POST", path: "/internal/duplicate/remotes/tags/{tag}/digest/{digest}", body: "json-repl"},
			{id: "dup-put-tag", method: "PUT", path: "/internal/duplicate/tags/{tag}/digest/{digest}", body: "json-delay", storing: true, keyed: []string{"tag"}},
		},
	},
	"origin": {
		name: "origin", stores: []string{"upload", "cache", "db"},
		routes: []route{
			{id: "locations", method: "GET", path: "/blobs/{digest}/locations"},
			{id: "start-upload", method: "POST", path: "/namespace/{namespace}/blobs/{digest}/uploads"},
			{id: "patch-upload", method: "PATCH", path: "/namespace/{namespace}/blobs/{digest}/uploads/{uid}", body: "blob", storing: true, keyed: []string{"uid"}},
			{id: "commit-upload", method: "PUT", path: "/namespace/{namespace}/blobs/{digest}/uploads/{uid}", storing: true, keyed: []string{"uid"}},
			{id: "download", method: "GET", path: "/namespace/{namespace}/blobs/{digest}"},
			{id: "prefetch", method: "POST", path: "/namespace/{namespace}/blobs/{digest}/prefetch"},
			{id: "replicate-remote", method: "POST", path: "/namespace/{namespace}/blobs/{digest}/remote/{remote}"},
			{id: "forcecleanup", method: "POST", path: "/forcecleanup", query: "ttl_hr=100000"},
			{id: "start-transfer", method: "POST", path: "/internal/blobs/{digest}/uploads"},
			{id: "patch-transfer", method: "PATCH", path: "/internal/blobs/{digest}/uploads/{uid}", body: "blob", storing: true, keyed: []string{"uid"}},
			{id: "commit-transfer", method: "PUT", path: "/internal/blobs/{digest}/uploads/{uid}", storing: true, keyed: []string{"uid"}},
			{id: "delete-blob", method: "DELETE", path: "/internal/blobs/{digest}"},
			{id: "overwrite-metainfo", method: "POST", path: "/internal/blobs/{digest}/metainfo", query: "piece_length=4096"},
			{id: "stat", method: "HEAD", path: "/internal/namespace/{namespace}/blobs/{digest}"},
			{id: "metainfo", method: "GET", path: "/internal/namespace/{namespace}/blobs/{digest}/metainfo"},
			{id: "dup-commit-upload", method: "PUT", path: "/internal/duplicate/namespace/{namespace}/blobs/{digest}/uploads/{uid}", body: "json-delay", storing: true, keyed: []string{"uid"}},
		},
	},
	"agent": {
		name: "agent", stores: []string{"download", "cache"},
		routes: []route{
			{id: "get-tag", method: "GET", path: "/tags/{tag}"},
			{id: "download", method: "GET", path: "/namespace/{namespace}/blobs/{digest}"},
			{id: "delete-blob", method: "DELETE", path: "/blobs/{digest}"},
			{id: "preload", method: "GET", path: "/preload/tags/{tag}"},
			{id: "blacklist", method: "GET", path: "/x/blacklist"},
		},
	},
	"proxy": {
		name: "proxy", stores: nil,
		routes: []route{
			{id: "notifications", method: "POST", path: "/registry/notifications", body: "notif"},
			{id: "prefetch-v1", method: "POST", path: "/proxy/v1/registry/prefetch", body: "prefetch"},
			{id: "prefetch-v2", method: "POST", path: "/proxy/v2/registry/prefetch", body: "prefetch"},
			{id: "catalog", method: "GET", path: "/v2/_catalog", query: "n=5&last={q}"},
		},
	},
}

// ---------------------------------------------------------------------------
// names and encodings

type hostileName struct {
	id   string
	make func(s *session) string
}

func fixed(id, v string) hostileName { return hostileName{id, func(*session) string { return v }} }

var hostileNames = []hostileName{
	fixed("dot", "."), fixed("dotdot", ".."), fixed("dotdotdot", "..."),
	fixed("up-x", "../x"), fixed("up-up-x", "../../x"), fixed("up-data", "../data"), fixed("up-persist", "../_persist"),
	fixed("a-up-up-b", "a/../../b"), fixed("a-up", "a/.."), fixed("a-up-up", "a/../.."), fixed("a-up-up-up-data", "a/../../../data"),
	fixed("dot-a", "./a"), fixed("a-dot-b", "a/./b"), fixed("a-slash-slash-b", "a//b"),
	fixed("root", "/"), fixed("abs-etc-passwd", "/etc/passwd"), fixed("abs-etc-shadow-dir", "/etc/shadow/"),
	{"abs-canary", func(s *session) string { return filepath.Join(s.dir, "l1", "data") }},
	{"abs-canary-dir", func(s *session) string { return filepath.Join(s.dir, "l1", "l2") }},
	{"abs-component", func(s *session) string { return s.root }},
	fixed("trailing-slash", "x/"), fixed("up-slash", "../"), fixed("up-slash-slash", "..//"), fixed("dotdot-slash-dot", "../."),
	fixed("nul", "a\x00b"), fixed("dotdot-nul", "..\x00"), fixed("dotdot-nul-x", "..\x00x"), fixed("newline", "a\nb"),
	{"long-300", func(*session) string { return strings.Repeat("A", 300) }},
	{"long-5000", func(*session) string { return strings.Repeat("B", 5000) }},
	{"deep-200", func(*session) string { return strings.Repeat("d/", 200) + "e" }},
	{"deep-up-40", func(*session) string { return strings.Repeat("../", 40) + "etc/passwd" }},
	fixed("sidecar-persist", "x/_persist"), fixed("sidecar-data", "x/data"), fixed("persist", "_persist"), fixed("data", "data"),
	fixed("torrentmeta", "_torrentmeta"), fixed("data-up", "data/.."), fixed("backslash", "..\\x"), fixed("pct-literal", "%2e%2e"),
	fixed("pct-slash-literal", "..%2fx"), fixed("fullwidth-dots", "．．"), fixed("dotdot-space", ".. "), fixed("space-dotdot", " .."),
	fixed("dotdot-semicolon", "..;"), fixed("tilde", "~"), fixed("colon-up", "a:../../b"), fixed("up-colon", "..:.."),
	fixed("upload-sibling", "../upload/x"), fixed("cache-sibling", "../cache/x"), fixed("db-sibling", "../db/kraken.db"),
}

// ---- format-mimicking traversals -------------------------------------------
//
// Names that look like the identifier a slot normally carries (upload uuid,
// 64-hex digest, repo:tag) but contain dot segments / separators, so that a
// "looks like a uuid/digest, skip the checks" shortcut is exercised. All are
// PRNG-built: different seeds give different names.

const hexChars = "0123456789abcdef"

func randHex(r *rand.Rand, n int) string {
	b := make([]byte, n)
	for i := range b {
		b[i] = hexChars[r.Intn(16)]
	}
	return string(b)
}

// overlay writes piece into b at pos when it fits without touching a fixed
// position (uuid dashes); it reports whether it did.
func overlay(b []byte, fixed map[int]bool, pos int, piece string) bool {
	if pos < 0 || pos+len(piece) > len(b) {
		return false
	}
	for i := range piece {
		if fixed[pos+i] {
			return false
		}
	}
	copy(b[pos:], piece)
	return true
}

var traversalPieces = []string{"../", "../../", "/../", "/..", "..", "/", "./", "../x/", "a/../../", "..//"}
var siblingPrefixes = []string{"../cache", "../upload", "../db", "../data", "../l3", "../../x"}

// uuidShaped: length 36, '-' at 8/13/18/23, everything else hex except for
// traversal pieces laid over the non-dash positions.
func uuidShaped(r *rand.Rand) string {
	b := []byte(randHex(r, 36))
	fixed := map[int]bool{8: true, 13: true, 18: true, 23: true}
	for i := range fixed {
		b[i] = '-'
	}
	switch r.Intn(6) {
	case 0: // leading traversal
		overlay(b, fixed, 0, []string{"../", "../../", "/", "./", "../.."}[r.Intn(5)])
	case 1: // sibling directory whose name continues into the uuid
		p := siblingPrefixes[r.Intn(len(siblingPrefixes))]
		if len(p) > 8 {
			p = p[:8]
		}
		overlay(b, fixed, 0, p)
	case 2: // trailing traversal
		t := []string{"/..", "/../..", "/.", "/", "/../../.."}[r.Intn(5)]
		overlay(b, fixed, 36-len(t), t)
	case 3: // traversal in the last (12 char) group
		t := []string{"/../../", "/../x", "a/../../..", "/..//"}[r.Intn(4)]
		overlay(b, fixed, 24+r.Intn(12-len(t)+1), t)
	case 4: // leading and trailing
		overlay(b, fixed, 0, "../")
		overlay(b, fixed, 33, "/..")
	default: // a few random pieces anywhere they fit
		for k := 1 + r.Intn(3); k > 0; k-- {
			overlay(b, fixed, r.Intn(36), traversalPieces[r.Intn(len(traversalPieces))])
		}
		if !strings.ContainsAny(string(b), "/.") {
			overlay(b, fixed, 0, "../")
		}
	}
	return string(b)
}

// hexShaped: 64 characters, hex except for embedded traversal pieces.
func hexShaped(r *rand.Rand) string {
	b := []byte(randHex(r, 64))
	none := map[int]bool{}
	switch r.Intn(4) {
	case 0:
		overlay(b, none, 0, []string{"../", "../../", "/", "../cache/", "../../../"}[r.Intn(5)])
	case 1:
		t := []string{"/..", "/../..", "/../../data"}[r.Intn(3)]
		overlay(b, none, 64-len(t), t)
	case 2:
		overlay(b, none, 2+r.Intn(50), []string{"/../", "/../../", "/../../../"}[r.Intn(3)])
	default:
		// looks sharded: ab/cd/<hex> but climbs out
		overlay(b, none, 0, "../")
		overlay(b, none, 5, "/../")
		overlay(b, none, 61, "/..")
	}
	return string(b)
}

func realUUID(r *rand.Rand) string {
	return randHex(r, 8) + "-" + randHex(r, 4) + "-" + randHex(r, 4) + "-" + randHex(r, 4) + "-" + randHex(r, 12)
}

// mimicName picks a format-mimicking traversal for the slot.
func mimicName(r *rand.Rand, slot string) hostileName {
	mk := func(id, v string) hostileName { return hostileName{"mimic-" + id + ":" + v, func(*session) string { return v }} }
	sidecars := []string{"_persist", "data", "_torrentmeta", "_last_access_time", "_refcount"}
	tag := validTags[r.Intn(len(validTags))]
	kinds := []string{"uuid", "hex", "uuid-affix", "hex-affix", "tag-affix", "sidecar"}
	var k string
	switch slot {
	case "uid":
		k = []string{"uuid", "uuid", "uuid", "uuid-affix", "sidecar", "hex"}[r.Intn(6)]
	case "digest":
		k = []string{"hex", "hex", "hex-affix", "uuid", "sidecar"}[r.Intn(5)]
	case "tag", "repo", "*":
		k = []string{"uuid", "uuid", "hex", "tag-affix", "tag-affix", "sidecar", "uuid-affix"}[r.Intn(7)]
	default:
		k = kinds[r.Intn(len(kinds))]
	}
	switch k {
	case "uuid":
		return mk("uuid-shaped", uuidShaped(r))
	case "hex":
		v := hexShaped(r)
		if slot == "digest" && r.Intn(2) == 0 {
			v = "sha256:" + v
		}
		return mk("hex64-shaped", v)
	case "uuid-affix":
		u := realUUID(r)
		return mk("uuid-affix", []string{"../" + u, u + "/..", u + "/../..", "../../" + u, u + "/../../data", "./" + u, u + "/"}[r.Intn(7)])
	case "hex-affix":
		h := randHex(r, 64)
		v := []string{"../" + h, h + "/..", h + "/../../x", h[:2] + "/" + h[2:4] + "/../../../" + h, "sha256:../" + h[3:]}[r.Intn(5)]
		return mk("hex64-affix", v)
	case "tag-affix":
		return mk("tag-affix", []string{"../" + tag, tag + "/..", tag + "/../..", "../../" + tag, "repo/../../" + tag, tag + "/../../data"}[r.Intn(6)])
	default: // sidecar shapes on identifier-like names
		sc := sidecars[r.Intn(len(sidecars))]
		base := []string{realUUID(r), randHex(r, 64), "..", "../" + realUUID(r)[:8]}[r.Intn(4)]
		return mk("sidecar-shaped", base+"/"+sc)
	}
}

var encodings = []string{"raw", "escape", "full", "fulllower", "double", "dotsonly", "slashonly", "mixed"}

func pct(b byte, upper bool) string {
	if upper {
		return fmt.Sprintf("%%%02X", b)
	}
	return fmt.Sprintf("%%%02x", b)
}

// encode renders a decoded name as a request-target path segment.
func encode(name, enc string, r *rand.Rand) string {
	var b strings.Builder
	switch enc {
	case "raw":
		for i := 0; i < len(name); i++ {
			c := name[i]
			if c <= ' ' || c == 0x7f || c == '?' || c == '#' || c == '%' {
				b.WriteString(pct(c, true))
			} else {
				b.WriteByte(c)
			}
		}
	case "escape":
		return url.PathEscape(name)
	case "full", "fulllower":
		for i := 0; i < len(name); i++ {
			b.WriteString(pct(name[i], enc == "full"))
		}
	case "double":
		for i := 0; i < len(name); i++ {
			b.WriteString("%25" + fmt.Sprintf("%02x", name[i]))
		}
	case "dotsonly":
		for i := 0; i < len(name); i++ {
			c := name[i]
			if c == '.' {
				b.WriteString("%2e")
			} else {
				b.WriteString(url.PathEscape(string([]byte{c})))
			}
		}
	case "slashonly":
		for i := 0; i < len(name); i++ {
			c := name[i]
			switch {
			case c == '/':
				b.WriteString("%2f")
			case c <= ' ' || c == 0x7f || c == '?' || c == '#' || c == '%':
				b.WriteString(pct(c, true))
			default:
				b.WriteByte(c)
			}
		}
	case "mixed":
		for i := 0; i < len(name); i++ {
			c := name[i]
			if r.Intn(2) == 0 || c <= ' ' || c == 0x7f || c == '?' || c == '#' || c == '%' || c == '/' {
				b.WriteString(pct(c, r.Intn(2) == 0))
			} else {
				b.WriteByte(c)
			}
		}
	}
	return b.String()
}

// nameClass classifies a decoded parameter value (stable signature part).
func nameClass(v string) string {
	switch {
	case v == "..":
		return "dotdot"
	case v == ".":
		return "dot"
	case strings.ContainsRune(v, 0):
		return "nul"
	case strings.HasPrefix(v, "/"):
		return "abs"
	case strings.HasPrefix(v, "../"):
		return "dotdot-prefix"
	case filepath.Clean(v) != v && strings.Contains(v, ".."):
		return "inner-dotdot"
	case filepath.Clean(v) != v:
		return "unclean"
	}
	return "clean"
}

// escapeBase returns the lexical entry directory of name v in store dir d and
// whether it is NOT strictly inside d.
func escapeBase(d, v string) (string, bool) {
	e := filepath.Clean(d + "/" + v)
	return e, !(proc.Within(e, d) && e != d)
}

// ---------------------------------------------------------------------------
// session: one child process on one fresh tree

type blob struct {
	content []byte
	hex     string
}

type upload struct {
	uid string
	b   blob
	ns  string
}

type reqRecord struct {
	ID       string            `json:"id"`
	Route    string            `json:"route"`
	Method   string            `json:"method"`
	Target   string            `json:"target"`
	Hostile  string            `json:"hostile_slot,omitempty"`
	NameID   string            `json:"name_id,omitempty"`
	Encoding string            `json:"encoding,omitempty"`
	Status   int               `json:"status"`
	Handled  bool              `json:"handled"`
	Params   map[string]string `json:"decoded_params,omitempty"`
	Matched  string            `json:"matched_route,omitempty"`
	Canary   string            `json:"canary_tree_diff,omitempty"`
	rt       *route
}

type session struct {
	t     *testing.T
	run   *ev.Run
	comp  *component
	label string
	dir   string // <S>
	root  string // <S>/l1/l2/l3/<component>
	cwd   string
	tmp   string
	log   string
	r     *rand.Rand

	persistCanary string
	child         *proc.Child
	addr          string
	canary        map[string]string
	reqs          []*reqRecord
	byID          map[string]*reqRecord
	blobs         []blob
	uploads       []upload
	tags          []string
	nreq          int
	writeThrough  bool
}

var canaryDigest = "sha256:" + strings.Repeat("c1", 32)

func (s *session) storeDirs() []string {
	var out []string
	for _, d := range s.comp.stores {
		out = append(out, filepath.Join(s.root, d))
	}
	return out
}

func (s *session) allowedDirs() []string { return append(s.storeDirs(), s.tmp) }

func (s *session) setup() error {
	s.root = filepath.Join(s.dir, "l1", "l2", "l3", s.comp.name)
	s.cwd = filepath.Join(s.dir, "cwd")
	s.tmp = filepath.Join(s.dir, "tmp")
	for _, d := range []string{s.root, s.cwd, s.tmp} {
		if err := os.MkdirAll(d, 0o755); err != nil {
			return err
		}
	}
	return s.writeCanaries()
}

// storesIntact reports whether every store directory still exists.
func (s *session) storesIntact() bool {
	for _, d := range s.storeDirs() {
		if fi, err := os.Stat(d); err != nil || !fi.IsDir() {
			return false
		}
	}
	return true
}

// repair puts the canary tree back after a request damaged it (only used when
// the store directories survived, so the same child can go on).
func (s *session) repair(diff []string) bool {
	for _, d := range diff {
		if strings.HasPrefix(d, "created ") {
			p := strings.TrimPrefix(d, "created ")
			if i := strings.LastIndex(p, " ("); i > 0 {
				p = p[:i]
			}
			_ = os.RemoveAll(p)
		}
	}
	if err := s.writeCanaries(); err != nil {
		return false
	}
	return len(diffSnap(s.canary, s.snapshot())) == 0
}

func (s *session) writeCanaries() error {
	files := map[string]string{
		"data": canaryDigest, "_persist": s.persistCanary, "_torrentmeta": "canary-torrentmeta",
		"_last_access_time": "canary-lat", "x/data": canaryDigest, "x/_persist": "false", "passwd": "canary",
	}
	for _, d := range []string{s.dir, filepath.Join(s.dir, "l1"), filepath.Join(s.dir, "l1", "l2"),
		filepath.Join(s.dir, "l1", "l2", "l3"), s.root, s.cwd} {
		for f, c := range files {
			p := filepath.Join(d, f)
			if err := os.MkdirAll(filepath.Dir(p), 0o755); err != nil {
				return err
			}
			if err := os.WriteFile(p, []byte(c), 0o644); err != nil {
				return err
			}
		}
	}
	return nil
}

// snapshot hashes everything under <S> except the allowed directories.
func (s *session) snapshot() map[string]string {
	out := map[string]string{}
	allowed := s.allowedDirs()
	_ = filepath.Walk(s.dir, func(p string, info os.FileInfo, err error) error {
		if err != nil {
			return nil
		}
		for _, a := range allowed {
			if p == a {
				out[p] = "allowed-dir"
				return filepath.SkipDir
			}
		}
		if p == s.log {
			return nil
		}
		switch {
		case info.IsDir():
			out[p] = "dir"
		case info.Mode()&os.ModeSymlink != 0:
			out[p] = "symlink"
		default:
			b, _ := os.ReadFile(p)
			h := sha256.Sum256(b)
			out[p] = fmt.Sprintf("file %o %s", info.Mode().Perm(), hex.EncodeToString(h[:8]))
		}
		return nil
	})
	return out
}

func diffSnap(a, b map[string]string) []string {
	var d []string
	for k, v := range a {
		if w, ok := b[k]; !ok {
			d = append(d, "removed "+k)
		} else if w != v {
			d = append(d, "changed "+k+": "+v+" -> "+w)
		}
	}
	for k, v := range b {
		if _, ok := a[k]; !ok {
			d = append(d, "created "+k+" ("+v+")")
		}
	}
	sort.Strings(d)
	return d
}

func (s *session) start(bin string) error {
	args := []string{"-component", s.comp.name, "-root", s.root}
	if s.writeThrough {
		args = append(args, "-writethrough")
	}
	c, err := proc.Start(proc.Opts{Dir: s.cwd, Trace: "%file", Log: s.log, Env: []string{"TMPDIR=" + s.tmp},
		// only file syscalls stop the server; everything else runs untraced
		SeccompBPF: true}, bin, args...)
	if err != nil {
		return err
	}
	s.child = c
	var hello map[string]string
	if err := c.Recv(&hello, 60*time.Second); err != nil {
		return fmt.Errorf("child did not become ready: %v; stderr: %s", err, c.Stderr())
	}
	s.addr = hello["addr"]
	if s.addr == "" {
		return fmt.Errorf("child sent %v", hello)
	}
	return nil
}

func (s *session) newBlob() blob {
	n := 1 + s.r.Intn(300)
	b := make([]byte, n)
	s.r.Read(b)
	h := sha256.Sum256(b)
	bl := blob{b, hex.EncodeToString(h[:])}
	s.blobs = append(s.blobs, bl)
	return bl
}

func (s *session) someBlob() blob {
	if len(s.blobs) == 0 || s.r.Intn(3) == 0 {
		return s.newBlob()
	}
	return s.blobs[s.r.Intn(len(s.blobs))]
}

var validTags = []string{"repo/img:latest", "a/b/c:v1", "foo", "library/busybox:1.2.3", "x_y-z.w:t", "x"}
var validNamespaces = []string{"ns", "library/busybox", "a.b/c-d_e", "repo/img:latest"}

// rawResponse is what the parent read back.
type rawResponse struct {
	status int
	header http.Header
	body   []byte
	err    error
}

func sendRaw(addr, method, target string, hdr [][2]string, body []byte) rawResponse {
	conn, err := net.DialTimeout("tcp", addr, 10*time.Second)
	if err != nil {
		return rawResponse{err: err}
	}
	defer conn.Close()
	_ = conn.SetDeadline(time.Now().Add(40 * time.Second))
	var b bytes.Buffer
	fmt.Fprintf(&b, "%s %s HTTP/1.1\r\nHost: c11\r\nConnection: close\r\n", method, target)
	for _, h := range hdr {
		fmt.Fprintf(&b, "%s: %s\r\n", h[0], h[1])
	}
	fmt.Fprintf(&b, "Content-Length: %d\r\n\r\n", len(body))
	b.Write(body)
	if _, err := conn.Write(b.Bytes()); err != nil {
		return rawResponse{err: err}
	}
	resp, err := http.ReadResponse(bufio.NewReader(conn), &http.Request{Method: method})
	if err != nil {
		return rawResponse{err: err}
	}
	defer resp.Body.Close()
	rb, _ := io.ReadAll(io.LimitReader(resp.Body, 1<<20))
	return rawResponse{status: resp.StatusCode, header: resp.Header, body: rb}
}

// genRequest builds the next request of this session.
func (s *session) genRequest() (*reqRecord, [][2]string, []byte) {
	comp := s.comp
	rt := &comp.routes[s.r.Intn(len(comp.routes))]
	// bias towards routes that key a store by a client name
	if len(rt.keyed) == 0 && s.r.Intn(3) == 0 {
		for k := 0; k < 8 && len(rt.keyed) == 0; k++ {
			rt = &comp.routes[s.r.Intn(len(comp.routes))]
		}
	}
	s.nreq++
	rec := &reqRecord{ID: fmt.Sprintf("%s-%d", s.label, s.nreq), Route: rt.id, Method: rt.method, rt: rt}

	// slots of the template
	var slots []string
	for _, seg := range strings.Split(rt.path, "/") {
		if strings.HasPrefix(seg, "{") {
			slots = append(slots, strings.Trim(seg, "{}"))
		}
	}
	hostile := ""
	if len(slots) > 0 && s.r.Intn(4) != 0 {
		// prefer keyed slots
		if len(rt.keyed) > 0 && s.r.Intn(3) != 0 {
			hostile = rt.keyed[s.r.Intn(len(rt.keyed))]
		} else {
			hostile = slots[s.r.Intn(len(slots))]
		}
	}
	var hn hostileName
	enc := ""
	if hostile != "" {
		hn = hostileNames[s.r.Intn(len(hostileNames))]
		// the defect class everyone expects first gets extra weight
		if s.r.Intn(6) == 0 {
			hn = hostileNames[s.r.Intn(2)]
		}
		// format-mimicking traversals: names shaped like what the slot normally carries
		if s.r.Intn(5) < 2 {
			hn = mimicName(s.r, hostile)
		}
		enc = encodings[s.r.Intn(len(encodings))]
		rec.Hostile, rec.NameID, rec.Encoding = hostile, hn.id, enc
	}

	bl := s.someBlob()
	var up *upload
	if len(s.uploads) > 0 {
		up = &s.uploads[s.r.Intn(len(s.uploads))]
		if rt.body == "blob" || rt.id == "commit-upload" || rt.id == "commit-transfer" || rt.id == "dup-commit-upload" {
			bl = up.b
		}
	}
	valid := func(slot string) string {
		switch slot {
		case "tag":
			if len(s.tags) > 0 && s.r.Intn(2) == 0 {
				return s.tags[s.r.Intn(len(s.tags))]
			}
			return validTags[s.r.Intn(len(validTags))]
		case "repo":
			return "repo/img"
		case "digest":
			if comp.name == "agent" && s.r.Intn(2) == 0 {
				return bl.hex
			}
			return "sha256:" + bl.hex
		case "uid":
			if up != nil {
				return up.uid
			}
			return "11111111-2222-3333-4444-555555555555"
		case "namespace":
			return validNamespaces[s.r.Intn(len(validNamespaces))]
		case "remote":
			return "remote-origin.example:80"
		case "*":
			return "repo/img"
		}
		return "x"
	}
	var segs []string
	for _, seg := range strings.Split(rt.path, "/") {
		if !strings.HasPrefix(seg, "{") {
			segs = append(segs, seg)
			continue
		}
		slot := strings.Trim(seg, "{}")
		if slot == hostile {
			name := hn.make(s)
			if slot == "digest" && s.r.Intn(2) == 0 {
				name = "sha256:" + name
			}
			segs = append(segs, encode(name, enc, s.r))
		} else {
			segs = append(segs, url.PathEscape(valid(slot)))
		}
	}
	target := strings.Join(segs, "/")
	if rt.query != "" {
		q := rt.query
		if strings.Contains(q, "{q}") {
			q = strings.Replace(q, "{q}", url.QueryEscape(hostileNames[s.r.Intn(len(hostileNames))].make(s)), 1)
		}
		target += "?" + q
	}
	rec.Target = target

	hdr := [][2]string{{"X-C11-Req", rec.ID}}
	var body []byte
	jsonName := func() string {
		if s.r.Intn(4) == 0 {
			return "registry.example/ns/img:tag"
		}
		hn := hostileNames[s.r.Intn(len(hostileNames))]
		rec.NameID = hn.id
		rec.Hostile = "body"
		return hn.make(s)
	}
	switch rt.body {
	case "json-delay":
		body = []byte(`{"delay":0}`)
	case "json-repl":
		body = []byte(`{"dependencies":[],"delay":0}`)
	case "blob":
		body = bl.content
		hdr = append(hdr, [2]string{"Content-Range", fmt.Sprintf("0-%d", len(body))})
	case "notif":
		n := jsonName()
		body = []byte(fmt.Sprintf(`{"events":[{"id":"1","action":"push","target":{"mediaType":"application/vnd.docker.distribution.manifest.v2+json","digest":"sha256:%s","repository":%s,"tag":%s}}]}`,
			bl.hex, strconv.Quote(n), strconv.Quote(n)))
	case "prefetch":
		n := jsonName()
		body = []byte(fmt.Sprintf(`{"tag":%s,"trace_id":"t"}`, strconv.Quote("registry.example/"+n+"/"+n+":"+n)))
	}
	return rec, hdr, body
}

// do sends one request, records the outcome and returns whether the session
// can continue.
func (s *session) do(rec *reqRecord, hdr [][2]string, body []byte) (cont bool) {
	s.reqs = append(s.reqs, rec)
	s.byID[rec.ID] = rec
	resp := sendRaw(s.addr, rec.Method, rec.Target, hdr, body)
	if resp.err != nil {
		rec.Status = -1
		s.run.Count("requests_without_response", 1)
		// a panic in the handler is reported by the child
		deadline := time.After(500 * time.Millisecond)
		for {
			select {
			case <-deadline:
				return !s.child.Exited()
			default:
			}
			l, err := s.child.RecvLine(300 * time.Millisecond)
			if err != nil {
				return !s.child.Exited()
			}
			if strings.Contains(l, `"panic"`) && strings.Contains(l, rec.ID) {
				s.run.Violation("handler-panic/"+s.comp.name+"/"+rec.Route, rec.ID,
					map[string]interface{}{"request": rec, "child": l})
				return true
			}
		}
	}
	rec.Status = resp.status
	s.run.Count(fmt.Sprintf("status_%dxx", resp.status/100), 1)
	if resp.header.Get("X-C11-Handled") == "1" {
		rec.Handled = true
		for {
			var rep struct {
				Req    string            `json:"req"`
				Route  string            `json:"route"`
				Params map[string]string `json:"params"`
				Panic  string            `json:"panic"`
			}
			if err := s.child.Recv(&rep, 20*time.Second); err != nil {
				s.run.Inconclusive(fmt.Sprintf("%s: no report for handled request %s: %v", s.label, rec.ID, err))
				return false
			}
			if rep.Req != rec.ID {
				continue
			}
			rec.Params, rec.Matched = rep.Params, rep.Route
			break
		}
	}
	// stateful controls
	if resp.status/100 == 2 {
		switch rec.Route {
		case "start-upload", "start-transfer":
			if uid := resp.header.Get("Location"); uid != "" {
				for _, b := range s.blobs {
					if strings.Contains(rec.Target, b.hex) {
						s.uploads = append(s.uploads, upload{uid: uid, b: b})
					}
				}
			}
		case "put-tag", "dup-put-tag", "put-tag-replicate":
			if t, ok := rec.Params["tag"]; ok && len(s.tags) < 50 {
				s.tags = append(s.tags, t)
			}
		}
	}
	// status oracle: a storing endpoint accepted a name that cannot be an
	// entry strictly inside the store directory
	if rec.Handled && rec.rt.storing && resp.status/100 == 2 {
		for _, k := range rec.rt.keyed {
			v, ok := rec.Params[k]
			if !ok {
				continue
			}
			for _, d := range s.storeDirs() {
				if e, esc := escapeBase(d, v); esc && e != d {
					s.run.Violation("unstorable-name-accepted/"+s.comp.name+"/"+k+"/"+nameClass(v), rec.ID,
						map[string]interface{}{"request": rec, "store_dir": d, "entry_dir_would_be": e,
							"response_body": string(resp.body)})
					break
				}
			}
		}
	}
	return true
}

// ---------------------------------------------------------------------------
// strace analysis

var sysAllowPrefix = []string{
	"/proc/", "/sys/kernel/mm/transparent_hugepage/", "/sys/devices/system/cpu/", "/usr/share/zoneinfo", "/usr/local/go/lib/time/",
}
var sysAllowExact = map[string]bool{
	"/etc/localtime": true, "/etc/resolv.conf": true, "/etc/hosts": true, "/etc/nsswitch.conf": true,
	"/etc/mime.types": true, "/etc/apache2/mime.types": true, "/etc/apache/mime.types": true,
	"/etc/httpd/conf/mime.types": true, "/usr/share/mime/globs2": true, "/dev/null": true, "/dev/urandom": true,
	"/etc/protocols": true, "/etc/services": true, "/etc/gai.conf": true, "/etc/host.conf": true,
}

type outside struct {
	Line     int    `json:"log_line"`
	Call     string `json:"syscall"`
	Path     string `json:"resolved_path"`
	Given    string `json:"path_as_passed"`
	Mutating bool   `json:"mutating"`
	Result   string `json:"result"`
	InReq    string `json:"inside_bracket_of,omitempty"`
	AfterReq string `json:"after_request,omitempty"`
	Kind     string `json:"kind"` // outside-store | store-root-mutated
}

func (s *session) analyse() {
	run := s.run
	ready := false
	cur, last := "", ""
	order := map[string]int{}
	for i, r := range s.reqs {
		order[r.ID] = i
	}
	stores := s.storeDirs()
	allowed := s.allowedDirs()
	var findings []outside
	unknown := map[string]bool{}
	err := proc.ParseLog(s.log, func(c proc.Call) {
		refs := proc.Paths(c, s.cwd)
		for _, ref := range refs {
			if strings.HasPrefix(ref.Path, sentinel) {
				rest := strings.TrimPrefix(ref.Path, sentinel+"/")
				switch {
				case rest == "ready":
					ready = true
				case strings.HasPrefix(rest, "begin/"):
					cur = strings.TrimPrefix(rest, "begin/")
					run.Count("brackets_seen", 1)
				case strings.HasPrefix(rest, "end/"):
					last = strings.TrimPrefix(rest, "end/")
					cur = ""
				}
				return
			}
		}
		if !ready || len(refs) == 0 {
			return
		}
		if !proc.KnownPathCall(c.Name) {
			unknown[c.Name] = true
		}
		run.Count("file_syscalls_checked", 1)
		for _, ref := range refs {
			if ref.Truncated {
				// longer than PATH_MAX: the kernel refuses it, no file is touched
				if strings.Contains(c.Ret, "ENAMETOOLONG") {
					run.Count("paths_over_path_max_refused_by_kernel", 1)
					continue
				}
				run.Inconclusive("strace truncated a path argument of a call that did not fail with ENAMETOOLONG: " + c.Raw[:80])
			}
			kind := ""
			in := false
			for _, a := range allowed {
				if proc.Within(ref.Path, a) {
					in = true
				}
			}
			switch {
			case in:
				run.Count("paths_inside_stores", 1)
				for _, d := range stores {
					if ref.Path == d && ref.Mutating && !c.Failed() {
						kind = "store-root-mutated"
					}
				}
			case sysAllowExact[ref.Path]:
				run.Count("paths_system_allowlist", 1)
			default:
				ok := false
				for _, p := range sysAllowPrefix {
					if strings.HasPrefix(ref.Path, p) {
						ok = true
					}
				}
				if ok {
					run.Count("paths_system_allowlist", 1)
				} else {
					kind = "outside-store"
				}
			}
			if kind == "" {
				continue
			}
			raw := c.Name + "(" + strings.Join(decodeArgs(c.Args), ", ") + ") = " + c.Ret
			findings = append(findings, outside{Line: c.Line, Call: raw, Path: ref.Path, Given: ref.Given,
				Mutating: ref.Mutating, Result: c.Ret, InReq: cur, AfterReq: last, Kind: kind})
		}
	}, nil)
	if err != nil {
		run.Inconclusive(s.label + ": strace log: " + err.Error())
		return
	}
	if !ready {
		run.Inconclusive(s.label + ": ready sentinel not found in strace log (engine fault)")
		return
	}
	for n := range unknown {
		run.Distinct("unknown_file_syscalls", n)
	}
	// attribute findings to requests and group per (request, kind)
	type key struct{ req, sig string }
	groups := map[key][]outside{}
	var keys []key
	for _, f := range findings {
		req, slot, class := s.attribute(f, order)
		sig := ""
		if req == nil {
			sig = f.Kind + "/" + s.comp.name + "/unattributed"
			k := key{"", sig}
			if _, ok := groups[k]; !ok {
				keys = append(keys, k)
			}
			groups[k] = append(groups[k], f)
			continue
		}
		if slot == "" {
			sig = f.Kind + "/" + s.comp.name + "/" + req.Route + "/no-escaping-param"
		} else {
			sig = f.Kind + "/" + s.comp.name + "/" + slot + "/" + class
		}
		k := key{req.ID, sig}
		if _, ok := groups[k]; !ok {
			keys = append(keys, k)
		}
		groups[k] = append(groups[k], f)
	}
	for _, k := range keys {
		fs := groups[k]
		if len(fs) > 12 {
			fs = fs[:12]
		}
		w := map[string]interface{}{
			"component": s.comp.name, "store_dirs": stores, "syscalls_outside": fs, "total_outside": len(groups[k]),
			"session": s.label, "write_through": s.writeThrough, "persist_canary": s.persistCanary,
		}
		if r := s.byID[k.req]; r != nil {
			w["request"] = r
		}
		run.Violation(k.sig, k.req, w)
		run.Count("out_of_store_findings", 1)
	}
}

func decodeArgs(args []string) []string {
	out := make([]string, len(args))
	for i, a := range args {
		if s, ok, _ := proc.StrArg(a); ok {
			out[i] = strconv.Quote(s)
		} else if p, cwd, ok := proc.FdArg(a); ok {
			if cwd {
				out[i] = "AT_FDCWD<" + p + ">"
			} else {
				out[i] = a[:strings.IndexByte(a, '<')] + "<" + p + ">" + map[bool]string{true: "(deleted)"}[strings.HasSuffix(a, "(deleted)")]
			}
		} else {
			out[i] = a
		}
	}
	return out
}

// attribute finds the request whose decoded parameters explain the path.
func (s *session) attribute(f outside, order map[string]int) (req *reqRecord, slot, class string) {
	match := func(r *reqRecord) (string, string, bool) {
		ks := make([]string, 0, len(r.Params))
		for k := range r.Params {
			ks = append(ks, k)
		}
		sort.Strings(ks)
		for _, k := range ks {
			v := r.Params[k]
			cands := []string{v}
			if strings.HasPrefix(v, "sha256:") {
				cands = append(cands, strings.TrimPrefix(v, "sha256:"))
			}
			for _, cv := range cands {
				for _, d := range s.storeDirs() {
					e, esc := escapeBase(d, cv)
					if !esc {
						continue
					}
					if proc.Within(f.Path, e) || f.Path == filepath.Dir(e) {
						return k, nameClass(v), true
					}
				}
				// absolute names used verbatim
				if strings.HasPrefix(cv, "/") && filepath.Clean(cv) != "/" && proc.Within(f.Path, filepath.Clean(cv)) {
					return k, nameClass(v), true
				}
			}
		}
		return "", "", false
	}
	start := -1
	if f.InReq != "" {
		if i, ok := order[f.InReq]; ok {
			start = i
		}
	} else if f.AfterReq != "" {
		if i, ok := order[f.AfterReq]; ok {
			start = i
		}
	}
	for i := start; i >= 0 && i > start-100; i-- {
		if k, c, ok := match(s.reqs[i]); ok {
			return s.reqs[i], k, c
		}
	}
	if start >= 0 {
		return s.reqs[start], "", ""
	}
	return nil, "", ""
}

// ---------------------------------------------------------------------------

type plan struct {
	comp         string
	requests     int
	writeThrough bool
}

func runSession(t *testing.T, run *ev.Run, bin, base string, idx int, p plan) {
	r := run.Rand(fmt.Sprintf("session-%d", idx))
	remaining := p.requests
	part := 0
	for remaining > 0 {
		part++
		label := fmt.Sprintf("s%d.%d", idx, part)
		s := &session{t: t, run: run, comp: components[p.comp], label: label, r: r,
			dir: filepath.Join(base, label), byID: map[string]*reqRecord{}, writeThrough: p.writeThrough}
		s.persistCanary = []string{"false", "true", "canary-persist"}[r.Intn(3)]
		s.log = filepath.Join(base, label+".strace")
		if err := s.setup(); err != nil {
			run.Inconclusive("setup: " + err.Error())
			return
		}
		if err := s.start(bin); err != nil {
			run.Inconclusive(label + ": " + err.Error())
			return
		}
		run.Count("child_processes", 1)
		s.canary = s.snapshot()
		if os.Getenv("C11_DEBUG") != "" {
			fmt.Printf("START %s %v\n", label, time.Now().Format("15:04:05.000"))
		}
		damaged := false
		damageEvents := 0
		for remaining > 0 {
			rec, hdr, body := s.genRequest()
			remaining--
			t0 := time.Now()
			cont := s.do(rec, hdr, body)
			if d := time.Since(t0); d > 200*time.Millisecond && os.Getenv("C11_DEBUG") != "" {
				fmt.Printf("SLOW %s %v %s %s %d\n", label, d, rec.Method, rec.Target[:min(len(rec.Target), 100)], rec.Status)
			}
			key := fmt.Sprintf("%s|%s|%s|%s|%s", s.comp.name, rec.Route, rec.Hostile, rec.NameID, rec.Encoding)
			run.Case(key, rec.Handled && rec.Matched != "")
			run.Count("requests_"+s.comp.name, 1)
			if rec.Handled && rec.Matched != "" {
				run.Count("requests_reaching_handler", 1)
			} else if rec.Handled {
				run.Count("requests_not_routed_404_or_redirect", 1)
			}
			if rec.Hostile != "" {
				run.Count("requests_with_hostile_name", 1)
				run.Distinct("hostile_name_x_encoding_x_route", s.comp.name+"|"+rec.Route+"|"+rec.Hostile+"|"+rec.NameID+"|"+rec.Encoding)
			}
			for k, v := range rec.Params {
				run.Distinct("decoded_param_classes", s.comp.name+"|"+rec.Route+"|"+k+"|"+nameClass(v))
			}
			if run.WantSample() && rec.Handled && rec.Hostile != "" && s.r.Intn(40) == 0 {
				run.Sample(rec)
			}
			if !cont {
				damaged = true
				break
			}
			if d := diffSnap(s.canary, s.snapshot()); len(d) > 0 {
				run.Count("canary_damage_events", 1)
				damageEvents++
				// the strace analysis below names the syscalls; keep the diff
				// with the request for the witness
				rec.Canary = strings.Join(d, "; ")
				if !s.storesIntact() || s.child.Exited() || !s.repair(d) {
					damaged = true
					break
				}
				run.Count("canary_repairs", 1)
			}
		}
		// let asynchronous executors run before closing the trace
		time.Sleep(300 * time.Millisecond)
		if d := diffSnap(s.canary, s.snapshot()); len(d) > 0 && !damaged {
			run.Count("canary_damage_events", 1)
			damageEvents++
			if len(s.reqs) > 0 {
				s.reqs[len(s.reqs)-1].Canary += " after session: " + strings.Join(d, "; ")
			}
		}
		if !s.child.Exited() {
			_ = s.child.SendLine("quit")
		}
		s.child.CloseStdin()
		if err := s.child.Wait(20 * time.Second); err == proc.ErrTimeout {
			run.Inconclusive(label + ": child did not exit")
		}
		before := run.Counter("out_of_store_findings")
		s.analyse()
		if damageEvents > 0 && run.Counter("out_of_store_findings") == before {
			// damage without any syscall explaining it: the engine missed something
			run.Inconclusive(fmt.Sprintf("%s: canary tree changed %d times but no out-of-store syscall was found in the trace", label, damageEvents))
		}
		// no symlinks may exist under <S> (lexical path resolution relies on it)
		_ = filepath.Walk(s.dir, func(p string, info os.FileInfo, err error) error {
			if err == nil && info.Mode()&os.ModeSymlink != 0 {
				run.Inconclusive(label + ": symlink under the session tree: " + p)
			}
			return nil
		})
		_ = os.RemoveAll(s.dir)
		_ = os.Remove(s.log)
		if damaged {
			run.Count("sessions_restarted_after_damage", 1)
		}
	}
}

func TestC11(t *testing.T) {
	run := ev.Start(t, "C11", "exploration",
		"PRNG-generated HTTP requests sent as raw request lines to the real build-index tag server, origin blob server, agent server and proxy "+
			"servers (child process under strace %file): route x parameter slot x hostile name (dot segments, absolute paths, NUL, long, sidecar names, "+
			"sibling-store names, and PRNG-built format-mimicking traversals: uuid-shaped, 64-hex-shaped, identifier plus traversal affix, sidecar shapes) x encoding (raw, escaped, full percent upper/lower, double, dots-only, slash-only, mixed), plus valid controls "+
			"and stateful upload/tag sequences. A case is one request; it is non-trivial when the router matched a route and a kraken handler ran (bracket sentinels seen); "+
			"distinct = distinct (component, route, hostile slot, name, encoding).")
	defer run.Finish()
	run.Assume("strace's decoding of file syscalls (-f -y -xx) is complete and correct for the child; fd-based I/O is covered by the open that produced the fd")
	run.Assume("lexical path resolution equals kernel resolution because the session tree contains no symlinks (checked after every session)")
	run.Assume("outer boundaries (storage backend, remote clusters, torrent scheduler, tag client of agent/proxy) are in-memory fakes in the child; the Docker registry storage driver of the proxy is not driven (its upload ids are HMAC-protected, DESIGN 3.40)")

	bin := proc.Build(t, "./c11/cmd/c11srv", false)
	base, err := filepath.EvalSymlinks(ev.TempDir(t, "c11-"))
	if err != nil {
		t.Fatal(err)
	}
	total := run.N(480, 12000)
	// shares: origin and build-index carry the client-named stores
	per := func(f float64) int { return int(float64(total) * f) }
	var plans []plan
	chunks := run.N(3, 8)
	for i := 0; i < chunks; i++ {
		plans = append(plans,
			plan{"buildindex", per(0.20) / chunks, false},
			plan{"buildindex", per(0.15) / chunks, true},
			plan{"origin", per(0.40) / chunks, false},
			plan{"agent", per(0.15) / chunks, false},
			plan{"proxy", per(0.10) / chunks, false},
		)
	}
	var wg sync.WaitGroup
	sem := make(chan struct{}, 12)
	for i, p := range plans {
		wg.Add(1)
		go func(i int, p plan) {
			defer wg.Done()
			sem <- struct{}{}
			defer func() { <-sem }()
			runSession(t, run, bin, base, i, p)
		}(i, p)
	}
	wg.Wait()
}
