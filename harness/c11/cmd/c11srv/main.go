// c11srv hosts the real kraken HTTP handlers (build-index tag server, origin
// blob server, agent server, proxy servers) on real stores rooted at -root, for
// the C11 fs-watch monitor. It is run under strace by the parent test.
//
// Every request that reaches the kraken handler is bracketed by sentinel stat
// calls (/c11-sentinel/begin/<id>, /c11-sentinel/end/<id>) and reported on
// stdout as one JSON line with the route parameters as httputil.ParseParam
// decodes them. Outer boundaries only (storage backend, remote clusters,
// scheduler, tag client) are in-memory fakes; handlers, stores, sqlite-backed
// retry managers and executors are the real code.
package main

import (
	"bufio"
	"bytes"
	"context"
	"encoding/json"
	"errors"
	"flag"
	"fmt"
	"io"
	"net"
	"net/http"
	"os"
	"path/filepath"
	"sort"
	"strings"
	"sync"
	"time"

	"github.com/andres-erbsen/clock"
	"github.com/c2h5oh/datasize"
	"github.com/go-chi/chi"
	"github.com/uber-go/tally"
	"go.opentelemetry.io/otel"
	"go.uber.org/zap"

	"github.com/uber/kraken/agent/agentserver"
	"github.com/uber/kraken/build-index/tagclient"
	"github.com/uber/kraken/build-index/tagmodels"
	"github.com/uber/kraken/build-index/tagserver"
	"github.com/uber/kraken/build-index/tagstore"
	"github.com/uber/kraken/core"
	"github.com/uber/kraken/lib/backend"
	"github.com/uber/kraken/lib/backend/backenderrors"
	"github.com/uber/kraken/lib/blobrefresh"
	"github.com/uber/kraken/lib/containerruntime/containerd"
	"github.com/uber/kraken/lib/containerruntime/dockerdaemon"
	"github.com/uber/kraken/lib/hashring"
	"github.com/uber/kraken/lib/healthcheck"
	"github.com/uber/kraken/lib/hostlist"
	"github.com/uber/kraken/lib/metainfogen"
	"github.com/uber/kraken/lib/persistedretry"
	"github.com/uber/kraken/lib/persistedretry/tagreplication"
	"github.com/uber/kraken/lib/persistedretry/writeback"
	"github.com/uber/kraken/lib/store"
	"github.com/uber/kraken/lib/torrent/scheduler"
	"github.com/uber/kraken/lib/torrent/scheduler/connstate"
	"github.com/uber/kraken/lib/torrent/storage/agentstorage"
	"github.com/uber/kraken/localdb"
	"github.com/uber/kraken/origin/blobclient"
	"github.com/uber/kraken/origin/blobserver"
	"github.com/uber/kraken/proxy/proxyserver"
	"github.com/uber/kraken/proxy/registryoverride"
	"github.com/uber/kraken/utils/httputil"
	"github.com/uber/kraken/utils/log"
	"github.com/uber/kraken/utils/stringset"
)

const sentinel = "/c11-sentinel"

func must(err error, what string) {
	if err != nil {
		fmt.Fprintf(os.Stderr, "c11srv: %s: %v\n", what, err)
		os.Exit(2)
	}
}

// ---- in-memory storage backend (outer boundary) ----

type memBackend struct {
	mu sync.Mutex
	m  map[string][]byte
}

func (b *memBackend) Stat(namespace, name string) (*core.BlobInfo, error) {
	b.mu.Lock()
	defer b.mu.Unlock()
	v, ok := b.m[name]
	if !ok {
		return nil, backenderrors.ErrBlobNotFound
	}
	return core.NewBlobInfo(int64(len(v))), nil
}

func (b *memBackend) Upload(namespace, name string, src io.Reader) error {
	v, err := io.ReadAll(src)
	if err != nil {
		return err
	}
	b.mu.Lock()
	b.m[name] = v
	b.mu.Unlock()
	return nil
}

func (b *memBackend) Download(namespace, name string, dst io.Writer) error {
	b.mu.Lock()
	v, ok := b.m[name]
	b.mu.Unlock()
	if !ok {
		return backenderrors.ErrBlobNotFound
	}
	_, err := dst.Write(v)
	return err
}

func (b *memBackend) List(prefix string, opts ...backend.ListOption) (*backend.ListResult, error) {
	b.mu.Lock()
	defer b.mu.Unlock()
	var names []string
	for k := range b.m {
		if strings.HasPrefix(k, prefix) {
			names = append(names, k)
		}
	}
	sort.Strings(names)
	return &backend.ListResult{Names: names}, nil
}

func (b *memBackend) Close() error { return nil }

// ---- fake remote clusters / clients (outer boundary) ----

type fakeCluster struct{}

func (fakeCluster) CheckReadiness() error { return nil }
func (fakeCluster) UploadBlob(ctx context.Context, namespace string, d core.Digest, blob io.ReadSeeker, size uint64) error {
	return nil
}
func (fakeCluster) DownloadBlob(ctx context.Context, namespace string, d core.Digest, dst io.Writer) error {
	return errors.New("fake cluster: no blobs")
}
func (fakeCluster) PrefetchBlob(namespace string, d core.Digest) error { return nil }
func (fakeCluster) GetMetaInfo(namespace string, d core.Digest) (*core.MetaInfo, error) {
	return nil, blobclient.ErrBlobNotFound
}
func (fakeCluster) Stat(namespace string, d core.Digest) (*core.BlobInfo, error) {
	return core.NewBlobInfo(1), nil
}
func (fakeCluster) OverwriteMetaInfo(d core.Digest, pieceLength int64) error { return nil }
func (fakeCluster) Owners(d core.Digest) ([]core.PeerContext, error)         { return nil, nil }
func (fakeCluster) ReplicateToRemote(namespace string, d core.Digest, remoteDNS string) error {
	return nil
}

type fakeClusterProvider struct{}

func (fakeClusterProvider) Provide(dns string) (blobclient.ClusterClient, error) {
	return fakeCluster{}, nil
}

type fakeTagClient struct{}

func (fakeTagClient) CheckReadiness() error                           { return nil }
func (fakeTagClient) Put(tag string, d core.Digest) error             { return nil }
func (fakeTagClient) PutAndReplicate(tag string, d core.Digest) error { return nil }
func (fakeTagClient) Get(tag string) (core.Digest, error) {
	return core.Digest{}, tagclient.ErrTagNotFound
}
func (fakeTagClient) Has(tag string) (bool, error)         { return false, nil }
func (fakeTagClient) List(prefix string) ([]string, error) { return []string{prefix + "/x:y"}, nil }
func (fakeTagClient) ListWithPagination(prefix string, filter tagclient.ListFilter) (tagmodels.ListResponse, error) {
	return tagmodels.ListResponse{Result: []string{prefix + "/x:y"}, Size: 1}, nil
}
func (fakeTagClient) ListRepository(repo string) ([]string, error) { return nil, nil }
func (fakeTagClient) ListRepositoryWithPagination(repo string, filter tagclient.ListFilter) (tagmodels.ListResponse, error) {
	return tagmodels.ListResponse{}, nil
}
func (fakeTagClient) Replicate(tag string) error { return nil }
func (fakeTagClient) Origin() (string, error)    { return "fake-origin", nil }
func (fakeTagClient) DuplicateReplicate(tag string, d core.Digest, dependencies core.DigestList, delay time.Duration) error {
	return nil
}
func (fakeTagClient) DuplicatePut(tag string, d core.Digest, delay time.Duration) error { return nil }

type fakeTagProvider struct{}

func (fakeTagProvider) Provide(addr string) tagclient.Client { return fakeTagClient{} }

type emptyHosts struct{}

func (emptyHosts) Resolve() stringset.Set { return stringset.New() }

type noDeps struct{}

func (noDeps) Resolve(tag string, d core.Digest) (core.DigestList, error) { return nil, nil }

// fakeSched stands in for the torrent scheduler; RemoveTorrent does what the
// real scheduler ends up doing: delete through the real torrent archive.
type fakeSched struct{ archive *agentstorage.TorrentArchive }

func (s *fakeSched) Stop() {}
func (s *fakeSched) Download(namespace string, d core.Digest) error {
	return scheduler.ErrTorrentNotFound
}
func (s *fakeSched) BlacklistSnapshot() ([]connstate.BlacklistedConn, error) { return nil, nil }
func (s *fakeSched) RemoveTorrent(d core.Digest) error                       { return s.archive.DeleteTorrent(d) }
func (s *fakeSched) Probe() error                                            { return nil }
func (s *fakeSched) Reload(config scheduler.Config)                          {}

type fakeMetaInfoClient struct{}

func (fakeMetaInfoClient) Download(namespace string, d core.Digest) (*core.MetaInfo, error) {
	return nil, errors.New("fake: no metainfo")
}

type fakeAnnounce struct{}

func (fakeAnnounce) CheckReadiness() error { return nil }
func (fakeAnnounce) Announce(d core.Digest, h core.InfoHash, complete bool, version int) ([]*core.PeerInfo, time.Duration, error) {
	return nil, time.Second, nil
}

type fakePuller struct{}

func (fakePuller) PullImage(ctx context.Context, repo, tag string) error { return nil }

type fakeCtrd struct{}

func (fakeCtrd) PullImage(ctx context.Context, ns, repo, tag string) error { return nil }

type fakeRuntime struct{}

func (fakeRuntime) DockerClient() dockerdaemon.DockerClient { return fakePuller{} }
func (fakeRuntime) ContainerdClient() containerd.Client     { return fakeCtrd{} }

// ---- request bracketing ----

type reqReport struct {
	Req    string            `json:"req"`
	Route  string            `json:"route"`
	Params map[string]string `json:"params"`
	PErr   map[string]string `json:"perr,omitempty"`
}

var outMu sync.Mutex

func emit(v interface{}) {
	b, _ := json.Marshal(v)
	outMu.Lock()
	os.Stdout.Write(append(b, '\n'))
	outMu.Unlock()
}

func bracket(h http.Handler) http.Handler {
	return http.HandlerFunc(func(w http.ResponseWriter, r *http.Request) {
		id := r.Header.Get("X-C11-Req")
		if id == "" {
			h.ServeHTTP(w, r)
			return
		}
		w.Header().Set("X-C11-Handled", "1")
		rctx := chi.NewRouteContext()
		r = r.WithContext(context.WithValue(r.Context(), chi.RouteCtxKey, rctx))
		_, _ = os.Stat(sentinel + "/begin/" + id)
		func() {
			defer func() {
				if p := recover(); p != nil {
					emit(map[string]string{"req": id, "panic": fmt.Sprint(p)})
					panic(p)
				}
			}()
			h.ServeHTTP(w, r)
		}()
		_, _ = os.Stat(sentinel + "/end/" + id)
		rep := reqReport{Req: id, Route: rctx.RoutePattern(), Params: map[string]string{}}
		for _, k := range rctx.URLParams.Keys {
			if k == "*" {
				rep.Params["*"] = rctx.URLParam("*")
				continue
			}
			// exactly what the handlers do
			v, err := httputil.ParseParam(r, k)
			if err != nil {
				if rep.PErr == nil {
					rep.PErr = map[string]string{}
				}
				rep.PErr[k] = err.Error()
				continue
			}
			rep.Params[k] = v
		}
		emit(rep)
	})
}

// ---- components ----

func tinyRetry() persistedretry.Config {
	return persistedretry.Config{
		IncomingBuffer: 100, RetryBuffer: 100,
		NumIncomingWorkers: 1, NumRetryWorkers: 1,
		MaxTaskThroughput:   time.Millisecond,
		RetryInterval:       50 * time.Millisecond,
		PollRetriesInterval: 50 * time.Millisecond,
	}
}

func noCleanup() store.CleanupConfig { return store.CleanupConfig{Disabled: true} }

func buildIndex(root string, writeThrough bool) http.Handler {
	ss, err := store.NewSimpleStore(store.SimpleStoreConfig{
		UploadDir: filepath.Join(root, "upload"), CacheDir: filepath.Join(root, "cache"),
		UploadCleanup: noCleanup(), CacheCleanup: noCleanup(),
	}, tally.NoopScope)
	must(err, "simple store")
	db, err := localdb.New(localdb.Config{Source: filepath.Join(root, "db", "kraken.db")})
	must(err, "localdb")
	backends := backend.ManagerFixture()
	must(backends.Register(".*", &memBackend{m: map[string][]byte{}}, false), "register backend")
	wbm, err := persistedretry.NewManager(tinyRetry(), tally.NoopScope,
		writeback.NewStore(db), writeback.NewExecutor(tally.NoopScope, ss, backends))
	must(err, "writeback manager")
	remotes, err := tagreplication.RemotesConfig{"remote-build-index:80": {".*"}}.Build()
	must(err, "remotes")
	trs, err := tagreplication.NewStore(db, remotes)
	must(err, "tagreplication store")
	trm, err := persistedretry.NewManager(tinyRetry(), tally.NoopScope, trs,
		tagreplication.NewExecutor(tally.NoopScope, fakeCluster{}, fakeTagProvider{}))
	must(err, "tagreplication manager")
	ts := tagstore.New(tagstore.Config{WriteThrough: writeThrough}, ss, backends, wbm)
	srv := tagserver.New(tagserver.Config{}, tally.NoopScope, backends, "fake-origin", fakeCluster{},
		emptyHosts{}, ts, remotes, trm, fakeTagProvider{}, noDeps{}, otel.Tracer("c11"))
	return srv.Handler()
}

func origin(root, addr string) http.Handler {
	cas, err := store.NewCAStore(store.CAStoreConfig{
		UploadDir: filepath.Join(root, "upload"), CacheDir: filepath.Join(root, "cache"),
		UploadCleanup: noCleanup(), CacheCleanup: noCleanup(),
	}, tally.NoopScope)
	must(err, "ca store")
	db, err := localdb.New(localdb.Config{Source: filepath.Join(root, "db", "kraken.db")})
	must(err, "localdb")
	backends := backend.ManagerFixture()
	must(backends.Register(".*", &memBackend{m: map[string][]byte{}}, false), "register backend")
	wbm, err := persistedretry.NewManager(tinyRetry(), tally.NoopScope,
		writeback.NewStore(db), writeback.NewExecutor(tally.NoopScope, cas, backends))
	must(err, "writeback manager")
	ring := hashring.New(hashring.Config{MaxReplica: 1}, hostlist.Fixture(addr), healthcheck.IdentityFilter{}, tally.NoopScope)
	mg, err := metainfogen.New(metainfogen.Config{
		PieceLengths: map[datasize.ByteSize]datasize.ByteSize{0: 4 * datasize.KB},
	}, cas)
	must(err, "metainfogen")
	br := blobrefresh.New(blobrefresh.Config{}, tally.NoopScope, cas, backends, mg)
	pctx, err := core.NewPeerContext(core.RandomPeerIDFactory, "zone", "cluster", "127.0.0.1", 1, true)
	must(err, "peer context")
	srv, err := blobserver.New(blobserver.Config{}, tally.NoopScope, clock.New(), addr, ring, cas,
		blobclient.NewProvider(), fakeClusterProvider{}, pctx, backends, br, mg, wbm)
	must(err, "blobserver")
	return srv.Handler()
}

func agent(root string) http.Handler {
	cads, err := store.NewCADownloadStore(store.CADownloadStoreConfig{
		DownloadDir: filepath.Join(root, "download"), CacheDir: filepath.Join(root, "cache"),
		DownloadCleanup: noCleanup(), CacheCleanup: noCleanup(),
	}, tally.NoopScope)
	must(err, "cads")
	archive := agentstorage.NewTorrentArchive(tally.NoopScope, cads, fakeMetaInfoClient{})
	srv := agentserver.New(agentserver.Config{}, tally.NoopScope, cads, &fakeSched{archive}, fakeTagClient{}, fakeAnnounce{}, fakeRuntime{})
	return srv.Handler()
}

func proxy() http.Handler {
	ps := proxyserver.New(tally.NoopScope, proxyserver.Config{}, fakeCluster{}, fakeTagClient{}, true)
	ro := registryoverride.NewServer(registryoverride.Config{}, fakeTagClient{})
	psh, roh := ps.Handler(), ro.Handler()
	return http.HandlerFunc(func(w http.ResponseWriter, r *http.Request) {
		if strings.HasPrefix(r.URL.Path, "/v2/") {
			roh.ServeHTTP(w, r)
			return
		}
		psh.ServeHTTP(w, r)
	})
}

func main() {
	component := flag.String("component", "", "buildindex|origin|agent|proxy")
	root := flag.String("root", "", "component directory (stores are created below it)")
	writeThrough := flag.Bool("writethrough", false, "build-index: synchronous tag write-back")
	flag.Parse()

	zc := zap.NewProductionConfig()
	zc.OutputPaths = []string{}
	zc.ErrorOutputPaths = []string{}
	log.ConfigureLogger(zc)

	l, err := net.Listen("tcp", "127.0.0.1:0")
	must(err, "listen")
	addr := l.Addr().String()

	var h http.Handler
	switch *component {
	case "buildindex":
		h = buildIndex(*root, *writeThrough)
	case "origin":
		h = origin(*root, addr)
	case "agent":
		h = agent(*root)
	case "proxy":
		h = proxy()
	default:
		must(fmt.Errorf("unknown component %q", *component), "flags")
	}
	srv := &http.Server{Handler: bracket(h), ReadHeaderTimeout: 10 * time.Second}
	go func() { _ = srv.Serve(l) }()

	_, _ = os.Stat(sentinel + "/ready")
	emit(map[string]string{"addr": addr})

	// control channel: "mark <text>" -> sentinel stat; EOF/quit -> exit
	sc := bufio.NewScanner(os.Stdin)
	for sc.Scan() {
		line := strings.TrimSpace(sc.Text())
		switch {
		case line == "quit":
			_, _ = os.Stat(sentinel + "/quit")
			emit(map[string]string{"bye": "1"})
			os.Exit(0)
		case strings.HasPrefix(line, "mark "):
			_, _ = os.Stat(sentinel + "/mark/" + strings.TrimPrefix(line, "mark "))
			emit(map[string]string{"marked": strings.TrimPrefix(line, "mark ")})
		}
	}
	_, _ = os.Stat(sentinel + "/quit")
	_ = bytes.MinRead
}
