// C12: in-memory blob buffers behave like ordinary files.
//
// Model-diff monitor with a real operating-system file as the reference.
// Three real subjects are driven by the same kind of PRNG op sequences as an
// *os.File in a temp dir:
//
//	bufrw     base.BufferReadWriter (aws WriteAtBuffer growth), random initial capacity
//	memfile   memory.File handles obtained from a real memory.Store (Create + Open:
//	          two handles with independent offsets on one blob vs. two descriptors
//	          on one file), random size hint
//	bufreader store.NewBufferFileReader over random content vs. a read-only file
//
// One case is a CHAIN of 2-4 such buffers created one after the other, ended by
// Cancel / Close / Commit (memfile: also Delete + re-Create of the same or
// another key in the same store), later buffers sized to fit into earlier ones:
// state leaking from a finished buffer into a new one (recycled backing arrays)
// shows up as non-zero gap bytes. Every buffer gets its own fresh OS file.
//
// Ops: Write, WriteAt (inside, crossing the end, at the end, beyond the end
// leaving a gap, far beyond the initial capacity, zero length, negative
// offset), Read and ReadAt (inside, crossing the end, at / beyond the end,
// zero length, negative offset), Seek (start / current / end, target always
// inside [0, size]) and Size.
//
// Oracle after every step: equal byte count, equal bytes read, equal returned
// seek offset, equal Size(), equal current offset on every handle and equal
// complete contents. Error values / EOF signalling are NOT compared (the
// property lists bytes, counts, sizes and offsets).
//
// A small concurrent phase issues WriteAt calls for disjoint ranges from
// several goroutines (own handle each) and compares the final size/contents.
package c12

import (
	"bytes"
	"fmt"
	"io"
	"math/rand"
	"os"
	"path/filepath"
	"sync"
	"testing"

	"github.com/uber-go/tally"

	"github.com/uber/kraken/lib/store"
	"github.com/uber/kraken/lib/store/base"
	"github.com/uber/kraken/lib/store/memory"

	"verif/harness/internal/ev"
)

type op struct {
	K      string `json:"k"` // write | writeat | read | readat | seek | size
	H      int    `json:"h,omitempty"`
	Off    int64  `json:"off,omitempty"`
	Len    int    `json:"len,omitempty"`
	Whence int    `json:"wh,omitempty"`
	Fill   byte   `json:"fill,omitempty"`
	Probe  bool   `json:"probe,omitempty"` // observe the subject's current offset via Seek(0, SeekCurrent) after this op
}

type seq struct {
	Subject string `json:"subject"`
	Cap     int    `json:"cap"`            // initial capacity / size hint / initial content length
	Init    byte   `json:"init,omitempty"` // fill seed of the initial content (bufreader)
	Handles int    `json:"handles"`
	Key     int    `json:"key,omitempty"`  // memfile: key index inside the chain's store
	End     string `json:"end,omitempty"`  // lifecycle call that ends this buffer: cancel | close | commit | none
	Drop    bool   `json:"drop,omitempty"` // memfile: Delete the key when the life ends
	Stream  bool   `json:"stream,omitempty"`
	Ops     []op   `json:"ops"`
}

// chain is one case: several buffers of one subject kind created one after the
// other (full lifecycle in between), each judged against its own fresh OS file.
type chain struct {
	Subject string `json:"subject"`
	Lives   []seq  `json:"lives"`
}

func payload(fill byte, n int) []byte {
	b := make([]byte, n)
	for i := range b {
		b[i] = byte(1 + (int(fill)+i*7)%255) // never zero: distinguishable from gap bytes
	}
	return b
}

// handle is what every subject handle offers (store.FileReader); writers are asserted.
type handle interface {
	io.Reader
	io.ReaderAt
	io.Seeker
	Size() int64
}

// ---------------------------------------------------------------- generator

type genModel struct {
	size int64
	pos  []int64
}

func pickLen(r *rand.Rand) int {
	switch r.Intn(10) {
	case 0:
		return 0
	case 1:
		return 1
	case 2:
		return 64 + r.Intn(400)
	default:
		return 1 + r.Intn(48)
	}
}

// pickOff chooses an offset class relative to the current size.
func pickOff(r *rand.Rand, size int64, capHint int) int64 {
	switch x := r.Intn(20); {
	case x < 6: // inside
		if size == 0 {
			return 0
		}
		return r.Int63n(size)
	case x < 9: // exactly the end
		return size
	case x < 14: // beyond the end: gap
		return size + 1 + r.Int63n(40)
	case x < 16: // close to the end from the inside (crossing writes/reads)
		if size < 4 {
			return 0
		}
		return size - 1 - r.Int63n(3)
	case x < 18: // beyond the initial capacity
		return int64(capHint) + r.Int63n(3*int64(capHint)+64)
	case x < 19: // far beyond
		return size + 1000 + r.Int63n(20000)
	default: // negative
		return -1 - r.Int63n(5)
	}
}

func genChain(r *rand.Rand, subject string) chain {
	c := chain{Subject: subject}
	n := 2 + r.Intn(3)
	prev := int64(0)
	live := map[int]bool{}
	for i := 0; i < n; i++ {
		s, size := genSeq(r, subject, i, prev)
		if subject == "memfile" {
			// a key index that is not live: re-creates a deleted key or uses another one
			var free []int
			for k := 0; k < 4; k++ {
				if !live[k] {
					free = append(free, k)
				}
			}
			s.Key = free[r.Intn(len(free))]
			if r.Intn(3) != 0 {
				s.Key = free[0] // prefer the lowest free index: the key deleted last is created again
			}
			s.Drop = r.Intn(3) != 0
			live[s.Key] = !s.Drop
		}
		s.End = []string{"cancel", "cancel", "close", "commit", "none"}[r.Intn(5)]
		c.Lives = append(c.Lives, s)
		prev = size
	}
	return c
}

// genSeq generates one life. prev is the final size of the previous buffer of the chain.
func genSeq(r *rand.Rand, subject string, life int, prev int64) (seq, int64) {
	s := seq{Subject: subject, Handles: 1}
	switch subject {
	case "bufrw":
		s.Cap = []int{0, 1, 8, 64, 300}[r.Intn(5)] + r.Intn(8)
	case "memfile":
		s.Cap = []int{0, 1, 8, 64, 300}[r.Intn(5)] + r.Intn(8)
		s.Handles = 2
	case "bufreader":
		s.Cap = []int{0, 1, 5, 40, 300}[r.Intn(5)] + r.Intn(8)
		s.Init = byte(r.Intn(256))
	}
	if life > 0 && prev > 0 && r.Intn(10) < 6 {
		s.Cap = 1 + r.Intn(int(min(prev, 4096))) // a capacity / size hint that fits into the previous buffer
	}
	m := genModel{pos: make([]int64, s.Handles)}
	if subject == "bufreader" {
		m.size = int64(s.Cap)
	}
	n := 8 + r.Intn(28)
	readonly := subject == "bufreader"
	s.Stream = r.Intn(3) == 0
	if !readonly {
		if life == 0 || r.Intn(3) == 0 {
			// earlier buffers are filled with non-zero bytes
			o := op{K: "write", Len: 64 + r.Intn(700), Fill: byte(r.Intn(256))}
			if life > 0 {
				o = op{K: "writeat", Off: int64(1 + r.Intn(40)), Len: 64 + r.Intn(400), Fill: byte(r.Intn(256))}
				m.size = o.Off + int64(o.Len)
			} else {
				m.size, m.pos[0] = int64(o.Len), int64(o.Len)
			}
			s.Ops = append(s.Ops, o)
		} else {
			// later buffers start with a gap-creating positional write inside the old extent
			lim := int64(s.Cap)
			if lim < 2 {
				lim = max(prev, 2)
			}
			o := op{K: "writeat", Off: 1 + r.Int63n(lim), Len: 1 + r.Intn(8), Fill: byte(r.Intn(256))}
			m.size = o.Off + int64(o.Len)
			s.Ops = append(s.Ops, o)
		}
	}
	for len(s.Ops) < n {
		h := 0
		if s.Handles > 1 && r.Intn(3) == 0 {
			h = 1
		}
		var o op
		x := r.Intn(100)
		if s.Stream {
			// streaming profile: runs of partial sequential Reads with positional
			// writes (growing the buffer / overwriting unread bytes), ReadAt and
			// Size probes in between, and only occasional Seek / Write
			switch y := r.Intn(100); {
			case y < 45:
				x = 50 // read
			case y < 75:
				x = 30 // writeat
			case y < 85:
				x = 70 // readat
			case y < 93:
				x = 98 // size
			case y < 97:
				x = 90 // seek
			default:
				x = 10 // write
			}
		}
		if readonly && x < 45 {
			x = 45 + r.Intn(55)
		}
		switch {
		case x < 20: // write
			o = op{K: "write", H: h, Len: pickLen(r), Fill: byte(r.Intn(256))}
			end := m.pos[h] + int64(o.Len)
			if o.Len > 0 && end > m.size {
				m.size = end
			}
			m.pos[h] = end
		case x < 45: // writeat
			o = op{K: "writeat", H: h, Off: pickOff(r, m.size, s.Cap), Len: pickLen(r), Fill: byte(r.Intn(256))}
			if r.Intn(6) == 0 {
				o.Len = 0 // zero-length positional writes at every offset class
			}
			if s.Stream {
				o.Len = 1 + r.Intn(12)
				if r.Intn(2) == 0 {
					o.Off = m.size + int64(r.Intn(3)) // at / just after the end: grows the buffer
				} else {
					o.Off = m.pos[h] + r.Int63n(m.size-m.pos[h]+1) // over bytes not read yet
				}
			}
			if o.Off >= 0 && o.Len > 0 && o.Off+int64(o.Len) > m.size {
				m.size = o.Off + int64(o.Len)
			}
		case x < 62: // read
			o = op{K: "read", H: h, Len: pickLen(r)}
			if s.Stream {
				o.Len = 1 + r.Intn(8) // partial reads: the stream stays short of the end
			} else if r.Intn(4) == 0 {
				o.Len = int(m.size-m.pos[h]) + r.Intn(20) // up to / across the end
			}
			nn := int64(o.Len)
			if m.pos[h]+nn > m.size {
				nn = m.size - m.pos[h]
			}
			m.pos[h] += nn
		case x < 80: // readat
			o = op{K: "readat", H: h, Off: pickOff(r, m.size, s.Cap), Len: pickLen(r)}
		case x < 96: // seek, target inside [0, size]
			t := int64(0)
			switch r.Intn(4) {
			case 0:
				t = m.size
			case 1:
				t = 0
			default:
				t = r.Int63n(m.size + 1)
			}
			wh := r.Intn(3)
			o = op{K: "seek", H: h, Whence: wh}
			switch wh {
			case io.SeekStart:
				o.Off = t
			case io.SeekCurrent:
				o.Off = t - m.pos[h]
			case io.SeekEnd:
				o.Off = t - m.size
			}
			m.pos[h] = t
		default:
			o = op{K: "size", H: h}
		}
		if s.Stream {
			o.Probe = r.Intn(15) == 0
		} else {
			o.Probe = r.Intn(4) == 0
		}
		s.Ops = append(s.Ops, o)
	}
	return s, m.size
}

// ---------------------------------------------------------------- execution

type env struct {
	dir   string
	store *memory.Store
	n     int
	chain int    // running chain number (key namespace)
	cur   *chain // chain being executed (for witnesses)
}

type pair struct {
	sub handle
	ref *os.File
}

func classifyOp(o op, size, pos int64) string {
	switch o.K {
	case "write":
		switch {
		case o.Len == 0:
			return "write-zero-length"
		case pos == size:
			return "write-append"
		case pos+int64(o.Len) <= size:
			return "write-overwrite"
		default:
			return "write-crossing-end"
		}
	case "writeat":
		switch {
		case o.Off < 0:
			return "writeat-negative-offset"
		case o.Len == 0 && o.Off > size:
			return "writeat-zero-length-beyond-end"
		case o.Len == 0 && o.Off == size:
			return "writeat-zero-length-at-end"
		case o.Len == 0:
			return "writeat-zero-length-inside"
		case o.Off > size:
			return "writeat-gap"
		case o.Off == size:
			return "writeat-at-end"
		case o.Off+int64(o.Len) <= size:
			return "writeat-inside"
		default:
			return "writeat-crossing-end"
		}
	case "read":
		switch {
		case o.Len == 0:
			return "read-zero-length"
		case pos >= size:
			return "read-at-end"
		case pos+int64(o.Len) <= size:
			return "read-inside"
		default:
			return "read-crossing-end"
		}
	case "readat":
		switch {
		case o.Off < 0:
			return "readat-negative-offset"
		case o.Len == 0:
			return "readat-zero-length"
		case o.Off > size:
			return "readat-beyond-end"
		case o.Off == size:
			return "readat-at-end"
		case o.Off+int64(o.Len) <= size:
			return "readat-inside"
		default:
			return "readat-crossing-end"
		}
	case "seek":
		return [...]string{"seek-start", "seek-current", "seek-end"}[o.Whence]
	}
	return o.K
}

type witness struct {
	Chain    *chain `json:"chain"`
	Seq      seq    `json:"life"`
	Step     int    `json:"step"`
	Op       op     `json:"op"`
	Class    string `json:"op_class"`
	RefSize  int64  `json:"reference_size_before"`
	RefPos   int64  `json:"reference_offset_before"`
	What     string `json:"what"`
	Observed string `json:"observed"`
	Expected string `json:"expected"`
}

func errStr(e error) string {
	if e == nil {
		return "nil"
	}
	return e.Error()
}

func short(b []byte) string {
	if len(b) > 48 {
		return fmt.Sprintf("%x…(%d bytes)", b[:48], len(b))
	}
	return fmt.Sprintf("%x", b)
}

func firstDiff(a, b []byte) int {
	n := min(len(a), len(b))
	for i := 0; i < n; i++ {
		if a[i] != b[i] {
			return i
		}
	}
	if len(a) != len(b) {
		return n
	}
	return -1
}

// runSeq executes one sequence; returns op classes seen and whether it ran to the end.
func runSeq(run *ev.Run, e *env, caseID string, s seq) (classes map[string]bool, completed bool) {
	classes = map[string]bool{}
	e.n++
	var nops int64
	defer func() { run.Count("ops", nops) }()
	path := filepath.Join(e.dir, fmt.Sprintf("ref-%d", e.n))
	defer os.Remove(path)

	pairs := make([]pair, s.Handles)
	switch s.Subject {
	case "bufrw":
		f, err := os.OpenFile(path, os.O_RDWR|os.O_CREATE|os.O_EXCL, 0o644)
		if err != nil {
			run.Inconclusive("reference file: " + err.Error())
			return classes, false
		}
		pairs[0] = pair{base.NewBufferReadWriter(uint64(s.Cap)), f}
	case "memfile":
		key := fmt.Sprintf("k-%d-%d", e.chain, s.Key)
		mf, err := e.store.Create(key, uint64(s.Cap))
		if err != nil {
			run.Inconclusive("memory.Store.Create: " + err.Error())
			return classes, false
		}
		if s.Drop {
			defer e.store.Delete(key) // runs after the lifecycle call below
		}
		mf2, err := e.store.Open(key)
		if err != nil {
			run.Inconclusive("memory.Store.Open: " + err.Error())
			return classes, false
		}
		f, err := os.OpenFile(path, os.O_RDWR|os.O_CREATE|os.O_EXCL, 0o644)
		if err != nil {
			run.Inconclusive("reference file: " + err.Error())
			return classes, false
		}
		f2, err := os.OpenFile(path, os.O_RDWR, 0o644)
		if err != nil {
			run.Inconclusive("reference file: " + err.Error())
			return classes, false
		}
		pairs[0] = pair{mf, f}
		pairs[1] = pair{mf2, f2}
	case "bufreader":
		content := payload(s.Init, s.Cap)
		if err := os.WriteFile(path, content, 0o644); err != nil {
			run.Inconclusive("reference file: " + err.Error())
			return classes, false
		}
		f, err := os.Open(path)
		if err != nil {
			run.Inconclusive("reference file: " + err.Error())
			return classes, false
		}
		pairs[0] = pair{store.NewBufferFileReader(append([]byte(nil), content...)), f}
	}
	defer func() {
		for _, p := range pairs {
			if p.ref != nil {
				p.ref.Close()
			}
			if p.sub == nil {
				continue
			}
			switch s.End {
			case "cancel":
				if c, ok := p.sub.(interface{ Cancel() error }); ok {
					c.Cancel()
				}
			case "commit":
				if c, ok := p.sub.(interface{ Commit() error }); ok {
					c.Commit()
				}
			case "close":
				if c, ok := p.sub.(io.Closer); ok {
					c.Close()
				}
			}
		}
	}()

	refSize := func() int64 {
		st, err := pairs[0].ref.Stat()
		if err != nil {
			return -1
		}
		return st.Size()
	}

	for i, o := range s.Ops {
		p := pairs[o.H]
		size := refSize()
		pos, _ := p.ref.Seek(0, io.SeekCurrent)
		class := classifyOp(o, size, pos)
		viol := func(what, obs, exp string) {
			run.Violation(s.Subject+"/"+class+"/"+what, caseID,
				witness{e.cur, s, i, o, class, size, pos, what, obs, exp})
		}
		ok := true
		switch o.K {
		case "write", "writeat":
			data := payload(o.Fill, o.Len)
			var gn, wn int
			var ge, we error
			if o.K == "write" {
				gn, ge = p.sub.(io.Writer).Write(data)
				wn, we = p.ref.Write(data)
			} else {
				gn, ge = p.sub.(io.WriterAt).WriteAt(data, o.Off)
				wn, we = p.ref.WriteAt(data, o.Off)
			}
			if gn != wn {
				viol("count", fmt.Sprintf("n=%d err=%s", gn, errStr(ge)), fmt.Sprintf("n=%d err=%s", wn, errStr(we)))
				ok = false
			}
		case "read", "readat":
			gb := make([]byte, o.Len)
			wb := make([]byte, o.Len)
			var gn, wn int
			var ge, we error
			if o.K == "read" {
				gn, ge = p.sub.Read(gb)
				wn, we = p.ref.Read(wb)
			} else {
				gn, ge = p.sub.ReadAt(gb, o.Off)
				wn, we = p.ref.ReadAt(wb, o.Off)
			}
			if gn != wn {
				viol("count", fmt.Sprintf("n=%d err=%s", gn, errStr(ge)), fmt.Sprintf("n=%d err=%s", wn, errStr(we)))
				ok = false
			} else if !bytes.Equal(gb[:gn], wb[:wn]) {
				viol("bytes", short(gb[:gn]), short(wb[:wn]))
				ok = false
			}
		case "seek":
			// domain restriction: only seeks whose target lies inside the written extent
			var t int64
			switch o.Whence {
			case io.SeekStart:
				t = o.Off
			case io.SeekCurrent:
				t = pos + o.Off
			case io.SeekEnd:
				t = size + o.Off
			}
			if t < 0 || t > size {
				run.Count("seeks_skipped_outside_extent", 1)
				continue
			}
			g, ge := p.sub.Seek(o.Off, o.Whence)
			w, we := p.ref.Seek(o.Off, o.Whence)
			if g != w {
				viol("returned-offset", fmt.Sprintf("%d err=%s", g, errStr(ge)), fmt.Sprintf("%d err=%s", w, errStr(we)))
				ok = false
			}
		case "size":
			// compared below for every step
		}
		classes[class] = true
		nops++
		if !ok {
			return classes, false
		}

		// ---- state comparison after the step
		nsize := refSize()
		resynced := false
		for hi, q := range pairs {
			if g := q.sub.Size(); g != nsize {
				viol("size", fmt.Sprintf("handle %d Size()=%d", hi, g), fmt.Sprint(nsize))
				// A zero-length positional write that grew the buffer: grow the reference
				// too (zero filled, as the subject's gap must be) so the rest of the
				// history still gets an exact oracle. Everything else ends the history.
				if class == "writeat-zero-length-beyond-end" && g == o.Off && !resynced {
					if err := pairs[0].ref.Truncate(g); err == nil {
						nsize = g
						resynced = true
						run.Count("resynced_after_zero_length_growth", 1)
						continue
					}
				}
				return classes, false
			}
		}
		for hi, q := range pairs {
			// The observer must not disturb the subject: Seek is a state-changing
			// call of the API under test (an implementation may drop cached state
			// in it), so it is used only on ops flagged as probe points and after
			// the last op; memory.File offers the side-effect free Off().
			var g int64
			var ge error
			if mf, isMem := q.sub.(*memory.File); isMem {
				g = mf.Off()
			} else if o.Probe || i == len(s.Ops)-1 {
				g, ge = q.sub.Seek(0, io.SeekCurrent)
				run.Count("offset_probes_via_seek", 1)
			} else {
				continue
			}
			w, _ := q.ref.Seek(0, io.SeekCurrent)
			if g != w {
				viol("current-offset", fmt.Sprintf("handle %d at %d err=%s", hi, g, errStr(ge)), fmt.Sprint(w))
				return classes, false
			}
		}
		want := make([]byte, nsize)
		if nsize > 0 {
			if n, err := pairs[0].ref.ReadAt(want, 0); int64(n) != nsize {
				run.Inconclusive(fmt.Sprintf("reference read failed: n=%d err=%v", n, err))
				return classes, false
			}
		}
		got := make([]byte, nsize+8) // a little more: the subject must not hold extra bytes either
		gn, _ := pairs[0].sub.ReadAt(got, 0)
		if int64(gn) != nsize || !bytes.Equal(got[:gn], want) {
			d := firstDiff(got[:gn], want)
			lo := max(0, d-8)
			viol("contents", fmt.Sprintf("len=%d first diff at %d: …%s", gn, d, short(got[lo:min(gn, lo+32)])),
				fmt.Sprintf("len=%d …%s", nsize, short(want[min(lo, len(want)):min(len(want), lo+32)])))
			return classes, false
		}
		if bw, isBuf := pairs[0].sub.(*base.BufferReadWriter); isBuf {
			if !bytes.Equal(bw.Bytes(), want) {
				viol("contents-bytes-accessor", short(bw.Bytes()), short(want))
				return classes, false
			}
		}
	}
	return classes, true
}

// ---------------------------------------------------------------- concurrent phase

type cwrite struct {
	G    int   `json:"g"`
	Off  int64 `json:"off"`
	Len  int   `json:"len"`
	Fill byte  `json:"fill"`
}

func runConcurrent(run *ev.Run, e *env, caseID string, subject string, capHint int, writes [][]cwrite) bool {
	e.n++
	path := filepath.Join(e.dir, fmt.Sprintf("cref-%d", e.n))
	defer os.Remove(path)
	ref, err := os.OpenFile(path, os.O_RDWR|os.O_CREATE|os.O_EXCL, 0o644)
	if err != nil {
		run.Inconclusive("reference file: " + err.Error())
		return false
	}
	defer ref.Close()
	var subs []io.WriterAt
	var reader handle
	switch subject {
	case "bufrw":
		b := base.NewBufferReadWriter(uint64(capHint))
		for range writes {
			subs = append(subs, b) // documented "for parallel writes": one object
		}
		reader = b
	case "memfile":
		key := fmt.Sprintf("c-%d", e.n)
		f, err := e.store.Create(key, uint64(capHint))
		if err != nil {
			run.Inconclusive("memory.Store.Create: " + err.Error())
			return false
		}
		defer e.store.Delete(key)
		reader = f
		for range writes {
			h, err := e.store.Open(key) // own handle per goroutine
			if err != nil {
				run.Inconclusive("memory.Store.Open: " + err.Error())
				return false
			}
			subs = append(subs, h)
		}
	}
	var wg sync.WaitGroup
	counts := make([]string, len(writes))
	for g := range writes {
		wg.Add(1)
		go func(g int) {
			defer wg.Done()
			for _, w := range writes[g] {
				n, err := subs[g].WriteAt(payload(w.Fill, w.Len), w.Off)
				if n != w.Len {
					counts[g] = fmt.Sprintf("WriteAt(len=%d, off=%d) = %d, %v", w.Len, w.Off, n, err)
				}
			}
		}(g)
	}
	wg.Wait()
	for _, ws := range writes {
		for _, w := range ws {
			if _, err := ref.WriteAt(payload(w.Fill, w.Len), w.Off); err != nil {
				run.Inconclusive("reference write: " + err.Error())
				return false
			}
		}
	}
	st, _ := ref.Stat()
	want := make([]byte, st.Size())
	ref.ReadAt(want, 0)
	wit := func(what, obs, exp string) map[string]interface{} {
		return map[string]interface{}{"subject": subject, "cap": capHint, "writes": writes, "what": what, "observed": obs, "expected": exp}
	}
	for _, c := range counts {
		if c != "" {
			run.Violation(subject+"/concurrent-disjoint-writeat/count", caseID, wit("count", c, "full length"))
			return true
		}
	}
	if g := reader.Size(); g != st.Size() {
		run.Violation(subject+"/concurrent-disjoint-writeat/size", caseID, wit("size", fmt.Sprint(g), fmt.Sprint(st.Size())))
		return true
	}
	got := make([]byte, st.Size())
	n, _ := reader.ReadAt(got, 0)
	if int64(n) != st.Size() || !bytes.Equal(got, want) {
		run.Violation(subject+"/concurrent-disjoint-writeat/contents", caseID,
			wit("contents", fmt.Sprintf("first diff at %d", firstDiff(got[:n], want)), fmt.Sprintf("len=%d", len(want))))
	}
	return true
}

func genConcurrent(r *rand.Rand) (capHint int, writes [][]cwrite, grows bool) {
	g := 2 + r.Intn(3)
	per := 3 + r.Intn(5)
	slot := 4 + r.Intn(60)
	nslots := g * per
	capHint = r.Intn(nslots*slot + 1)
	order := r.Perm(nslots + nslots/3) // some slots stay unwritten: gaps
	writes = make([][]cwrite, g)
	k := 0
	for gi := 0; gi < g; gi++ {
		for j := 0; j < per; j++ {
			s := order[k]
			k++
			l := 1 + r.Intn(slot)
			off := int64(s*slot) + int64(r.Intn(slot-l+1))
			if off+int64(l) > int64(capHint) {
				grows = true
			}
			writes[gi] = append(writes[gi], cwrite{gi, off, l, byte(r.Intn(256))})
		}
	}
	return
}

// ---------------------------------------------------------------- entry

func TestC12(t *testing.T) {
	run := ev.Start(t, "C12", "exploration",
		"A case is a chain of 2-4 buffers of one subject kind (bufrw 2/5, memfile with two handles 2/5, bufreader 1/5) created one after the other with the lifecycle call Cancel / Close / Commit / none in between "+
			"(memfile: Delete and re-Create of the same or another key in one memory.Store), each buffer driven by a PRNG op sequence (8-36 ops) and judged against its own fresh OS file. "+
			"Initial capacity / size hint is 0, a random size, or (60% of later buffers) a size that fits into the previous buffer; earlier buffers are filled with non-zero bytes, later ones start with a gap-creating WriteAt. "+
			"One third of the buffers use a streaming op mix (runs of partial Reads interleaved with WriteAt at/after the end or over unread bytes, ReadAt/Size probes, rare Seek/Write); the current offset is observed via Seek only at flagged probe points (memory.File: Off() every step) so that the observer does not reset reader state. "+
			"Offsets: inside / at end / gap beyond end / near end / beyond initial capacity / far beyond / negative, lengths incl. 0; seeks only to targets in [0,size]. "+
			"Non-trivial = the chain ran to its last op and executed a gap-leaving WriteAt (read-only subject: a read crossing or at the end); "+
			"distinct = distinct generated chain. Plus a concurrent phase: 2-4 goroutines x 3-7 disjoint WriteAt calls.")
	defer run.Finish()
	run.Assume("the reference is Go's *os.File on the temp filesystem (pread/pwrite/lseek semantics of Linux)")
	run.Assume("error values and EOF signalling are not compared; seeks outside [0,size] are not generated (DESIGN 3.40)")

	const workers = 8
	total := run.N(2000, 60000)
	per := total / workers
	conc := run.N(400, 8000) / workers
	root := ev.TempDir(t, "c12-")
	subjects := []string{"bufrw", "memfile", "bufrw", "memfile", "bufreader"}

	var wg sync.WaitGroup
	for w := 0; w < workers; w++ {
		wg.Add(1)
		go func(w int) {
			defer wg.Done()
			dir := filepath.Join(root, fmt.Sprintf("w%d", w))
			if err := os.MkdirAll(dir, 0o755); err != nil {
				run.Inconclusive(err.Error())
				return
			}
			ms, err := memory.NewStore(&memory.Config{GOMEMLIMITBytes: 1 << 40, CapacityBytes: 1 << 30}, tally.NoopScope)
			if err != nil {
				run.Inconclusive("memory.NewStore: " + err.Error())
				return
			}
			e := &env{dir: dir, store: ms}
			r := run.Rand(fmt.Sprintf("worker-%d", w))
			for i := 0; i < per; i++ {
				c := genChain(r, subjects[i%len(subjects)])
				caseID := fmt.Sprintf("w%d/s%d", w, i)
				if rc := run.ReplayCase(); rc != "" && rc != caseID {
					continue
				}
				e.chain++
				e.cur = &c
				all := map[string]bool{}
				completed := true
				for _, s := range c.Lives {
					classes, ok := runSeq(run, e, caseID, s)
					for cl := range classes {
						all[cl] = true
						run.Distinct("op_classes", s.Subject+"/"+cl)
					}
					run.Count("buffers_"+s.Subject, 1)
					run.Count("lifecycle_end_"+s.End, 1)
					if !ok {
						completed = false
						break
					}
				}
				if c.Subject == "memfile" {
					for k := 0; k < 4; k++ {
						e.store.Delete(fmt.Sprintf("k-%d-%d", e.chain, k))
					}
				}
				nontrivial := completed
				if c.Subject == "bufreader" {
					nontrivial = nontrivial && (all["read-crossing-end"] || all["read-at-end"] || all["readat-crossing-end"])
				} else {
					nontrivial = nontrivial && all["writeat-gap"]
				}
				run.Count("chains_"+c.Subject, 1)
				if completed {
					run.Count("chains_completed", 1)
				}
				run.Case(ev.JSON(c), nontrivial)
				if i%499 == 0 && run.WantSample() {
					run.Sample(map[string]interface{}{"case": caseID, "chain": c})
				}
			}
			rc := run.Rand(fmt.Sprintf("concurrent-%d", w))
			for i := 0; i < conc; i++ {
				capHint, writes, grows := genConcurrent(rc)
				subject := []string{"memfile", "bufrw"}[i%2]
				caseID := fmt.Sprintf("w%d/c%d", w, i)
				if rcase := run.ReplayCase(); rcase != "" && rcase != caseID {
					continue
				}
				if runConcurrent(run, e, caseID, subject, capHint, writes) {
					run.Count("concurrent_cases", 1)
					run.Case(ev.JSON(map[string]interface{}{"s": subject, "cap": capHint, "w": writes}), grows)
				}
			}
		}(w)
	}
	wg.Wait()
}
