// C13: memory caches stay within budget and their accounting balances.
//
// Model-diff + race monitor on the real code, three parts:
//
//	A  cache.BlobMemoryCache: PRNG histories of TryReserve / Add /
//	   ReleaseReservation / Remove / RemoveBatch / GetExpiredEntries run
//	   against the real cache and an executable model (sequential, every return
//	   value and every query compared after every step), plus 8-goroutine runs
//	   with per-goroutine ledgers (TotalBytes <= MaxSize at every return; at
//	   quiescence TotalBytes = sum(entry sizes) + sum(outstanding reservations)).
//	B  store.CAStore write-through (WriteBlobToCacheWithMetaInfo) on a real
//	   store in a temp dir with a mock clock: writes that succeed, fail in the
//	   write callback, fail metainfo generation, duplicate a name (sequentially
//	   and concurrently), are denied the reservation, deliver corrupted bytes, or
//	   deliver a length different from the reserved size; interleaved with drain
//	   steps, worker ticks and TTL expiry. After every step the accounted bytes
//	   must equal the bytes of the entries present (no write in flight => no
//	   outstanding reservation), never exceed MaxSize, and return to 0 when the
//	   cache is empty.
//	C  cache.LRUCache: model with capacity (large TTL, order/eviction compared
//	   through membership of every key after every step), tiny TTL + real sleep
//	   for "never reports an expired key" (sound direction only), and a
//	   concurrent phase (Size <= capacity at every return, race detector).
package c13

import (
	"errors"
	"fmt"
	"math/rand"
	"os"
	"path/filepath"
	"sort"
	"strings"
	"sync"
	"sync/atomic"
	"testing"
	"time"

	"github.com/andres-erbsen/clock"
	"github.com/uber-go/tally"
	"go.uber.org/zap"

	"github.com/uber/kraken/lib/store"
	"github.com/uber/kraken/utils/cache"
	"github.com/uber/kraken/utils/log"

	"verif/harness/internal/ev"
	"verif/harness/internal/gen"
)

func init() {
	zc := zap.NewProductionConfig()
	zc.OutputPaths = []string{}
	zc.ErrorOutputPaths = []string{}
	log.ConfigureLogger(zc)
}

const rule = "PRNG histories (seed+tier determine the list). A: BlobMemoryCache op sequences generated against the model state " +
	"(sizes at the budget boundary, zero, huge/overflowing; honest reserve->add protocol; duplicate names; batch removes with missing/duplicate names; expiry queries away from the TTL boundary); " +
	"non-trivial = history has >=1 refused reservation, >=1 successful Add and >=1 removal of a present entry. " +
	"B: CAStore write-through histories mixing write classes {ok, cb-fail, mi-fail, dup-seq, dup-conc, denied, corrupt, short/long x matching/mismatching} with steps {drain1, drainAll, tick, ttl}; " +
	"non-trivial = >=1 write took the memory path and >=1 write of a failing/duplicate/length-mismatch class ran. " +
	"C: LRUCache op sequences (Add/Has/Delete/Clear/Size) over a key universe larger than capacity; non-trivial = >=1 eviction and >=1 refresh of a present key. " +
	"distinct = distinct op list."

func TestC13(t *testing.T) {
	run := ev.Start(t, "C13", "exploration", rule)
	defer run.Finish()
	run.Assume("the reference models (budget arithmetic, ordered-key LRU) are correct; reviewed against the property text")
	run.Assume("cache.LRUCache reads time.Now() directly: expiry is only judged in the sound direction after a real sleep > TTL")
	run.Assume("callers of BlobMemoryCache follow its documented protocol (Add only after a successful TryReserve of the entry's size); the CAStore is the caller under judgement in part B")

	timed := func(name string, f func()) {
		t0 := time.Now()
		f()
		run.Set("wall_s_"+name, time.Since(t0).Seconds())
	}
	timed("A_sequential", func() { partASequential(run) })
	timed("A_concurrent", func() { partAConcurrent(run) })
	timed("B_sequential", func() { partBSequential(t, run) })
	timed("B_concurrent", func() { partBConcurrent(t, run) })
	timed("C_model", func() { partCModel(run) })
	timed("C_expiry", func() { partCExpiry(run) })
	timed("C_concurrent", func() { partCConcurrent(run) })
}

func skip(run *ev.Run, caseID string) bool {
	rc := run.ReplayCase()
	return rc != "" && rc != caseID
}

// ---------------------------------------------------------------------------
// Part A: BlobMemoryCache

type aOp struct {
	Op    string   `json:"op"`
	Size  uint64   `json:"size,omitempty"`
	Name  string   `json:"name,omitempty"`
	Names []string `json:"names,omitempty"`
	Res   string   `json:"res,omitempty"`
}

type mEntry struct {
	size    uint64
	created time.Time
}

type cacheModel struct {
	max         uint64
	total       uint64 // invariant: total <= max
	entries     map[string]mEntry
	outstanding []uint64
}

func (m *cacheModel) fits(size uint64) bool { return size <= m.max-m.total }

var epoch = time.Unix(1_700_000_000, 0)

func pickMax(r *rand.Rand) uint64 {
	switch r.Intn(8) {
	case 0:
		return 0
	case 1:
		return 1
	case 2:
		return 64
	case 3:
		return 1000
	case 4:
		return 1 << 16
	default:
		return uint64(1 + r.Intn(20000))
	}
}

func pickSize(r *rand.Rand, m *cacheModel) uint64 {
	rem := m.max - m.total
	switch r.Intn(12) {
	case 0:
		return 0
	case 1:
		return 1
	case 2:
		return rem
	case 3:
		return rem + 1
	case 4:
		if rem > 0 {
			return rem - 1
		}
		return 0
	case 5:
		// huge: total+size overflows uint64 whenever total > k
		return ^uint64(0) - uint64(r.Intn(8))
	case 6:
		return 1 << 63
	default:
		if m.max == 0 {
			return uint64(r.Intn(3))
		}
		return uint64(r.Int63n(int64(m.max/3 + 2)))
	}
}

var aNames = []string{"a", "b", "c", "d", "e", "f", "g", "h"}

func partASequential(run *ev.Run) {
	n := run.N(1500, 40000)
	steps := 70
	for i := 0; i < n; i++ {
		caseID := fmt.Sprintf("A-seq/%d", i)
		if skip(run, caseID) {
			continue
		}
		r := run.Rand(caseID)
		m := &cacheModel{max: pickMax(r), entries: map[string]mEntry{}}
		c := cache.NewBlobMemoryCache(cache.BlobMemoryCacheConfig{MaxSize: m.max}, tally.NoopScope)
		var ops []aOp
		var refused, added, removed int
		now := epoch
		bad := false
		fail := func(sig string, detail interface{}) {
			bad = true
			run.Violation(sig, caseID, map[string]interface{}{"max": m.max, "ops": ops, "detail": detail})
		}
		for s := 0; s < steps && !bad; s++ {
			now = now.Add(time.Duration(1+r.Intn(5)) * time.Second)
			k := r.Intn(100)
			switch {
			case k < 30: // reserve
				size := pickSize(r, m)
				want := m.fits(size)
				got := c.TryReserve(size)
				ops = append(ops, aOp{Op: "reserve", Size: size, Res: fmt.Sprint(got)})
				run.Count("A_reserve", 1)
				if got && !want {
					if m.total+size < m.total {
						fail("blobcache/tryreserve-admits-over-budget/uint64-overflow", map[string]uint64{"total": m.total, "size": size})
					} else {
						fail("blobcache/tryreserve-admits-over-budget", map[string]uint64{"total": m.total, "size": size})
					}
					continue
				}
				if !got && want {
					fail("blobcache/tryreserve-refuses-within-budget", map[string]uint64{"total": m.total, "size": size})
					continue
				}
				if got {
					m.total += size
					m.outstanding = append(m.outstanding, size)
				} else {
					refused++
				}
			case k < 55: // add from an outstanding reservation
				if len(m.outstanding) == 0 {
					continue
				}
				j := r.Intn(len(m.outstanding))
				size := m.outstanding[j]
				if size > 1<<20 {
					continue // never allocate huge entries
				}
				name := aNames[r.Intn(len(aNames))]
				_, exists := m.entries[name]
				got := c.Add(&cache.MemoryEntry{Name: name, Data: make([]byte, size), CreatedAt: now})
				ops = append(ops, aOp{Op: "add", Name: name, Size: size, Res: fmt.Sprint(got)})
				run.Count("A_add", 1)
				if got == exists {
					fail("blobcache/add-result-mismatch", map[string]interface{}{"name": name, "exists": exists, "got": got})
					continue
				}
				if got {
					added++
					m.entries[name] = mEntry{size, now}
					m.outstanding = append(m.outstanding[:j], m.outstanding[j+1:]...)
				}
			case k < 70: // release
				if len(m.outstanding) == 0 {
					continue
				}
				j := r.Intn(len(m.outstanding))
				size := m.outstanding[j]
				c.ReleaseReservation(size)
				m.outstanding = append(m.outstanding[:j], m.outstanding[j+1:]...)
				m.total -= size
				ops = append(ops, aOp{Op: "release", Size: size})
				run.Count("A_release", 1)
			case k < 82: // remove
				name := aNames[r.Intn(len(aNames))]
				c.Remove(name)
				if e, ok := m.entries[name]; ok {
					removed++
					m.total -= e.size
					delete(m.entries, name)
				}
				ops = append(ops, aOp{Op: "remove", Name: name})
				run.Count("A_remove", 1)
			case k < 90: // remove batch (missing + duplicate names included)
				var names []string
				for x := r.Intn(5); x >= 0; x-- {
					names = append(names, aNames[r.Intn(len(aNames))])
				}
				if r.Intn(3) == 0 {
					names = append(names, "missing")
				}
				c.RemoveBatch(names)
				for _, name := range names {
					if e, ok := m.entries[name]; ok {
						removed++
						m.total -= e.size
						delete(m.entries, name)
					}
				}
				ops = append(ops, aOp{Op: "removeBatch", Names: names})
				run.Count("A_removeBatch", 1)
			default: // expired query; ttl = x.5 s, ages are whole seconds: never on the boundary
				ttl := time.Duration(r.Intn(40))*time.Second + 500*time.Millisecond
				got := c.GetExpiredEntries(now, ttl)
				var want []string
				for name, e := range m.entries {
					if now.Sub(e.created) > ttl {
						want = append(want, name)
					}
				}
				sort.Strings(got)
				sort.Strings(want)
				ops = append(ops, aOp{Op: "expired", Size: uint64(ttl / time.Millisecond), Res: strings.Join(got, ",")})
				run.Count("A_expired", 1)
				if strings.Join(got, ",") != strings.Join(want, ",") {
					fail("blobcache/expired-set-mismatch", map[string]interface{}{"got": got, "want": want})
					continue
				}
				if len(got) > 0 && r.Intn(2) == 0 {
					c.RemoveBatch(got)
					for _, name := range got {
						removed++
						m.total -= m.entries[name].size
						delete(m.entries, name)
					}
					ops = append(ops, aOp{Op: "removeBatch", Names: got})
				}
			}
			// queries after every step
			if tb := c.TotalBytes(); tb != m.total {
				var sumE, sumO uint64
				for _, e := range m.entries {
					sumE += e.size
				}
				for _, o := range m.outstanding {
					sumO += o
				}
				fail("blobcache/accounted-bytes-differ-from-entries-plus-reservations/after-"+ops[len(ops)-1].Op,
					map[string]uint64{"TotalBytes": tb, "entries": sumE, "reservations": sumO})
				continue
			} else if tb > m.max {
				fail("blobcache/total-above-max", map[string]uint64{"TotalBytes": tb})
				continue
			}
			if ne := c.NumEntries(); ne != len(m.entries) {
				fail("blobcache/numentries-mismatch", map[string]int{"got": ne, "want": len(m.entries)})
				continue
			}
			names := c.ListNames()
			sort.Strings(names)
			var want []string
			for name := range m.entries {
				want = append(want, name)
			}
			sort.Strings(want)
			if strings.Join(names, ",") != strings.Join(want, ",") {
				fail("blobcache/listnames-mismatch", map[string]interface{}{"got": names, "want": want})
				continue
			}
			probe := aNames[r.Intn(len(aNames))]
			e := c.Get(probe)
			me, ok := m.entries[probe]
			if (e != nil) != ok || (e != nil && e.Size() != me.size) {
				fail("blobcache/get-mismatch", probe)
				continue
			}
		}
		key := ev.JSON(ops)
		run.Case(fmt.Sprintf("A|%d|%s", m.max, key), refused > 0 && added > 0 && removed > 0)
		if i%401 == 0 && run.WantSample() {
			cut := ops
			if len(cut) > 14 {
				cut = cut[:14]
			}
			run.Sample(map[string]interface{}{"part": "A-seq", "max": m.max, "first_ops": cut})
		}
	}
}

func partAConcurrent(run *ev.Run) {
	n := run.N(30, 400)
	const G = 8
	for i := 0; i < n; i++ {
		caseID := fmt.Sprintf("A-conc/%d", i)
		if skip(run, caseID) {
			continue
		}
		r0 := run.Rand(caseID)
		max := uint64(2048 + r0.Intn(4096))
		c := cache.NewBlobMemoryCache(cache.BlobMemoryCacheConfig{MaxSize: max}, tally.NoopScope)
		shared := []string{"s0", "s1", "s2", "s3", "s4"}
		ledgers := make([][]uint64, G)
		var overMax atomic.Uint64
		var refusedN, addedN, dupN atomic.Int64
		var wg sync.WaitGroup
		seeds := make([]int64, G)
		for g := range seeds {
			seeds[g] = r0.Int63()
		}
		opsPer := 400
		for g := 0; g < G; g++ {
			wg.Add(1)
			go func(g int) {
				defer wg.Done()
				r := rand.New(rand.NewSource(seeds[g]))
				var out []uint64
				check := func() {
					if tb := c.TotalBytes(); tb > max {
						overMax.Store(tb)
					}
				}
				for s := 0; s < opsPer; s++ {
					switch k := r.Intn(100); {
					case k < 35:
						size := uint64(r.Intn(1024))
						if r.Intn(20) == 0 {
							size = max
						}
						if c.TryReserve(size) {
							out = append(out, size)
						} else {
							refusedN.Add(1)
						}
					case k < 60:
						if len(out) == 0 {
							continue
						}
						size := out[len(out)-1]
						name := shared[r.Intn(len(shared))]
						if r.Intn(3) == 0 {
							name = fmt.Sprintf("g%d-%d", g, r.Intn(4))
						}
						if c.Add(&cache.MemoryEntry{Name: name, Data: make([]byte, size), CreatedAt: epoch}) {
							out = out[:len(out)-1]
							addedN.Add(1)
						} else {
							dupN.Add(1)
						}
					case k < 72:
						if len(out) == 0 {
							continue
						}
						c.ReleaseReservation(out[len(out)-1])
						out = out[:len(out)-1]
					case k < 84:
						name := shared[r.Intn(len(shared))]
						if r.Intn(3) == 0 {
							name = fmt.Sprintf("g%d-%d", g, r.Intn(4))
						}
						c.Remove(name)
					case k < 90:
						c.RemoveBatch([]string{shared[r.Intn(len(shared))], shared[r.Intn(len(shared))], "missing"})
					default:
						_ = c.NumEntries()
						_ = c.Get(shared[r.Intn(len(shared))])
						_ = c.ListNames()
						_ = c.GetExpiredEntries(epoch.Add(time.Hour), time.Minute)
					}
					check()
				}
				ledgers[g] = out
			}(g)
		}
		wg.Wait()
		run.Count("A_conc_ops", int64(G*opsPer))
		witness := map[string]interface{}{"max": max, "seeds": seeds}
		if v := overMax.Load(); v != 0 {
			witness["TotalBytes"] = v
			run.Violation("blobcache/concurrent/total-above-max", caseID, witness)
		}
		var sumE, sumO uint64
		for _, name := range c.ListNames() {
			if e := c.Get(name); e != nil {
				sumE += e.Size()
			}
		}
		for _, l := range ledgers {
			for _, s := range l {
				sumO += s
			}
		}
		if tb := c.TotalBytes(); tb != sumE+sumO {
			witness["TotalBytes"], witness["entries"], witness["reservations"] = tb, sumE, sumO
			run.Violation("blobcache/concurrent/accounting-imbalance", caseID, witness)
		} else {
			for _, l := range ledgers {
				for _, s := range l {
					c.ReleaseReservation(s)
				}
			}
			c.RemoveBatch(c.ListNames())
			if tb := c.TotalBytes(); tb != 0 || c.NumEntries() != 0 {
				witness["TotalBytes"] = tb
				run.Violation("blobcache/concurrent/nonzero-after-empty", caseID, witness)
			}
		}
		run.Case(fmt.Sprintf("A-conc|%d|%v", max, seeds), refusedN.Load() > 0 && addedN.Load() > 0 && dupN.Load() > 0)
	}
}

// ---------------------------------------------------------------------------
// Part B: CAStore write-through

type storeEnv struct {
	cas   *store.CAStore
	mc    *cache.BlobMemoryCache
	clk   *clock.Mock
	clkMu sync.Mutex
	close func()
	max   uint64
	ttl   time.Duration
}

func newStoreEnv(t testing.TB, root string, max uint64, retries, workers int, fastTTL bool) *storeEnv {
	dir, err := os.MkdirTemp(root, "s")
	if err != nil {
		t.Fatalf("mkdir: %v", err)
	}
	clk := clock.NewMock()
	clk.Set(epoch)
	// slow TTL: entries always leave through the drain; fast TTL (shorter than
	// the 100 ms drain period): the TTL worker removes entries before their
	// drain item is processed.
	ttl, ttlInterval := 10*time.Second, 4*time.Second
	if fastTTL {
		ttl, ttlInterval = 50*time.Millisecond, 30*time.Millisecond
	}
	cfg := store.CAStoreConfig{
		UploadDir:     filepath.Join(dir, "upload"),
		CacheDir:      filepath.Join(dir, "cache"),
		UploadCleanup: store.CleanupConfig{Disabled: true},
		CacheCleanup:  store.CleanupConfig{Disabled: true},
		MemoryCache: store.MemoryCacheConfig{
			Enabled: true, MaxSize: max, DrainWorkers: workers, DrainMaxRetries: retries,
			TTL: ttl, TTLInterval: ttlInterval,
		},
	}
	cas, closeFn := store.CAStoreFixtureWithClock(cfg, clk)
	return &storeEnv{cas: cas, mc: cas.VerifC13MemCache(), clk: clk, max: max, ttl: cfg.MemoryCache.TTL,
		close: func() { closeFn(); os.RemoveAll(dir) }}
}

func (e *storeEnv) advance(d time.Duration) {
	e.clkMu.Lock()
	e.clk.Add(d)
	e.clkMu.Unlock()
}

// snapshot returns (TotalBytes, sum of entry sizes, number of entries) read
// consistently: only the drain/TTL workers may run concurrently, they only
// remove entries, so two equal TotalBytes reads bracket a consistent listing
// (removing a zero-length entry changes neither side).
func (e *storeEnv) snapshot() (tb, sum uint64, n int, ok bool) {
	for try := 0; try < 1000; try++ {
		tb = e.mc.TotalBytes()
		sum, n = 0, 0
		for _, name := range e.mc.ListNames() {
			if en := e.mc.Get(name); en != nil {
				sum += en.Size()
				n++
			}
		}
		if e.mc.TotalBytes() == tb {
			return tb, sum, n, true
		}
		time.Sleep(time.Millisecond)
	}
	return 0, 0, 0, false
}

// drainAll drains until the memory cache is empty; false = watchdog.
func (e *storeEnv) drainAll() bool {
	deadline := time.Now().Add(30 * time.Second)
	for e.mc.NumEntries() > 0 || e.cas.VerifC13DrainQueueLen() > 0 {
		if e.cas.VerifC13DrainQueueLen() > 0 {
			e.cas.VerifC13DrainNext()
		} else {
			time.Sleep(time.Millisecond) // an item is in flight in the worker
		}
		if time.Now().After(deadline) {
			return false
		}
	}
	return true
}

type bOp struct {
	Op      string `json:"op"`
	Class   string `json:"class,omitempty"`
	Len     int    `json:"len,omitempty"`
	Claimed uint64 `json:"claimed,omitempty"`
	Stream  int    `json:"stream,omitempty"`
	PL      int64  `json:"pl,omitempty"`
	Err     bool   `json:"err,omitempty"`
	InMem   bool   `json:"inmem,omitempty"`
	Name    string `json:"name,omitempty"`
}

var errCallback = errors.New("scripted write-callback failure")

type bWrite struct {
	class   string
	name    string
	stream  []byte
	claimed uint64
	pl      int64
	failAt  int // >=0: callback writes stream[:failAt] then fails
}

func (w *bWrite) do(cas *store.CAStore) error {
	return cas.WriteBlobToCacheWithMetaInfo(w.name, w.claimed, func(f store.FileReadWriter) error {
		if w.failAt >= 0 {
			if _, err := f.Write(w.stream[:w.failAt]); err != nil {
				return err
			}
			return errCallback
		}
		_, err := f.Write(w.stream)
		return err
	}, w.pl)
}

var bClassesHonest = []string{"ok", "ok", "ok", "cb-fail", "mi-fail", "dup-seq", "dup-conc", "denied", "corrupt"}
var bClassesMismatch = []string{"short-matching", "short-mismatching", "long-matching", "long-mismatching", "claimed-zero"}

// genWrite builds a write of the class. rem = bytes still reservable.
func genWrite(r *rand.Rand, class string, rem uint64, max uint64, lastInMem *bWrite) *bWrite {
	size := 1 + r.Intn(3000)
	if rem > 0 && r.Intn(3) == 0 {
		size = int(rem) // exactly fills the budget
		if size > 1<<16 {
			size = 1 << 16
		}
	}
	if r.Intn(25) == 0 {
		size = 0
	}
	blob := gen.Bytes(r, size)
	w := &bWrite{class: class, name: gen.SHA256Hex(blob), stream: blob, claimed: uint64(size), pl: int64(1 + r.Intn(512)), failAt: -1}
	switch class {
	case "ok":
	case "cb-fail":
		w.failAt = r.Intn(size + 1)
	case "mi-fail":
		w.pl = int64(-r.Intn(2)) // 0 or -1: metainfo generation rejects it
	case "dup-seq":
		if lastInMem != nil {
			c := *lastInMem
			c.class, c.failAt = class, -1
			return &c
		}
	case "dup-conc":
	case "denied":
		big := int(rem) + 1 + r.Intn(64)
		if big > 1<<17 {
			big = 1 << 17
		}
		blob = gen.Bytes(r, big)
		w.name, w.stream, w.claimed = gen.SHA256Hex(blob), blob, uint64(big)
	case "corrupt":
		if size == 0 {
			blob = []byte{1}
			w.name, size = gen.SHA256Hex(blob), 1
			w.claimed = 1
		}
		s := append([]byte{}, blob...)
		s[r.Intn(size)] ^= 0x40
		w.stream = s
	case "short-matching": // content is the blob, the reserved size is larger
		w.claimed = uint64(size + 1 + r.Intn(2000))
	case "long-matching": // content is the blob, the reserved size is smaller
		if size == 0 {
			blob = gen.Bytes(r, 1+r.Intn(100))
			w.name, w.stream, size = gen.SHA256Hex(blob), blob, len(blob)
		}
		w.claimed = uint64(r.Intn(size))
	case "claimed-zero": // what the http backend's Stat reports: size 0
		if size == 0 {
			blob = gen.Bytes(r, 1+r.Intn(100))
			w.name, w.stream = gen.SHA256Hex(blob), blob
		}
		w.claimed = 0
	case "short-mismatching": // truncated stream
		if size == 0 {
			blob = gen.Bytes(r, 1+r.Intn(100))
			w.name, size = gen.SHA256Hex(blob), len(blob)
			w.claimed = uint64(size)
		}
		w.stream = blob[:r.Intn(size)]
	case "long-mismatching": // extended stream
		w.stream = append(append([]byte{}, blob...), gen.Bytes(r, 1+r.Intn(500))...)
	}
	return w
}

func classIsMismatch(c string) bool {
	return strings.HasPrefix(c, "short-") || strings.HasPrefix(c, "long-") || c == "claimed-zero"
}

// checkBalance compares accounting with contents; returns a signature suffix or "".
func (e *storeEnv) checkBalance() (string, map[string]uint64, bool) {
	tb, sum, n, ok := e.snapshot()
	if !ok {
		return "", nil, false
	}
	d := map[string]uint64{"TotalBytes": tb, "entry_bytes": sum, "entries": uint64(n), "max": e.max}
	switch {
	case tb > sum:
		return "accounted-gt-entries", d, true
	case tb < sum:
		return "accounted-lt-entries", d, true
	case tb > e.max:
		return "total-above-max", d, true
	}
	return "", d, true
}

func partBSequential(t *testing.T, run *ev.Run) {
	n := run.N(120, 2500)
	root := ev.TempDir(t, "c13-")
	workers := 8
	var wg sync.WaitGroup
	idx := make(chan int, n)
	for i := 0; i < n; i++ {
		idx <- i
	}
	close(idx)
	for w := 0; w < workers; w++ {
		wg.Add(1)
		go func() {
			defer wg.Done()
			for i := range idx {
				caseID := fmt.Sprintf("B-seq/%d", i)
				if skip(run, caseID) {
					continue
				}
				oneBSequential(t, run, root, caseID, i)
			}
		}()
	}
	wg.Wait()
}

func oneBSequential(t *testing.T, run *ev.Run, root, caseID string, i int) {
	r := run.Rand(caseID)
	max := uint64(2000 + r.Intn(12000))
	if r.Intn(10) == 0 {
		max = uint64(r.Intn(50))
	}
	fastTTL := r.Intn(3) == 0
	withMismatch := r.Intn(100) < 35
	env := newStoreEnv(t, root, max, 1+r.Intn(3), 1, fastTTL)
	defer env.close()
	var ops []bOp
	var memPath, special int
	var lastInMem *bWrite
	// settled: no drain item can be in flight in the worker, so TotalBytes
	// cannot drop while a write runs. A clock tick hands an item to the worker
	// asynchronously; drainAll re-establishes it.
	settled := true
	steps := 24
	violated := false
	report := func(sig string, detail interface{}) {
		violated = true
		run.Violation(sig, caseID, map[string]interface{}{"max": max, "ops": ops, "detail": detail})
	}
	for s := 0; s < steps && !violated; s++ {
		k := r.Intn(100)
		after := ""
		switch {
		case k < 62:
			var class string
			if withMismatch && r.Intn(4) == 0 {
				class = bClassesMismatch[r.Intn(len(bClassesMismatch))]
			} else {
				class = bClassesHonest[r.Intn(len(bClassesHonest))]
			}
			tb0 := env.mc.TotalBytes()
			if lastInMem != nil && !env.cas.CheckInMemCache(lastInMem.name) {
				lastInMem = nil
			}
			w := genWrite(r, class, max-min64(tb0, max), max, lastInMem)
			already := env.cas.CheckInMemCache(w.name)
			var err error
			if class == "dup-conc" {
				var wg sync.WaitGroup
				errs := make([]error, 2)
				for g := 0; g < 2; g++ {
					wg.Add(1)
					go func(g int) { defer wg.Done(); c := *w; errs[g] = c.do(env.cas) }(g)
				}
				wg.Wait()
				err = errs[0]
				if err == nil {
					err = errs[1]
				}
			} else {
				err = w.do(env.cas)
			}
			inMem := env.cas.CheckInMemCache(w.name)
			ops = append(ops, bOp{Op: "write", Class: class, Len: len(w.stream), Claimed: w.claimed, PL: w.pl, Err: err != nil, InMem: inMem, Name: w.name[:8]})
			run.Count("B_write_"+class, 1)
			if class != "ok" && class != "denied" {
				special++
			}
			if inMem {
				memPath++
				run.Count("B_memory_path_taken", 1)
				if !already {
					lastInMem = w
				}
			}
			after = class
			// reservation decision (sequential, nothing else reserving): an
			// honest successful write goes to memory iff it fits the budget.
			if settled && (class == "ok" || class == "denied") {
				run.Count("B_reservation_decisions_checked", 1)
			}
			if settled && class == "ok" && !already && err == nil {
				fits := w.claimed <= max-min64(tb0, max)
				if inMem != fits {
					report("castore-writethrough/reservation-decision-mismatch", map[string]interface{}{"fits": fits, "inmem": inMem, "total_before": tb0, "size": w.claimed})
					continue
				}
			}
			if settled && class == "denied" && inMem {
				report("castore-writethrough/admitted-over-budget", map[string]interface{}{"total_before": tb0, "size": w.claimed})
				continue
			}
			if (class == "cb-fail" || class == "mi-fail") && err == nil {
				report("castore-writethrough/failing-write-returned-nil/"+class, nil)
				continue
			}
		case k < 78:
			env.cas.VerifC13DrainNext()
			ops = append(ops, bOp{Op: "drain1"})
			run.Count("B_drain1", 1)
			after = "drain"
		case k < 86:
			if !env.drainAll() {
				run.Inconclusive("C13 B: drainAll watchdog")
				return
			}
			settled = true
			ops = append(ops, bOp{Op: "drainAll"})
			run.Count("B_drainAll", 1)
			after = "drain"
		case k < 94:
			env.advance(100*time.Millisecond + time.Millisecond)
			settled = false
			ops = append(ops, bOp{Op: "tick"})
			run.Count("B_tick", 1)
			after = "tick"
		default:
			// TTL expiry: advance past TTL + one TTL interval in small hops so
			// the TTL worker sees every entry older than the TTL. With the
			// fast TTL this happens before the next drain tick.
			n0, q0 := env.mc.NumEntries(), env.cas.VerifC13DrainQueueLen()
			if fastTTL {
				for h := 0; h < 3; h++ {
					env.advance(31 * time.Millisecond)
				}
			} else {
				env.advance(env.ttl + time.Second)
				env.advance(4*time.Second + time.Millisecond)
			}
			if n1, q1 := env.mc.NumEntries(), env.cas.VerifC13DrainQueueLen(); n1 < n0 && q1 >= q0 {
				run.Count("B_entries_removed_by_ttl_before_drain", int64(n0-n1))
			}
			settled = false
			ops = append(ops, bOp{Op: "ttl"})
			run.Count("B_ttl", 1)
			after = "ttl"
		}
		sig, detail, ok := env.checkBalance()
		if !ok {
			run.Inconclusive("C13 B: no stable snapshot")
			return
		}
		if sig != "" {
			report("castore-writethrough/"+sig+"/after-"+after, detail)
		}
	}
	if !violated {
		if !env.drainAll() {
			run.Inconclusive("C13 B: final drainAll watchdog")
			return
		}
		if tb := env.mc.TotalBytes(); tb != 0 {
			report("castore-writethrough/nonzero-when-empty", map[string]uint64{"TotalBytes": tb})
		}
	}
	run.Case("B|"+fmt.Sprint(max, fastTTL)+"|"+ev.JSON(ops), memPath > 0 && special > 0)
	if i%37 == 0 && run.WantSample() {
		cut := ops
		if len(cut) > 10 {
			cut = cut[:10]
		}
		run.Sample(map[string]interface{}{"part": "B-seq", "max": max, "fast_ttl": fastTTL, "first_ops": cut})
	}
}

func min64(a, b uint64) uint64 {
	if a < b {
		return a
	}
	return b
}

// partBConcurrent: writers of all classes on one store, a drainer driving the
// real worker through clock ticks plus direct drain steps. Two variants: only
// classes whose stream length equals the reserved size, and all classes.
func partBConcurrent(t *testing.T, run *ev.Run) {
	n := run.N(6, 60)
	root := ev.TempDir(t, "c13c-")
	for i := 0; i < n; i++ {
		for _, variant := range []string{"honest-lengths", "with-length-mismatch"} {
			caseID := fmt.Sprintf("B-conc/%s/%d", variant, i)
			if skip(run, caseID) {
				continue
			}
			r0 := run.Rand(caseID)
			max := uint64(3000 + r0.Intn(6000))
			env := newStoreEnv(t, root, max, 2, 2, i%2 == 1)
			const G = 6
			seeds := make([]int64, G)
			for g := range seeds {
				seeds[g] = r0.Int63()
			}
			// a small pool of shared blobs => concurrent duplicates
			var pool []*bWrite
			for p := 0; p < 4; p++ {
				pool = append(pool, genWrite(r0, "ok", 0, max, nil))
			}
			var overMax atomic.Uint64
			var memPath, special atomic.Int64
			stop := make(chan struct{})
			var dwg sync.WaitGroup
			dwg.Add(1)
			go func() {
				defer dwg.Done()
				x := 0
				for {
					select {
					case <-stop:
						return
					default:
					}
					x++
					if x%2 == 0 {
						env.advance(100*time.Millisecond + time.Millisecond)
					} else {
						env.cas.VerifC13DrainNext()
					}
					if tb := env.mc.TotalBytes(); tb > max {
						overMax.Store(tb)
					}
				}
			}()
			var wg sync.WaitGroup
			for g := 0; g < G; g++ {
				wg.Add(1)
				go func(g int) {
					defer wg.Done()
					r := rand.New(rand.NewSource(seeds[g]))
					for s := 0; s < 25; s++ {
						var w *bWrite
						class := bClassesHonest[r.Intn(len(bClassesHonest))]
						if variant == "with-length-mismatch" && r.Intn(3) == 0 {
							class = bClassesMismatch[r.Intn(len(bClassesMismatch))]
						}
						if class == "dup-seq" || class == "dup-conc" {
							c := *pool[r.Intn(len(pool))]
							w = &c
						} else {
							tb := env.mc.TotalBytes()
							w = genWrite(r, class, max-min64(tb, max), max, nil)
						}
						_ = w.do(env.cas)
						if class != "ok" && class != "denied" {
							special.Add(1)
						}
						if env.cas.CheckInMemCache(w.name) {
							memPath.Add(1)
						}
						if tb := env.mc.TotalBytes(); tb > max {
							overMax.Store(tb)
						}
					}
				}(g)
			}
			wg.Wait()
			close(stop)
			dwg.Wait()
			run.Count("B_conc_writes", G*25)
			witness := map[string]interface{}{"max": max, "seeds": seeds, "variant": variant}
			if v := overMax.Load(); v != 0 {
				witness["TotalBytes"] = v
				run.Violation("castore-writethrough/concurrent/"+variant+"/total-above-max", caseID, witness)
			}
			sig, detail, ok := env.checkBalance()
			if !ok {
				run.Inconclusive("C13 B-conc: no stable snapshot")
			} else if sig != "" {
				witness["detail"] = detail
				run.Violation("castore-writethrough/concurrent/"+variant+"/"+sig, caseID, witness)
			} else if !env.drainAll() {
				run.Inconclusive("C13 B-conc: drainAll watchdog")
			} else if tb := env.mc.TotalBytes(); tb != 0 {
				witness["TotalBytes"] = tb
				run.Violation("castore-writethrough/concurrent/"+variant+"/nonzero-when-empty", caseID, witness)
			}
			env.close()
			run.Case(fmt.Sprintf("B-conc|%s|%d|%v", variant, max, seeds), memPath.Load() > 0 && special.Load() > 0)
		}
	}
}

// ---------------------------------------------------------------------------
// Part C: LRUCache

type cOp struct {
	Op  string `json:"op"`
	Key string `json:"k,omitempty"`
}

type lruModel struct {
	cap   int
	order []string // oldest first
}

func (m *lruModel) idx(k string) int {
	for i, x := range m.order {
		if x == k {
			return i
		}
	}
	return -1
}

func (m *lruModel) add(k string) (evicted, refreshed bool) {
	if i := m.idx(k); i >= 0 {
		m.order = append(append(m.order[:i:i], m.order[i+1:]...), k)
		return false, true
	}
	m.order = append(m.order, k)
	for len(m.order) > m.cap {
		m.order = m.order[1:]
		evicted = true
	}
	return evicted, false
}

func (m *lruModel) del(k string) {
	if i := m.idx(k); i >= 0 {
		m.order = append(m.order[:i:i], m.order[i+1:]...)
	}
}

func partCModel(run *ev.Run) {
	n := run.N(2500, 60000)
	for i := 0; i < n; i++ {
		caseID := fmt.Sprintf("C-model/%d", i)
		if skip(run, caseID) {
			continue
		}
		r := run.Rand(caseID)
		capN := 1 + r.Intn(8)
		universe := capN + 1 + r.Intn(5)
		keys := make([]string, universe)
		for j := range keys {
			keys[j] = fmt.Sprintf("k%d", j)
		}
		c := cache.NewLRUCache(cache.LRUCacheConfig{Size: capN, TTL: time.Hour})
		m := &lruModel{cap: capN}
		var ops []cOp
		var evictions, refreshes int
		bad := false
		for s := 0; s < 80 && !bad; s++ {
			k := keys[r.Intn(universe)]
			switch x := r.Intn(100); {
			case x < 60:
				c.Add(k)
				e, rf := m.add(k)
				if e {
					evictions++
				}
				if rf {
					refreshes++
				}
				ops = append(ops, cOp{"add", k})
				run.Count("C_add", 1)
			case x < 75:
				c.Delete(k)
				m.del(k)
				ops = append(ops, cOp{"del", k})
				run.Count("C_delete", 1)
			case x < 78:
				c.Clear()
				m.order = nil
				ops = append(ops, cOp{"clear", ""})
			default:
				_ = c.Has(k) // a lookup is not a refresh
				ops = append(ops, cOp{"has", k})
			}
			if sz := c.Size(); sz > capN {
				bad = true
				run.Violation("lru/size-above-capacity", caseID, map[string]interface{}{"cap": capN, "size": sz, "ops": ops})
				break
			} else if sz != len(m.order) {
				bad = true
				run.Violation("lru/size-mismatch", caseID, map[string]interface{}{"cap": capN, "size": sz, "want": len(m.order), "ops": ops})
				break
			}
			for _, kk := range keys {
				if got, want := c.Has(kk), m.idx(kk) >= 0; got != want {
					bad = true
					sig := "lru/key-dropped-out-of-order"
					if got {
						sig = "lru/key-kept-that-should-have-been-evicted"
					}
					run.Violation(sig, caseID, map[string]interface{}{"cap": capN, "key": kk, "has": got, "model_order": m.order, "ops": ops})
					break
				}
			}
		}
		run.Case(fmt.Sprintf("C|%d|%d|%s", capN, universe, ev.JSON(ops)), evictions > 0 && refreshes > 0)
		if i%809 == 0 && run.WantSample() {
			cut := ops
			if len(cut) > 16 {
				cut = cut[:16]
			}
			run.Sample(map[string]interface{}{"part": "C-model", "cap": capN, "universe": universe, "first_ops": cut})
		}
	}
}

// partCExpiry: sound direction only. After a real sleep longer than the TTL
// every key added before the sleep must be reported absent, whatever was
// refreshed or evicted before.
func partCExpiry(run *ev.Run) {
	n := run.N(16, 100)
	var wg sync.WaitGroup
	for i := 0; i < n; i++ {
		caseID := fmt.Sprintf("C-ttl/%d", i)
		if skip(run, caseID) {
			continue
		}
		wg.Add(1)
		go func(i int) {
			defer wg.Done()
			r := run.Rand(caseID)
			ttl := time.Duration(5+r.Intn(20)) * time.Millisecond
			capN := 2 + r.Intn(6)
			c := cache.NewLRUCache(cache.LRUCacheConfig{Size: capN, TTL: ttl})
			var ops []cOp
			rounds := 3
			for round := 0; round < rounds; round++ {
				var added []string
				for s := 0; s < 10; s++ {
					k := fmt.Sprintf("k%d", r.Intn(capN+3))
					c.Add(k)
					added = append(added, k)
					ops = append(ops, cOp{"add", k})
					if sz := c.Size(); sz > capN {
						run.Violation("lru/size-above-capacity", caseID, map[string]interface{}{"cap": capN, "size": sz, "ops": ops})
					}
				}
				time.Sleep(ttl + 15*time.Millisecond)
				ops = append(ops, cOp{"sleep>ttl", ""})
				for _, k := range added {
					run.Count("C_expiry_probes", 1)
					if c.Has(k) {
						run.Violation("lru/reports-expired-key", caseID, map[string]interface{}{"ttl_ms": ttl / time.Millisecond, "key": k, "ops": ops})
						break
					}
				}
			}
			run.Case(fmt.Sprintf("C-ttl|%d|%d|%s", capN, ttl, ev.JSON(ops)), true)
		}(i)
	}
	wg.Wait()
}

func partCConcurrent(run *ev.Run) {
	n := run.N(20, 300)
	const G = 8
	for i := 0; i < n; i++ {
		caseID := fmt.Sprintf("C-conc/%d", i)
		if skip(run, caseID) {
			continue
		}
		r0 := run.Rand(caseID)
		capN := 2 + r0.Intn(6)
		c := cache.NewLRUCache(cache.LRUCacheConfig{Size: capN, TTL: time.Hour})
		seeds := make([]int64, G)
		for g := range seeds {
			seeds[g] = r0.Int63()
		}
		var over atomic.Int64
		var wg sync.WaitGroup
		for g := 0; g < G; g++ {
			wg.Add(1)
			go func(g int) {
				defer wg.Done()
				r := rand.New(rand.NewSource(seeds[g]))
				for s := 0; s < 300; s++ {
					k := fmt.Sprintf("k%d", r.Intn(capN+4))
					switch x := r.Intn(10); {
					case x < 6:
						c.Add(k)
					case x < 8:
						c.Delete(k)
					default:
						_ = c.Has(k)
					}
					if sz := c.Size(); sz > capN {
						over.Store(int64(sz))
					}
				}
			}(g)
		}
		wg.Wait()
		run.Count("C_conc_ops", G*300)
		if v := over.Load(); v != 0 {
			run.Violation("lru/concurrent/size-above-capacity", caseID, map[string]interface{}{"cap": capN, "size": v, "seeds": seeds})
		}
		// quiescent: filling with fresh keys must leave exactly those keys
		var fresh []string
		for j := 0; j < capN; j++ {
			k := fmt.Sprintf("fresh%d", j)
			c.Add(k)
			fresh = append(fresh, k)
		}
		okAll := c.Size() == capN
		for _, k := range fresh {
			okAll = okAll && c.Has(k)
		}
		if !okAll {
			run.Violation("lru/concurrent/inconsistent-after-quiescence", caseID, map[string]interface{}{"cap": capN, "size": c.Size(), "seeds": seeds})
		}
		run.Case(fmt.Sprintf("C-conc|%d|%v", capN, seeds), true)
	}
}
