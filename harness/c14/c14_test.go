// C14: no input from a remote peer can crash or corrupt a peer.
//
// Hostile-peer engine. A REAL agent scheduler and a REAL origin scheduler run
// in child processes (built by this test from /repo with `-tags verif`), each
// under both bandwidth-limiter settings. The parent attacks them over raw TCP
// with length-prefixed p2p frames (generated field values for every message
// type, hostile handshakes, byte-level mutations, hostile streams), while
//
//   - an honest canary peer, connected throughout, must keep getting exact
//     piece bytes on the SAME connection after every hostile session,
//   - the child must stay alive (panic / fatal error in its stderr = violation;
//     every hostile input is on disk before it is sent, so the crash names it),
//   - runtime.MemStats.TotalAlloc of the child may grow by at most
//     8 x (blob length + 32 KiB max message) per frame plus 256 x the bytes
//     actually sent (bounded amplification of received bytes is not "unbounded"),
//   - every payload the child serves must be the exact bytes of an existing piece,
//   - the store tree must not change, completed pieces keep their bytes, the
//     in-progress torrent keeps its length and finally completes byte-exact
//     from an honest seeder; goroutines and fds return to baseline after every
//     session,
//   - hostile handshakes must not use up connection slots: after a flood of 12
//     hostile handshakes of one class per torrent an honest newcomer must still
//     be admitted (answered) on both torrents.
package c14

import (
	"bytes"
	"crypto/sha256"
	"encoding/hex"
	"encoding/json"
	"fmt"
	"math/rand"
	"os"
	"os/exec"
	"path/filepath"
	"sort"
	"strings"
	"sync"
	"testing"
	"time"

	"github.com/uber/kraken/gen/go/proto/p2p"

	"verif/harness/internal/ev"
)

const namespace = "c14/ns"

// session is one connection's worth of hostile input.
type session struct {
	Index     int
	Kind      string // handshake | single | stream
	Target    int
	PeerID    string
	Handshake []byte   // first frame (valid or hostile)
	Frames    [][]byte // frames after the handshake (lead-in valid frames and hostile ones)
	// WaitForRequest: after the handshake, wait (bounded) for a PIECE_REQUEST from
	// the child before sending the stream, so that the payloads are solicited.
	WaitForRequest bool
	Sentinel       int // piece requested last to learn that everything before was dispatched

	// derived by analysing the stream the way the receiver parses it
	hs      parsed
	parsedF []parsed
	hostile []string // classes of hostile frames in parse order
	stall   bool
	closes  bool
}

// hugeClass returns the class of the first frame that declares >= 512 MiB.
func (s *session) hugeClass() string {
	if s.hs.Huge {
		return s.hs.Class
	}
	for _, p := range s.parsedF {
		if p.Huge {
			return p.Class
		}
	}
	return ""
}

// declared returns the largest size a frame of the session declares, and the
// class of that frame.
func (s *session) declared() (int64, string) {
	max, class := s.hs.Declared, s.hs.Class
	for _, p := range s.parsedF {
		if p.Declared > max {
			max, class = p.Declared, p.Class
		}
	}
	return max, class
}

func (s *session) stream() []byte {
	var b []byte
	for _, f := range s.Frames {
		b = append(b, f...)
	}
	return b
}

func (s *session) key() string {
	h := sha256.New()
	h.Write(s.Handshake)
	h.Write(s.stream())
	return fmt.Sprintf("%s|t%d|%s", s.Kind, s.Target, hex.EncodeToString(h.Sum(nil)[:12]))
}

type world struct {
	name    string
	role    string
	limiter bool
	run     *ev.Run
	bin     string
	dir     string
	geoms   []*geom
	have    []int // pieces of geoms[1] present at start (agent)

	ch        *child
	gen       int
	canaries  [2]*peerConn // one honest peer per torrent, connected for the child's lifetime
	canaryIDs [2]string
	base      stats
	baseFds   int
	tree      map[string]string

	last     stats
	haveLast bool
	prevB    []byte // in-progress download file after the previous session

	needRestart bool

	probeRand    *rand.Rand
	claimed      map[string]string // peer ids of the honest peers connected to the child and the child's own id
	floodDone    bool
	allocCount   map[string]int
	allocClass   map[string]bool // classes that produced an allocation violation in this world
	crashedClass map[string]int
	hugeSeen     map[string]bool // classes whose >=512 MiB declaration already produced an alloc violation here
	allocBound   uint64
}

var t0 = time.Now()

func (w *world) logf(format string, args ...interface{}) {
	if os.Getenv("VERIF_C14_DEBUG") != "" {
		fmt.Printf("%8.3f [%s] %s\n", time.Since(t0).Seconds(), w.name, fmt.Sprintf(format, args...))
	}
}

// analyse classifies the session's frames the way the receiver will parse them.
func (w *world) analyse(s *session) {
	g := w.geoms[s.Target]
	s.hs = classifyFrame(stHandshake, s.Handshake, w.geoms, g)
	s.hostile = nil
	s.parsedF = nil
	s.stall, s.closes = false, false
	if s.hs.Hostile {
		s.hostile = append(s.hostile, s.hs.Class)
	}
	if s.hs.Stall {
		s.stall = true
		return
	}
	if s.hs.Closes {
		s.closes = true
		return
	}
	st := s.stream()
	for len(st) > 0 {
		p := classifyFrame(stEstablished, st, w.geoms, g)
		s.parsedF = append(s.parsedF, p)
		if p.Hostile {
			s.hostile = append(s.hostile, p.Class)
		}
		if p.Stall {
			s.stall = true
			return
		}
		if p.Closes {
			s.closes = true
			return
		}
		st = st[p.Consumed:]
	}
}

func (w *world) completePieces(t int) []int {
	g := w.geoms[t]
	if w.role == "agent" && t == 1 {
		return w.have
	}
	out := make([]int, g.N)
	for i := range out {
		out[i] = i
	}
	return out
}

func (w *world) genSession(r *rand.Rand, idx int) *session {
	s := &session{Index: idx, Target: r.Intn(2), PeerID: randPeerID(r)}
	g := w.geoms[s.Target]
	other := w.geoms[1-s.Target]
	cp := w.completePieces(s.Target)
	s.Sentinel = cp[r.Intn(len(cp))]
	validHS := func() []byte {
		var set func(int) bool
		switch r.Intn(3) {
		case 0:
			set = func(int) bool { return false }
		case 1:
			set = func(int) bool { return true }
		default:
			set = func(int) bool { return r.Intn(2) == 0 }
		}
		return frame(handshakeMsg(g, s.PeerID, bitsetBytes(g.N, set)))
	}
	leadIn := func() {
		for n := r.Intn(3); n > 0; n-- {
			i := cp[r.Intn(len(cp))]
			if i == s.Sentinel {
				continue
			}
			s.Frames = append(s.Frames, frame(pieceRequest(i, 0, g.pieceLen(i))))
		}
	}
	switch k := r.Intn(23); {
	case k >= 21:
		// Impersonation: a well-formed handshake for a held torrent that carries the
		// peer id of an honest peer already connected to the child (or the child's
		// own id), with valid or invalid remaining fields. The victim is judged by
		// the canary oracle on ITS connection.
		s.Kind = "impersonate"
		var id string
		switch r.Intn(4) {
		case 0, 1:
			id = w.canaryIDs[s.Target] // the peer connected for this very torrent
		case 2:
			id = w.canaryIDs[1-s.Target]
		default:
			id = w.ch.peerID
		}
		s.PeerID = id
		m := handshakeMsg(g, id, bitsetBytes(g.N, func(int) bool { return r.Intn(2) == 0 }))
		switch r.Intn(8) {
		case 0:
			m.Bitfield.BitfieldBytes = bitsetBytes(r.Intn(g.N), func(int) bool { return true })
		case 1:
			m.Bitfield.Namespace = "other/ns"
		case 2:
			m.Bitfield.RemoteBitfieldBytes = map[string][]byte{w.canaryIDs[1-s.Target]: bitsetBytes(g.N, func(int) bool { return true })}
		case 3:
			m.Bitfield.InfoHash = other.MetaInfo.InfoHash().String()
		}
		s.Handshake = frame(m)
		leadIn()
	case k == 20:
		// Solicited: announce every piece, wait until the child asks for some, then
		// answer with hostile payloads for every piece it may have asked for (the
		// pieces missing at start, the short last one included).
		s.Kind = "solicited"
		s.WaitForRequest = true
		s.Handshake = frame(handshakeMsg(g, s.PeerID, bitsetBytes(g.N, func(int) bool { return true })))
		missing := []int{g.N - 1}
		if w.role == "agent" && s.Target == 1 {
			missing = nil
			have := map[int]bool{}
			for _, i := range w.have {
				have[i] = true
			}
			for i := 0; i < g.N; i++ {
				if !have[i] {
					missing = append(missing, i)
				}
			}
		}
		for _, i := range missing {
			switch r.Intn(3) {
			case 0:
				b := append([]byte{}, g.piece(i)...)
				b[r.Intn(len(b))] ^= 0x40
				s.Frames = append(s.Frames, append(frame(piecePayload(i, 0, g.pieceLen(i))), b...))
			default:
				s.Frames = append(s.Frames, genWrongLengthPayload(r, g, i))
			}
		}
	case k < 7:
		s.Kind = "handshake"
		s.Handshake = genHandshakeFrame(r, g, other)
	case k < 17:
		s.Kind = "single"
		s.Handshake = validHS()
		leadIn()
		s.Frames = append(s.Frames, genEstablishedFrame(r, g))
	default:
		s.Kind = "stream"
		s.Handshake = validHS()
		leadIn()
		for n := 2 + r.Intn(4); n > 0; n-- {
			s.Frames = append(s.Frames, genEstablishedFrame(r, g))
		}
	}
	w.analyse(s)
	return s
}

// ---------------------------------------------------------------------------

func (w *world) spec() childSpec {
	ownID := sha256.Sum256([]byte("child|" + w.name))
	sp := childSpec{Role: w.role, Namespace: namespace, Limiter: w.limiter, PeerID: hex.EncodeToString(ownID[:20])}
	for i, g := range w.geoms {
		f := filepath.Join(w.dir, fmt.Sprintf("blob%d", i))
		if _, err := os.Stat(f); err != nil {
			if err := os.WriteFile(f, g.Content, 0o644); err != nil {
				panic(err)
			}
		}
		bs := blobSpec{File: f, PieceLength: g.PieceLength, All: true}
		if w.role == "agent" && i == 1 {
			bs.All, bs.Have = false, w.have
		}
		sp.Blobs = append(sp.Blobs, bs)
	}
	return sp
}

func (w *world) storeDir() string { return filepath.Join(w.dir, fmt.Sprintf("gen%d", w.gen), "store") }

// start launches a fresh child, connects the canary and records baselines.
func (w *world) start() error {
	w.gen++
	w.prevB, w.needRestart = nil, false
	w.logf("starting child gen %d", w.gen)
	defer func() { w.logf("child started") }()
	ch, err := startChild(w.bin, filepath.Join(w.dir, fmt.Sprintf("gen%d", w.gen)), w.spec())
	if err != nil {
		return err
	}
	w.ch = ch
	w.run.Count("children_started", 1)
	if w.role == "agent" {
		if _, err := ch.call(map[string]interface{}{"op": "download", "digest": w.geoms[1].Digest.Hex()}); err != nil {
			return fmt.Errorf("start download: %v", err)
		}
	}
	if err := w.connectCanary(); err != nil {
		return err
	}
	// warm the paths the monitors use, then take baselines
	if ok, why := w.canaryCheck(0); !ok {
		return fmt.Errorf("canary does not work on a fresh child: %s", why)
	}
	// baseline = a goroutine count that stayed the same over several consecutive
	// samples (helper goroutines of the canary's handshake wind down first)
	same := 0
	for i := 0; i < 400 && same < 6; i++ {
		st, err := ch.stats()
		if err != nil {
			return err
		}
		if i > 0 && st.Goroutines == w.base.Goroutines {
			same++
		} else {
			same = 0
		}
		w.base = st
		time.Sleep(3 * time.Millisecond)
	}
	w.baseFds = ch.fds()
	w.last, w.haveLast = w.base, true
	skip := ""
	if w.role == "agent" {
		skip = w.geoms[1].Digest.Hex()
	}
	w.tree = snapshotTree(w.storeDir(), skip)
	return nil
}

// canaryID is a function of the world only, so that generated sessions can
// name it.
func (w *world) canaryID(t int) string {
	h := sha256.Sum256([]byte(fmt.Sprintf("canary|%s|%d", w.name, t)))
	return hex.EncodeToString(h[:20])
}

func (w *world) connectCanary() error {
	for t := 0; t < 2; t++ {
		g := w.geoms[t]
		pc, err := dialPeer(w.ch.port)
		if err != nil {
			return err
		}
		w.canaryIDs[t] = w.canaryID(t)
		if err := pc.send(frame(handshakeMsg(g, w.canaryIDs[t], bitsetBytes(g.N, func(int) bool { return false })))); err != nil {
			return err
		}
		f, ok := pc.next(20 * time.Second)
		if !ok || f.Err != nil || f.Msg.Type != p2p.Message_BITFIELD {
			return fmt.Errorf("canary %d handshake not answered: %+v ok=%v", t, f.Err, ok)
		}
		w.canaries[t] = pc
	}
	w.claimed[w.canaryIDs[0]] = "canary"
	w.claimed[w.canaryIDs[1]] = "canary"
	w.claimed[w.ch.peerID] = "own"
	return nil
}

// canaryCheck requests a complete piece of each torrent on the canaries'
// long-lived connections (never re-dialled before this check).
// why: "" ok | "closed" | "watchdog" | "wrong-bytes".
func (w *world) canaryCheck(k int) (bool, string) {
	for t := 0; t < 2; t++ {
		g := w.geoms[t]
		cp := w.completePieces(t)
		i := cp[k%len(cp)]
		pc := w.canaries[t]
		if err := pc.send(frame(pieceRequest(i, 0, g.pieceLen(i)))); err != nil {
			return false, "closed"
		}
		deadline := time.Now().Add(20 * time.Second)
		got := false
		for !got {
			f, ok := pc.next(time.Until(deadline))
			if !ok {
				return false, "watchdog"
			}
			if f.Err != nil {
				return false, "closed"
			}
			if f.Msg.Type == p2p.Message_PIECE_PAYLOAD && f.Msg.PiecePayload != nil && int(f.Msg.PiecePayload.Index) == i {
				if !bytes.Equal(f.Payload, g.piece(i)) {
					return false, "wrong-bytes"
				}
				got = true
			}
		}
	}
	return true, ""
}

type outcome struct {
	HandshakeAnswered bool
	ClosedByChild     bool
	SentinelAnswered  bool
	Unresponsive      bool
	Crashed           bool
	AllocDelta        uint64
	Quiesced          bool
	Delivered         bool // the hostile bytes reached a live child past the point where they are parsed
	Served            []string
	Problems          []problem
}

type problem struct {
	Symptom string
	Detail  interface{}
}

// checkServed validates a frame the child sent to a peer: every payload must be
// an existing piece's exact bytes.
func (w *world) checkServed(t int, f recvFrame, o *outcome) {
	if f.Msg == nil || f.Msg.Type != p2p.Message_PIECE_PAYLOAD {
		return
	}
	g := w.geoms[t]
	pp := f.Msg.PiecePayload
	if pp == nil {
		o.Problems = append(o.Problems, problem{"served-payload-without-body", nil})
		return
	}
	if pp.Index < 0 || int(pp.Index) >= g.N {
		o.Problems = append(o.Problems, problem{"served-nonexistent-piece", map[string]interface{}{"index": pp.Index, "length": pp.Length, "num_pieces": g.N}})
		return
	}
	if !bytes.Equal(f.Payload, g.piece(int(pp.Index))) {
		o.Problems = append(o.Problems, problem{"served-wrong-bytes", map[string]interface{}{"index": pp.Index, "length": pp.Length}})
	}
}

func (w *world) writeInput(s *session, tag string) string {
	p := filepath.Join(w.dir, fmt.Sprintf("gen%d", w.gen), "inputs")
	_ = os.MkdirAll(p, 0o755)
	fn := filepath.Join(p, fmt.Sprintf("%06d%s.json", s.Index, tag))
	b, _ := json.Marshal(w.describe(s))
	_ = os.WriteFile(fn, b, 0o644)
	return fn
}

func hexCap(b []byte) string {
	if len(b) > 600 {
		return hex.EncodeToString(b[:600]) + fmt.Sprintf("...(+%d bytes)", len(b)-600)
	}
	return hex.EncodeToString(b)
}

func (w *world) describe(s *session) map[string]interface{} {
	var fr []string
	for _, f := range s.Frames {
		fr = append(fr, hexCap(f))
	}
	var cls []string
	for _, p := range s.parsedF {
		cls = append(cls, p.Class)
	}
	g := w.geoms[s.Target]
	return map[string]interface{}{
		"world": w.name, "index": s.Index, "kind": s.Kind, "target": s.Target,
		"torrent":         map[string]interface{}{"digest": g.Digest.Hex(), "num_pieces": g.N, "piece_length": g.PieceLength, "length": len(g.Content)},
		"handshake_class": s.hs.Class, "handshake_hex": hexCap(s.Handshake),
		"frames_hex": fr, "frame_classes_as_parsed": cls, "hostile_classes": s.hostile,
		"sentinel_piece": s.Sentinel, "expect_stall": s.stall, "expect_framing_close": s.closes,
	}
}

// runSession plays one session against the current child and applies the
// per-session oracles. upto >= 0 limits the stream to its first upto bytes
// (used when bisecting a crash).
func (w *world) runSession(s *session, upto int) outcome {
	var o outcome
	g := w.geoms[s.Target]
	pre := w.last
	if !w.haveLast {
		var err error
		pre, err = w.ch.stats()
		if err != nil {
			o.Crashed = !w.ch.alive() || w.ch.waitExit(10*time.Second)
			return o
		}
	}
	w.writeInput(s, "") // on disk BEFORE anything is sent
	pc, err := dialPeer(w.ch.port)
	if err != nil {
		o.Crashed = !w.ch.alive()
		return o
	}
	defer pc.close()

	settle := 150 * time.Millisecond
	finish := func() outcome {
		pc.close()
		// canary: same connection as before the session
		ok, why := w.canaryCheck(s.Index)
		if !ok {
			if !w.ch.alive() || w.ch.waitExit(10*time.Second) {
				o.Crashed = true
				return o
			}
			switch why {
			case "watchdog":
				o.Problems = append(o.Problems, problem{"canary-watchdog", nil})
			default:
				// an honest peer's established connection was ended (or served wrong
				// bytes) by somebody else's input; the child is replaced afterwards
				o.Problems = append(o.Problems, problem{"canary-" + why, nil})
				w.needRestart = true
			}
		} else {
			w.run.Count("canary_checks_ok", 1)
		}
		// Synchronise: the connection's read/write/feed goroutines are gone (and
		// its fd is closed) only after everything queued on it was dispatched, so
		// a crash caused by this session cannot surface during the next one. The
		// same observation is the per-session goroutine/fd-leak monitor.
		deadline := time.Now().Add(20 * time.Second)
		if s.hugeClass() != "" {
			// a >=512 MiB declaration that is honoured keeps the connection's
			// goroutine busy clearing memory for a long time; the child is replaced
			// instead of waiting for it (see restartUnquiesced)
			deadline = time.Now().Add(3 * time.Second)
		}
		for {
			post, err := w.ch.stats()
			if err != nil {
				o.Crashed = !w.ch.alive() || w.ch.waitExit(10*time.Second)
				return o
			}
			fds := w.ch.fds()
			if post.Goroutines <= w.base.Goroutines && fds <= w.baseFds {
				o.Quiesced = true
				if (post.Goroutines < w.base.Goroutines || fds < w.baseFds) && !w.needRestart {
					// fewer than with the honest peers connected: one of THEIR
					// connections went away after the first canary check
					if ok, why := w.canaryCheck(s.Index + 1); !ok && why != "watchdog" {
						if !w.ch.alive() || w.ch.waitExit(10*time.Second) {
							o.Crashed = true
							return o
						}
						o.Problems = append(o.Problems, problem{"canary-" + why, nil})
						w.needRestart = true
					}
				}
			}
			if o.Quiesced || time.Now().After(deadline) {
				o.AllocDelta = post.TotalAlloc - pre.TotalAlloc
				w.last, w.haveLast = post, true
				return o
			}
			time.Sleep(2 * time.Millisecond)
		}
	}

	if err := pc.send(s.Handshake); err != nil {
		o.ClosedByChild = true
		return finish()
	}
	// wait for the child's handshake or for it to hang up
	hsWait := 10 * time.Second
	if s.hs.Stall {
		hsWait = settle
	}
	f, ok := pc.next(hsWait)
	switch {
	case !ok:
		if !s.hs.Stall {
			o.Unresponsive = true
		}
		o.Delivered = true
		return finish()
	case f.Err != nil:
		o.ClosedByChild = true
		o.Delivered = s.hs.Hostile
		return finish()
	case f.Msg.Type == p2p.Message_BITFIELD:
		o.HandshakeAnswered = true
	default:
		o.Problems = append(o.Problems, problem{"unexpected-first-frame-from-child", f.Msg.Type.String()})
	}
	o.Delivered = true

	if s.WaitForRequest {
		deadline := time.Now().Add(2 * time.Second)
		for {
			f, ok := pc.next(time.Until(deadline))
			if !ok || f.Err != nil {
				break // not asked (nothing missing / conn gone): the payloads stay unsolicited
			}
			if f.Msg.Type == p2p.Message_PIECE_REQUEST {
				w.run.Count("solicited_sessions_request_seen", 1)
				break
			}
		}
	}
	st := s.stream()
	if upto >= 0 && upto < len(st) {
		st = st[:upto]
	}
	sentinel := frame(pieceRequest(s.Sentinel, 0, g.pieceLen(s.Sentinel)))
	if err := pc.send(append(append([]byte{}, st...), sentinel...)); err != nil {
		o.ClosedByChild = true
		return finish()
	}
	wait := 5 * time.Second
	if s.stall {
		wait = settle
	}
	deadline := time.Now().Add(wait)
	for {
		f, ok := pc.next(time.Until(deadline))
		if !ok {
			if !s.stall {
				o.Unresponsive = true
			}
			break
		}
		if f.Err != nil {
			o.ClosedByChild = true
			break
		}
		w.checkServed(s.Target, f, &o)
		if f.Msg.Type == p2p.Message_PIECE_PAYLOAD && f.Msg.PiecePayload != nil && int(f.Msg.PiecePayload.Index) == s.Sentinel {
			o.SentinelAnswered = true
			break
		}
	}
	return finish()
}

// invariants checks the store after a session.
func (w *world) invariants(s *session) []problem {
	var ps []problem
	skip := ""
	if w.role == "agent" {
		skip = w.geoms[1].Digest.Hex()
	}
	now := snapshotTree(w.storeDir(), skip)
	if d := diffTree(w.tree, now); len(d) > 0 {
		ps = append(ps, problem{"store-tree-changed", d})
		w.tree = now
	}
	if w.role == "agent" {
		g := w.geoms[1]
		m, err := w.ch.call(map[string]interface{}{"op": "bitfield", "digest": g.Digest.Hex()})
		if err == nil && m["error"] == nil {
			df := findDataFile(w.storeDir(), g.Digest.Hex())
			b, rerr := os.ReadFile(df)
			// bytes of the in-progress file may change only inside the regions of the
			// pieces that this session's payload frames addressed
			if rerr == nil && w.prevB != nil && len(b) == len(w.prevB) && !bytes.Equal(b, w.prevB) {
				allowed := make([]bool, g.N)
				if s.Target == 1 {
					for _, p := range s.parsedF {
						if p.Msg != nil && p.Msg.Type == p2p.Message_PIECE_PAYLOAD && p.Msg.PiecePayload != nil {
							if i := int(p.Msg.PiecePayload.Index); i >= 0 && i < g.N {
								allowed[i] = true
							}
						}
					}
				}
				for i := 0; i < g.N; i++ {
					off := int64(i) * g.PieceLength
					end := off + g.pieceLen(i)
					if end > int64(len(b)) {
						break
					}
					if !allowed[i] && !bytes.Equal(b[off:end], w.prevB[off:end]) {
						ps = append(ps, problem{"inprogress-bytes-changed-outside-addressed-pieces", map[string]interface{}{"piece": i, "session_target": s.Target}})
						break
					}
				}
			}
			if rerr == nil {
				w.prevB = b
			}
			if rerr != nil || len(b) != len(g.Content) {
				ps = append(ps, problem{"inprogress-file-length-changed", map[string]interface{}{"file": df, "len": len(b), "want": len(g.Content)}})
			} else if set, ok := m["set"].([]interface{}); ok {
				for _, v := range set {
					i := int(v.(float64))
					if i < 0 || i >= g.N {
						ps = append(ps, problem{"inprogress-bitfield-out-of-range", i})
						continue
					}
					off := int64(i) * g.PieceLength
					if !bytes.Equal(b[off:off+g.pieceLen(i)], g.piece(i)) {
						ps = append(ps, problem{"completed-piece-bytes-changed", i})
					}
				}
			}
		}
	}
	return ps
}

func (w *world) signature(component, class, symptom string) string {
	s := "C14/" + component + "/" + class
	if symptom != "" {
		s += ":" + symptom
	}
	return s
}

func principal(s *session) string {
	if len(s.hostile) == 0 {
		return "no-hostile-frame"
	}
	return s.hostile[0]
}

// handleCrash attributes a crash to an input class and restarts the child.
// Sessions are synchronous (see runSession), so the crash belongs to s; when s
// carries several hostile frames the culprit is found by replaying growing
// prefixes of its stream on fresh children.
func (w *world) handleCrash(s *session) error {
	site := parseCrash(w.ch.stderrPath)
	w.ch.kill()
	w.run.Count("child_crashes", 1)
	culprit := principal(s)
	how := "single hostile frame in the session"
	if err := w.start(); err != nil {
		return err
	}
	if len(s.hostile) > 1 {
		how = "several hostile frames: the whole session is the witness (prefix replay did not reproduce)"
		culprit = "stream"
		off := 0
		for _, p := range s.parsedF {
			off += p.Consumed
			if !p.Hostile {
				continue
			}
			o := w.runSession(s, off)
			if o.Crashed || !w.ch.alive() {
				culprit = p.Class
				site = parseCrash(w.ch.stderrPath)
				w.ch.kill()
				if err := w.start(); err != nil {
					return err
				}
				how = "culprit frame found by replaying growing prefixes of the stream on fresh children"
				break
			}
		}
	}
	w.crashedClass[culprit]++
	w.run.Distinct("crash_sites", site.Func)
	sig := w.signature(site.Component, culprit, "")
	w.run.Violation(sig, fmt.Sprintf("%s|%d", w.name, s.Index), map[string]interface{}{
		"symptom": site.Kind, "headline": site.Headline, "first_kraken_frame": site.Func, "at": site.File,
		"stderr_excerpt": site.Excerpt, "attribution": how, "input": w.describe(s),
		"role": w.role, "bandwidth_limiter_enabled": w.limiter,
	})
	return nil
}

func (w *world) allocLimit(s *session) uint64 {
	nFrames := uint64(len(s.parsedF) + 2)
	return w.allocBound*nFrames + 256*uint64(len(s.Handshake)+len(s.stream()))
}

func (w *world) allocExceeds(s *session, o outcome) bool { return o.AllocDelta > w.allocLimit(s) }

func declaresLarge(s *session) bool {
	for _, c := range s.hostile {
		if strings.Contains(c, "oversized") {
			return true
		}
	}
	return false
}

func (w *world) report(s *session, o outcome) {
	class := principal(s)
	comp := componentOf(class)
	caseID := fmt.Sprintf("%s|%d", w.name, s.Index)
	bound := w.allocLimit(s)
	if o.AllocDelta > bound {
		// name the frame that declares the large size when there are several
		for _, c := range s.hostile {
			if strings.Contains(c, "oversized") {
				class, comp = c, componentOf(c)
				break
			}
		}
		w.run.Count("alloc_violations", 1)
		w.allocClass[class] = true
		w.allocCount[class]++
		if hc := s.hugeClass(); hc != "" {
			w.hugeSeen[hc] = true
		}
		w.run.Violation(w.signature(comp, class, "alloc"), caseID, map[string]interface{}{
			"symptom": "allocation", "total_alloc_delta_bytes": o.AllocDelta, "bound_bytes": bound,
			"bound": "8 x (blob length + 32 KiB) per frame + 256 x bytes actually sent", "input": w.describe(s),
			"role": w.role, "bandwidth_limiter_enabled": w.limiter,
		})
	}
	for _, p := range o.Problems {
		if p.Symptom == "canary-watchdog" {
			w.run.Inconclusive(fmt.Sprintf("%s session %d (%s): canary got no answer within the watchdog", w.name, s.Index, class))
			continue
		}
		w.run.Violation(w.signature(comp, class, p.Symptom), caseID, map[string]interface{}{
			"symptom": p.Symptom, "detail": p.Detail, "input": w.describe(s),
			"role": w.role, "bandwidth_limiter_enabled": w.limiter,
		})
	}
	inv := w.invariants(s)
	if len(inv) > 0 {
		w.needRestart = true // judge the next sessions on untouched files
	}
	// a store symptom is caused by a frame that writes: name the payload frame
	// (the over-long one first) when the session carries several hostile frames
	wclass, wcomp := class, comp
	for _, pref := range []string{"PIECE_PAYLOAD-overlong", "PIECE_PAYLOAD-"} {
		found := false
		for _, c := range s.hostile {
			if strings.HasPrefix(c, pref) {
				wclass, wcomp, found = c, componentOf(c), true
				break
			}
		}
		if found {
			break
		}
	}
	for _, p := range inv {
		w.run.Violation(w.signature(wcomp, wclass, p.Symptom), caseID, map[string]interface{}{
			"symptom": p.Symptom, "detail": p.Detail, "input": w.describe(s),
			"role": w.role, "bandwidth_limiter_enabled": w.limiter,
		})
	}
}

// restartUnquiesced: the child still has extra goroutines / fds long after the
// session's connection was closed. If a connection goroutine is still inside
// an allocation made for this session (a 2 GiB make+clear can take that long on
// a loaded machine) that is the allocation finding, not a leak; anything else
// is reported as a possible leak (inconclusive: only a time bound says so). The
// child is replaced so the next sessions are judged from a clean baseline.
func (w *world) restartUnquiesced(s *session) error {
	// give it one more (long) chance: on an overloaded machine the connection's
	// goroutines may simply not have been scheduled yet
	limit := time.Now().Add(40 * time.Second)
	if s.hugeClass() != "" {
		limit = time.Now().Add(2 * time.Second)
	}
	for time.Now().Before(limit) {
		st, err := w.ch.stats()
		if err != nil {
			break
		}
		if st.Goroutines <= w.base.Goroutines && w.ch.fds() <= w.baseFds {
			w.run.Count("sessions_quiesced_late", 1)
			w.last, w.haveLast = st, true
			return nil
		}
		time.Sleep(20 * time.Millisecond)
	}
	dump := ""
	if m, err := w.ch.call(map[string]interface{}{"op": "goroutines"}); err == nil {
		dump, _ = m["dump"].(string)
	}
	allocating := false
	for _, blk := range strings.Split(dump, "\n\n") {
		if (strings.Contains(blk, "conn.(*Conn).readPayload") || strings.Contains(blk, "conn.handshakeFromP2PMessage") ||
			strings.Contains(blk, "unmarshalBinary") || strings.Contains(blk, "conn.readMessage")) && !strings.Contains(blk, "internal/poll") {
			allocating = true
		}
	}
	if allocating {
		w.run.Count("restarts_allocation_still_in_progress", 1)
	} else {
		d := filepath.Join(ev.Root(), "replays", "C14")
		_ = os.MkdirAll(d, 0o755)
		fn := filepath.Join(d, fmt.Sprintf("leak-%s-s%d.txt", w.name, s.Index))
		_ = os.WriteFile(fn, []byte(dump), 0o644)
		st, _ := w.ch.stats()
		w.run.Inconclusive(fmt.Sprintf("%s session %d (%s): goroutines %d (baseline %d) / fds %d (baseline %d) did not return to baseline within the watchdog after the connection was closed; dump in %s",
			w.name, s.Index, principal(s), st.Goroutines, w.base.Goroutines, w.ch.fds(), w.baseFds, fn))
	}
	w.ch.kill()
	return w.start()
}

// quiesce: after all hostile connections are closed, goroutines and fds must
// return to the baseline taken with only the canary connected.
func (w *world) quiesce(tag string) {
	w.logf("quiesce %s", tag)
	defer w.logf("quiesce done")
	deadline := time.Now().Add(30 * time.Second)
	var st stats
	var fds int
	for {
		var err error
		st, err = w.ch.stats()
		if err != nil {
			return
		}
		fds = w.ch.fds()
		if st.Goroutines <= w.base.Goroutines && fds <= w.baseFds {
			w.run.Count("quiesce_checks_ok", 1)
			return
		}
		if time.Now().After(deadline) {
			break
		}
		time.Sleep(50 * time.Millisecond)
	}
	dump := ""
	if m, err := w.ch.call(map[string]interface{}{"op": "goroutines"}); err == nil {
		dump, _ = m["dump"].(string)
	}
	d := filepath.Join(ev.Root(), "replays", "C14")
	_ = os.MkdirAll(d, 0o755)
	fn := filepath.Join(d, fmt.Sprintf("leak-%s-%s.txt", w.name, tag))
	_ = os.WriteFile(fn, []byte(dump), 0o644)
	w.run.Inconclusive(fmt.Sprintf("%s: goroutines %d (baseline %d) / fds %d (baseline %d) did not return to baseline within 30s after closing every hostile connection; goroutine dump in %s",
		w.name, st.Goroutines, w.base.Goroutines, fds, w.baseFds, fn))
}

// finalCompletion: the agent's in-progress torrent must still complete with
// exact bytes from an honest seeder.
func (w *world) finalCompletion() {
	if w.role != "agent" {
		return
	}
	g := w.geoms[1]
	deadline := time.Now().Add(60 * time.Second)
	r := rand.New(rand.NewSource(99))
	done := false
	for attempt := 0; attempt < 20 && !done && time.Now().Before(deadline); attempt++ {
		pc, err := dialPeer(w.ch.port)
		if err != nil {
			break
		}
		_ = pc.send(frame(handshakeMsg(g, randPeerID(r), bitsetBytes(g.N, func(int) bool { return true }))))
		for !done {
			f, ok := pc.next(500 * time.Millisecond)
			if ok && f.Err != nil {
				break
			}
			if ok && f.Msg.Type == p2p.Message_PIECE_REQUEST && f.Msg.PieceRequest != nil {
				i := int(f.Msg.PieceRequest.Index)
				if i >= 0 && i < g.N {
					_ = pc.send(append(frame(piecePayload(i, 0, g.pieceLen(i))), g.piece(i)...))
				}
			}
			m, err := w.ch.call(map[string]interface{}{"op": "download_result", "digest": g.Digest.Hex()})
			if err != nil {
				break
			}
			if m["done"] == true {
				done = true
				if es, _ := m["err"].(string); es != "" {
					w.run.Violation("C14/agent/final-download-error", w.name+"|final", map[string]interface{}{"err": es})
				}
			}
			if time.Now().After(deadline) {
				break
			}
		}
		pc.close()
	}
	if !done {
		if !w.ch.alive() {
			return // reported as a crash by the caller's liveness check
		}
		w.run.Inconclusive(w.name + ": in-progress torrent did not complete from the honest seeder within the watchdog")
		return
	}
	df := findDataFile(filepath.Join(w.storeDir(), "cache"), g.Digest.Hex())
	b, err := os.ReadFile(df)
	if err != nil || !bytes.Equal(b, g.Content) {
		w.run.Violation("C14/agent/final-cache-bytes-differ", w.name+"|final", map[string]interface{}{"file": df, "len": len(b), "want_len": len(g.Content)})
		return
	}
	w.run.Count("final_completions_exact", 1)
}

// ---------------------------------------------------------------------------
// Admission: hostile handshakes must not use up a torrent's connection slots.

// probeAdmission opens a fresh honest connection to torrent t: the handshake
// must be answered (deterministic: answered or hung up). ok=false when the
// child is gone or did neither within the watchdog.
func (w *world) probeAdmission(t int, r *rand.Rand) (admitted, ok bool) {
	g := w.geoms[t]
	pc, err := dialPeer(w.ch.port)
	if err != nil {
		return false, false
	}
	defer pc.close()
	if err := pc.send(frame(handshakeMsg(g, randPeerID(r), bitsetBytes(g.N, func(int) bool { return false })))); err != nil {
		return false, true
	}
	f, got := pc.next(20 * time.Second)
	if !got {
		return false, false
	}
	if f.Err != nil {
		return false, w.ch.alive()
	}
	return f.Msg.Type == p2p.Message_BITFIELD, true
}

// waitQuiet waits (bounded) until the child's goroutines / fds are back to the
// baseline, i.e. every connection opened so far has been torn down.
func (w *world) waitQuiet(d time.Duration) bool {
	deadline := time.Now().Add(d)
	for {
		st, err := w.ch.stats()
		if err != nil {
			return false
		}
		if st.Goroutines <= w.base.Goroutines && w.ch.fds() <= w.baseFds {
			w.last, w.haveLast = st, true
			return true
		}
		if time.Now().After(deadline) {
			return false
		}
		time.Sleep(3 * time.Millisecond)
	}
}

const floodSize = 12 // > MaxOpenConnectionsPerTorrent (10, shipped default)

// floodCheck: for every hostile handshake class, floodSize consecutive hostile
// handshakes of that class (fresh peer ids), then an honest newcomer must still
// be admitted to both torrents. A refusal means the hostile handshakes leaked
// connection slots ("keeps serving" fails for every future peer).
func (w *world) floodCheck(r *rand.Rand) error {
	w.floodDone = true
	// the class list and the frames are functions of the seed only: up to
	// floodSize frames per (class, target torrent) out of a fixed-size sample
	type fkey struct {
		class string
		t     int
	}
	frames := map[fkey][][]byte{}
	stall := map[string]bool{}
	classes := map[string]bool{}
	for i := 0; i < 4000; i++ {
		t := i % 2
		fr := genHandshakeFrame(r, w.geoms[t], w.geoms[1-t])
		p := classifyFrame(stHandshake, fr, w.geoms, w.geoms[t])
		if !p.Hostile || p.Huge {
			continue
		}
		classes[p.Class] = true
		stall[p.Class] = p.Stall
		k := fkey{p.Class, t}
		if len(frames[k]) < floodSize {
			frames[k] = append(frames[k], fr)
		}
	}
	var names []string
	for c := range classes {
		names = append(names, c)
	}
	sort.Strings(names)
	for _, class := range names {
		if w.crashedClass[class] > 0 || w.allocClass[class] {
			// already reported for this world; not re-sent (each one costs a restart
			// or hundreds of MiB in the child)
			continue
		}
		sent := 0
		var sample [][]byte
		for t := 0; t < 2 && w.ch.alive(); t++ {
			for _, fr := range frames[fkey{class, t}] {
				sent++
				if len(sample) < 2 {
					sample = append(sample, fr)
				}
				pc, err := dialPeer(w.ch.port)
				if err != nil {
					break
				}
				_ = pc.send(fr)
				wait := 10 * time.Second
				if stall[class] {
					wait = 30 * time.Millisecond
				}
				for {
					f, ok := pc.next(wait)
					if !ok || f.Err != nil {
						break
					}
					wait = 30 * time.Millisecond // answered: nothing more is expected
				}
				pc.close()
			}
		}
		if sent == 0 {
			continue
		}
		w.run.Count("flood_classes_run", 1)
		w.logf("flood %s: %d handshakes sent", class, sent)
		w.run.Count("flood_handshakes_sent", int64(sent))
		quiet := w.waitQuiet(30 * time.Second)
		w.logf("flood %s: quiet=%v", class, quiet)
		desc := map[string]interface{}{
			"world": w.name, "class": class, "hostile_handshakes_sent": sent, "sample_frames_hex": []string{hexCap(sample[0])},
			"role": w.role, "bandwidth_limiter_enabled": w.limiter,
		}
		if !w.ch.alive() {
			site := parseCrash(w.ch.stderrPath)
			w.ch.kill()
			w.crashedClass[class]++
			w.run.Violation(w.signature(site.Component, class, ""), w.name+"|flood|"+class, map[string]interface{}{
				"symptom": site.Kind, "headline": site.Headline, "first_kraken_frame": site.Func, "at": site.File,
				"stderr_excerpt": site.Excerpt, "input": desc,
			})
			if err := w.start(); err != nil {
				return err
			}
			continue
		}
		// A leaked slot is permanent: an honest newcomer counts as refused only if
		// several fresh peers in a row are hung up on.
		refused := []int{}
		for t := 0; t < 2; t++ {
			admitted := false
			for attempt := 0; attempt < 3 && !admitted; attempt++ {
				adm, ok := w.probeAdmission(t, r)
				if !ok {
					w.run.Inconclusive(fmt.Sprintf("%s flood %s: admission probe got neither an answer nor a hang-up within the watchdog", w.name, class))
					admitted = true
					break
				}
				admitted = adm
				if !adm {
					w.run.Count("admission_probe_refusals", 1)
					w.waitQuiet(10 * time.Second)
				}
			}
			if !admitted {
				refused = append(refused, t)
			}
		}
		if ok, why := w.canaryCheck(0); !ok && why != "watchdog" && w.ch.alive() {
			w.run.Violation(w.signature("scheduler", class, "canary-"+why), w.name+"|flood|"+class, desc)
			w.ch.kill()
			if err := w.start(); err != nil {
				return err
			}
			continue
		}
		if len(refused) > 0 {
			desc["torrents_refusing_an_honest_newcomer"] = refused
			desc["quiet_before_probe"] = quiet
			desc["note"] = "only the canary was connected; the newcomer used a fresh peer id (no blacklist entry); max_open_conn is the shipped default 10"
			w.crashedClass[class]++ // not re-sent to this world's children
			w.run.Count("flood_leak_classes", 1)
			w.run.Violation(w.signature("scheduler", class, "new-connections-refused"), w.name+"|flood|"+class, desc)
			w.ch.kill()
			if err := w.start(); err != nil {
				return err
			}
			continue
		}
		if !quiet {
			w.run.Count("flood_not_quiet_within_watchdog", 1)
		}
		w.run.Count("flood_classes_admission_ok", 1)
		w.waitQuiet(30 * time.Second)
	}
	return nil
}

func (w *world) runAll(r *rand.Rand, n int, replayIdx int) {
	if err := w.start(); err != nil {
		w.run.Inconclusive(w.name + ": cannot start child: " + err.Error())
		return
	}
	defer func() {
		if w.ch != nil && w.ch.alive() {
			_, _ = w.ch.call(map[string]interface{}{"op": "quit"})
			if !w.ch.waitExit(10 * time.Second) {
				w.ch.kill()
			}
		}
	}()
	for k := 0; k < n; k++ {
		s := w.genSession(r, k)
		if replayIdx >= 0 && k != replayIdx {
			continue
		}
		// Execution-time suppression of classes that already crashed this world's
		// child (each crash costs a process restart and is already reported).
		if s.Kind == "stream" {
			var keep [][]byte
			g := w.geoms[s.Target]
			for _, f := range s.Frames {
				p := classifyFrame(stEstablished, f, w.geoms, g)
				if p.Hostile && w.crashedClass[p.Class] > 0 {
					w.run.Count("stream_frames_suppressed_known_crash", 1)
					continue
				}
				keep = append(keep, f)
			}
			s.Frames = keep
			w.analyse(s)
		}
		skip := false
		for _, c := range s.hostile {
			if w.crashedClass[c] > 0 {
				skip = true
			}
		}
		if skip {
			w.run.Count("sessions_skipped_known_crash_class", 1)
			continue
		}
		if d, dc := s.declared(); d >= 16<<20 && w.allocCount[dc] >= 3 {
			// and for >=16 MiB declarations once the class has produced three
			// allocation violations in this world
			w.run.Count("sessions_skipped_known_large_alloc_class", 1)
			continue
		}
		if hc := s.hugeClass(); hc != "" && w.hugeSeen[hc] {
			// same idea for >=512 MiB declarations: against code that honours them
			// every one commits and clears that much memory in the child
			w.run.Count("sessions_skipped_known_huge_alloc_class", 1)
			continue
		}
		w.logf("session %d %s %v", k, s.Kind, s.hostile)
		o := w.runSession(s, -1)
		w.logf("session %d done: %+v", k, o)
		for _, c := range s.hostile {
			w.run.Count("class/"+c, 1)
			w.run.Distinct("hostile_classes", w.role+"/"+c)
		}
		w.run.Count("sessions_"+s.Kind, 1)
		w.run.Count("frames_sent", int64(len(s.parsedF)+1))
		switch {
		case o.SentinelAnswered:
			w.run.Count("outcome_ignored_or_answered_conn_kept", 1)
		case o.ClosedByChild:
			w.run.Count("outcome_conn_closed_by_child", 1)
		case o.Unresponsive:
			w.run.Count("outcome_unresponsive", 1)
			w.logf("unresponsive: %s", ev.JSON(w.describe(s)))
			w.run.Distinct("unresponsive_classes", principal(s))
		default:
			w.run.Count("outcome_left_waiting_for_bytes", 1)
		}
		w.run.Case(w.name+"|"+s.key(), o.Delivered && len(s.hostile) > 0)
		if k%97 == 0 && w.run.WantSample() {
			w.run.Sample(w.describe(s))
		}
		if o.Crashed || !w.ch.alive() {
			if err := w.handleCrash(s); err != nil {
				w.run.Inconclusive(w.name + ": cannot restart child: " + err.Error())
				return
			}
			continue
		}
		if w.allocExceeds(s, o) && !declaresLarge(s) {
			// No frame of the session declares a large size: make sure the excess
			// belongs to this session (and is not the tail of an earlier session's
			// allocation) by playing it once more on the same child.
			o2 := w.runSession(s, -1)
			if o2.Crashed || !w.ch.alive() {
				if err := w.handleCrash(s); err != nil {
					w.run.Inconclusive(w.name + ": cannot restart child: " + err.Error())
					return
				}
				continue
			}
			if !w.allocExceeds(s, o2) {
				w.run.Count("alloc_excess_not_reproduced_on_replay", 1)
				o.AllocDelta = 0
			}
		}
		w.report(s, o)
		if w.needRestart {
			w.run.Count("restarts_after_store_violation", 1)
			w.ch.kill()
			if err := w.start(); err != nil {
				w.run.Inconclusive(w.name + ": cannot restart child: " + err.Error())
				return
			}
			continue
		}
		if s.hs.Class == "valid-handshake" && !o.HandshakeAnswered && o.ClosedByChild {
			// A fully valid handshake from a fresh peer id was hung up on. Legitimate
			// only if the torrent is at capacity, and only the canary is connected.
			w.run.Count("valid_handshakes_refused", 1)
			w.waitQuiet(30 * time.Second)
			refusedAgain := 0
			for attempt := 0; attempt < 3; attempt++ {
				if adm, ok := w.probeAdmission(s.Target, w.probeRand); ok && !adm {
					refusedAgain++
					w.waitQuiet(10 * time.Second)
				} else {
					break
				}
			}
			if refusedAgain == 3 {
				// find the class that leaks connection slots (fresh children), have it
				// suppressed for the rest of this world, and go on
				before := w.run.Counter("flood_leak_classes")
				w.ch.kill()
				if err := w.start(); err == nil && !w.floodDone {
					err = w.floodCheck(w.run.Rand("flood/" + w.name))
				} else if err != nil {
					w.run.Inconclusive(w.name + ": cannot restart child: " + err.Error())
					return
				}
				if w.run.Counter("flood_leak_classes") == before {
					w.run.Violation(w.signature("scheduler", "accumulated-hostile-sessions", "new-connections-refused"), fmt.Sprintf("%s|%d", w.name, s.Index),
						map[string]interface{}{"input": w.describe(s), "role": w.role, "bandwidth_limiter_enabled": w.limiter,
							"note": "an honest newcomer is refused although only the canary is connected; not reproduced by any single-class flood"})
				}
				continue
			}
		}
		if !o.Quiesced {
			w.run.Count("sessions_not_quiesced_within_watchdog", 1)
			w.logf("session %d not quiesced", k)
			if err := w.restartUnquiesced(s); err != nil {
				w.run.Inconclusive(w.name + ": cannot restart child: " + err.Error())
				return
			}
			if os.Getenv("VERIF_C14_DEBUG") != "" {
				if m, err := w.ch.call(map[string]interface{}{"op": "goroutines"}); err == nil {
					st, _ := w.ch.stats()
					w.logf("base %d/%d now %d/%d\n%v", w.base.Goroutines, w.baseFds, st.Goroutines, w.ch.fds(), m["dump"])
				}
			}
		}
	}
	if !w.ch.alive() {
		return
	}
	w.quiesce("end")
	if replayIdx < 0 && !w.floodDone {
		if err := w.floodCheck(w.run.Rand("flood/" + w.name)); err != nil {
			w.run.Inconclusive(w.name + ": cannot restart child: " + err.Error())
			return
		}
	}
	if replayIdx < 0 {
		w.finalCompletion()
		if !w.ch.alive() {
			site := parseCrash(w.ch.stderrPath)
			w.run.Violation(w.signature(site.Component, "honest-seeder-completion", ""), w.name+"|final",
				map[string]interface{}{"headline": site.Headline, "stderr_excerpt": site.Excerpt})
		}
	}
}

func buildChild(t *testing.T, dir string) string {
	h := os.Getenv("VERIF_HARNESS")
	if h == "" {
		h = filepath.Join(ev.Root(), "harness")
	}
	bin := filepath.Join(dir, "c14peer")
	cmd := exec.Command("go", "build", "-tags", "verif", "-o", bin, "./c14/cmd/peer")
	cmd.Dir = h
	cmd.Env = append(os.Environ(), "GOPROXY=off")
	if os.Getenv("GOFLAGS") == "" {
		cmd.Env = append(cmd.Env, "GOFLAGS=-mod=mod")
	}
	out, err := cmd.CombinedOutput()
	if err != nil {
		t.Fatalf("building the child from /repo failed: %v\n%s", err, out)
	}
	return bin
}

func TestC14(t *testing.T) {
	run := ev.Start(t, "C14", "exploration",
		"PRNG-generated hostile sessions against a real agent scheduler and a real origin scheduler in child processes, each with the bandwidth limiter disabled and enabled: "+
			"(a) a hostile first frame (handshake with wrong/oversized/undersized bitfields, bitfield length headers up to 2^64-1, remote bitfields, bad ids, wrong type, raw/mutated bytes), "+
			"(b) valid handshake + one hostile frame of every message type (nil sub-message, index in {-2^31,-1,n,n+1,2^31-1}, offset/length in {-1,0,pl+-1,2^31-1}, payload shorter/longer/corrupt, oversized prefixes, random and mutated bytes), "+
			"(c) valid handshake + stream of 2-5 hostile frames, (d) per hostile handshake class a flood of 12 handshakes per torrent followed by honest admission probes. Each frame is classified by decoding it as the receiver does. "+
			"A case is one session; non-trivial when it contains >=1 hostile frame that was delivered to a live child; distinct = distinct (world, kind, target, stream bytes).")
	defer run.Finish()
	run.Assume("the child process is the real kraken scheduler/conn/dispatch/storage code built from /repo; only the metainfo client and the tracker announce client are stand-ins")
	run.Assume("allocation is judged through runtime.MemStats.TotalAlloc deltas reported by the child; bound 8 x (blob + 32 KiB) per frame in the session + 256 x bytes actually sent; an excess in a session that declares no large size must reproduce on an immediate replay")
	run.Assume(">=16 MiB declarations of a class that produced three allocation violations in a world are likewise not re-sent to it")
	run.Assume(">=512 MiB declarations of a class that already produced an allocation violation in a world are not re-sent to it (each one commits and clears that much memory in an unpatched child)")
	run.Assume("classes that already crashed a world's child are not re-sent to it (execution-time suppression, counted); on a tree without crashes nothing is suppressed")

	dir := ev.TempDir(t, "c14-")
	bin := buildChild(t, dir)

	perWorld := run.N(300, 7500)
	replayWorld, replayIdx := "", -1
	if rc := run.ReplayCase(); rc != "" {
		parts := strings.Split(rc, "|")
		replayWorld = parts[0]
		if len(parts) > 1 {
			fmt.Sscanf(parts[1], "%d", &replayIdx)
		}
	}
	shards := run.N(2, 3)
	var wg sync.WaitGroup
	for _, role := range []string{"agent", "origin"} {
		for _, limiter := range []bool{false, true} {
			for sh := 0; sh < shards; sh++ {
				name := fmt.Sprintf("%s-limiter=%v-%d", role, limiter, sh)
				if replayWorld != "" && replayWorld != name {
					continue
				}
				if o := os.Getenv("VERIF_C14_ONLY"); o != "" && o != name {
					continue // development aid
				}
				r := run.Rand("world/" + name)
				w := &world{
					name: name, role: role, limiter: limiter, run: run, bin: bin,
					dir:          filepath.Join(dir, name),
					crashedClass: map[string]int{}, hugeSeen: map[string]bool{}, claimed: map[string]string{}, allocClass: map[string]bool{}, allocCount: map[string]int{}, probeRand: run.Rand("probe/" + name),
				}
				_ = os.MkdirAll(w.dir, 0o755)
				maxLen := 0
				for i := 0; i < 2; i++ {
					pl := int64([]int{1024, 2048, 4096, 8192}[r.Intn(4)])
					n := 9 + r.Intn(12)
					size := int(pl)*n - r.Intn(int(pl)-1) - 1
					content := make([]byte, size)
					r.Read(content)
					g := newGeom(content, pl, namespace)
					g.Claimed = w.claimed
					w.geoms = append(w.geoms, g)
					if size > maxLen {
						maxLen = size
					}
				}
				g1 := w.geoms[1]
				for i := 0; i < g1.N-1; i++ { // the (short) last piece is always missing
					if i%2 == 0 || r.Intn(4) == 0 {
						w.have = append(w.have, i)
					}
				}
				if len(w.have) == g1.N {
					w.have = w.have[:g1.N-1]
				}
				sort.Ints(w.have)
				w.allocBound = 8 * uint64(maxLen+32*1024)
				n := perWorld / shards
				wg.Add(1)
				go func() {
					defer wg.Done()
					w.runAll(r, n, replayIdx)
				}()
			}
		}
	}
	wg.Wait()
}
