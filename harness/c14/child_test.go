package c14

// Child-process and raw-connection plumbing for the hostile-peer engine.

import (
	"bufio"
	"crypto/sha256"
	"encoding/binary"
	"encoding/hex"
	"encoding/json"
	"errors"
	"fmt"
	"io"
	"net"
	"os"
	"os/exec"
	"path/filepath"
	"regexp"
	"sort"
	"strings"
	"sync"
	"time"

	"github.com/golang/protobuf/proto"

	"github.com/uber/kraken/gen/go/proto/p2p"
)

type blobSpec struct {
	File        string `json:"file"`
	PieceLength int64  `json:"piece_length"`
	Have        []int  `json:"have"`
	All         bool   `json:"all"`
}

type childSpec struct {
	Role      string     `json:"role"`
	Dir       string     `json:"dir"`
	Namespace string     `json:"namespace"`
	Limiter   bool       `json:"limiter"`
	Blobs     []blobSpec `json:"blobs"`
	PeerID    string     `json:"peer_id"`
}

type child struct {
	cmd        *exec.Cmd
	stdin      io.WriteCloser
	lines      chan string
	stderrPath string
	port       int
	peerID     string
	pid        int
	exited     chan struct{}
	mu         sync.Mutex
}

var errChildDead = errors.New("child process exited")

func startChild(bin, dir string, spec childSpec) (*child, error) {
	if err := os.MkdirAll(dir, 0o755); err != nil {
		return nil, err
	}
	spec.Dir = filepath.Join(dir, "store")
	sb, _ := json.Marshal(spec)
	specPath := filepath.Join(dir, "spec.json")
	if err := os.WriteFile(specPath, sb, 0o644); err != nil {
		return nil, err
	}
	c := &child{stderrPath: filepath.Join(dir, "stderr.log"), exited: make(chan struct{}), lines: make(chan string, 16)}
	ef, err := os.Create(c.stderrPath)
	if err != nil {
		return nil, err
	}
	c.cmd = exec.Command(bin, specPath)
	c.cmd.Stderr = ef
	c.cmd.Env = append(os.Environ(), "GOTRACEBACK=all", "GORACE=")
	c.stdin, err = c.cmd.StdinPipe()
	if err != nil {
		return nil, err
	}
	so, err := c.cmd.StdoutPipe()
	if err != nil {
		return nil, err
	}
	if err := c.cmd.Start(); err != nil {
		return nil, err
	}
	c.pid = c.cmd.Process.Pid
	go func() {
		sc := bufio.NewScanner(so)
		sc.Buffer(make([]byte, 1<<20), 64<<20)
		for sc.Scan() {
			c.lines <- sc.Text()
		}
		close(c.lines)
		_ = c.cmd.Wait()
		ef.Close()
		close(c.exited)
	}()
	select {
	case l, ok := <-c.lines:
		if !ok {
			<-c.exited
			b, _ := os.ReadFile(c.stderrPath)
			return nil, fmt.Errorf("child died during start: %s", tail(string(b), 2000))
		}
		var m map[string]interface{}
		if err := json.Unmarshal([]byte(l), &m); err != nil || m["ready"] != true {
			c.kill()
			return nil, fmt.Errorf("bad ready line %q", l)
		}
		c.port = int(m["port"].(float64))
		c.peerID, _ = m["peer_id"].(string)
	case <-time.After(60 * time.Second):
		c.kill()
		return nil, errors.New("child start watchdog")
	}
	return c, nil
}

func tail(s string, n int) string {
	if len(s) > n {
		return s[len(s)-n:]
	}
	return s
}

func (c *child) alive() bool {
	select {
	case <-c.exited:
		return false
	default:
		return true
	}
}

// waitExit waits (bounded) for the process to be reaped once it is known to be
// going down.
func (c *child) waitExit(d time.Duration) bool {
	select {
	case <-c.exited:
		return true
	case <-time.After(d):
		return false
	}
}

func (c *child) kill() {
	if c.cmd.Process != nil {
		_ = c.cmd.Process.Kill()
	}
	c.stdin.Close()
	<-c.exited
}

var errWatchdog = errors.New("control channel watchdog")

func (c *child) call(req map[string]interface{}) (map[string]interface{}, error) {
	c.mu.Lock()
	defer c.mu.Unlock()
	if !c.alive() {
		return nil, errChildDead
	}
	b, _ := json.Marshal(req)
	if _, err := c.stdin.Write(append(b, '\n')); err != nil {
		c.waitExit(5 * time.Second)
		return nil, errChildDead
	}
	select {
	case l, ok := <-c.lines:
		if !ok {
			c.waitExit(5 * time.Second)
			return nil, errChildDead
		}
		var m map[string]interface{}
		if err := json.Unmarshal([]byte(l), &m); err != nil {
			return nil, fmt.Errorf("control reply: %v", err)
		}
		return m, nil
	case <-time.After(30 * time.Second):
		return nil, errWatchdog
	}
}

type stats struct {
	TotalAlloc uint64
	HeapAlloc  uint64
	Sys        uint64
	Goroutines int
}

func (c *child) stats() (stats, error) {
	m, err := c.call(map[string]interface{}{"op": "stats"})
	if err != nil {
		return stats{}, err
	}
	return stats{
		TotalAlloc: uint64(m["total_alloc"].(float64)),
		HeapAlloc:  uint64(m["heap_alloc"].(float64)),
		Sys:        uint64(m["sys"].(float64)),
		Goroutines: int(m["goroutines"].(float64)),
	}, nil
}

func (c *child) fds() int {
	es, err := os.ReadDir(fmt.Sprintf("/proc/%d/fd", c.pid))
	if err != nil {
		return -1
	}
	return len(es)
}

// crashSite describes why a child died, from its stderr.
type crashSite struct {
	Kind      string // panic | fatal | exit
	Headline  string
	Func      string // first kraken frame
	File      string
	Component string
	Excerpt   string
}

var frameRe = regexp.MustCompile(`^(github\.com/uber/kraken/[^\s(]+)`)

func parseCrash(stderrPath string) crashSite {
	b, _ := os.ReadFile(stderrPath)
	lines := strings.Split(string(b), "\n")
	cs := crashSite{Kind: "exit", Component: "unknown"}
	start := -1
	for i, l := range lines {
		if strings.HasPrefix(l, "panic:") {
			cs.Kind, cs.Headline, start = "panic", l, i
			break
		}
		if strings.HasPrefix(l, "fatal error:") {
			cs.Kind, cs.Headline, start = "fatal", l, i
			break
		}
	}
	if start < 0 {
		cs.Excerpt = tail(string(b), 1500)
		return cs
	}
	end := start + 60
	if end > len(lines) {
		end = len(lines)
	}
	cs.Excerpt = strings.Join(lines[start:end], "\n")
	// first frame inside lib/torrent (the p2p code under judgement); helpers
	// such as utils/syncutil are attributed to their caller
	pick := func(onlyTorrent bool) bool {
		for i := start; i < len(lines)-1; i++ {
			m := frameRe.FindStringSubmatch(lines[i])
			if m == nil || strings.Contains(m[1], "/verifhook") {
				continue
			}
			if onlyTorrent && !strings.Contains(m[1], "/lib/torrent/") {
				continue
			}
			cs.Func = m[1]
			if j := strings.LastIndex(lines[i], "("); j > 0 {
				cs.Func = lines[i][:j] // full function name, e.g. pkg.(*T).method
			}
			f := strings.TrimSpace(lines[i+1])
			if j := strings.Index(f, " "); j > 0 {
				f = f[:j]
			}
			cs.File = f
			return true
		}
		return false
	}
	if !pick(true) {
		pick(false)
	}
	cs.Component = componentOfFile(cs.File)
	return cs
}

func componentOfFile(f string) string {
	// f is path:line
	if i := strings.LastIndex(f, ":"); i > 0 {
		f = f[:i]
	}
	switch {
	case strings.HasSuffix(f, "scheduler/conn/handshaker.go"):
		return "handshaker"
	case strings.Contains(f, "scheduler/conn/"):
		return "conn"
	case strings.Contains(f, "scheduler/dispatch/"):
		return "dispatcher"
	case strings.Contains(f, "storage/agentstorage/"):
		return "agentstorage"
	case strings.Contains(f, "storage/originstorage/"):
		return "originstorage"
	case strings.Contains(f, "lib/torrent/scheduler/"):
		return "scheduler"
	case strings.Contains(f, "utils/syncutil/"):
		return "syncutil"
	case f == "":
		return "unknown"
	}
	return strings.TrimSuffix(filepath.Base(f), ".go")
}

// ---------------------------------------------------------------------------
// Raw p2p connection.

type recvFrame struct {
	Msg     *p2p.Message
	Payload []byte
	Err     error
}

type peerConn struct {
	nc     net.Conn
	frames chan recvFrame
}

func dialPeer(port int) (*peerConn, error) {
	nc, err := net.DialTimeout("tcp", fmt.Sprintf("127.0.0.1:%d", port), 5*time.Second)
	if err != nil {
		return nil, err
	}
	p := &peerConn{nc: nc, frames: make(chan recvFrame, 4096)}
	go p.readLoop()
	return p, nil
}

func (p *peerConn) readLoop() {
	defer close(p.frames)
	for {
		var hdr [4]byte
		if _, err := io.ReadFull(p.nc, hdr[:]); err != nil {
			p.frames <- recvFrame{Err: err}
			return
		}
		l := binary.BigEndian.Uint32(hdr[:])
		if l > 1<<20 {
			p.frames <- recvFrame{Err: fmt.Errorf("peer sent oversized frame %d", l)}
			return
		}
		body := make([]byte, l)
		if _, err := io.ReadFull(p.nc, body); err != nil {
			p.frames <- recvFrame{Err: err}
			return
		}
		m := new(p2p.Message)
		if err := proto.Unmarshal(body, m); err != nil {
			p.frames <- recvFrame{Err: fmt.Errorf("peer sent undecodable frame: %v", err)}
			return
		}
		f := recvFrame{Msg: m}
		if m.Type == p2p.Message_PIECE_PAYLOAD && m.PiecePayload != nil && m.PiecePayload.Length > 0 {
			if m.PiecePayload.Length > 64<<20 {
				p.frames <- recvFrame{Err: fmt.Errorf("peer declared payload of %d bytes", m.PiecePayload.Length)}
				return
			}
			f.Payload = make([]byte, m.PiecePayload.Length)
			if _, err := io.ReadFull(p.nc, f.Payload); err != nil {
				p.frames <- recvFrame{Err: err}
				return
			}
		}
		p.frames <- f
	}
}

func (p *peerConn) send(b []byte) error {
	_ = p.nc.SetWriteDeadline(time.Now().Add(10 * time.Second))
	_, err := p.nc.Write(b)
	return err
}

func (p *peerConn) close() { p.nc.Close() }

// next returns the next frame, ok=false on watchdog expiry.
func (p *peerConn) next(d time.Duration) (recvFrame, bool) {
	select {
	case f, ok := <-p.frames:
		if !ok {
			return recvFrame{Err: io.EOF}, true
		}
		return f, true
	case <-time.After(d):
		return recvFrame{}, false
	}
}

// ---------------------------------------------------------------------------
// Store tree snapshot (parent side, independent of the child).

func snapshotTree(root string, skipSubstr string) map[string]string {
	out := map[string]string{}
	_ = filepath.Walk(root, func(p string, info os.FileInfo, err error) error {
		if err != nil || info.IsDir() {
			return nil
		}
		rel, _ := filepath.Rel(root, p)
		if skipSubstr != "" && strings.Contains(rel, skipSubstr) {
			return nil
		}
		if strings.HasSuffix(rel, "_last_access_time") {
			return nil // touched by legitimate reads
		}
		b, err := os.ReadFile(p)
		if err != nil {
			return nil
		}
		h := sha256.Sum256(b)
		out[rel] = fmt.Sprintf("%d:%s", len(b), hex.EncodeToString(h[:8]))
		return nil
	})
	return out
}

func diffTree(a, b map[string]string) []string {
	var d []string
	for k, v := range a {
		if w, ok := b[k]; !ok {
			d = append(d, "removed "+k)
		} else if w != v {
			d = append(d, "changed "+k+" "+v+" -> "+w)
		}
	}
	for k := range b {
		if _, ok := a[k]; !ok {
			d = append(d, "added "+k)
		}
	}
	sort.Strings(d)
	return d
}

// findDataFile locates the data file of a digest below root (download or cache
// directory, sharded or not).
func findDataFile(root, hexDigest string) string {
	var found string
	_ = filepath.Walk(root, func(p string, info os.FileInfo, err error) error {
		if err != nil || info.IsDir() {
			return nil
		}
		if filepath.Base(p) == hexDigest || (filepath.Base(p) == "data" && strings.Contains(p, hexDigest)) {
			found = p
		}
		return nil
	})
	return found
}
