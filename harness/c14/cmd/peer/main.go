// Child process of the C14 hostile-peer check: a REAL kraken scheduler (agent
// or origin role, real stores, real torrent archive, real conn / dispatch
// code) listening on a TCP port, plus a tiny control channel on stdin/stdout
// through which the parent reads runtime monitors (allocation, goroutines).
//
// Everything that is judged is kraken code; the only fakes are at the outer
// boundary: the metainfo client (answers from the spec) and the announce
// client (no tracker: returns no peers).
package main

import (
	"bufio"
	"bytes"
	"encoding/hex"
	"encoding/json"
	"errors"
	"fmt"
	"net"
	"os"
	"path/filepath"
	"runtime"
	"runtime/pprof"
	"sync"
	"time"

	"github.com/uber-go/tally"
	"go.uber.org/zap/zapcore"

	"github.com/uber/kraken/core"
	"github.com/uber/kraken/lib/backend"
	"github.com/uber/kraken/lib/blobrefresh"
	"github.com/uber/kraken/lib/metainfogen"
	"github.com/uber/kraken/lib/store"
	"github.com/uber/kraken/lib/store/metadata"
	"github.com/uber/kraken/lib/torrent/networkevent"
	"github.com/uber/kraken/lib/torrent/scheduler"
	"github.com/uber/kraken/lib/torrent/scheduler/conn"
	"github.com/uber/kraken/lib/torrent/storage"
	"github.com/uber/kraken/lib/torrent/storage/agentstorage"
	"github.com/uber/kraken/lib/torrent/storage/originstorage"
	"github.com/uber/kraken/lib/torrent/storage/piecereader"
	"github.com/uber/kraken/tracker/metainfoclient"
	"github.com/uber/kraken/utils/bandwidth"
	"github.com/uber/kraken/utils/log"
)

// BlobSpec describes one torrent the child holds at start.
type BlobSpec struct {
	File        string `json:"file"`
	PieceLength int64  `json:"piece_length"`
	// Have lists the pieces present at start (agent role); nil = all.
	Have []int `json:"have"`
	All  bool  `json:"all"`
}

// Spec is the child's configuration file.
type Spec struct {
	Role      string     `json:"role"` // agent | origin
	Dir       string     `json:"dir"`
	Namespace string     `json:"namespace"`
	Limiter   bool       `json:"limiter"`
	Blobs     []BlobSpec `json:"blobs"`
	// PeerID fixes the child's peer id (hex); random when empty.
	PeerID string `json:"peer_id"`
}

type fakeMetaInfoClient struct {
	mu sync.Mutex
	m  map[core.Digest]*core.MetaInfo
}

func (c *fakeMetaInfoClient) Download(namespace string, d core.Digest) (*core.MetaInfo, error) {
	c.mu.Lock()
	defer c.mu.Unlock()
	mi, ok := c.m[d]
	if !ok {
		return nil, metainfoclient.ErrNotFound
	}
	return mi, nil
}

// noPeersAnnouncer stands in for the tracker: every announce succeeds and
// hands out nobody.
type noPeersAnnouncer struct{}

func (noPeersAnnouncer) CheckReadiness() error { return nil }
func (noPeersAnnouncer) Announce(d core.Digest, h core.InfoHash, complete bool, version int) ([]*core.PeerInfo, time.Duration, error) {
	return nil, 30 * time.Second, nil
}

// addTorrentSignal is the child's networkevent.Producer: it only tells the
// control loop when the scheduler has registered a torrent (the dispatcher and
// its helper goroutine exist from then on), so the parent's goroutine baseline
// is taken in a settled state.
type addTorrentSignal struct{ ch chan struct{} }

func (p *addTorrentSignal) Produce(e *networkevent.Event) {
	if e.Name == networkevent.AddTorrent {
		select {
		case p.ch <- struct{}{}:
		default:
		}
	}
}
func (p *addTorrentSignal) Close() error { return nil }

func fatal(format string, args ...interface{}) {
	fmt.Fprintf(os.Stderr, "c14child: "+format+"\n", args...)
	os.Exit(7)
}

func freePort() int {
	l, err := net.Listen("tcp", "127.0.0.1:0")
	if err != nil {
		fatal("free port: %v", err)
	}
	defer l.Close()
	return l.Addr().(*net.TCPAddr).Port
}

func schedConfig(limiter bool) scheduler.Config {
	day := 24 * time.Hour
	cc := conn.Config{} // shipped defaults (applied by the handshaker)
	cc.Bandwidth = bandwidth.Config{Enable: limiter}
	return scheduler.Config{
		// No legitimate reason may close a connection or drop a torrent while
		// the run lasts: whatever happens to the canary is the hostile input's doing.
		SeederTTI:          day,
		LeecherTTI:         day,
		ConnTTI:            day,
		ConnTTL:            day,
		PreemptionInterval: time.Second,
		Conn:               cc,
		TorrentLog:         log.Config{Disable: true},
		Log:                log.Config{Level: zapcore.ErrorLevel},
	}
}

type download struct {
	mu     sync.Mutex
	done   bool
	errStr string
}

func main() {
	if len(os.Args) != 2 {
		fatal("usage: peer <spec.json>")
	}
	b, err := os.ReadFile(os.Args[1])
	if err != nil {
		fatal("spec: %v", err)
	}
	var spec Spec
	if err := json.Unmarshal(b, &spec); err != nil {
		fatal("spec: %v", err)
	}
	for _, d := range []string{"download", "cache", "upload"} {
		if err := os.MkdirAll(filepath.Join(spec.Dir, d), 0o755); err != nil {
			fatal("mkdir: %v", err)
		}
	}

	peerID, err := core.RandomPeerID()
	if spec.PeerID != "" {
		peerID, err = core.NewPeerID(spec.PeerID)
	}
	if err != nil {
		fatal("peer id: %v", err)
	}
	var (
		archive storage.TorrentArchive
		stats   = tally.NoopScope
		digests []core.Digest
	)

	switch spec.Role {
	case "agent":
		cads, err := store.NewCADownloadStore(store.CADownloadStoreConfig{
			DownloadDir: filepath.Join(spec.Dir, "download"),
			CacheDir:    filepath.Join(spec.Dir, "cache"),
		}, stats)
		if err != nil {
			fatal("cads: %v", err)
		}
		mic := &fakeMetaInfoClient{m: map[core.Digest]*core.MetaInfo{}}
		ta := agentstorage.NewTorrentArchive(stats, cads, mic)
		for _, bs := range spec.Blobs {
			content, err := os.ReadFile(bs.File)
			if err != nil {
				fatal("blob: %v", err)
			}
			d, err := core.NewDigester().FromBytes(content)
			if err != nil {
				fatal("digest: %v", err)
			}
			mi, err := core.NewMetaInfo(d, bytes.NewReader(content), bs.PieceLength)
			if err != nil {
				fatal("metainfo: %v", err)
			}
			mic.m[d] = mi
			t, err := ta.CreateTorrent(spec.Namespace, d)
			if err != nil {
				fatal("create torrent: %v", err)
			}
			have := bs.Have
			if bs.All {
				have = nil
				for i := 0; i < t.NumPieces(); i++ {
					have = append(have, i)
				}
			}
			for _, i := range have {
				start := int64(i) * mi.PieceLength()
				end := start + t.PieceLength(i)
				if err := t.WritePiece(piecereader.NewBuffer(content[start:end]), i); err != nil {
					fatal("write piece %d: %v", i, err)
				}
			}
			digests = append(digests, d)
		}
		archive = ta
	case "origin":
		cas, err := store.NewCAStore(store.CAStoreConfig{
			UploadDir: filepath.Join(spec.Dir, "upload"),
			CacheDir:  filepath.Join(spec.Dir, "cache"),
		}, stats)
		if err != nil {
			fatal("cas: %v", err)
		}
		for _, bs := range spec.Blobs {
			content, err := os.ReadFile(bs.File)
			if err != nil {
				fatal("blob: %v", err)
			}
			d, err := core.NewDigester().FromBytes(content)
			if err != nil {
				fatal("digest: %v", err)
			}
			if err := cas.CreateCacheFile(d.Hex(), bytes.NewReader(content)); err != nil {
				fatal("create cache file: %v", err)
			}
			mi, err := core.NewMetaInfo(d, bytes.NewReader(content), bs.PieceLength)
			if err != nil {
				fatal("metainfo: %v", err)
			}
			if _, err := cas.SetCacheFileMetadata(d.Hex(), metadata.NewTorrentMeta(mi)); err != nil {
				fatal("set metainfo: %v", err)
			}
			digests = append(digests, d)
		}
		refresher := blobrefresh.New(
			blobrefresh.Config{}, stats, cas, backend.ManagerFixture(), metainfogen.Fixture(cas, 4096))
		archive = originstorage.NewTorrentArchive(cas, refresher)
	default:
		fatal("unknown role %q", spec.Role)
	}

	port := freePort()
	pctx := core.PeerContext{
		PeerID: peerID, Zone: "zone1", Cluster: "c14", IP: "127.0.0.1", Port: port,
		Origin: spec.Role == "origin",
	}
	added := &addTorrentSignal{ch: make(chan struct{}, 64)}
	var sched scheduler.Scheduler
	sched, err = scheduler.VerifC14NewScheduler(
		schedConfig(spec.Limiter), archive, stats, pctx, noPeersAnnouncer{},
		added, spec.Role == "agent")
	if err != nil {
		fatal("scheduler: %v", err)
	}

	out := bufio.NewWriter(os.Stdout)
	reply := func(v interface{}) {
		b, _ := json.Marshal(v)
		out.Write(b)
		out.WriteByte('\n')
		out.Flush()
	}
	dg := make([]string, len(digests))
	for i, d := range digests {
		dg[i] = d.Hex()
	}
	reply(map[string]interface{}{"ready": true, "port": port, "peer_id": peerID.String(), "digests": dg, "pid": os.Getpid()})

	downloads := map[string]*download{}
	var dmu sync.Mutex

	in := bufio.NewScanner(os.Stdin)
	in.Buffer(make([]byte, 1<<20), 1<<20)
	for in.Scan() {
		var req map[string]interface{}
		if err := json.Unmarshal(in.Bytes(), &req); err != nil {
			reply(map[string]interface{}{"error": err.Error()})
			continue
		}
		switch req["op"] {
		case "stats":
			var ms runtime.MemStats
			runtime.ReadMemStats(&ms)
			reply(map[string]interface{}{
				"total_alloc": ms.TotalAlloc, "mallocs": ms.Mallocs, "heap_alloc": ms.HeapAlloc,
				"heap_sys": ms.HeapSys, "sys": ms.Sys, "goroutines": runtime.NumGoroutine(),
			})
		case "gc":
			runtime.GC()
			reply(map[string]interface{}{"ok": true})
		case "goroutines":
			var buf bytes.Buffer
			_ = pprof.Lookup("goroutine").WriteTo(&buf, 1)
			reply(map[string]interface{}{"dump": buf.String()})
		case "download":
			// Start Scheduler.Download for digest (agent role), result polled with download_result.
			hexd, _ := req["digest"].(string)
			d, err := core.NewSHA256DigestFromHex(hexd)
			if err != nil {
				reply(map[string]interface{}{"error": err.Error()})
				continue
			}
			dl := &download{}
			dmu.Lock()
			downloads[hexd] = dl
			dmu.Unlock()
			go func() {
				err := sched.Download(spec.Namespace, d)
				dl.mu.Lock()
				dl.done = true
				if err != nil {
					dl.errStr = err.Error()
				}
				dl.mu.Unlock()
			}()
			// reply once the scheduler has registered the torrent
			select {
			case <-added.ch:
			case <-time.After(30 * time.Second):
			}
			reply(map[string]interface{}{"ok": true})
		case "download_result":
			hexd, _ := req["digest"].(string)
			dmu.Lock()
			dl := downloads[hexd]
			dmu.Unlock()
			if dl == nil {
				reply(map[string]interface{}{"error": "no such download"})
				continue
			}
			dl.mu.Lock()
			reply(map[string]interface{}{"done": dl.done, "err": dl.errStr})
			dl.mu.Unlock()
		case "bitfield":
			// The real archive's view of a torrent (Stat goes through kraken's metadata code).
			hexd, _ := req["digest"].(string)
			d, err := core.NewSHA256DigestFromHex(hexd)
			if err != nil {
				reply(map[string]interface{}{"error": err.Error()})
				continue
			}
			info, err := archive.Stat(spec.Namespace, d)
			if err != nil {
				reply(map[string]interface{}{"error": err.Error()})
				continue
			}
			bf := info.Bitfield()
			var set []int
			for i := uint(0); i < bf.Len(); i++ {
				if bf.Test(i) {
					set = append(set, int(i))
				}
			}
			reply(map[string]interface{}{"len": bf.Len(), "set": set, "infohash": hex.EncodeToString(info.InfoHash().Bytes())})
		case "probe":
			err := sched.Probe()
			es := ""
			if err != nil {
				es = err.Error()
			}
			reply(map[string]interface{}{"err": es})
		case "quit":
			sched.Stop()
			reply(map[string]interface{}{"ok": true})
			os.Exit(0)
		default:
			reply(map[string]interface{}{"error": errors.New("unknown op").Error()})
		}
	}
	// Parent went away.
	os.Exit(0)
}
