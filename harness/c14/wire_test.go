package c14

// Wire layer of the hostile peer: p2p framing, a classifier that names the
// input class of any frame (by decoding it the way the receiving side will),
// and the seeded generators of hostile frames.

import (
	"bytes"
	"encoding/binary"
	"encoding/hex"
	"fmt"
	"math/rand"
	"strings"

	"github.com/golang/protobuf/proto"
	"github.com/willf/bitset"

	"github.com/uber/kraken/core"
	"github.com/uber/kraken/gen/go/proto/p2p"
)

const maxMessageSize = 32 * 1024 // conn.maxMessageSize

// geom is what the hostile peer knows about one torrent held by the child.
type geom struct {
	Content     []byte
	Digest      core.Digest
	MetaInfo    *core.MetaInfo
	PieceLength int64
	N           int
	Namespace   string
	// Claimed: peer ids that belong to somebody else (honest peers connected to
	// the child, the child itself) -> label; shared by the world's torrents.
	Claimed map[string]string
}

func newGeom(content []byte, pieceLength int64, ns string) *geom {
	d, err := core.NewDigester().FromBytes(content)
	if err != nil {
		panic(err)
	}
	mi, err := core.NewMetaInfo(d, bytes.NewReader(content), pieceLength)
	if err != nil {
		panic(err)
	}
	return &geom{Content: content, Digest: d, MetaInfo: mi, PieceLength: pieceLength, N: mi.NumPieces(), Namespace: ns}
}

func (g *geom) pieceLen(i int) int64 { return g.MetaInfo.GetPieceLength(i) }

func (g *geom) piece(i int) []byte {
	s := int64(i) * g.PieceLength
	return g.Content[s : s+g.pieceLen(i)]
}

// frame returns length-prefix + marshalled message.
func frame(m *p2p.Message) []byte {
	b, err := proto.Marshal(m)
	if err != nil {
		panic(err)
	}
	return rawFrame(b)
}

func rawFrame(body []byte) []byte {
	out := make([]byte, 4+len(body))
	binary.BigEndian.PutUint32(out, uint32(len(body)))
	copy(out[4:], body)
	return out
}

// bitfieldBytes serialises a bitset the way willf/bitset does: big-endian
// uint64 bit length, then the words.
func bitfieldBytes(length uint64, words []uint64) []byte {
	out := make([]byte, 8+8*len(words))
	binary.BigEndian.PutUint64(out, length)
	for i, w := range words {
		binary.BigEndian.PutUint64(out[8+8*i:], w)
	}
	return out
}

func bitsetBytes(n int, set func(i int) bool) []byte {
	b := bitset.New(uint(n))
	for i := 0; i < n; i++ {
		if set(i) {
			b.Set(uint(i))
		}
	}
	out, err := b.MarshalBinary()
	if err != nil {
		panic(err)
	}
	return out
}

func randPeerID(r *rand.Rand) string {
	b := make([]byte, 20)
	r.Read(b)
	return hex.EncodeToString(b)
}

func handshakeMsg(g *geom, peerID string, bf []byte) *p2p.Message {
	return &p2p.Message{
		Type: p2p.Message_BITFIELD,
		Bitfield: &p2p.BitfieldMessage{
			PeerID:        peerID,
			Name:          g.Digest.Hex(),
			InfoHash:      g.MetaInfo.InfoHash().String(),
			BitfieldBytes: bf,
			Namespace:     g.Namespace,
		},
	}
}

func pieceRequest(i int, off, l int64) *p2p.Message {
	return &p2p.Message{Type: p2p.Message_PIECE_REQUEST,
		PieceRequest: &p2p.PieceRequestMessage{Index: int32(i), Offset: int32(off), Length: int32(l)}}
}

func piecePayload(i int, off, l int64) *p2p.Message {
	return &p2p.Message{Type: p2p.Message_PIECE_PAYLOAD,
		PiecePayload: &p2p.PiecePayloadMessage{Index: int32(i), Offset: int32(off), Length: int32(l)}}
}

// ---------------------------------------------------------------------------
// Classification: name the input class of one frame by decoding it.

type stage int

const (
	stHandshake stage = iota
	stEstablished
)

// parsed is one frame as the receiver will see it.
type parsed struct {
	Class   string
	Hostile bool
	// Consumed is the number of stream bytes the receiver consumes for this
	// frame (prefix + message + declared payload); Stall is set when the stream
	// ends before that; Closes when the receiver must give up the connection at
	// the framing level (oversized prefix, undecodable message).
	Consumed int
	Stall    bool
	Closes   bool
	// Huge: the frame declares >= 512 MiB (payload length or bitfield bits/8).
	Huge bool
	// Declared: the size in bytes the frame asks the receiver to make room for.
	Declared int64
	Msg      *p2p.Message
}

func bitsetHeader(b []byte) (length uint64, words int, ok bool) {
	if len(b) < 8 {
		return 0, 0, false
	}
	length = binary.BigEndian.Uint64(b)
	return length, (len(b) - 8) / 8, true
}

func wordsNeeded(length uint64) uint64 { return (length + 63) / 64 }

// classifyBitset names what is wrong with a serialized bitset (""=fine) and
// returns the decoded set when it is decodable.
func classifyBitset(b []byte) (string, *bitset.BitSet) {
	length, words, ok := bitsetHeader(b)
	if !ok {
		return "bitfield-short-bytes", nil
	}
	need := wordsNeeded(length)
	if need > uint64(words) {
		if length > 1<<20 {
			return "bitfield-oversized-length-header", nil
		}
		return "bitfield-truncated", nil
	}
	bs := bitset.New(0)
	if err := bs.UnmarshalBinary(b); err != nil {
		return "bitfield-undecodable", nil
	}
	return "", bs
}

// classifyFrame decodes the frame at the head of stream.
func classifyFrame(st stage, stream []byte, geoms []*geom, target *geom) parsed {
	if len(stream) < 4 {
		return parsed{Class: "frame-truncated-prefix", Hostile: true, Consumed: len(stream), Stall: true}
	}
	l := binary.BigEndian.Uint32(stream)
	if l > maxMessageSize {
		return parsed{Class: "frame-oversized-length-prefix", Hostile: true, Consumed: 4, Closes: true, Huge: l >= 1<<29, Declared: int64(l)}
	}
	if int(l) > len(stream)-4 {
		return parsed{Class: "frame-truncated-body", Hostile: true, Consumed: len(stream), Stall: true}
	}
	body := stream[4 : 4+l]
	m := new(p2p.Message)
	if err := proto.Unmarshal(body, m); err != nil {
		return parsed{Class: "frame-undecodable-protobuf", Hostile: true, Consumed: 4 + int(l), Closes: true}
	}
	p := parsed{Consumed: 4 + int(l), Msg: m}
	if st == stHandshake {
		p.Class, p.Hostile = classifyHandshake(m, geoms)
		if b := m.Bitfield; b != nil {
			hdrs := [][]byte{b.BitfieldBytes}
			for _, rb := range b.RemoteBitfieldBytes {
				hdrs = append(hdrs, rb)
			}
			for _, h := range hdrs {
				if l, _, ok := bitsetHeader(h); ok && l < 1<<50 {
					if l >= 1<<32 {
						p.Huge = true
					}
					if int64(l/8) > p.Declared {
						p.Declared = int64(l / 8)
					}
				}
			}
		}
		return p
	}
	g := target
	idxClass := func(i int32, full bool) string {
		switch {
		case i < 0 && full:
			return "negative-index"
		case i < 0:
			return "negative-index-chunk"
		case int(i) >= g.N && full:
			return "index-beyond-end"
		case int(i) >= g.N:
			return "index-beyond-end-chunk"
		}
		return ""
	}
	switch m.Type {
	case p2p.Message_BITFIELD:
		p.Class, p.Hostile = "BITFIELD-after-handshake", true
	case p2p.Message_COMPLETE:
		p.Class, p.Hostile = "COMPLETE", true
	case p2p.Message_CANCEL_PIECE:
		if m.CancelPiece == nil {
			p.Class, p.Hostile = "CANCEL_PIECE-nil-submessage", true
		} else {
			p.Class, p.Hostile = "CANCEL_PIECE", true
		}
	case p2p.Message_ERROR:
		switch {
		case m.Error == nil:
			p.Class = "ERROR-nil-submessage"
		case m.Error.Index < 0:
			p.Class = "ERROR-negative-index"
		case int(m.Error.Index) >= g.N:
			p.Class = "ERROR-index-beyond-end"
		default:
			p.Class = "ERROR-valid-index"
		}
		p.Hostile = true
	case p2p.Message_ANNOUCE_PIECE:
		switch {
		case m.AnnouncePiece == nil:
			p.Class = "ANNOUNCE_PIECE-nil-submessage"
		case m.AnnouncePiece.Index < 0:
			p.Class = "ANNOUNCE_PIECE-negative-index"
		case int(m.AnnouncePiece.Index) >= g.N:
			p.Class = "ANNOUNCE_PIECE-index-beyond-end"
		default:
			p.Class = "ANNOUNCE_PIECE-valid-index"
		}
		p.Hostile = true
	case p2p.Message_PIECE_REQUEST:
		r := m.PieceRequest
		if r == nil {
			p.Class, p.Hostile = "PIECE_REQUEST-nil-submessage", true
			break
		}
		full := r.Offset == 0 && int64(r.Length) == g.pieceLen(int(r.Index))
		if c := idxClass(r.Index, full); c != "" {
			p.Class, p.Hostile = "PIECE_REQUEST-"+c, true
		} else if !full {
			p.Class, p.Hostile = "PIECE_REQUEST-chunk", true
		} else {
			p.Class = "valid-piece-request"
		}
	case p2p.Message_PIECE_PAYLOAD:
		pp := m.PiecePayload
		if pp == nil {
			p.Class, p.Hostile = "PIECE_PAYLOAD-nil-submessage", true
			break
		}
		if pp.Length < 0 {
			p.Class, p.Hostile = "PIECE_PAYLOAD-negative-length", true
			break
		}
		avail := len(stream) - p.Consumed
		oversized := int64(pp.Length) > g.PieceLength
		p.Huge = pp.Length >= 1<<29
		p.Declared = int64(pp.Length)
		if int(pp.Length) > avail {
			p.Stall = true
			p.Consumed = len(stream)
			if oversized {
				p.Class, p.Hostile = "PIECE_PAYLOAD-oversized-length", true
			} else {
				p.Class, p.Hostile = "PIECE_PAYLOAD-short-body", true
			}
			break
		}
		payload := stream[p.Consumed : p.Consumed+int(pp.Length)]
		p.Consumed += int(pp.Length)
		if oversized {
			p.Class, p.Hostile = "PIECE_PAYLOAD-oversized-length", true
			break
		}
		full := pp.Offset == 0 && int64(pp.Length) == g.pieceLen(int(pp.Index))
		if c := idxClass(pp.Index, full); c != "" {
			p.Class, p.Hostile = "PIECE_PAYLOAD-"+c, true
		} else if !full && pp.Offset == 0 && int64(pp.Length) > g.pieceLen(int(pp.Index)) {
			// longer than the addressed piece although within the torrent's piece
			// length: only possible for the short last piece
			p.Class, p.Hostile = "PIECE_PAYLOAD-overlong-for-piece", true
		} else if !full {
			p.Class, p.Hostile = "PIECE_PAYLOAD-length-mismatch", true
		} else if bytes.Equal(payload, g.piece(int(pp.Index))) {
			p.Class = "valid-piece-payload"
		} else {
			p.Class, p.Hostile = "PIECE_PAYLOAD-corrupt-bytes", true
		}
	default:
		p.Class, p.Hostile = "MSG-unknown-type", true
	}
	return p
}

// classifyHandshake names the handshake; one that carries somebody else's peer
// id is its own class whatever the rest looks like.
func classifyHandshake(m *p2p.Message, geoms []*geom) (string, bool) {
	c, hostile := classifyHandshakeFields(m, geoms)
	if m.Bitfield != nil && len(geoms) > 0 {
		if label, ok := geoms[0].Claimed[m.Bitfield.PeerID]; ok {
			if c == "valid-handshake" {
				return "HANDSHAKE-claims-" + label + "-peer-id", true
			}
			return "HANDSHAKE-claims-" + label + "-peer-id+" + strings.TrimPrefix(c, "HANDSHAKE-"), true
		}
	}
	return c, hostile
}

func classifyHandshakeFields(m *p2p.Message, geoms []*geom) (string, bool) {
	if m.Type != p2p.Message_BITFIELD {
		return "HANDSHAKE-wrong-type", true
	}
	b := m.Bitfield
	if b == nil {
		return "HANDSHAKE-nil-submessage", true
	}
	if _, err := core.NewPeerID(b.PeerID); err != nil {
		return "HANDSHAKE-bad-peerid", true
	}
	if _, err := core.NewInfoHashFromHex(b.InfoHash); err != nil {
		return "HANDSHAKE-bad-infohash", true
	}
	if _, err := core.NewSHA256DigestFromHex(b.Name); err != nil {
		return "HANDSHAKE-bad-digest", true
	}
	c, bs := classifyBitset(b.BitfieldBytes)
	if c != "" {
		return "HANDSHAKE-" + c, true
	}
	for k, rb := range b.RemoteBitfieldBytes {
		if _, err := core.NewPeerID(k); err != nil {
			return "HANDSHAKE-remote-bad-peerid", true
		}
		if c, _ := classifyBitset(rb); c != "" {
			return "HANDSHAKE-remote-" + c, true
		}
	}
	var g *geom
	for _, x := range geoms {
		if x.Digest.Hex() == b.Name {
			g = x
		}
	}
	if g == nil {
		return "HANDSHAKE-unknown-digest", true
	}
	if b.InfoHash != g.MetaInfo.InfoHash().String() {
		return "HANDSHAKE-infohash-mismatch", true
	}
	if int(bs.Len()) > g.N {
		for i := uint(g.N); i < bs.Len(); i++ {
			if bs.Test(i) {
				return "HANDSHAKE-bitfield-longer-than-torrent", true
			}
		}
		return "HANDSHAKE-bitfield-longer-no-extra-bits", true
	}
	if int(bs.Len()) < g.N {
		return "HANDSHAKE-bitfield-shorter-than-torrent", true
	}
	if len(b.RemoteBitfieldBytes) > 0 {
		return "HANDSHAKE-with-remote-bitfields", true
	}
	if b.Namespace != g.Namespace {
		return "HANDSHAKE-odd-namespace", true
	}
	return "valid-handshake", false
}

// componentOf names the component that consumes a class (used for the
// signature of non-crash symptoms; crashes take the component from the stack).
func componentOf(class string) string {
	switch {
	case len(class) >= 6 && class[:6] == "frame-":
		return "conn"
	case strings.HasPrefix(class, "HANDSHAKE-claims-"):
		return "scheduler"
	case len(class) >= 10 && class[:10] == "HANDSHAKE-":
		if class == "HANDSHAKE-bitfield-longer-than-torrent" {
			return "dispatcher"
		}
		return "handshaker"
	case class == "PIECE_PAYLOAD-nil-submessage", class == "PIECE_PAYLOAD-negative-length",
		class == "PIECE_PAYLOAD-oversized-length", class == "PIECE_PAYLOAD-short-body":
		return "conn"
	}
	return "dispatcher"
}

// ---------------------------------------------------------------------------
// Generators.

var hostileIdx = []int64{-1 << 31, -1, -2, -1000}

func genIndex(r *rand.Rand, g *geom) int32 {
	switch r.Intn(8) {
	case 0:
		return -1 << 31
	case 1, 2:
		return -1
	case 3:
		return int32(g.N)
	case 4:
		return int32(g.N + 1)
	case 5:
		return 1<<31 - 1
	case 6:
		return -int32(1 + r.Intn(1000))
	}
	return int32(r.Intn(g.N))
}

func genLen(r *rand.Rand, g *geom, i int32) int32 {
	pl := int32(g.PieceLength)
	switch r.Intn(9) {
	case 0:
		return -1
	case 1, 2:
		return 0
	case 3:
		return pl - 1
	case 4:
		return pl + 1
	case 5:
		return 1<<31 - 1
	case 6:
		return int32(g.pieceLen(int(i)))
	case 7:
		return -1 << 31
	}
	return pl
}

func genOff(r *rand.Rand, g *geom) int32 {
	switch r.Intn(6) {
	case 0:
		return -1
	case 1:
		return 1
	case 2:
		return int32(g.PieceLength)
	case 3:
		return 1<<31 - 1
	}
	return 0
}

// genWrongLengthPayload returns a PIECE_PAYLOAD for an existing piece i whose
// declared AND actual length disagrees with the piece while staying within the
// torrent's piece length (so it passes any per-connection cap): for the short
// last piece a length in (pieceLen, PieceLength], otherwise a shorter one. The
// body is the piece's real bytes followed by (or cut to) the wrong length, or
// random bytes.
func genWrongLengthPayload(r *rand.Rand, g *geom, i int) []byte {
	pl := g.pieceLen(i)
	var l int64
	if pl < g.PieceLength && r.Intn(4) != 0 {
		l = pl + 1 + r.Int63n(g.PieceLength-pl) // (pl, PieceLength]
		if r.Intn(3) == 0 {
			l = g.PieceLength
		}
	} else if pl > 1 {
		l = 1 + r.Int63n(pl-1)
	} else {
		l = 0
	}
	body := make([]byte, l)
	r.Read(body)
	if r.Intn(3) != 0 {
		copy(body, g.piece(i)) // correct prefix, extra tail (or cut)
	}
	return append(frame(piecePayload(i, 0, l)), body...)
}

// genEstablishedFrame returns the bytes of one hostile frame for an
// established connection (including any payload bytes that follow it).
func genEstablishedFrame(r *rand.Rand, g *geom) []byte {
	types := []p2p.Message_Type{
		p2p.Message_PIECE_REQUEST, p2p.Message_PIECE_PAYLOAD, p2p.Message_ANNOUCE_PIECE,
		p2p.Message_CANCEL_PIECE, p2p.Message_ERROR, p2p.Message_COMPLETE, p2p.Message_BITFIELD,
	}
	switch k := r.Intn(20); {
	case k < 3: // nil sub-message: only the type is set
		return frame(&p2p.Message{Type: types[r.Intn(len(types))]})
	case k == 3: // body of another type
		m := pieceRequest(int(genIndex(r, g)), 0, g.PieceLength)
		m.Type = types[r.Intn(len(types))]
		return frame(m)
	case k < 7: // PIECE_REQUEST field values
		i := genIndex(r, g)
		if r.Intn(2) == 0 {
			// the shape that passes the full-piece test for a nonexistent piece
			return frame(pieceRequest(int(i), 0, g.pieceLen(int(i))))
		}
		return frame(pieceRequest(int(i), int64(genOff(r, g)), int64(genLen(r, g, i))))
	case k < 9: // wrong-length payload for an existing piece, the last one half of the time
		i := g.N - 1
		if r.Intn(2) == 0 {
			i = r.Intn(g.N)
		}
		return genWrongLengthPayload(r, g, i)
	case k < 12: // PIECE_PAYLOAD field values + body
		i := genIndex(r, g)
		var off, l int32
		switch r.Intn(4) {
		case 0:
			off, l = 0, int32(g.pieceLen(int(i)))
		case 1:
			// declared length far beyond any piece
			off = 0
			// (2 GiB declarations are kept rare: against the unpatched code each one
			// really commits and clears 2 GiB in the child)
			l = []int32{int32(g.PieceLength) * 2, 1 << 20, 16 << 20, 64 << 20, 64 << 20, 64 << 20, 128 << 20, 1<<31 - 1}[r.Intn(8)]
			if l == 1<<31-1 && r.Intn(2) == 0 {
				l = 64 << 20
			}
		default:
			off, l = genOff(r, g), genLen(r, g, i)
			if l == 1<<31-1 && r.Intn(4) != 0 {
				l = 32 << 20
			}
		}
		b := frame(piecePayload(int(i), int64(off), int64(l)))
		// body: exact / short / long / corrupt, bounded so the stream stays small
		if l > 0 {
			n := int(l)
			if n > 2*int(g.PieceLength) {
				n = r.Intn(64)
			}
			body := make([]byte, n)
			if i >= 0 && int(i) < g.N && int64(n) == g.pieceLen(int(i)) && r.Intn(2) == 0 {
				copy(body, g.piece(int(i)))
			} else {
				r.Read(body)
			}
			switch r.Intn(5) {
			case 0:
				body = body[:r.Intn(len(body)+1)] // short: the receiver waits for the rest
			case 1:
				extra := make([]byte, 1+r.Intn(16))
				r.Read(extra)
				body = append(body, extra...) // long: the tail is parsed as the next frame
			}
			b = append(b, body...)
		}
		return b
	case k < 14: // ANNOUNCE_PIECE
		return frame(&p2p.Message{Type: p2p.Message_ANNOUCE_PIECE,
			AnnouncePiece: &p2p.AnnouncePieceMessage{Index: genIndex(r, g)}})
	case k == 14: // ERROR
		return frame(&p2p.Message{Type: p2p.Message_ERROR,
			Error: &p2p.ErrorMessage{Index: genIndex(r, g), Code: p2p.ErrorMessage_ErrorCode(r.Intn(3)), Error: "x"}})
	case k == 15: // CANCEL / COMPLETE / BITFIELD after handshake / unknown type
		switch r.Intn(4) {
		case 0:
			return frame(&p2p.Message{Type: p2p.Message_CANCEL_PIECE, CancelPiece: &p2p.CancelPieceMessage{Index: genIndex(r, g)}})
		case 1:
			return frame(&p2p.Message{Type: p2p.Message_COMPLETE, Complete: &p2p.CompleteMessage{}})
		case 2:
			return frame(handshakeMsg(g, randPeerID(r), bitsetBytes(g.N, func(int) bool { return true })))
		}
		return frame(&p2p.Message{Type: p2p.Message_Type([]int32{7, 100, -1, 1 << 30}[r.Intn(4)])})
	case k == 16: // oversized / odd length prefix
		b := make([]byte, 4)
		binary.BigEndian.PutUint32(b, []uint32{maxMessageSize + 1, 1 << 20, 1<<31 - 1, 1<<32 - 1}[r.Intn(4)])
		return b
	case k == 17: // random bytes with a correct prefix
		body := make([]byte, r.Intn(200))
		r.Read(body)
		return rawFrame(body)
	default: // byte-level mutation of a valid frame
		var v []byte
		if r.Intn(2) == 0 {
			i := r.Intn(g.N)
			v = frame(pieceRequest(i, 0, g.pieceLen(i)))
		} else {
			i := r.Intn(g.N)
			v = append(frame(piecePayload(i, 0, g.pieceLen(i))), g.piece(i)...)
		}
		return mutate(r, v)
	}
}

func mutate(r *rand.Rand, v []byte) []byte {
	v = append([]byte{}, v...)
	switch r.Intn(3) {
	case 0: // truncate
		return v[:r.Intn(len(v))]
	case 1: // flip bits in the message part
		n := 1 + r.Intn(4)
		lim := len(v)
		if lim > 40 {
			lim = 40
		}
		for ; n > 0; n-- {
			v[4+r.Intn(lim-4)] ^= 1 << uint(r.Intn(8))
		}
		return v
	default: // flip a bit in the length prefix
		v[r.Intn(4)] ^= 1 << uint(r.Intn(8))
		return v
	}
}

// genHandshakeFrame returns one hostile first frame.
func genHandshakeFrame(r *rand.Rand, g *geom, other *geom) []byte {
	full := func(int) bool { return true }
	valid := func() *p2p.Message {
		return handshakeMsg(g, randPeerID(r), bitsetBytes(g.N, func(int) bool { return r.Intn(2) == 0 }))
	}
	switch k := r.Intn(22); {
	case k < 3: // bitfield longer than the torrent, extra bits set
		n := g.N + 1 + r.Intn(130)
		return frame(handshakeMsg(g, randPeerID(r), bitsetBytes(n, full)))
	case k == 3: // longer, extra bits clear
		n := g.N + 1 + r.Intn(130)
		return frame(handshakeMsg(g, randPeerID(r), bitsetBytes(n, func(i int) bool { return i < g.N })))
	case k == 4: // shorter (incl. empty)
		return frame(handshakeMsg(g, randPeerID(r), bitsetBytes(r.Intn(g.N), full)))
	case k < 8: // oversized bitfield length header, little or no data behind it
		hdr := []uint64{1 << 21, 1 << 29, 1 << 30, 1 << 30, 1 << 33, 1 << 40, 1 << 40, 1 << 63, 1<<64 - 1}[r.Intn(9)]
		return frame(handshakeMsg(g, randPeerID(r), bitfieldBytes(hdr, make([]uint64, r.Intn(3)))))
	case k == 8: // truncated / short bitfield bytes
		b := bitsetBytes(g.N, full)
		return frame(handshakeMsg(g, randPeerID(r), b[:r.Intn(len(b))]))
	case k < 11: // remote bitfields: oversized header / many entries / bad key
		m := valid()
		m.Bitfield.RemoteBitfieldBytes = map[string][]byte{}
		switch r.Intn(3) {
		case 0:
			hdr := []uint64{1 << 30, 1 << 30, 1 << 33, 1 << 40}[r.Intn(4)]
			m.Bitfield.RemoteBitfieldBytes[randPeerID(r)] = bitfieldBytes(hdr, nil)
		case 1:
			for i := 0; i < 200; i++ {
				m.Bitfield.RemoteBitfieldBytes[randPeerID(r)] = bitsetBytes(g.N, full)
			}
		default:
			m.Bitfield.RemoteBitfieldBytes["zz"] = bitsetBytes(g.N, full)
		}
		return frame(m)
	case k == 11: // wrong info hash (well-formed)
		m := valid()
		m.Bitfield.InfoHash = other.MetaInfo.InfoHash().String()
		return frame(m)
	case k == 12: // malformed ids
		m := valid()
		switch r.Intn(4) {
		case 0:
			m.Bitfield.InfoHash = "nothex"
		case 1:
			m.Bitfield.PeerID = ""
		case 2:
			m.Bitfield.Name = "../../etc/passwd"
		default:
			m.Bitfield.PeerID = "00"
		}
		return frame(m)
	case k == 13: // unknown digest
		m := valid()
		m.Bitfield.Name = fmt.Sprintf("%064x", r.Uint64())
		return frame(m)
	case k == 14: // first message of another type / nil bitfield / empty message
		switch r.Intn(3) {
		case 0:
			return frame(pieceRequest(0, 0, g.pieceLen(0)))
		case 1:
			return frame(&p2p.Message{Type: p2p.Message_BITFIELD})
		}
		return rawFrame(nil)
	case k == 15: // odd namespace
		m := valid()
		m.Bitfield.Namespace = []string{"", "../..", "a/b/c", string(make([]byte, 3000))}[r.Intn(4)]
		return frame(m)
	case k == 16: // oversized length prefix
		b := make([]byte, 4)
		binary.BigEndian.PutUint32(b, []uint32{maxMessageSize + 1, 1 << 24, 1<<32 - 1}[r.Intn(3)])
		return b
	case k == 17: // random protobuf bytes
		body := make([]byte, r.Intn(300))
		r.Read(body)
		return rawFrame(body)
	default: // mutated valid handshake
		return mutate(r, frame(valid()))
	}
}
