// C15: piece request bookkeeping respects pipeline limits and peer removal.
//
// Model-diff monitor. A real piecerequest.Manager (both selection policies, mock
// clock) is driven by PRNG histories over 3-5 peers (agents and origins with
// their own pipeline limits) and 1-12 pieces: ReservePieces (random candidate
// sets, rarity counters, endgame flag), MarkUnsent, MarkInvalid, Clear,
// ClearPeer and clock advances below / across the request timeout, including
// re-reservation of the same (peer, piece) after expiry / unsent / invalid.
// Next to it runs a reference model: a plain list of requests
// {piece, peer, status, sentAt}.
//
// Oracle
//   - every ReservePieces result: pieces are distinct candidates; the peer's
//     unexpired pending requests never exceed its pipeline limit; outside endgame
//     a returned piece has no other unexpired pending request; never a second
//     unexpired request for the same (peer, piece);
//   - after every step, for every peer: PendingPieces lies between the model's
//     unexpired pending pieces and its not-yet-answered pending pieces, and is
//     empty for removed peers / cleared pieces;
//   - after every step: GetFailedRequests equals, as a set of (piece, peer), the
//     model's expired + unsent + invalid requests (status compared where the pair
//     has a single request) - so it lists nothing of a removed peer or a cleared
//     piece and misses nothing;
//   - at the end of every history the clock is moved far past the timeout, which
//     turns every remaining request into a failed one and thereby exposes the
//     manager's complete request table to the same comparison.
//
// A history stops at its first violation (the model cannot follow a manager
// whose table has diverged). A concurrent phase lets all peers reserve at once.
package c15

import (
	"fmt"
	"math/rand"
	"sort"
	"sync"
	"testing"
	"time"

	"github.com/andres-erbsen/clock"
	"github.com/willf/bitset"

	"github.com/uber/kraken/core"
	"github.com/uber/kraken/lib/torrent/scheduler/dispatch/piecerequest"
	"github.com/uber/kraken/utils/syncutil"

	"verif/harness/internal/ev"
)

// All clock advances are even numbers of milliseconds and the timeout is odd, so
// "now" never coincides with an expiry instant (After vs >= is not part of the
// statement).
const timeout = 5001 * time.Millisecond

type op struct {
	K       string `json:"k"` // reserve | unsent | invalid | clear | clearpeer | advance | rarity
	Peer    int    `json:"p,omitempty"`
	Cands   []int  `json:"c,omitempty"`   // reserve: candidate pieces
	Endgame bool   `json:"eg,omitempty"`  // reserve: allowDuplicates
	Sel     int    `json:"sel,omitempty"` // unsent/invalid/clear: selector into existing requests (or raw piece when Raw)
	Raw     bool   `json:"raw,omitempty"`
	Ms      int64  `json:"ms,omitempty"` // advance
	Val     int    `json:"v,omitempty"`  // rarity value
}

type history struct {
	Policy      string `json:"policy"`
	AgentLimit  int    `json:"agent_limit"`
	OriginLimit int    `json:"origin_limit"`
	Origin      []bool `json:"origin"` // per peer
	Pieces      int    `json:"pieces"`
	Rarity      []int  `json:"rarity"`
	ReuseClear  bool   `json:"reuse_cleared"` // cleared pieces may become candidates again
	Profile     string `json:"profile"`
	Ops         []op   `json:"ops"`
}

type profile struct {
	name                                                        string
	reserve, unsent, invalid, clear, clearpeer, advance, rarity int
	endgamePct                                                  int
	bigAdvancePct                                               int
}

var profiles = []profile{
	{"mixed", 10, 2, 2, 2, 2, 5, 1, 25, 40},
	{"expiry-churn", 10, 1, 1, 1, 2, 8, 0, 15, 70},
	{"no-expiry", 12, 2, 2, 3, 2, 3, 1, 25, 0},
	{"endgame", 10, 2, 2, 2, 2, 4, 0, 80, 40},
	{"peer-churn", 10, 2, 2, 1, 6, 5, 0, 25, 50},
	{"fail-retry", 10, 5, 5, 1, 1, 3, 0, 20, 30},
}

func genHistory(r *rand.Rand) history {
	p := profiles[r.Intn(len(profiles))]
	np := 3 + r.Intn(3)
	h := history{
		Policy:      []string{piecerequest.DefaultPolicy, piecerequest.RarestFirstPolicy}[r.Intn(2)],
		AgentLimit:  1 + r.Intn(4),
		OriginLimit: 1 + r.Intn(5),
		Pieces:      1 + r.Intn(12),
		ReuseClear:  r.Intn(10) == 0,
		Profile:     p.name,
	}
	for i := 0; i < np; i++ {
		h.Origin = append(h.Origin, r.Intn(4) == 0)
	}
	for i := 0; i < h.Pieces; i++ {
		h.Rarity = append(h.Rarity, r.Intn(4))
	}
	tot := p.reserve + p.unsent + p.invalid + p.clear + p.clearpeer + p.advance + p.rarity
	n := 12 + r.Intn(49)
	for len(h.Ops) < n {
		x := r.Intn(tot)
		var o op
		switch {
		case x < p.reserve:
			o = op{K: "reserve", Peer: r.Intn(np), Endgame: r.Intn(100) < p.endgamePct}
			switch r.Intn(4) {
			case 0: // everything
				for i := 0; i < h.Pieces; i++ {
					o.Cands = append(o.Cands, i)
				}
			case 1: // single piece
				o.Cands = []int{r.Intn(h.Pieces)}
			default:
				for i := 0; i < h.Pieces; i++ {
					if r.Intn(2) == 0 {
						o.Cands = append(o.Cands, i)
					}
				}
			}
		case x < p.reserve+p.unsent:
			o = op{K: "unsent", Peer: r.Intn(np), Sel: r.Intn(64), Raw: r.Intn(5) == 0}
		case x < p.reserve+p.unsent+p.invalid:
			o = op{K: "invalid", Peer: r.Intn(np), Sel: r.Intn(64), Raw: r.Intn(5) == 0}
		case x < p.reserve+p.unsent+p.invalid+p.clear:
			o = op{K: "clear", Sel: r.Intn(64), Raw: r.Intn(4) == 0}
		case x < p.reserve+p.unsent+p.invalid+p.clear+p.clearpeer:
			o = op{K: "clearpeer", Peer: r.Intn(np)}
		case x < p.reserve+p.unsent+p.invalid+p.clear+p.clearpeer+p.advance:
			o = op{K: "advance"}
			tm := timeout.Milliseconds()
			if r.Intn(100) < p.bigAdvancePct {
				switch r.Intn(3) {
				case 0:
					o.Ms = tm + 1 // just across
				case 1:
					o.Ms = tm - 1 // just below
				default:
					o.Ms = 2 * (tm + 1)
				}
			} else {
				o.Ms = 2 * (1 + r.Int63n(tm/6))
			}
		default:
			o = op{K: "rarity", Sel: r.Intn(h.Pieces), Val: r.Intn(5)}
		}
		h.Ops = append(h.Ops, o)
	}
	return h
}

// ---------------------------------------------------------------- model

type mstatus int

const (
	mPending mstatus = iota
	mUnsent
	mInvalid
)

type mreq struct {
	piece, peer int
	status      mstatus
	sentAt      time.Time
}

type pairKey struct{ peer, piece int }

type model struct {
	reqs    []*mreq
	now     time.Time
	cleared map[int]bool // pieces completed via Clear
	// requests dropped by ClearPeer / Clear, kept only to NAME a violation
	removedByPeer  map[pairKey]int // multiplicity at the time of ClearPeer
	removedByClear map[pairKey]bool
}

func (m *model) expired(q *mreq) bool {
	return q.status == mPending && m.now.After(q.sentAt.Add(timeout))
}
func (m *model) live(q *mreq) bool { return q.status == mPending && !m.expired(q) }

func (m *model) liveCount(peer int) int {
	n := 0
	for _, q := range m.reqs {
		if q.peer == peer && m.live(q) {
			n++
		}
	}
	return n
}

// failed returns the multiset of failed requests keyed by pair.
func (m *model) failed() map[pairKey][]string {
	out := map[pairKey][]string{}
	for _, q := range m.reqs {
		k := pairKey{q.peer, q.piece}
		switch {
		case q.status == mUnsent:
			out[k] = append(out[k], "unsent")
		case q.status == mInvalid:
			out[k] = append(out[k], "invalid")
		case m.expired(q):
			out[k] = append(out[k], "expired")
		}
	}
	return out
}

func (m *model) count(peer, piece int) int {
	n := 0
	for _, q := range m.reqs {
		if q.peer == peer && q.piece == piece {
			n++
		}
	}
	return n
}

func (m *model) piecesOf(peer int) []int {
	set := map[int]bool{}
	for _, q := range m.reqs {
		if q.peer == peer {
			set[q.piece] = true
		}
	}
	return sortedSet(set)
}

func (m *model) piecesWithRequests() []int {
	set := map[int]bool{}
	for _, q := range m.reqs {
		set[q.piece] = true
	}
	return sortedSet(set)
}

func sortedSet(s map[int]bool) []int {
	out := make([]int, 0, len(s))
	for i := range s {
		out = append(out, i)
	}
	sort.Ints(out)
	return out
}

func (m *model) dump() []string {
	var out []string
	for _, q := range m.reqs {
		st := [...]string{"pending", "unsent", "invalid"}[q.status]
		if m.expired(q) {
			st = "expired"
		}
		out = append(out, fmt.Sprintf("piece=%d peer=%d %s sent@%dms", q.piece, q.peer, st, q.sentAt.Sub(time.Unix(0, 0)).Milliseconds()))
	}
	return out
}

// ---------------------------------------------------------------- clock

// vclock is kraken's mock clock with Now() served from its own field. The
// Manager only ever calls Now(); clock.Mock.Add sleeps 1ms of wall time per call
// to let timer goroutines run, which nothing here needs.
type vclock struct {
	*clock.Mock
	mu  sync.Mutex
	now time.Time
}

func newVClock() *vclock { return &vclock{Mock: clock.NewMock(), now: time.Unix(0, 0)} }

func (c *vclock) Now() time.Time {
	c.mu.Lock()
	defer c.mu.Unlock()
	return c.now
}

func (c *vclock) Add(d time.Duration) {
	c.mu.Lock()
	c.now = c.now.Add(d)
	c.mu.Unlock()
}

// ---------------------------------------------------------------- execution

type stepLog struct {
	Step   int    `json:"step"`
	Op     string `json:"op"`
	Result string `json:"result,omitempty"`
}

type witness struct {
	History  history   `json:"history"`
	Step     int       `json:"step"`
	Executed []stepLog `json:"executed"`
	What     string    `json:"what"`
	Observed string    `json:"observed"`
	Expected string    `json:"expected"`
	Model    []string  `json:"model_requests"`
	NowMs    int64     `json:"now_ms"`
}

type stats struct {
	reservedPieces, rereserveSamePair, expiredSeen, clearPeerWithReqs, clearWithReqs, marks, endgameDup, underSelect int
	completed                                                                                                         bool
}

func statusName(s piecerequest.Status) string {
	switch s {
	case piecerequest.StatusPending:
		return "pending"
	case piecerequest.StatusExpired:
		return "expired"
	case piecerequest.StatusUnsent:
		return "unsent"
	case piecerequest.StatusInvalid:
		return "invalid"
	}
	return fmt.Sprintf("status(%d)", int(s))
}

func runHistory(run *ev.Run, caseID string, peers []core.PeerID, peerIdx map[core.PeerID]int, h history) stats {
	var st stats
	clk := newVClock()
	mgr, err := piecerequest.NewManager(clk, timeout, h.Policy, h.AgentLimit, h.OriginLimit)
	if err != nil {
		run.Inconclusive("NewManager: " + err.Error())
		return st
	}
	counters := syncutil.NewCounters(h.Pieces)
	for i, v := range h.Rarity {
		counters.Set(i, v)
	}
	m := &model{now: clk.Now(), cleared: map[int]bool{}, removedByPeer: map[pairKey]int{}, removedByClear: map[pairKey]bool{}}
	np := len(h.Origin)
	limit := func(p int) int {
		if h.Origin[p] {
			return h.OriginLimit
		}
		return h.AgentLimit
	}
	opCounts := map[string]int64{}
	defer func() {
		for k, v := range opCounts {
			run.Count("ops_"+k, v)
		}
	}()
	var lazy []func() stepLog // formatted only when a violation needs the trace
	step := 0
	violated := false
	viol := func(sig, what, obs, exp string) {
		violated = true
		logs := make([]stepLog, 0, len(lazy))
		for _, f := range lazy {
			logs = append(logs, f())
		}
		run.Violation(sig, caseID, witness{h, step, logs, what, obs, exp, m.dump(), m.now.Sub(time.Unix(0, 0)).Milliseconds()})
	}

	observe := func() {
		// PendingPieces per peer
		for p := 0; p < np && !violated; p++ {
			got := mgr.PendingPieces(peers[p])
			lower, upper := map[int]bool{}, map[int]bool{}
			for _, q := range m.reqs {
				if q.peer != p {
					continue
				}
				if q.status == mPending {
					upper[q.piece] = true
				}
				if m.live(q) {
					lower[q.piece] = true
				}
			}
			gs := map[int]bool{}
			for _, i := range got {
				gs[i] = true
				if !upper[i] {
					sig := "pending-report-lists-unknown-request"
					if _, rm := m.removedByPeer[pairKey{p, i}]; rm {
						sig = "pending-report-lists-removed-peer"
					} else if m.removedByClear[pairKey{p, i}] {
						sig = "pending-report-lists-cleared-piece"
					}
					viol(sig, "PendingPieces", fmt.Sprintf("peer %d: %v", p, got), fmt.Sprintf("subset of %v", sortedSet(upper)))
					break
				}
			}
			for i := range lower {
				if !gs[i] && !violated {
					viol("pending-report-misses-unexpired-request", "PendingPieces", fmt.Sprintf("peer %d: %v", p, got), fmt.Sprintf("superset of %v", sortedSet(lower)))
				}
			}
		}
		if violated {
			return
		}
		// GetFailedRequests
		got := mgr.GetFailedRequests()
		want := m.failed()
		gotBy := map[pairKey][]string{}
		for _, q := range got {
			pi, known := peerIdx[q.PeerID]
			if !known {
				viol("failed-report-lists-unknown-peer", "GetFailedRequests", fmt.Sprint(q), "")
				return
			}
			if q.Status == piecerequest.StatusPending {
				viol("failed-report-lists-pending-status", "GetFailedRequests", fmt.Sprintf("piece=%d peer=%d pending", q.Piece, pi), "only expired/unsent/invalid")
				return
			}
			k := pairKey{pi, q.Piece}
			gotBy[k] = append(gotBy[k], statusName(q.Status))
		}
		render := func(mm map[pairKey][]string) string {
			var ks []pairKey
			for k := range mm {
				ks = append(ks, k)
			}
			sort.Slice(ks, func(a, b int) bool {
				if ks[a].piece != ks[b].piece {
					return ks[a].piece < ks[b].piece
				}
				return ks[a].peer < ks[b].peer
			})
			s := ""
			for _, k := range ks {
				s += fmt.Sprintf("(piece=%d peer=%d %v) ", k.piece, k.peer, mm[k])
			}
			return s
		}
		fast := len(gotBy) == len(want)
		if fast {
			for k, w := range want {
				g, ok := gotBy[k]
				if !ok || (len(w) == 1 && len(g) == 1 && g[0] != w[0] && m.count(k.peer, k.piece) == 1) {
					fast = false
					break
				}
			}
		}
		if fast { // equal: nothing to name
			for _, ss := range want {
				for _, s := range ss {
					if s == "expired" {
						st.expiredSeen++
					}
				}
			}
			return
		}
		var gk []pairKey
		for k := range gotBy {
			gk = append(gk, k)
		}
		sort.Slice(gk, func(a, b int) bool {
			if gk[a].piece != gk[b].piece {
				return gk[a].piece < gk[b].piece
			}
			return gk[a].peer < gk[b].peer
		})
		for _, k := range gk {
			if _, ok := want[k]; !ok {
				sig := "failed-report-lists-unknown-request"
				if mult, rm := m.removedByPeer[k]; rm {
					sig = "failed-report-lists-removed-peer"
					if mult > 1 {
						sig = "failed-report-lists-removed-peer/duplicate-request-survives-clearpeer"
					}
				} else if m.removedByClear[k] {
					sig = "failed-report-lists-cleared-piece"
				} else if m.count(k.peer, k.piece) > 0 {
					sig = "failed-report-lists-unexpired-pending-request"
				}
				viol(sig, "GetFailedRequests", render(gotBy), render(want))
				return
			}
		}
		var wk []pairKey
		for k := range want {
			wk = append(wk, k)
		}
		sort.Slice(wk, func(a, b int) bool {
			if wk[a].piece != wk[b].piece {
				return wk[a].piece < wk[b].piece
			}
			return wk[a].peer < wk[b].peer
		})
		for _, k := range wk {
			g, ok := gotBy[k]
			if !ok {
				viol("failed-report-misses-"+want[k][0]+"-request", "GetFailedRequests", render(gotBy), render(want))
				return
			}
			if len(want[k]) == 1 && m.count(k.peer, k.piece) == 1 && len(g) == 1 && g[0] != want[k][0] {
				viol("failed-report-status-mismatch/"+want[k][0]+"-reported-as-"+g[0], "GetFailedRequests", render(gotBy), render(want))
				return
			}
		}
		for _, ss := range want {
			for _, s := range ss {
				if s == "expired" {
					st.expiredSeen++
				}
			}
		}
	}

	resolve := func(o op, list []int) int {
		if o.Raw || len(list) == 0 {
			return o.Sel % h.Pieces
		}
		return list[o.Sel%len(list)]
	}

	for si, o := range h.Ops {
		step = si
		switch o.K {
		case "reserve":
			bs := bitset.New(uint(h.Pieces))
			var cands []int
			for _, i := range o.Cands {
				if m.cleared[i] && !h.ReuseClear {
					continue // a completed piece is never a candidate again
				}
				bs.Set(uint(i))
				cands = append(cands, i)
			}
			got, err := mgr.ReservePieces(peers[o.Peer], h.Origin[o.Peer], bs, counters, o.Endgame)
			lazy = append(lazy, func() stepLog { return stepLog{si, fmt.Sprintf("ReservePieces(peer=%d origin=%v cands=%v endgame=%v)", o.Peer, h.Origin[o.Peer], cands, o.Endgame), fmt.Sprintf("%v err=%v", got, err)} })
			if err != nil {
				viol("reserve-returns-error", "ReservePieces", err.Error(), "nil")
				break
			}
			cs := map[int]bool{}
			for _, i := range cands {
				cs[i] = true
			}
			seen := map[int]bool{}
			suffix := ""
			if o.Endgame {
				suffix = "/endgame"
			}
			kind := "agent"
			if h.Origin[o.Peer] {
				kind = "origin"
			}
			// what the model would allow (only counted, never a verdict: the
			// statement bounds reservations from above)
			valid := 0
			for _, i := range cands {
				ok := true
				for _, q := range m.reqs {
					if q.piece == i && m.live(q) && (q.peer == o.Peer || !o.Endgame) {
						ok = false
					}
				}
				if ok {
					valid++
				}
			}
			room := limit(o.Peer) - m.liveCount(o.Peer)
			if len(got) < min(room, valid) {
				st.underSelect++
			}
			for _, i := range got {
				if !cs[i] {
					viol("reserve-returns-non-candidate", "ReservePieces", fmt.Sprint(got), fmt.Sprintf("subset of %v", cands))
					break
				}
				if seen[i] {
					viol("reserve-returns-piece-twice", "ReservePieces", fmt.Sprint(got), "distinct pieces")
					break
				}
				seen[i] = true
				for _, q := range m.reqs {
					if q.piece != i || !m.live(q) {
						continue
					}
					if q.peer == o.Peer {
						viol("reserve-second-unexpired-request-for-same-peer"+suffix, "ReservePieces",
							fmt.Sprintf("piece %d reserved again for peer %d", i, o.Peer), "piece already has an unexpired request of this peer")
						break
					}
					if !o.Endgame {
						viol("reserve-second-unexpired-request-outside-endgame", "ReservePieces",
							fmt.Sprintf("piece %d reserved for peer %d", i, o.Peer), fmt.Sprintf("piece has an unexpired request of peer %d", q.peer))
						break
					}
					st.endgameDup++
				}
				if violated {
					break
				}
				if m.count(o.Peer, i) > 0 {
					st.rereserveSamePair++
				}
			}
			if violated {
				break
			}
			if m.liveCount(o.Peer)+len(got) > limit(o.Peer) {
				viol("reserve-exceeds-pipeline-limit/"+kind, "ReservePieces",
					fmt.Sprintf("%d unexpired before + %d new", m.liveCount(o.Peer), len(got)), fmt.Sprintf("<= %d", limit(o.Peer)))
				break
			}
			for _, i := range got {
				m.reqs = append(m.reqs, &mreq{piece: i, peer: o.Peer, status: mPending, sentAt: m.now})
				// the pair exists again: a report about it is no longer a report about a removed one
				delete(m.removedByPeer, pairKey{o.Peer, i})
				delete(m.removedByClear, pairKey{o.Peer, i})
			}
			st.reservedPieces += len(got)
		case "unsent", "invalid":
			i := resolve(o, m.piecesOf(o.Peer))
			ns := mUnsent
			if o.K == "invalid" {
				ns = mInvalid
				mgr.MarkInvalid(peers[o.Peer], i)
			} else {
				mgr.MarkUnsent(peers[o.Peer], i)
			}
			lazy = append(lazy, func() stepLog { return stepLog{si, fmt.Sprintf("Mark%s(peer=%d piece=%d)", o.K, o.Peer, i), ""} })
			for _, q := range m.reqs {
				if q.peer == o.Peer && q.piece == i {
					q.status = ns
					st.marks++
				}
			}
		case "clear":
			i := resolve(o, m.piecesWithRequests())
			mgr.Clear(i)
			lazy = append(lazy, func() stepLog { return stepLog{si, fmt.Sprintf("Clear(piece=%d)", i), ""} })
			var keep []*mreq
			hit := false
			for _, q := range m.reqs {
				if q.piece == i {
					m.removedByClear[pairKey{q.peer, i}] = true
					hit = true
					continue
				}
				keep = append(keep, q)
			}
			for k := range m.removedByPeer {
				if k.piece == i {
					delete(m.removedByPeer, k)
					m.removedByClear[k] = true
				}
			}
			if hit {
				st.clearWithReqs++
			}
			m.reqs = keep
			m.cleared[i] = true
		case "clearpeer":
			mgr.ClearPeer(peers[o.Peer])
			lazy = append(lazy, func() stepLog { return stepLog{si, fmt.Sprintf("ClearPeer(peer=%d)", o.Peer), ""} })
			var keep []*mreq
			hit := false
			for _, q := range m.reqs {
				if q.peer == o.Peer {
					m.removedByPeer[pairKey{o.Peer, q.piece}]++
					hit = true
					continue
				}
				keep = append(keep, q)
			}
			if hit {
				st.clearPeerWithReqs++
			}
			m.reqs = keep
		case "advance":
			clk.Add(time.Duration(o.Ms) * time.Millisecond)
			m.now = clk.Now()
			lazy = append(lazy, func() stepLog { return stepLog{si, fmt.Sprintf("clock += %dms", o.Ms), ""} })
		case "rarity":
			counters.Set(o.Sel, o.Val)
			lazy = append(lazy, func() stepLog { return stepLog{si, fmt.Sprintf("numPeersByPiece[%d] = %d", o.Sel, o.Val), ""} })
		}
		opCounts[o.K]++
		if violated {
			return st
		}
		observe()
		if violated {
			return st
		}
	}
	// final exposure: everything still pending becomes a failed (expired) request
	step = len(h.Ops)
	clk.Add(2 * (timeout + time.Millisecond))
	m.now = clk.Now()
	lazy = append(lazy, func() stepLog { return stepLog{step, "final: clock += 2*(timeout+1ms)", ""} })
	observe()
	st.completed = !violated
	return st
}

// ---------------------------------------------------------------- concurrent phase

func runConcurrent(run *ev.Run, caseID string, r *rand.Rand, peers []core.PeerID) {
	policy := []string{piecerequest.DefaultPolicy, piecerequest.RarestFirstPolicy}[r.Intn(2)]
	agentLimit, originLimit := 1+r.Intn(4), 1+r.Intn(5)
	np := 3 + r.Intn(3)
	pieces := 2 + r.Intn(14)
	rounds := 2 + r.Intn(4)
	origin := make([]bool, np)
	for i := range origin {
		origin[i] = r.Intn(4) == 0
	}
	clk := newVClock()
	mgr, err := piecerequest.NewManager(clk, timeout, policy, agentLimit, originLimit)
	if err != nil {
		run.Inconclusive("NewManager: " + err.Error())
		return
	}
	counters := syncutil.NewCounters(pieces)
	cands := make([][][]int, np)
	for p := 0; p < np; p++ {
		for k := 0; k < rounds; k++ {
			var c []int
			for i := 0; i < pieces; i++ {
				if r.Intn(3) != 0 {
					c = append(c, i)
				}
			}
			cands[p] = append(cands[p], c)
		}
	}
	results := make([][]int, np)
	var wg sync.WaitGroup
	for p := 0; p < np; p++ {
		wg.Add(1)
		go func(p int) {
			defer wg.Done()
			for k := 0; k < rounds; k++ {
				bs := bitset.New(uint(pieces))
				for _, i := range cands[p][k] {
					bs.Set(uint(i))
				}
				got, _ := mgr.ReservePieces(peers[p], origin[p], bs, counters, false)
				results[p] = append(results[p], got...)
				_ = mgr.PendingPieces(peers[p])
				_ = mgr.GetFailedRequests()
			}
		}(p)
	}
	wg.Wait()
	wit := map[string]interface{}{"policy": policy, "agent_limit": agentLimit, "origin_limit": originLimit, "origin": origin,
		"pieces": pieces, "candidates": cands, "results": results}
	owner := map[int]int{}
	for p, got := range results {
		lim := agentLimit
		kind := "agent"
		if origin[p] {
			lim, kind = originLimit, "origin"
		}
		if len(got) > lim {
			run.Violation("concurrent/reserve-exceeds-pipeline-limit/"+kind, caseID, wit)
			return
		}
		for _, i := range got {
			if _, dup := owner[i]; dup {
				run.Violation("concurrent/reserve-second-unexpired-request-outside-endgame", caseID, wit)
				return
			}
			owner[i] = p
		}
		// pending report must equal what the peer was handed (no expiry, no marks)
		pp := mgr.PendingPieces(peers[p])
		s := append([]int{}, got...)
		sort.Ints(s)
		if fmt.Sprint(pp) != fmt.Sprint(s) && !(len(pp) == 0 && len(s) == 0) {
			run.Violation("concurrent/pending-report-differs-from-reservations", caseID, wit)
			return
		}
	}
	contended := len(owner) >= 2
	if f := mgr.GetFailedRequests(); len(f) != 0 {
		run.Violation("concurrent/failed-report-lists-unexpired-pending-request", caseID, wit)
		return
	}
	run.Count("concurrent_cases", 1)
	run.Case(ev.JSON(map[string]interface{}{"pol": policy, "al": agentLimit, "ol": originLimit, "o": origin, "n": pieces, "c": cands}), contended)
}

// ---------------------------------------------------------------- entry

func TestC15(t *testing.T) {
	run := ev.Start(t, "C15", "exploration",
		"PRNG histories (12-60 ops, 6 weight profiles, both policies, agent limit 1-4, origin limit 1-5, 3-5 peers, 1-12 pieces) of ReservePieces / MarkUnsent / MarkInvalid / Clear / ClearPeer / clock advances "+
			"(small, timeout-1ms, timeout+1ms, 2*timeout) / rarity changes on a real Manager with a mock clock, closed by a far clock jump that exposes the whole request table. "+
			"Non-trivial = the history ran to its end, reserved >= 3 pieces and contained at least one of: request expiry seen in the failed report, ClearPeer of a peer with requests, Clear of a piece with requests; "+
			"distinct = distinct generated history. Plus a concurrent phase (all peers reserve at once, 2-5 rounds).")
	defer run.Finish()
	run.Assume("the reference model (list of requests with status and send time) is trusted; statuses are compared only for (piece, peer) pairs with a single request")
	run.Assume("clock advances never land exactly on an expiry instant (even advances, odd timeout)")
	run.Assume("completed (cleared) pieces are not offered as candidates again except in the 10% of histories flagged reuse_cleared")

	const workers = 8
	total := run.N(8000, 250000)
	per := total / workers
	conc := run.N(800, 16000) / workers

	peers := make([]core.PeerID, 6)
	peerIdx := map[core.PeerID]int{}
	for i := range peers {
		p, err := core.HashedPeerID(fmt.Sprintf("c15-peer-%d", i))
		if err != nil {
			t.Fatal(err)
		}
		peers[i] = p
		peerIdx[p] = i
	}

	var wg sync.WaitGroup
	for w := 0; w < workers; w++ {
		wg.Add(1)
		go func(w int) {
			defer wg.Done()
			r := run.Rand(fmt.Sprintf("worker-%d", w))
			for i := 0; i < per; i++ {
				h := genHistory(r)
				caseID := fmt.Sprintf("w%d/h%d", w, i)
				if rc := run.ReplayCase(); rc != "" && rc != caseID {
					continue
				}
				st := runHistory(run, caseID, peers, peerIdx, h)
				run.Count("histories_"+h.Policy, 1)
				run.Distinct("profiles", h.Profile)
				if st.completed {
					run.Count("histories_completed", 1)
				} else {
					run.Count("histories_stopped_at_violation", 1)
				}
				run.Count("pieces_reserved", int64(st.reservedPieces))
				run.Count("rereserve_same_peer_and_piece", int64(st.rereserveSamePair))
				run.Count("expired_requests_in_reports", int64(st.expiredSeen))
				run.Count("clearpeer_with_requests", int64(st.clearPeerWithReqs))
				run.Count("clear_with_requests", int64(st.clearWithReqs))
				run.Count("requests_marked", int64(st.marks))
				run.Count("endgame_duplicate_reservations", int64(st.endgameDup))
				run.Count("reserve_returned_fewer_than_model_allows", int64(st.underSelect))
				nontrivial := st.completed && st.reservedPieces >= 3 && (st.expiredSeen > 0 || st.clearPeerWithReqs > 0 || st.clearWithReqs > 0)
				run.Case(ev.JSON(h), nontrivial)
				if i%1499 == 0 && run.WantSample() {
					run.Sample(map[string]interface{}{"case": caseID, "history": h})
				}
			}
			rc := run.Rand(fmt.Sprintf("concurrent-%d", w))
			for i := 0; i < conc; i++ {
				caseID := fmt.Sprintf("w%d/c%d", w, i)
				if rcase := run.ReplayCase(); rcase != "" && rcase != caseID {
					// keep the stream aligned: draw the same values without executing
					runConcurrentSkip(rc)
					continue
				}
				runConcurrent(run, caseID, rc, peers)
			}
		}(w)
	}
	wg.Wait()
}

// runConcurrentSkip consumes exactly the random draws of runConcurrent.
func runConcurrentSkip(r *rand.Rand) {
	r.Intn(2)
	r.Intn(4)
	r.Intn(5)
	np := 3 + r.Intn(3)
	pieces := 2 + r.Intn(14)
	rounds := 2 + r.Intn(4)
	for i := 0; i < np; i++ {
		r.Intn(4)
	}
	for p := 0; p < np; p++ {
		for k := 0; k < rounds; k++ {
			for i := 0; i < pieces; i++ {
				r.Intn(3)
			}
		}
	}
}
