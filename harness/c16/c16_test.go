// C16: connection limits and connection states are never violated.
//
// Part 1 (model-diff): a real connstate.State (virtual clock) is driven by PRNG
// histories over 2-3 torrents x 4-6 peers with small MaxOpenConnectionsPerTorrent
// and MaxMutualConnections: AddPending (with neighbour lists), DeletePending,
// MovePendingToActive (open, closed and replacement conns), DeleteActive (current
// conn / an older conn of the same peer), Blacklist, ClearBlacklist and clock
// advances. The conns are real *conn.Conn values produced by real handshakes over
// loopback TCP (conn.Handshaker Initialize / Accept / Establish), several per
// (torrent, peer) so that "replaced" connections exist.
//
// Oracle: every return value is justified by the reference model (success of
// AddPending requires below capacity, peer unknown and mutual <= limit; a refusal
// requires one of them to fail; which error wins is not compared). After every
// step ActiveConns, Saturated, Blacklisted and BlacklistSnapshot are compared with
// the model. At checkpoints the complete table is observed through the public
// API on a clone (history prefix replayed into a fresh State): MovePendingToActive
// succeeds exactly for the pending peers, which yields the pending set, the
// per-torrent pending+active count (<= max) and "never both".
//
// Part 2 (scheduler_test.go in this package): a real scheduler with a mock clock
// must not dial blacklisted peers before their blacklist expires.
package c16

import (
	"fmt"
	"math/rand"
	"net"
	"os"
	"sort"
	"sync"
	"testing"
	"time"

	"github.com/andres-erbsen/clock"
	"github.com/uber-go/tally"
	"go.uber.org/zap"

	"github.com/uber/kraken/core"
	"github.com/uber/kraken/lib/torrent/networkevent"
	"github.com/uber/kraken/lib/torrent/scheduler/conn"
	"github.com/uber/kraken/lib/torrent/scheduler/connstate"
	"github.com/uber/kraken/lib/torrent/storage"

	"verif/harness/internal/ev"
)

const (
	nTorrents    = 3
	nPeers       = 6
	connsPerPair = 3 // open conns per (torrent, peer); index connsPerPair is a closed conn
)

// ---------------------------------------------------------------- clock

// vclock is kraken's mock clock with Now() served from its own field (State only
// calls Now(); clock.Mock.Add sleeps 1ms of wall time per call).
type vclock struct {
	*clock.Mock
	mu  sync.Mutex
	now time.Time
}

func newVClock() *vclock { return &vclock{Mock: clock.NewMock(), now: time.Unix(1000, 0)} }

func (c *vclock) Now() time.Time {
	c.mu.Lock()
	defer c.mu.Unlock()
	return c.now
}

func (c *vclock) Add(d time.Duration) {
	c.mu.Lock()
	c.now = c.now.Add(d)
	c.mu.Unlock()
}

// ---------------------------------------------------------------- real conns

type noEvents struct{}

func (noEvents) ConnClosed(*conn.Conn) {}

type connID struct{ t, p, k int }

type pool struct {
	local   core.PeerID
	infos   []*storage.TorrentInfo
	peers   []core.PeerID
	conns   [][][]*conn.Conn // [t][p][k], k == connsPerPair is closed
	ids     map[*conn.Conn]connID
	tIdx    map[core.InfoHash]int
	pIdx    map[core.PeerID]int
	remotes []*conn.Conn
	ln      net.Listener
}

func newHandshaker(id core.PeerID) (*conn.Handshaker, error) {
	return conn.NewHandshaker(conn.Config{}, tally.NoopScope, clock.New(), networkevent.NewTestProducer(), id, noEvents{}, zap.NewNop().Sugar())
}

// buildPool creates the real conns by real handshakes: for every (torrent, peer)
// a remote handshaker with that peer id dials the local handshaker.
func buildPool() (*pool, error) {
	pl := &pool{ids: map[*conn.Conn]connID{}, tIdx: map[core.InfoHash]int{}, pIdx: map[core.PeerID]int{}}
	var err error
	if pl.local, err = core.HashedPeerID("c16-local"); err != nil {
		return nil, err
	}
	byHash := map[core.InfoHash]*storage.TorrentInfo{}
	for t := 0; t < nTorrents; t++ {
		info := storage.TorrentInfoFixture(uint64(64+t), 16)
		pl.infos = append(pl.infos, info)
		byHash[info.InfoHash()] = info
		pl.tIdx[info.InfoHash()] = t
	}
	lh, err := newHandshaker(pl.local)
	if err != nil {
		return nil, err
	}
	pl.ln, err = net.Listen("tcp", "127.0.0.1:0")
	if err != nil {
		return nil, err
	}
	type res struct {
		c   *conn.Conn
		err error
	}
	established := make(chan res, 1)
	go func() {
		for {
			nc, err := pl.ln.Accept()
			if err != nil {
				return
			}
			pc, err := lh.Accept(nc)
			if err != nil {
				established <- res{nil, err}
				continue
			}
			c, err := lh.Establish(pc, byHash[pc.InfoHash()], nil)
			established <- res{c, err}
		}
	}()
	pl.conns = make([][][]*conn.Conn, nTorrents)
	for p := 0; p < nPeers; p++ {
		id, err := core.HashedPeerID(fmt.Sprintf("c16-peer-%d", p))
		if err != nil {
			return nil, err
		}
		pl.peers = append(pl.peers, id)
		pl.pIdx[id] = p
	}
	for t := 0; t < nTorrents; t++ {
		pl.conns[t] = make([][]*conn.Conn, nPeers)
		for p := 0; p < nPeers; p++ {
			rh, err := newHandshaker(pl.peers[p])
			if err != nil {
				return nil, err
			}
			for k := 0; k <= connsPerPair; k++ {
				r, err := rh.Initialize(pl.local, false, pl.ln.Addr().String(), pl.infos[t], nil, "c16")
				if err != nil {
					return nil, fmt.Errorf("initialize: %v", err)
				}
				pl.remotes = append(pl.remotes, r.Conn)
				var e res
				select {
				case e = <-established:
				case <-time.After(20 * time.Second):
					return nil, fmt.Errorf("establish: watchdog")
				}
				if e.err != nil {
					return nil, fmt.Errorf("establish: %v", e.err)
				}
				if e.c.PeerID() != pl.peers[p] || e.c.InfoHash() != pl.infos[t].InfoHash() {
					return nil, fmt.Errorf("established conn has unexpected identity")
				}
				if k == connsPerPair {
					e.c.Close()
				}
				pl.conns[t][p] = append(pl.conns[t][p], e.c)
				pl.ids[e.c] = connID{t, p, k}
			}
		}
	}
	return pl, nil
}

func (pl *pool) close() {
	pl.ln.Close()
	for _, tc := range pl.conns {
		for _, pc := range tc {
			for _, c := range pc {
				c.Close()
			}
		}
	}
	for _, c := range pl.remotes {
		c.Close()
	}
}

// ---------------------------------------------------------------- ops and model

type op struct {
	K  string `json:"k"` // addpending | deletepending | move | deleteactive | blacklist | clearbl | advance
	T  int    `json:"t"`
	P  int    `json:"p,omitempty"`
	C  int    `json:"c,omitempty"`  // conn index (connsPerPair = the closed one)
	N  []int  `json:"n,omitempty"`  // neighbours
	Ms int64  `json:"ms,omitempty"` // advance
}

type history struct {
	Torrents  int    `json:"torrents"`
	Peers     int    `json:"peers"`
	Max       int    `json:"max_open_conn"`
	Mutual    int    `json:"max_mutual_conn"` // 0 = unset (documented default: no limit)
	BlMs      int64  `json:"blacklist_ms"`
	BlDisable bool   `json:"disable_blacklist"`
	Profile   string `json:"profile"`
	Ops       []op   `json:"ops"`
}

const (
	sNone = iota
	sPending
	sActive
)

type entry struct{ st, conn int }
type pair struct{ t, p int }

type model struct {
	h     *history
	conns []map[int]entry
	bl    map[pair]time.Time
	now   time.Time
}

func newModel(h *history) *model {
	m := &model{h: h, bl: map[pair]time.Time{}, now: time.Unix(1000, 0)}
	for t := 0; t < h.Torrents; t++ {
		m.conns = append(m.conns, map[int]entry{})
	}
	return m
}

func (m *model) mutualLimit() int {
	if m.h.Mutual == 0 {
		return m.h.Max
	}
	return m.h.Mutual
}

func (m *model) mutual(t int, ns []int) int {
	n := 0
	for _, p := range ns {
		if m.conns[t][p].st != sNone {
			n++
		}
	}
	return n
}

func (m *model) blacklisted(t, p int) bool {
	e, ok := m.bl[pair{t, p}]
	return ok && e.After(m.now)
}

func (m *model) activeCount(t int) int {
	n := 0
	for _, e := range m.conns[t] {
		if e.st == sActive {
			n++
		}
	}
	return n
}

// apply returns whether the op must succeed (for ops with a result).
func (m *model) apply(o op) bool {
	switch o.K {
	case "addpending":
		if len(m.conns[o.T]) >= m.h.Max || m.conns[o.T][o.P].st != sNone || m.mutual(o.T, o.N) > m.mutualLimit() {
			return false
		}
		m.conns[o.T][o.P] = entry{st: sPending}
		return true
	case "deletepending":
		if m.conns[o.T][o.P].st == sPending {
			delete(m.conns[o.T], o.P)
		}
	case "move":
		if o.C == connsPerPair || m.conns[o.T][o.P].st != sPending {
			return false
		}
		m.conns[o.T][o.P] = entry{sActive, o.C}
		return true
	case "deleteactive":
		if e := m.conns[o.T][o.P]; e.st == sActive && e.conn == o.C {
			delete(m.conns[o.T], o.P)
		}
	case "blacklist":
		if m.h.BlDisable {
			return true
		}
		if m.blacklisted(o.T, o.P) {
			return false
		}
		m.bl[pair{o.T, o.P}] = m.now.Add(time.Duration(m.h.BlMs) * time.Millisecond)
		return true
	case "clearbl":
		for k := range m.bl {
			if k.t == o.T {
				delete(m.bl, k)
			}
		}
	case "advance":
		m.now = m.now.Add(time.Duration(o.Ms) * time.Millisecond)
	}
	return true
}

func (m *model) dump() string {
	s := ""
	for t := range m.conns {
		var ps []int
		for p := range m.conns[t] {
			ps = append(ps, p)
		}
		sort.Ints(ps)
		s += fmt.Sprintf("t%d:{", t)
		for _, p := range ps {
			e := m.conns[t][p]
			if e.st == sPending {
				s += fmt.Sprintf("p%d:pending ", p)
			} else {
				s += fmt.Sprintf("p%d:active(conn %d) ", p, e.conn)
			}
		}
		s += "} "
	}
	var bk []pair
	for k := range m.bl {
		bk = append(bk, k)
	}
	sort.Slice(bk, func(a, b int) bool { return bk[a].t*100+bk[a].p < bk[b].t*100+bk[b].p })
	for _, k := range bk {
		s += fmt.Sprintf("bl(t%d,p%d)=%+dms ", k.t, k.p, m.bl[k].Sub(m.now).Milliseconds())
	}
	return s
}

// ---------------------------------------------------------------- generator

type profile struct {
	name                                                    string
	add, delp, move, dela, bl, clearbl, advance            int
	smartPct                                                int
}

var profiles = []profile{
	{"mixed", 8, 2, 6, 5, 3, 1, 3, 60},
	{"capacity-pressure", 14, 2, 4, 3, 1, 0, 1, 40},
	{"replace", 6, 1, 8, 9, 1, 0, 1, 80},
	{"blacklist", 4, 1, 3, 3, 8, 2, 8, 60},
	{"random", 6, 3, 6, 6, 3, 1, 3, 0},
}

func genHistory(r *rand.Rand) history {
	pf := profiles[r.Intn(len(profiles))]
	h := history{
		Torrents: 2 + r.Intn(2),
		Peers:    4 + r.Intn(3),
		Max:      1 + r.Intn(6),
		BlMs:     []int64{30001, 5001, 1001}[r.Intn(3)], // odd; advances are even: never exactly at an expiry
		Profile:  pf.name,
	}
	if r.Intn(4) != 0 {
		h.Mutual = 1 + r.Intn(h.Max)
		if r.Intn(2) == 0 {
			h.Mutual = 1 + r.Intn(2) // low limits: refusals for mutual conns below capacity
		}
	}
	h.BlDisable = r.Intn(12) == 0
	m := newModel(&h)
	tot := pf.add + pf.delp + pf.move + pf.dela + pf.bl + pf.clearbl + pf.advance
	n := 15 + r.Intn(56)
	pick := func(want int) (int, int, bool) { // a (t,p) in the wanted state
		var c []pair
		for t := range m.conns {
			for p := 0; p < h.Peers; p++ {
				if m.conns[t][p].st == want {
					c = append(c, pair{t, p})
				}
			}
		}
		if len(c) == 0 {
			return 0, 0, false
		}
		x := c[r.Intn(len(c))]
		return x.t, x.p, true
	}
	for len(h.Ops) < n {
		x := r.Intn(tot)
		smart := r.Intn(100) < pf.smartPct
		o := op{T: r.Intn(h.Torrents), P: r.Intn(h.Peers)}
		switch {
		case x < pf.add:
			o.K = "addpending"
			if smart {
				if t, p, ok := pick(sNone); ok {
					o.T, o.P = t, p
				}
			}
			for _, q := range r.Perm(h.Peers)[:r.Intn(h.Peers)] {
				if q != o.P {
					o.N = append(o.N, q)
				}
			}
			switch r.Intn(5) {
			case 0:
				o.N = nil
			case 1, 2: // the remote peer is connected to everybody we are connected to
				o.N = nil
				for q := 0; q < h.Peers; q++ {
					if q != o.P && m.conns[o.T][q].st != sNone {
						o.N = append(o.N, q)
					}
				}
			}
		case x < pf.add+pf.delp:
			o.K = "deletepending"
			if smart {
				if t, p, ok := pick(sPending); ok {
					o.T, o.P = t, p
				}
			}
		case x < pf.add+pf.delp+pf.move:
			o.K = "move"
			o.C = r.Intn(connsPerPair)
			if smart {
				if t, p, ok := pick(sPending); ok {
					o.T, o.P = t, p
				}
			}
			if r.Intn(8) == 0 {
				o.C = connsPerPair // the closed conn
			}
		case x < pf.add+pf.delp+pf.move+pf.dela:
			o.K = "deleteactive"
			o.C = r.Intn(connsPerPair)
			if smart {
				if t, p, ok := pick(sActive); ok {
					o.T, o.P = t, p
					if r.Intn(2) == 0 {
						o.C = m.conns[t][p].conn // the current conn
					} else {
						o.C = (m.conns[t][p].conn + 1 + r.Intn(connsPerPair-1)) % connsPerPair // an older / other conn
					}
				}
			}
		case x < pf.add+pf.delp+pf.move+pf.dela+pf.bl:
			o.K = "blacklist"
		case x < pf.add+pf.delp+pf.move+pf.dela+pf.bl+pf.clearbl:
			o.K = "clearbl"
			o.P = 0
		default:
			o.K = "advance"
			o.P = 0
			switch r.Intn(4) {
			case 0:
				o.Ms = h.BlMs - 1 // just below a full blacklist period
			case 1:
				o.Ms = h.BlMs + 1 // just across
			default:
				o.Ms = 2 * (1 + r.Int63n(h.BlMs/4))
			}
		}
		m.apply(o)
		h.Ops = append(h.Ops, o)
	}
	return h
}

// ---------------------------------------------------------------- execution

func newState(pl *pool, h *history, clk clock.Clock) *connstate.State {
	return connstate.New(connstate.Config{
		MaxOpenConnectionsPerTorrent: h.Max,
		MaxMutualConnections:         h.Mutual,
		DisableBlacklist:             h.BlDisable,
		BlacklistDuration:            time.Duration(h.BlMs) * time.Millisecond,
	}, clk, pl.local, nopProducer{}, nopLogger)
}

// nopProducer drops the network events State produces (they are not part of the oracle).
type nopProducer struct{}

func (nopProducer) Produce(*networkevent.Event) {}
func (nopProducer) Close() error                { return nil }

var nopLogger = zap.NewNop().Sugar()

func applyReal(pl *pool, s *connstate.State, clk *vclock, o op) error {
	switch o.K {
	case "addpending":
		var ns []core.PeerID
		for _, q := range o.N {
			ns = append(ns, pl.peers[q])
		}
		return s.AddPending(pl.peers[o.P], pl.infos[o.T].InfoHash(), ns)
	case "deletepending":
		s.DeletePending(pl.peers[o.P], pl.infos[o.T].InfoHash())
	case "move":
		return s.MovePendingToActive(pl.conns[o.T][o.P][o.C])
	case "deleteactive":
		s.DeleteActive(pl.conns[o.T][o.P][o.C])
	case "blacklist":
		return s.Blacklist(pl.peers[o.P], pl.infos[o.T].InfoHash())
	case "clearbl":
		s.ClearBlacklist(pl.infos[o.T].InfoHash())
	case "advance":
		clk.Add(time.Duration(o.Ms) * time.Millisecond)
	}
	return nil
}

type witness struct {
	History  history `json:"history"`
	Step     int     `json:"step"`
	Op       op      `json:"op"`
	What     string  `json:"what"`
	Observed string  `json:"observed"`
	Expected string  `json:"expected"`
	Model    string  `json:"model_state_after_step"`
}

type hstats struct {
	moves, refusals, staleDeletes, closedMoves, blExpiries, mutualRefusals, capRefusals int
	completed                                                                            bool
}

func errS(e error) string {
	if e == nil {
		return "nil"
	}
	return e.Error()
}

func runHistory(run *ev.Run, pl *pool, caseID string, h history, cps []bool) hstats {
	var st hstats
	clk := newVClock()
	s := newState(pl, &h, clk)
	m := newModel(&h)
	step := 0
	var cur op
	violated := false
	viol := func(sig, what, obs, exp string) {
		violated = true
		run.Violation(sig, caseID, witness{h, step, cur, what, obs, exp, m.dump()})
	}

	// probe observes the complete table of a State destructively: for every pair
	// MovePendingToActive(open conn) succeeds iff the pair is pending.
	probe := func(ps *connstate.State, where string) {
		active := map[pair]int{}
		for _, c := range ps.ActiveConns() {
			id, ok := pl.ids[c]
			if !ok {
				viol(where+"/active-conn-unknown", "ActiveConns", "conn not from this history", "")
				return
			}
			active[pair{id.t, id.p}] = id.k
		}
		pending := map[pair]bool{}
		for t := 0; t < h.Torrents; t++ {
			for p := 0; p < h.Peers; p++ {
				if _, isActive := active[pair{t, p}]; isActive {
					// an active peer must not also be pending: Move must be refused
					continue
				}
				if err := ps.MovePendingToActive(pl.conns[t][p][0]); err == nil {
					pending[pair{t, p}] = true
				}
			}
		}
		for t := 0; t < h.Torrents; t++ {
			cnt := 0
			for p := 0; p < h.Peers; p++ {
				k := pair{t, p}
				me := m.conns[t][p]
				_, isActive := active[k]
				if isActive || pending[k] {
					cnt++
				}
				switch {
				case me.st == sPending && !pending[k]:
					viol(where+"/pending-conn-lost", "probe", fmt.Sprintf("t%d p%d not pending", t, p), "pending")
					return
				case me.st != sPending && pending[k]:
					viol(where+"/unexpected-pending-conn", "probe", fmt.Sprintf("t%d p%d pending", t, p), "not pending")
					return
				}
			}
			if cnt > h.Max {
				viol(where+"/pending-plus-active-exceeds-max", "probe", fmt.Sprintf("t%d holds %d conns", t, cnt), fmt.Sprintf("<= %d", h.Max))
				return
			}
		}
	}

	observe := func() {
		// active conns, by identity
		var byPair [nTorrents][nPeers]int // conn index + 1, 0 = not active
		for _, c := range s.ActiveConns() {
			id, ok := pl.ids[c]
			if !ok {
				viol("active-conn-unknown", "ActiveConns", "conn not from this history", "")
				return
			}
			if k := byPair[id.t][id.p]; k != 0 {
				sig := "two-active-conns-for-one-peer"
				if k == id.k+1 {
					sig = "active-conn-listed-twice"
				}
				viol(sig, "ActiveConns", fmt.Sprintf("t%d p%d conns %d and %d", id.t, id.p, k-1, id.k), "one")
				return
			}
			byPair[id.t][id.p] = id.k + 1
		}
		for t := 0; t < h.Torrents; t++ {
			for p := 0; p < h.Peers; p++ {
				me := m.conns[t][p]
				k, isActive := byPair[t][p]-1, byPair[t][p] != 0
				switch {
				case me.st == sActive && !isActive:
					sig := "active-conn-lost"
					if cur.K == "deleteactive" && cur.T == t && cur.P == p && cur.C != me.conn {
						sig = "delete-of-older-conn-removed-newer-conn"
					}
					viol(sig, "ActiveConns", fmt.Sprintf("t%d p%d not active", t, p), fmt.Sprintf("active with conn %d", me.conn))
					return
				case me.st == sActive && k != me.conn:
					viol("active-conn-is-not-the-one-moved", "ActiveConns", fmt.Sprintf("t%d p%d conn %d", t, p, k), fmt.Sprintf("conn %d", me.conn))
					return
				case me.st != sActive && isActive:
					sig := "unexpected-active-conn"
					if me.st == sPending {
						sig = "peer-both-pending-and-active"
					}
					viol(sig, "ActiveConns", fmt.Sprintf("t%d p%d active with conn %d", t, p, k), "not active")
					return
				}
			}
			if g, w := s.Saturated(pl.infos[t].InfoHash()), m.activeCount(t) == h.Max; g != w {
				viol("saturated-mismatch", "Saturated", fmt.Sprintf("t%d %v", t, g), fmt.Sprintf("%v (%d active, max %d)", w, m.activeCount(t), h.Max))
				return
			}
		}
		// blacklist
		var snapRem [nTorrents][nPeers]time.Duration
		var snapListed [nTorrents][nPeers]bool
		for _, b := range s.BlacklistSnapshot() {
			t, okT := pl.tIdx[b.InfoHash]
			p, okP := pl.pIdx[b.PeerID]
			if !okT || !okP {
				viol("blacklist-snapshot-lists-unknown-conn", "BlacklistSnapshot", fmt.Sprint(b), "")
				return
			}
			snapRem[t][p], snapListed[t][p] = b.Remaining, true
		}
		for t := 0; t < h.Torrents; t++ {
			for p := 0; p < h.Peers; p++ {
				g := s.Blacklisted(pl.peers[p], pl.infos[t].InfoHash())
				w := m.blacklisted(t, p)
				if g != w {
					exp, had := m.bl[pair{t, p}]
					sig := "blacklisted-without-blacklisting"
					switch {
					case w:
						sig = "not-blacklisted-before-expiry"
					case had && !exp.After(m.now):
						sig = "still-blacklisted-after-expiry"
					}
					viol(sig, "Blacklisted", fmt.Sprintf("t%d p%d %v", t, p, g), fmt.Sprint(w))
					return
				}
				rem, listed := snapRem[t][p], snapListed[t][p]
				if w && (!listed || rem != m.bl[pair{t, p}].Sub(m.now)) {
					viol("blacklist-snapshot-wrong-remaining", "BlacklistSnapshot", fmt.Sprintf("t%d p%d listed=%v remaining=%v", t, p, listed, rem), fmt.Sprint(m.bl[pair{t, p}].Sub(m.now)))
					return
				}
				if !w && listed && rem > 0 {
					viol("blacklist-snapshot-lists-unblacklisted-peer", "BlacklistSnapshot", fmt.Sprintf("t%d p%d remaining=%v", t, p, rem), "absent or expired")
					return
				}
			}
		}
	}

	for i, o := range h.Ops {
		step, cur = i, o
		// classify against the model before the step
		pre := m.conns[o.T][o.P]
		preCount := len(m.conns[o.T])
		preMutual := 0
		if o.K == "addpending" {
			preMutual = m.mutual(o.T, o.N)
		}
		preBl := m.blacklisted(o.T, o.P)
		var expiring int
		if o.K == "advance" {
			for k, e := range m.bl {
				_ = k
				if e.After(m.now) && !e.After(m.now.Add(time.Duration(o.Ms)*time.Millisecond)) {
					expiring++
				}
			}
		}
		want := m.apply(o)
		err := applyReal(pl, s, clk, o)
		switch o.K {
		case "addpending":
			if err == nil && !want {
				sig := "addpending-accepted-with-too-many-mutual-conns"
				switch {
				case preCount >= h.Max:
					sig = "addpending-accepted-at-capacity"
				case pre.st == sPending:
					sig = "addpending-accepted-for-pending-peer"
				case pre.st == sActive:
					sig = "addpending-accepted-for-active-peer"
				}
				viol(sig, "AddPending", "nil", fmt.Sprintf("refusal (conns=%d max=%d peer-state=%d mutual=%d limit=%d)", preCount, h.Max, pre.st, preMutual, m.mutualLimit()))
			} else if err != nil && want {
				viol("addpending-refused-without-reason", "AddPending", err.Error(), fmt.Sprintf("nil (conns=%d max=%d peer unknown mutual=%d limit=%d)", preCount, h.Max, preMutual, m.mutualLimit()))
			} else if err != nil {
				st.refusals++
				if preCount >= h.Max {
					st.capRefusals++
				} else if pre.st == sNone {
					st.mutualRefusals++
				}
			}
		case "move":
			if err == nil && !want {
				sig := "move-to-active-accepted-without-pending"
				if o.C == connsPerPair {
					sig = "move-to-active-accepted-closed-conn"
				}
				viol(sig, "MovePendingToActive", "nil", "refusal")
			} else if err != nil && want {
				viol("move-to-active-refused-without-reason", "MovePendingToActive", err.Error(), "nil")
			} else if err == nil {
				st.moves++
			} else if o.C == connsPerPair && pre.st == sPending {
				st.closedMoves++
			}
		case "deleteactive":
			if pre.st == sActive && pre.conn != o.C {
				st.staleDeletes++
			}
		case "blacklist":
			if err == nil && !want {
				viol("blacklist-accepted-for-blacklisted-peer", "Blacklist", "nil", "error")
			} else if err != nil && want {
				sig := "blacklist-refused-for-unblacklisted-peer"
				if _, had := m.bl[pair{o.T, o.P}]; had && !preBl {
					sig = "blacklist-refused-after-expiry"
				}
				viol(sig, "Blacklist", err.Error(), "nil")
			}
		case "advance":
			st.blExpiries += expiring
		}
		if violated {
			return st
		}
		observe()
		if violated {
			return st
		}
		if cps[i] {
			cclk := newVClock()
			cs := newState(pl, &h, cclk)
			for _, po := range h.Ops[:i+1] {
				applyReal(pl, cs, cclk, po)
			}
			probe(cs, "clone-probe")
			if violated {
				return st
			}
		}
	}
	step = len(h.Ops)
	cur = op{K: "final-probe"}
	probe(s, "final-probe")
	st.completed = !violated
	return st
}

func TestC16(t *testing.T) {
	run := ev.Start(t, "C16", "exploration",
		"Part 1: PRNG histories (15-70 ops, 5 profiles incl. capacity pressure and conn replacement, 2-3 torrents x 4-6 peers, max open 1-6, max mutual unset or 1..max, blacklist 1-30s or disabled) of "+
			"AddPending/DeletePending/MovePendingToActive/DeleteActive/Blacklist/ClearBlacklist/clock advances on a real connstate.State with real handshaked conns. "+
			"Non-trivial = ran to its end with >= 1 successful move-to-active and >= 1 refused AddPending; distinct = distinct generated history. "+
			"Part 2: scheduler scenarios (PRNG peer lists per announce round, failing and closing fake peers, mock clock); non-trivial = >= 1 round listed a blacklisted peer and >= 1 peer was redialled after expiry.")
	defer run.Finish()
	run.Assume("the reference model of the conn table (per torrent map peer -> pending | active(conn)) and of the blacklist is trusted")
	run.Assume("clock advances never land exactly on a blacklist expiry (odd durations, even advances)")
	run.Assume("State is used from one goroutine (it is owned by the scheduler's event loop)")

	pl, err := buildPool()
	if err != nil {
		run.Inconclusive("building the real conn pool failed: " + err.Error())
		return
	}
	defer pl.close()
	run.Count("real_conns_handshaked", int64(nTorrents*nPeers*(connsPerPair+1)))

	const workers = 8
	total := run.N(3000, 100000)
	if os.Getenv("C16_DEV_SKIP_PART1") != "" { // development aid only
		total = 0
	}
	per := total / workers
	var wg sync.WaitGroup
	for w := 0; w < workers; w++ {
		wg.Add(1)
		go func(w int) {
			defer wg.Done()
			r := run.Rand(fmt.Sprintf("worker-%d", w))
			for i := 0; i < per; i++ {
				h := genHistory(r)
				cps := make([]bool, len(h.Ops))
				for j := range cps {
					cps[j] = r.Intn(8) == 0
				}
				caseID := fmt.Sprintf("w%d/h%d", w, i)
				if rc := run.ReplayCase(); rc != "" && rc != caseID {
					continue
				}
				st := runHistory(run, pl, caseID, h, cps)
				run.Count("histories", 1)
				run.Count("ops", int64(len(h.Ops)))
				run.Distinct("profiles", h.Profile)
				if st.completed {
					run.Count("histories_completed", 1)
				}
				run.Count("moves_to_active", int64(st.moves))
				run.Count("addpending_refused", int64(st.refusals))
				run.Count("addpending_refused_at_capacity", int64(st.capRefusals))
				run.Count("addpending_refused_for_mutual_conns", int64(st.mutualRefusals))
				run.Count("delete_active_with_older_conn", int64(st.staleDeletes))
				run.Count("move_with_closed_conn_while_pending", int64(st.closedMoves))
				run.Count("blacklist_expiries", int64(st.blExpiries))
				run.Case(ev.JSON(h), st.completed && st.moves >= 1 && st.refusals >= 1)
				if i%1999 == 0 && run.WantSample() {
					run.Sample(map[string]interface{}{"case": caseID, "history": h})
				}
			}
		}(w)
	}
	wg.Wait()

	runSchedulerPart(t, run)
	runCrossedPart(t, run)
}
