// C16 part 3: crossed handshakes on the real scheduler.
//
// The scheduler (MaxOpenConnectionsPerTorrent 1-2) is handed exactly max
// stalling peers by an announce response: it reserves every slot and dials; the
// stalling listeners accept the dial and never answer, so the outgoing
// handshakes stay in flight. Then, in PRNG order: the stalled peers' own
// incoming handshakes arrive (same peer id, same torrent: must be rejected
// without touching the reservation of OUR dial), another peer Q asks for a slot
// by an incoming handshake, and a further announce response lists Q and the
// stalled peers again.
//
// Oracle, counted at the fake peers (sockets stay open until the scheduler
// closes them, so nothing depends on timing): the scheduler's simultaneously
// outstanding dials plus established incoming conns for the torrent never
// exceed the maximum, and no peer has two dials outstanding at once.
package c16

import (
	"fmt"
	"math/rand"
	"net"
	"sync"
	"testing"
	"time"

	"github.com/andres-erbsen/clock"
	"github.com/uber-go/tally"
	"github.com/willf/bitset"
	"go.uber.org/zap"

	"github.com/uber/kraken/core"
	"github.com/uber/kraken/lib/store"
	"github.com/uber/kraken/lib/torrent/scheduler"
	"github.com/uber/kraken/lib/torrent/scheduler/conn"
	"github.com/uber/kraken/lib/torrent/scheduler/connstate"
	"github.com/uber/kraken/lib/torrent/storage"
	"github.com/uber/kraken/lib/torrent/storage/agentstorage"
	"github.com/uber/kraken/utils/log"

	"verif/harness/internal/ev"
)

type crossWorld struct {
	mu        sync.Mutex
	live      map[int]int // outstanding dials per stall peer
	maxPerOne int
	incoming  int // established incoming conns
	maxTotal  int
	dials     int
}

func (w *crossWorld) note() {
	total := w.incoming
	for _, n := range w.live {
		total += n
		if n > w.maxPerOne {
			w.maxPerOne = n
		}
	}
	if total > w.maxTotal {
		w.maxTotal = total
	}
}

type stallPeer struct {
	idx  int
	id   core.PeerID
	ln   net.Listener
	port int
	hs   *conn.Handshaker
}

func newStallPeer(w *crossWorld, idx int) (*stallPeer, error) {
	id, err := core.RandomPeerID()
	if err != nil {
		return nil, err
	}
	hs, err := conn.NewHandshaker(conn.Config{HandshakeTimeout: 5 * time.Second}, tally.NoopScope, clock.New(), nopProducer{}, id, noEvents{}, zap.NewNop().Sugar())
	if err != nil {
		return nil, err
	}
	ln, err := net.Listen("tcp", "127.0.0.1:0")
	if err != nil {
		return nil, err
	}
	p := &stallPeer{idx: idx, id: id, ln: ln, port: ln.Addr().(*net.TCPAddr).Port, hs: hs}
	go func() {
		for {
			nc, err := ln.Accept()
			if err != nil {
				return
			}
			w.mu.Lock()
			w.live[idx]++
			w.dials++
			w.note()
			w.mu.Unlock()
			go func() {
				// swallow the handshake and never answer; the dial stays outstanding
				// until the scheduler gives the socket up
				buf := make([]byte, 4096)
				for {
					if _, err := nc.Read(buf); err != nil {
						break
					}
				}
				w.mu.Lock()
				w.live[idx]--
				w.mu.Unlock()
				nc.Close()
			}()
		}
	}()
	return p, nil
}

type planTracker struct {
	mu    sync.Mutex
	plan  []*core.PeerInfo
	calls int
}

func (p *planTracker) CheckReadiness() error { return nil }
func (p *planTracker) Announce(d core.Digest, h core.InfoHash, complete bool, version int) ([]*core.PeerInfo, time.Duration, error) {
	p.mu.Lock()
	defer p.mu.Unlock()
	p.calls++
	return append([]*core.PeerInfo(nil), p.plan...), time.Minute, nil
}
func (p *planTracker) set(l []*core.PeerInfo) { p.mu.Lock(); p.plan = l; p.mu.Unlock() }
func (p *planTracker) n() int                  { p.mu.Lock(); defer p.mu.Unlock(); return p.calls }

type crossStep struct {
	K string `json:"k"` // cross (incoming handshake from stalled peer P) | incoming (from fresh peer) | announce (lists fresh + stalled peers)
	P int    `json:"p,omitempty"`
}

type crossScenario struct {
	Max   int         `json:"max_open_conn"`
	Extra int         `json:"extra_peers_in_first_announce"`
	Steps []crossStep `json:"steps"`
}

func genCrossScenario(r *rand.Rand) crossScenario {
	sc := crossScenario{Max: 1 + r.Intn(2), Extra: r.Intn(2)}
	n := 3 + r.Intn(5)
	for i := 0; i < n; i++ {
		switch r.Intn(3) {
		case 0:
			sc.Steps = append(sc.Steps, crossStep{"cross", r.Intn(sc.Max)})
		case 1:
			sc.Steps = append(sc.Steps, crossStep{K: "incoming"})
		default:
			sc.Steps = append(sc.Steps, crossStep{K: "announce"})
		}
	}
	return sc
}

func pollCross(cond func() bool, d time.Duration) bool {
	deadline := time.Now().Add(d)
	for {
		if cond() {
			return true
		}
		if time.Now().After(deadline) {
			return false
		}
		time.Sleep(2 * time.Millisecond)
	}
}

func runCrossScenario(run *ev.Run, caseID string, sc crossScenario) bool {
	w := &crossWorld{live: map[int]int{}}
	b := core.SizedBlobFixture(256, 64)
	mic := fakeMetainfo{map[core.Digest]*core.MetaInfo{b.Digest: b.MetaInfo}}
	info := storage.NewTorrentInfo(b.MetaInfo, bitset.New(uint(b.MetaInfo.NumPieces())))
	schedID, err := core.RandomPeerID()
	if err != nil {
		run.Inconclusive(err.Error())
		return false
	}
	var all []*stallPeer
	newPeer := func() *stallPeer {
		p, err := newStallPeer(w, len(all))
		if err != nil {
			return nil
		}
		all = append(all, p)
		return p
	}
	var held []*conn.Conn
	defer func() {
		for _, p := range all {
			p.ln.Close()
		}
		for _, c := range held {
			c.Close()
		}
	}()
	pi := func(p *stallPeer) *core.PeerInfo { return core.NewPeerInfo(p.id, "127.0.0.1", p.port, false, false) }

	tr := &planTracker{}
	var first []*core.PeerInfo
	var stalled []*stallPeer
	for i := 0; i < sc.Max+sc.Extra; i++ {
		p := newPeer()
		if p == nil {
			run.Inconclusive("fake peer")
			return false
		}
		if i < sc.Max {
			stalled = append(stalled, p)
		}
		first = append(first, pi(p))
	}
	tr.set(first)

	cads, cleanup := store.CADownloadStoreFixture()
	defer cleanup()
	ta := agentstorage.NewTorrentArchive(tally.NoopScope, cads, mic)
	port, err := freePort()
	if err != nil {
		run.Inconclusive(err.Error())
		return false
	}
	cfg := scheduler.Config{
		DisablePreemption: true,
		EmitStatsInterval: time.Hour,
		ConnState:         connstate.Config{MaxOpenConnectionsPerTorrent: sc.Max, BlacklistDuration: time.Hour},
		Conn:              conn.Config{HandshakeTimeout: 5 * time.Minute}, // our stalled dials stay in flight
		TorrentLog:        log.Config{Disable: true},
		Log:               log.Config{Disable: true},
	}
	sched, err := scheduler.VerifC16NewScheduler(cfg, ta, tally.NoopScope,
		core.PeerContext{IP: "127.0.0.1", Port: port, PeerID: schedID, Zone: "z"}, tr, nopProducer{}, clock.NewMock())
	if err != nil {
		run.Inconclusive("scheduler: " + err.Error())
		return false
	}
	addr := fmt.Sprintf("127.0.0.1:%d", port)
	var dl sync.WaitGroup
	defer func() {
		sched.Stop()
		done := make(chan struct{})
		go func() { dl.Wait(); close(done) }()
		select {
		case <-done:
		case <-time.After(watchdog):
		}
	}()
	announce := func() bool { // a Download call announces the torrent immediately
		before := tr.n()
		dl.Add(1)
		go func() { defer dl.Done(); _ = sched.Download("c16-ns", b.Digest) }()
		return pollCross(func() bool { return tr.n() > before }, watchdog)
	}
	settle := func() {
		for i := 0; i < 3; i++ {
			sched.BlacklistSnapshot() // answered by the event loop: earlier events have been applied
			time.Sleep(5 * time.Millisecond)
		}
	}
	totalLive := func() int {
		w.mu.Lock()
		defer w.mu.Unlock()
		n := w.incoming
		for _, v := range w.live {
			n += v
		}
		return n
	}
	if !announce() {
		run.Inconclusive("watchdog: torrent never announced")
		return false
	}
	if !pollCross(func() bool { return totalLive() >= sc.Max }, watchdog) {
		run.Inconclusive("watchdog: the scheduler did not dial the listed peers")
		return false
	}
	settle()

	var crossed, incomingTried, incomingAccepted, announces int
	for _, st := range sc.Steps {
		switch st.K {
		case "cross", "incoming":
			id := core.PeerID{}
			if st.K == "cross" {
				id = stalled[st.P].id
				crossed++
			} else {
				if id, err = core.RandomPeerID(); err != nil {
					run.Inconclusive(err.Error())
					return false
				}
				incomingTried++
			}
			hs, err := conn.NewHandshaker(conn.Config{HandshakeTimeout: 5 * time.Second}, tally.NoopScope, clock.New(), nopProducer{}, id, noEvents{}, zap.NewNop().Sugar())
			if err != nil {
				run.Inconclusive(err.Error())
				return false
			}
			// returns a conn if the scheduler admits the handshake, an error once it is rejected
			res, err := hs.Initialize(schedID, false, addr, info, nil, "c16-ns")
			if err == nil {
				held = append(held, res.Conn)
				w.mu.Lock()
				w.incoming++
				w.note()
				w.mu.Unlock()
				incomingAccepted++
			}
		case "announce":
			q := newPeer()
			if q == nil {
				run.Inconclusive("fake peer")
				return false
			}
			l := []*core.PeerInfo{pi(q)}
			for _, p := range stalled {
				l = append(l, pi(p))
			}
			tr.set(l)
			if !announce() {
				run.Inconclusive("watchdog: Download did not trigger an announce")
				return false
			}
			announces++
		}
		settle()
	}
	time.Sleep(150 * time.Millisecond)
	w.mu.Lock()
	maxTotal, maxOne, dials := w.maxTotal, w.maxPerOne, w.dials
	w.mu.Unlock()
	wit := map[string]interface{}{"scenario": sc, "max_simultaneous_handshakes_and_conns": maxTotal, "max_simultaneous_dials_to_one_peer": maxOne,
		"dials": dials, "incoming_handshakes_admitted": incomingAccepted}
	bad := false
	if maxTotal > sc.Max {
		run.Violation("scheduler/crossed-handshake/pending-plus-active-exceeds-max", caseID, wit)
		bad = true
	}
	if maxOne > 1 {
		run.Violation("scheduler/crossed-handshake/peer-dialled-twice-concurrently", caseID, wit)
		bad = true
	}
	run.Count("crossed_scenarios", 1)
	run.Count("crossed_incoming_handshakes_from_stalled_peer", int64(crossed))
	run.Count("crossed_incoming_handshakes_from_fresh_peer", int64(incomingTried))
	run.Count("crossed_announces_at_capacity", int64(announces))
	run.Count("crossed_dials_observed", int64(dials))
	run.Case(ev.JSON(sc), crossed >= 1 && (incomingTried >= 1 || announces >= 1))
	return !bad
}

func runCrossedPart(t *testing.T, run *ev.Run) {
	r := run.Rand("crossed")
	n := run.N(5, 40)
	for i := 0; i < n; i++ {
		sc := genCrossScenario(r)
		caseID := fmt.Sprintf("crossed/%d", i)
		if rc := run.ReplayCase(); rc != "" && rc != caseID {
			continue
		}
		before := run.Violations()
		if !runCrossScenario(run, caseID, sc) && run.Violations() == before {
			return // the rig failed (inconclusive recorded)
		}
	}
}
