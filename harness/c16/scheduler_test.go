// C16 part 2: blacklisted peers are not dialled until their blacklist expires.
//
// A real agent scheduler (built through the test-only seam
// scheduler.VerifC16NewScheduler, mock clock) downloads 1-2 torrents nobody
// seeds. A fake announce client hands it, on every announce, a PRNG-chosen list
// of fake peers. Fake peers are real TCP listeners which read the scheduler's
// handshake and then either drop the socket (failed outgoing handshake) or
// complete the handshake with a real conn.Handshaker and close the conn (closed
// active conn) - the two ways the scheduler blacklists a peer. Every announce
// also lists one brand-new sentinel peer last; its accept proves the announce
// result has been applied.
//
// The mock clock only moves between rounds, when the scheduler is quiescent, so
// the blacklist model is exact: a peer dialled in the round at mock time T is
// blacklisted until T + BlacklistDuration (cross-checked with the scheduler's
// own BlacklistSnapshot; a mismatch is inconclusive, not a violation).
//
// Oracle (no wall-clock value decides it): for every (peer, torrent) the number
// of handshakes received from the scheduler never exceeds the number of
// announce results that listed the peer while it was NOT blacklisted. One dial
// too many = a blacklisted peer was dialled.
package c16

import (
	"fmt"
	"math/rand"
	"net"
	"sync"
	"testing"
	"time"

	"github.com/andres-erbsen/clock"
	"github.com/uber-go/tally"
	"github.com/willf/bitset"
	"go.uber.org/zap"

	"github.com/uber/kraken/core"
	"github.com/uber/kraken/lib/store"
	"github.com/uber/kraken/lib/torrent/networkevent"
	"github.com/uber/kraken/lib/torrent/scheduler"
	"github.com/uber/kraken/lib/torrent/scheduler/conn"
	"github.com/uber/kraken/lib/torrent/scheduler/connstate"
	"github.com/uber/kraken/lib/torrent/storage"
	"github.com/uber/kraken/lib/torrent/storage/agentstorage"
	"github.com/uber/kraken/utils/log"

	"verif/harness/internal/ev"
)

const (
	schedBlacklist = 30001 * time.Millisecond // odd: never equal to a multiple of the round length
	roundLen       = 5000 * time.Millisecond  // == announcer default interval
	schedMaxConns  = 8
	watchdog       = 30 * time.Second
)

type fakeMetainfo struct{ byDigest map[core.Digest]*core.MetaInfo }

func (f fakeMetainfo) Download(namespace string, d core.Digest) (*core.MetaInfo, error) {
	mi, ok := f.byDigest[d]
	if !ok {
		return nil, fmt.Errorf("no metainfo for %s", d)
	}
	return mi, nil
}

type dialKey struct {
	peer int // index into scenario peers; sentinels get indexes >= 1000
	tor  int
}

// fakePeer is a listener that counts handshakes received from the scheduler.
type fakePeer struct {
	idx   int
	id    core.PeerID
	mode  int // 0: drop after reading the handshake, 1: complete the handshake, then close the conn
	ln    net.Listener
	port  int
	hs    *conn.Handshaker
	world *world
}

type world struct {
	mu      sync.Mutex
	schedID core.PeerID
	torIdx  map[core.InfoHash]int
	infos   []*storage.TorrentInfo
	dials   map[dialKey]int
	strays  int
	conns   []*conn.Conn
	wake    chan struct{}
}

func (w *world) dialCount(k dialKey) int {
	w.mu.Lock()
	defer w.mu.Unlock()
	return w.dials[k]
}

func (w *world) newFakePeer(idx, mode int) (*fakePeer, error) {
	id, err := core.RandomPeerID()
	if err != nil {
		return nil, err
	}
	hs, err := conn.NewHandshaker(conn.Config{}, tally.NoopScope, clock.New(), nopProducer{}, id, noEvents{}, zap.NewNop().Sugar())
	if err != nil {
		return nil, err
	}
	ln, err := net.Listen("tcp", "127.0.0.1:0")
	if err != nil {
		return nil, err
	}
	fp := &fakePeer{idx: idx, id: id, mode: mode, ln: ln, port: ln.Addr().(*net.TCPAddr).Port, hs: hs, world: w}
	go fp.serve()
	return fp, nil
}

func (fp *fakePeer) serve() {
	for {
		nc, err := fp.ln.Accept()
		if err != nil {
			return
		}
		go func() {
			w := fp.world
			pc, err := fp.hs.Accept(nc) // reads the dialer's handshake
			if err != nil {
				nc.Close()
				w.mu.Lock()
				w.strays++
				w.mu.Unlock()
				return
			}
			t, known := w.torIdx[pc.InfoHash()]
			if pc.PeerID() != w.schedID || !known {
				pc.Close()
				w.mu.Lock()
				w.strays++
				w.mu.Unlock()
				return
			}
			w.mu.Lock()
			w.dials[dialKey{fp.idx, t}]++
			w.mu.Unlock()
			select {
			case w.wake <- struct{}{}:
			default:
			}
			if fp.mode == 0 {
				pc.Close()
				return
			}
			c, err := fp.hs.Establish(pc, w.infos[t], nil)
			if err != nil {
				pc.Close()
				return
			}
			c.Start()
			c.Close()
			w.mu.Lock()
			w.conns = append(w.conns, c)
			w.mu.Unlock()
		}()
	}
}

// announceEntry is one Announce call as seen by the fake tracker.
type announceEntry struct {
	tor      int
	now      time.Time
	listed   []int // peer indexes in list order (sentinel last)
	sentinel *fakePeer
}

type fakeTracker struct {
	mu      sync.Mutex
	w       *world
	clk     *clock.Mock
	plan    [][]int // per torrent: peers to list on the next announce
	peers   []*fakePeer
	log     []announceEntry
	nextSen int
	errs    []string
}

func (f *fakeTracker) CheckReadiness() error { return nil }

func (f *fakeTracker) Announce(d core.Digest, h core.InfoHash, complete bool, version int) ([]*core.PeerInfo, time.Duration, error) {
	f.mu.Lock()
	defer f.mu.Unlock()
	t, ok := f.w.torIdx[h]
	if !ok {
		return nil, roundLen, fmt.Errorf("unknown torrent")
	}
	sen, err := f.w.newFakePeer(1000+f.nextSen, 0)
	if err != nil {
		f.errs = append(f.errs, err.Error())
		return nil, roundLen, err
	}
	f.nextSen++
	e := announceEntry{tor: t, now: f.clk.Now(), sentinel: sen}
	var out []*core.PeerInfo
	for _, p := range f.plan[t] {
		fp := f.peers[p]
		out = append(out, core.NewPeerInfo(fp.id, "127.0.0.1", fp.port, false, false))
		e.listed = append(e.listed, p)
	}
	out = append(out, core.NewPeerInfo(sen.id, "127.0.0.1", sen.port, false, false))
	e.listed = append(e.listed, sen.idx)
	f.log = append(f.log, e)
	return out, time.Minute, nil
}

func (f *fakeTracker) entries() []announceEntry {
	f.mu.Lock()
	defer f.mu.Unlock()
	return append([]announceEntry(nil), f.log...)
}

func (f *fakeTracker) setPlan(p [][]int) {
	f.mu.Lock()
	f.plan = p
	f.mu.Unlock()
}

func freePort() (int, error) {
	l, err := net.Listen("tcp", "127.0.0.1:0")
	if err != nil {
		return 0, err
	}
	defer l.Close()
	return l.Addr().(*net.TCPAddr).Port, nil
}

type scenario struct {
	Torrents int       `json:"torrents"`
	Modes    []int     `json:"peer_modes"`
	Rounds   [][][]int `json:"rounds"` // per round, per torrent: listed peers
}

func genScenario(r *rand.Rand, rounds int) scenario {
	sc := scenario{Torrents: 1 + r.Intn(2)}
	np := 4 + r.Intn(5)
	for i := 0; i < np; i++ {
		sc.Modes = append(sc.Modes, r.Intn(2))
	}
	for k := 0; k < rounds; k++ {
		var per [][]int
		for t := 0; t < sc.Torrents; t++ {
			n := r.Intn(min(np, schedMaxConns-2) + 1)
			per = append(per, append([]int(nil), r.Perm(np)[:n]...))
		}
		sc.Rounds = append(sc.Rounds, per)
	}
	return sc
}

// waitFor polls cond (woken by dial notifications) until it holds or the watchdog expires.
func waitFor(w *world, cond func() bool) bool {
	deadline := time.Now().Add(watchdog)
	for {
		if cond() {
			return true
		}
		if time.Now().After(deadline) {
			return false
		}
		select {
		case <-w.wake:
		case <-time.After(5 * time.Millisecond):
		}
	}
}

func runScenario(t *testing.T, run *ev.Run, caseID string, sc scenario) (ok bool) {
	clk := clock.NewMock()
	clk.Set(time.Unix(100000, 0))
	w := &world{torIdx: map[core.InfoHash]int{}, dials: map[dialKey]int{}, wake: make(chan struct{}, 1)}
	mic := fakeMetainfo{map[core.Digest]*core.MetaInfo{}}
	var blobs []*core.BlobFixture
	for i := 0; i < sc.Torrents; i++ {
		b := core.SizedBlobFixture(256, 64)
		blobs = append(blobs, b)
		mic.byDigest[b.Digest] = b.MetaInfo
		w.torIdx[b.MetaInfo.InfoHash()] = i
		w.infos = append(w.infos, storage.NewTorrentInfo(b.MetaInfo, bitset.New(uint(b.MetaInfo.NumPieces()))))
	}
	schedID, err := core.RandomPeerID()
	if err != nil {
		run.Inconclusive(err.Error())
		return false
	}
	w.schedID = schedID
	tr := &fakeTracker{w: w, clk: clk, plan: make([][]int, sc.Torrents)}
	var listeners []*fakePeer
	defer func() {
		for _, fp := range listeners {
			fp.ln.Close()
		}
		for _, e := range tr.entries() {
			e.sentinel.ln.Close()
		}
		w.mu.Lock()
		for _, c := range w.conns {
			c.Close()
		}
		w.mu.Unlock()
	}()
	for i, m := range sc.Modes {
		fp, err := w.newFakePeer(i, m)
		if err != nil {
			run.Inconclusive("fake peer: " + err.Error())
			return false
		}
		listeners = append(listeners, fp)
	}
	tr.peers = listeners

	cads, cleanup := store.CADownloadStoreFixture()
	defer cleanup()
	ta := agentstorage.NewTorrentArchive(tally.NoopScope, cads, mic)
	port, err := freePort()
	if err != nil {
		run.Inconclusive(err.Error())
		return false
	}
	cfg := scheduler.Config{
		DisablePreemption: true,
		EmitStatsInterval: time.Hour,
		ConnState: connstate.Config{
			MaxOpenConnectionsPerTorrent: schedMaxConns,
			BlacklistDuration:            schedBlacklist,
		},
		TorrentLog: log.Config{Disable: true},
		Log:        log.Config{Disable: true},
	}
	sched, err := scheduler.VerifC16NewScheduler(cfg, ta, tally.NoopScope,
		core.PeerContext{IP: "127.0.0.1", Port: port, PeerID: schedID, Zone: "z"}, tr, networkevent.NewTestProducer(), clk)
	if err != nil {
		run.Inconclusive("scheduler: " + err.Error())
		return false
	}
	var dl sync.WaitGroup
	defer func() {
		sched.Stop()
		done := make(chan struct{})
		go func() { dl.Wait(); close(done) }()
		select {
		case <-done:
		case <-time.After(watchdog):
			run.Count("scheduler_download_still_blocked_after_stop", 1)
		}
	}()
	for _, b := range blobs {
		dl.Add(1)
		go func(d core.Digest) {
			defer dl.Done()
			_ = sched.Download("c16-ns", d) // returns when the scheduler stops
		}(b.Digest)
	}

	// ---- model
	type blKey struct{ peer, tor int }
	expiry := map[blKey]time.Time{}
	allowed := map[dialKey]int{}
	processed := 0
	var suppressed, redials, dialsSeen, announces int

	check := func(where string) bool {
		// announces already issued but not yet accounted for (new torrents announce
		// immediately, concurrently with tick announces): their dials may already be
		// arriving, so they get a provisional allowance until they are processed.
		prov := map[dialKey]int{}
		if es := tr.entries(); processed < len(es) {
			for _, e := range es[processed:] {
				for _, p := range e.listed {
					if exp, bl := expiry[blKey{p, e.tor}]; bl && exp.After(e.now) {
						continue
					}
					prov[dialKey{p, e.tor}]++
				}
			}
		}
		w.mu.Lock()
		defer w.mu.Unlock()
		for k, n := range w.dials {
			if n > allowed[k]+prov[k] {
				mode := "sentinel"
				if k.peer < len(sc.Modes) {
					mode = []string{"failed-handshake", "closed-conn"}[sc.Modes[k.peer]]
				}
				sig := "scheduler/dial-to-blacklisted-peer/blacklisted-by-" + mode
				if _, bl := expiry[blKey{k.peer, k.tor}]; !bl {
					sig = "scheduler/dial-without-announce-listing"
				}
				run.Violation(sig, caseID, map[string]interface{}{
					"scenario": sc, "where": where, "peer": k.peer, "torrent": k.tor,
					"handshakes_received": n, "listings_while_not_blacklisted": allowed[k],
					"blacklisted_until_ms": expiry[blKey{k.peer, k.tor}].Sub(time.Unix(100000, 0)).Milliseconds(),
					"mock_now_ms":          clk.Now().Sub(time.Unix(100000, 0)).Milliseconds(),
				})
				return false
			}
		}
		return true
	}

	// processEntries handles announce calls not yet accounted for.
	processEntries := func() bool {
		for {
			es := tr.entries()
			if processed >= len(es) {
				return true
			}
			e := es[processed]
			processed++
			announces++
			// 1. the sentinel's handshake proves the announce result was applied
			senKey := dialKey{e.sentinel.idx, e.tor}
			allowed[senKey]++
			if !waitFor(w, func() bool { return w.dialCount(senKey) >= 1 }) {
				run.Inconclusive("watchdog: sentinel peer of an announce was never dialled")
				return false
			}
			if !clk.Now().Equal(e.now) {
				// the announce was issued before a clock advance and applied after it:
				// the mock time of the blacklist decision is unknown
				run.Inconclusive("an announce straddled a clock advance (scheduler too slow for the 10s round wait)")
				return false
			}
			var expect []dialKey
			for _, p := range e.listed[:len(e.listed)-1] {
				k := dialKey{p, e.tor}
				exp, bl := expiry[blKey{p, e.tor}]
				if bl && exp.After(e.now) {
					suppressed++ // listed while blacklisted: must not be dialled
					continue
				}
				if bl {
					redials++
				}
				allowed[k]++
				expect = append(expect, k)
			}
			expect = append(expect, senKey)
			// 2. the dials the scheduler is expected to make (liveness: counted, never a verdict)
			if !waitFor(w, func() bool {
				for _, k := range expect {
					if w.dialCount(k) < allowed[k] {
						return false
					}
				}
				return true
			}) {
				run.Count("scheduler_expected_dial_missing", 1)
			}
			dialsSeen += len(expect)
			// 3. every dialled peer ends up blacklisted at the current mock time
			want := map[blKey]bool{}
			for _, k := range expect {
				want[blKey{k.peer, k.tor}] = true
			}
			var snapErr string
			if !waitFor(w, func() bool {
				snap, err := sched.BlacklistSnapshot()
				if err != nil {
					snapErr = err.Error()
					return false
				}
				got := map[blKey]time.Duration{}
				for _, b := range snap {
					for _, fp := range append(append([]*fakePeer{}, listeners...), e.sentinel) {
						if fp.id == b.PeerID {
							got[blKey{fp.idx, w.torIdx[b.InfoHash]}] = b.Remaining
						}
					}
				}
				for k := range want {
					if got[k] != schedBlacklist {
						snapErr = fmt.Sprintf("peer %d torrent %d remaining %v", k.peer, k.tor, got[k])
						return false
					}
				}
				return true
			}) {
				run.Inconclusive("watchdog: a dialled fake peer did not become blacklisted for the full duration at the round's mock time (" + snapErr + ")")
				return false
			}
			for k := range want {
				expiry[k] = e.now.Add(schedBlacklist)
			}
			if !check(fmt.Sprintf("after announce %d", processed)) {
				return false
			}
		}
	}

	countFor := func(t int) int {
		n := 0
		for _, e := range tr.entries() {
			if e.tor == t {
				n++
			}
		}
		return n
	}
	// the initial Download calls announce immediately (plan still empty: sentinel only)
	for t := range blobs {
		if !waitFor(w, func() bool { return countFor(t) >= 1 }) {
			run.Inconclusive("watchdog: a new torrent was never announced")
			return false
		}
	}
	if !processEntries() {
		return false
	}
	for _, per := range sc.Rounds {
		tr.setPlan(per)
		clk.Add(roundLen)
		if !processEntries() { // announces triggered by an announcer tick during the advance, if any
			return false
		}
		// Announce on demand: a Download call for a torrent the scheduler already
		// leeches announces it immediately (newTorrentEvent). This does not depend
		// on the announcer's timer (the mock clock's Timer.Reset can lose a timer
		// when it races with the tick that is being delivered).
		for t, b := range blobs {
			before := countFor(t)
			dl.Add(1)
			go func(d core.Digest) {
				defer dl.Done()
				_ = sched.Download("c16-ns", d)
			}(b.Digest)
			if !waitFor(w, func() bool { return countFor(t) > before }) {
				run.Inconclusive("watchdog: Download of a leeching torrent did not trigger an announce")
				return false
			}
			if !processEntries() {
				return false
			}
		}
	}
	// final grace for late dials, then the cumulative check
	time.Sleep(300 * time.Millisecond)
	if !processEntries() || !check("end of scenario") {
		return false
	}
	w.mu.Lock()
	strays := w.strays
	w.mu.Unlock()
	run.Count("scheduler_announces", int64(announces))
	run.Count("scheduler_dials_observed", int64(dialsSeen))
	run.Count("scheduler_listings_of_blacklisted_peer", int64(suppressed))
	run.Count("scheduler_redials_after_expiry", int64(redials))
	run.Count("scheduler_stray_connections_ignored", int64(strays))
	run.Count("scheduler_scenarios", 1)
	run.Case(ev.JSON(sc), suppressed >= 1 && redials >= 1)
	return true
}

func runSchedulerPart(t *testing.T, run *ev.Run) {
	r := run.Rand("scheduler")
	n := run.N(3, 16)
	rounds := run.N(24, 60)
	for i := 0; i < n; i++ {
		sc := genScenario(r, rounds)
		caseID := fmt.Sprintf("sched/%d", i)
		if rc := run.ReplayCase(); rc != "" && rc != caseID {
			continue
		}
		if !runScenario(t, run, caseID, sc) {
			return
		}
	}
}
