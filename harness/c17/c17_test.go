// C17: every blob download request returns exactly once.
//
// history + yield-sched monitor. A real leecher scheduler (real agentstorage
// archive on a scratch CADownloadStore, mock clock, gated event loop built by
// scheduler.VerifC17New) downloads from an in-process real seeder scheduler.
// A generated schedule holds the *send* of selected event types
// (dispatcherCompleteEvent, newTorrentEvent, removeTorrentEvent,
// preemptionTickEvent) and stalls piece writes, and injects — in generated
// orders — further Download calls, RemoveTorrent, clock advances past the idle
// limits with their preemption ticks, releases of the held events and Stop.
//
// Oracle (client boundary): once Stop() has returned and every gate is open,
// every Download call has returned; nil is returned only if the blob was in
// the cache with exact bytes where the success was decided — when an event
// that can have delivered the result (it released waiters of the control, or
// answered a request at once from a complete control) had finished applying —
// or at return time; a deletion by a later event is tolerated, a deletion by
// the delivering event itself is not; the event loop never blocks on a waiter
// channel (Probe succeeds between steps, Stop returns). Wall-clock waits are watchdogs only; a
// "never returns" verdict additionally requires the goroutine profile to show
// the call parked in doDownload's channel receive after Stop returned.
package c17

import (
	"fmt"
	"math/rand"
	"os"
	"regexp"
	"sort"
	"strings"
	"sync"
	"sync/atomic"
	"testing"
	"time"

	"github.com/andres-erbsen/clock"

	"github.com/uber/kraken/core"
	"github.com/uber/kraken/lib/torrent/scheduler"
	"github.com/uber/kraken/lib/torrent/scheduler/connstate"
	"github.com/uber/kraken/lib/torrent/scheduler/dispatch"
	"github.com/uber/kraken/lib/torrent/storage"

	"verif/harness/internal/ev"
	rig "verif/harness/internal/schedrig"
)

const (
	tickP    = 100 * time.Millisecond // preemption interval (virtual)
	forever  = 100000 * time.Hour     // "never" in virtual time
	watchdog = 180 * time.Second      // wall-clock watchdog: expiry is inconclusive
)

// ---------------------------------------------------------------------------
// Schedules.

type step struct {
	Op string `json:"op"`
	B  int    `json:"b,omitempty"`  // index into spec.Blobs
	N  int    `json:"n,omitempty"`  // tick count
	Ev string `json:"ev,omitempty"` // event type for hold / release
}

func (s step) String() string {
	switch s.Op {
	case "hold", "release", "release1":
		return s.Op + ":" + short(s.Ev)
	case "tick":
		return fmt.Sprintf("tick%d", s.N)
	case "stop", "dlmissing", "gen1stop", "gen2":
		return s.Op
	}
	return fmt.Sprintf("%s%d", s.Op, s.B)
}

func short(evName string) string {
	switch evName {
	case rig.EvNewTorrent:
		return "N"
	case rig.EvComplete:
		return "C"
	case rig.EvRemove:
		return "R"
	case rig.EvTick:
		return "T"
	case rig.EvShutdown:
		return "S"
	}
	return evName
}

type caseSpec struct {
	ID          int    `json:"id"`
	Kind        string `json:"kind"`
	MS          int    `json:"seeder_tti_ticks"`
	ML          int    `json:"leecher_tti_ticks"`
	NoBlacklist bool   `json:"no_blacklist"`
	Pipeline    int    `json:"pipeline"`
	Blobs       []int  `json:"blobs"` // pool indexes
	Stall       []int  `json:"stall"` // pieces written before writes stall; -1 = no stall
	TwoSeeders  bool   `json:"two_seeders,omitempty"`
	Steps       []step `json:"steps"`
}

func (c *caseSpec) key() string { return ev.JSON(c) }

var poolPieces = []int{1, 2, 4, 7}

func genCase(r *rand.Rand, id int) *caseSpec {
	c := &caseSpec{
		ID:          id,
		MS:          2 + r.Intn(3),
		ML:          2 + r.Intn(3),
		NoBlacklist: r.Intn(2) == 0,
		Pipeline:    1 + r.Intn(3),
	}
	b0 := r.Intn(len(poolPieces))
	c.Blobs = []int{b0}
	c.Stall = []int{-1}
	two := r.Intn(10) < 3
	if two {
		b1 := (b0 + 1 + r.Intn(len(poolPieces)-1)) % len(poolPieces)
		c.Blobs = append(c.Blobs, b1)
		c.Stall = append(c.Stall, -1)
	}
	add := func(s ...step) { c.Steps = append(c.Steps, s...) }
	dls := func(b, k int) {
		for i := 0; i < k; i++ {
			add(step{Op: "dl", B: b})
		}
	}
	idleS := step{Op: "tick", N: c.MS + 1}
	idleL := step{Op: "tick", N: c.ML + 1}
	k := 1 + r.Intn(3)

	var pool []step
	big := 2 + r.Intn(2) // pool index of a blob with 4 or 7 pieces
	switch w := r.Intn(100); {
	case w < 4:
		// The blob is cached, a request opens it (complete Torrent object) and
		// parks; a removal deletes the blob; another request re-creates the
		// download file; then the parked requests reach the loop.
		c.Kind = "recreated"
		dls(0, 1)
		add(step{Op: "fill", B: 0})
		if r.Intn(2) == 0 {
			add(idleS)
		}
		add(step{Op: "hold", Ev: rig.EvNewTorrent}, step{Op: "dl", B: 0}, step{Op: "rm", B: 0}, step{Op: "dl", B: 0})
		if r.Intn(2) == 0 {
			add(step{Op: "release1", Ev: rig.EvNewTorrent})
		}
		add(step{Op: "release", Ev: rig.EvNewTorrent})
		pool = []step{{Op: "fill", B: 0}, {Op: "tick", N: 1}, {Op: "stop"}, {Op: "dl", B: 0}, idleL, {Op: "rm", B: 0}}
	case w < 10:
		// A first scheduler generation leaves a partial download; in the second
		// one a remote leecher connects first (control created for the incoming
		// conn), then a local request joins it.
		c.Kind = "revived"
		c.Blobs, c.Stall = []int{big}, []int{1 + r.Intn(poolPieces[big]-2)}
		two = false
		add(step{Op: "dl", B: 0}, step{Op: "stallwait", B: 0}, step{Op: "gen1stop"}, step{Op: "gen2"})
		dls(0, 1+r.Intn(2))
		if r.Intn(10) < 7 {
			if r.Intn(3) == 0 {
				add(step{Op: "hold", Ev: rig.EvComplete})
			}
			add(step{Op: "fill", B: 0})
		}
		pool = []step{
			{Op: "fill", B: 0}, {Op: "rm", B: 0}, idleS, idleL, {Op: "dl", B: 0}, {Op: "stop"},
			{Op: "tick", N: 1}, {Op: "release", Ev: rig.EvComplete}, {Op: "dl", B: 0},
		}
	case w < 18:
		// The final move of the completed download file into the cache fails once.
		c.Kind = "move-fault"
		add(step{Op: "failmove", B: 0})
		dls(0, k)
		add(step{Op: "fill", B: 0})
		pool = []step{
			idleS, {Op: "dl", B: 0}, {Op: "tick", N: 1}, {Op: "rm", B: 0}, {Op: "stop"}, {Op: "dl", B: 0}, idleL, {Op: "fill", B: 0},
		}
	case w < 25:
		// Two seeders; the last two pieces are written concurrently.
		c.Kind = "two-seeders"
		c.TwoSeeders = true
		c.Pipeline = 1
		c.Blobs, c.Stall = []int{big}, []int{poolPieces[big] - 2}
		two = false
		if r.Intn(2) == 0 {
			add(step{Op: "hold", Ev: rig.EvComplete})
		}
		dls(0, k)
		add(step{Op: "stallwait", B: 0, N: 2}, step{Op: "fill", B: 0})
		pool = []step{
			{Op: "release", Ev: rig.EvComplete}, {Op: "dl", B: 0}, {Op: "tick", N: 1}, idleS, {Op: "rm", B: 0}, {Op: "stop"}, {Op: "dl", B: 0},
		}
	case w < 55:
		// The torrent completes while its completion notice is held.
		c.Kind = "complete-held"
		add(step{Op: "hold", Ev: rig.EvComplete})
		dls(0, k)
		add(step{Op: "fill", B: 0})
		pool = []step{
			{Op: "rm", B: 0}, idleS, {Op: "dl", B: 0}, {Op: "dl", B: 0},
			{Op: "release", Ev: rig.EvComplete}, {Op: "stop"}, {Op: "dlmissing"},
			{Op: "tick", N: 1}, {Op: "fill", B: 0},
		}
		switch r.Intn(4) {
		case 0:
			pool = append(pool, step{Op: "hold", Ev: rig.EvRemove}, step{Op: "release", Ev: rig.EvRemove})
		case 1:
			pool = append(pool, step{Op: "hold", Ev: rig.EvTick}, step{Op: "release", Ev: rig.EvTick})
		case 2:
			pool = append(pool, step{Op: "hold", Ev: rig.EvNewTorrent}, step{Op: "release", Ev: rig.EvNewTorrent})
		}
	case w < 75:
		// Writes stall part-way: the torrent stays in progress.
		c.Kind = "mid-download"
		n := poolPieces[b0]
		c.Stall[0] = r.Intn(n) // 0..n-1 pieces written, then stall
		dls(0, k)
		add(step{Op: "stallwait", B: 0})
		pool = []step{
			{Op: "rm", B: 0}, idleL, {Op: "dl", B: 0}, {Op: "fill", B: 0}, {Op: "stop"},
			{Op: "tick", N: 1}, {Op: "dlmissing"}, {Op: "dl", B: 0},
		}
		switch r.Intn(4) {
		case 0:
			pool = append(pool, step{Op: "hold", Ev: rig.EvComplete}, step{Op: "release", Ev: rig.EvComplete})
		case 1:
			pool = append(pool, step{Op: "hold", Ev: rig.EvRemove}, step{Op: "release", Ev: rig.EvRemove})
		case 2:
			pool = append(pool, step{Op: "hold", Ev: rig.EvTick}, step{Op: "release", Ev: rig.EvTick})
		}
	case w < 90:
		// Requests park before their newTorrentEvent reaches the loop.
		c.Kind = "newtorrent-held"
		add(step{Op: "hold", Ev: rig.EvNewTorrent})
		dls(0, k+1)
		pool = []step{
			{Op: "release1", Ev: rig.EvNewTorrent}, {Op: "release1", Ev: rig.EvNewTorrent},
			{Op: "release", Ev: rig.EvNewTorrent}, {Op: "rm", B: 0}, {Op: "stop"},
			{Op: "tick", N: 1}, {Op: "fill", B: 0}, idleL, {Op: "dl", B: 0},
		}
	default:
		c.Kind = "free"
		dls(0, k)
		pool = []step{
			{Op: "fill", B: 0}, {Op: "rm", B: 0}, idleS, idleL, {Op: "dl", B: 0},
			{Op: "stop"}, {Op: "dlmissing"}, {Op: "dl", B: 0},
		}
	}
	if two {
		pool = append(pool, step{Op: "dl", B: 1}, step{Op: "fill", B: 1}, step{Op: "rm", B: 1}, step{Op: "dl", B: 1})
	}
	// In-window actions: a random subset in a random order.
	r.Shuffle(len(pool), func(i, j int) { pool[i], pool[j] = pool[j], pool[i] })
	m := 2 + r.Intn(len(pool)-1)
	if m > len(pool) {
		m = len(pool)
	}
	add(pool[:m]...)
	stopped := false
	for _, s := range c.Steps {
		if s.Op == "stop" {
			stopped = true
		}
	}
	if !stopped {
		add(step{Op: "stop"})
	}
	if r.Intn(3) == 0 {
		add(step{Op: "dl", B: 0}) // a request after shutdown
	}
	return c
}

// ---------------------------------------------------------------------------
// Per-worker fixtures: one seeder holding the blob pool.

type worker struct {
	id      int
	dir     string
	tracker *rig.Tracker
	seeder  *rig.Peer
	sgate   *rig.Gate // seeder-side event counters (diagnostics only)
	seeder2 *rig.Peer // only handed out by the tracker in "two-seeders" cases
	pool    []*rig.Blob
	missing *rig.Blob
}

func seederConfig() scheduler.Config {
	return rig.QuietConfig(scheduler.Config{
		SeederTTI: forever, LeecherTTI: forever, ConnTTI: forever, ConnTTL: forever,
		PreemptionInterval: forever, EmitStatsInterval: forever,
		ProbeTimeout: watchdog,
		ConnState:    connstate.Config{DisableBlacklist: true, MaxOpenConnectionsPerTorrent: 1000, MaxMutualConnections: 1000},
	})
}

func newWorker(run *ev.Run, id int, base string) (*worker, error) {
	w := &worker{id: id, dir: rig.MkDir(base, fmt.Sprintf("w%d", id)), tracker: rig.NewTracker()}
	r := run.Rand(fmt.Sprintf("worker-%d", id))
	var err error
	w.sgate = rig.NewGate()
	w.seeder, err = rig.NewPeer(rig.PeerOptions{
		Config: seederConfig(), Clock: clock.NewMock(), Tracker: w.tracker,
		Dir: rig.MkDir(w.dir, "seeder"), PeerID: rig.RandomPeerID(r), Hooks: w.sgate.Hooks(),
	})
	if err != nil {
		return nil, err
	}
	for _, n := range poolPieces {
		b := rig.NewBlob(r, n, 64, n > 1 && r.Intn(2) == 0)
		w.tracker.AddBlob(b)
		if err := w.seeder.Seed(b); err != nil {
			return nil, fmt.Errorf("seed: %s", err)
		}
		w.tracker.Register(b.InfoHash(), core.PeerInfoFromContext(w.seeder.Pctx, true))
		w.pool = append(w.pool, b)
	}
	w.seeder2, err = rig.NewPeer(rig.PeerOptions{
		Config: seederConfig(), Clock: clock.NewMock(), Tracker: w.tracker,
		Dir: rig.MkDir(w.dir, "seeder2"), PeerID: rig.RandomPeerID(r),
	})
	if err != nil {
		return nil, err
	}
	for _, b := range w.pool {
		if err := w.seeder2.Seed(b); err != nil {
			return nil, fmt.Errorf("seed2: %s", err)
		}
	}
	w.tracker.Forget(w.seeder2.Pctx.PeerID)  // its own announces registered it
	w.missing = rig.NewBlob(r, 2, 64, false) // never added to the tracker
	return w, nil
}

// ---------------------------------------------------------------------------
// Case execution.

type call struct {
	id           string
	gid          atomic.Int64
	b            int // index into spec.Blobs, -1 = unknown digest
	step         int
	startStamp   int64
	endStamp     int64
	startPresent bool
	endPresent   bool
	endExact     bool
	mismatch     string
	err          error
	done         chan struct{}
}

type window struct{ lo, hi int64 }

// delivery is one applied event which may have handed a result to Download
// calls of a blob (it released waiters of its control, or it is a
// newTorrentEvent answered immediately by a complete control), with the state
// of the cache when the event had finished applying.
type delivery struct {
	stamp      int64 // taken before apply: lies inside the interval of every call it answered
	name       string
	inCache    bool
	mismatch   bool
	inDownload bool // the (partial or unmoved) file is in the download store
	created    bool // the event created the control it answered from (a request's own Torrent object)
}

type caseRun struct {
	run   *ev.Run
	w     *worker
	spec  *caseSpec
	blobs []*rig.Blob
	id    string

	clk   *clock.Mock
	gate  *rig.Gate // event gate of the leecher
	wgate *rig.Gate // write gate ("write:<b>") and store marks ("stored:<b>")
	L     *rig.Peer

	stamp   atomic.Int64
	loopGID atomic.Int64
	lp      atomic.Pointer[rig.Peer] // current leecher generation, for goroutines other than the controller

	mu         sync.Mutex
	stores     map[int][]window                       // windows in which blob b was moved to the cache
	deliveries map[int][]delivery                     // per blob, in apply order
	curStamp   int64                                  // stamp of the event being applied (loop goroutine only)
	stale      map[int][]int64                        // stamps at which a stale completion notice hit a newer control
	droppers   map[int]string                         // blob -> first event which removed a complete control that still had waiters
	cancelled  map[int]string                         // blob -> first event which cancelled an in-progress download of it
	atShutdown map[int]scheduler.VerifC17TorrentState // control state when shutdownEvent was applied
	pre        map[int]scheduler.VerifC17TorrentState

	calls                   []*call
	rmCalls                 []chan error
	stopStarted             bool
	stopDone                chan struct{}
	ticksWhileParked        int
	executed                []string
	closedOnce              map[int]bool
	errsAck                 map[int]int // piece write errors per blob already taken into account by fill
	beforeApply, afterApply func(scheduler.VerifC17EventInfo, scheduler.VerifC17View)
	archHooks               *rig.ArchiveHooks
	lID                     core.PeerID
	lDir                    string
	extra                   []*rig.Peer         // remote leecher of the revived kind
	orderPrefix             string              // applied-event order of an earlier scheduler generation
	blocker                 map[int]string      // blob -> path of the file which makes the move into the cache fail
	brokenRef               map[int]interface{} // blob -> dispatcher of the control which had a piece write fail
	inconcl                 string
	abandoned               string // harness-flow wait that did not come about (no verdict)
	wedged                  bool
	actionsWithPending      int
}

func (cr *caseRun) next() int64 { return cr.stamp.Add(1) }

func (cr *caseRun) blobIndex(h core.InfoHash, d core.Digest) int {
	for i, b := range cr.blobs {
		if b.InfoHash() == h || b.Digest == d {
			return i
		}
	}
	return -1
}

// abandon ends the scripted part of a case early because a wait that only
// serves the harness's own flow (a conn it hoped for, a stall point, a second
// scheduler generation) did not come about. It is not a verdict and not
// inconclusive: the scheduler is stopped and every call made so far is judged
// as usual; the case is counted as abandoned.
func (cr *caseRun) abandon(reason string) {
	if cr.abandoned == "" {
		cr.abandoned = reason
		cr.run.Count("cases_cut_short_by_harness_flow: "+reason, 1)
	}
}

func (cr *caseRun) fail(reason string) {
	if cr.inconcl == "" {
		cr.inconcl = reason
	}
}

func leecherConfig(c *caseSpec) scheduler.Config {
	return rig.QuietConfig(scheduler.Config{
		SeederTTI:          time.Duration(c.MS)*tickP + tickP/2,
		LeecherTTI:         time.Duration(c.ML)*tickP + tickP/2,
		ConnTTI:            forever,
		ConnTTL:            forever,
		PreemptionInterval: tickP,
		EmitStatsInterval:  forever,
		ProbeTimeout:       watchdog,
		ConnState:          connstate.Config{DisableBlacklist: c.NoBlacklist},
		Dispatch:           dispatch.Config{AgentPipelineLimit: c.Pipeline},
	})
}

func (cr *caseRun) setup() error {
	c := cr.spec
	cr.clk = clock.NewMock()
	cr.wgate = rig.NewGate()
	cr.stores = map[int][]window{}
	cr.deliveries = map[int][]delivery{}
	cr.stale = map[int][]int64{}
	cr.droppers = map[int]string{}
	cr.cancelled = map[int]string{}
	cr.atShutdown = map[int]scheduler.VerifC17TorrentState{}
	cr.pre = map[int]scheduler.VerifC17TorrentState{}
	cr.closedOnce = map[int]bool{}
	cr.errsAck = map[int]int{}

	for i := range cr.blobs {
		name := fmt.Sprintf("write:%d", i)
		if c.Stall[i] >= 0 {
			cr.wgate.Hold(name)
			for k := 0; k < c.Stall[i]; k++ {
				cr.wgate.ReleaseOne(name)
			}
		}
	}

	// Loop-side monitor: runs on the leecher's event loop goroutine.
	cr.beforeApply = func(info scheduler.VerifC17EventInfo, v scheduler.VerifC17View) {
		if cr.loopGID.Load() == 0 {
			cr.loopGID.Store(rig.GID())
		}
		cr.curStamp = cr.next()
		for i, b := range cr.blobs {
			cr.pre[i] = v.Torrent(b.InfoHash())
		}
		if info.Name == rig.EvShutdown {
			cr.mu.Lock()
			for i := range cr.blobs {
				cr.atShutdown[i] = cr.pre[i]
			}
			cr.mu.Unlock()
		}
		if info.Name == rig.EvComplete {
			if i := cr.blobIndex(info.InfoHash, info.Digest); i >= 0 {
				st := cr.pre[i]
				if st.Present && st.Ref != info.Ref {
					cr.mu.Lock()
					cr.stale[i] = append(cr.stale[i], cr.next())
					cr.mu.Unlock()
					cr.run.Count("stale_completion_notice_applied_to_newer_control", 1)
				} else if !st.Present {
					cr.run.Count("completion_notice_for_removed_control", 1)
				}
			}
		}
	}
	cr.afterApply = func(info scheduler.VerifC17EventInfo, v scheduler.VerifC17View) {
		for i, b := range cr.blobs {
			pre, post := cr.pre[i], v.Torrent(b.InfoHash())
			// Could this event have delivered a result for blob i? Then the cache is
			// probed now: a success is judged at the instant it was decided.
			released := pre.Present && pre.Waiters > 0 &&
				(!post.Present || post.Ref != pre.Ref || post.Waiters < pre.Waiters ||
					(info.Name == rig.EvComplete && info.Ref == pre.Ref))
			immediate := info.Name == rig.EvNewTorrent && cr.blobIndex(info.InfoHash, info.Digest) == i &&
				post.Present && post.Complete
			if released || immediate {
				st := cr.lp.Load().Stat(b, true)
				cr.mu.Lock()
				cr.deliveries[i] = append(cr.deliveries[i], delivery{cr.curStamp, info.Name, st.InCache, st.Mismatch, st.InDownload, immediate && (!pre.Present || pre.Ref != post.Ref)})
				cr.mu.Unlock()
			}
			if pre.Present && !pre.Complete && (!post.Present || post.Ref != pre.Ref) {
				cr.mu.Lock()
				if _, seen := cr.cancelled[i]; !seen {
					cr.cancelled[i] = info.Name
				}
				cr.mu.Unlock()
				cr.run.Count("inprogress_download_cancelled_by_"+info.Name, 1)
			}
			// The torrent may become complete between the snapshot and the event's own
			// Complete() test (the last piece lands concurrently); completeness never
			// reverts, so ask the removed dispatcher itself.
			wasComplete := pre.Complete
			if d, ok := pre.Ref.(*dispatch.Dispatcher); ok && d != nil && !wasComplete {
				wasComplete = d.Complete()
			}
			if pre.Present && wasComplete && pre.Waiters > 0 && (!post.Present || post.Ref != pre.Ref) {
				cr.mu.Lock()
				if _, seen := cr.droppers[i]; !seen {
					cr.droppers[i] = info.Name
				}
				cr.mu.Unlock()
				cr.run.Count("complete_control_with_waiters_removed_by_"+info.Name, 1)
			}
		}
	}

	hooks := &rig.ArchiveHooks{}
	var lo sync.Map // goroutine-free: keyed by digest+piece
	hooks.BeforeWritePiece = func(d core.Digest, piece int) {
		i := cr.blobIndex(core.InfoHash{}, d)
		if i < 0 {
			return
		}
		cr.wgate.Enter(fmt.Sprintf("write:%d", i))
		lo.Store(fmt.Sprintf("%d/%d", i, piece), cr.next())
	}
	hooks.AfterWritePiece = func(d core.Digest, piece int, err error) {
		i := cr.blobIndex(core.InfoHash{}, d)
		if i < 0 {
			return
		}
		if err != nil {
			cr.run.Count("piece_write_error: "+normErr(err), 1)
		}
		if err == nil {
			cr.run.Count("pieces_written", 1)
			if L := cr.lp.Load(); L != nil && L.InCache(cr.blobs[i]) {
				l, _ := lo.Load(fmt.Sprintf("%d/%d", i, piece))
				lov, _ := l.(int64)
				cr.mu.Lock()
				cr.stores[i] = append(cr.stores[i], window{lov, cr.next()})
				cr.mu.Unlock()
				cr.wgate.MarkApplied(fmt.Sprintf("stored:%d", i))
			}
		}
		cr.wgate.Exit(fmt.Sprintf("write:%d", i), err == nil)
	}

	cr.archHooks = hooks
	cr.blocker = map[int]string{}
	cr.brokenRef = map[int]interface{}{}
	cr.lID = rig.RandomPeerID(cr.run.Rand("peerid-" + cr.id))
	cr.lDir = rig.MkDir(cr.w.dir, cr.id)
	if c.TwoSeeders {
		for _, b := range cr.blobs {
			cr.w.tracker.Register(b.InfoHash(), core.PeerInfoFromContext(cr.w.seeder2.Pctx, true))
		}
	}
	return cr.startLeecher()
}

// startLeecher starts a scheduler generation of the leecher on its directory
// (whatever an earlier generation left there) with a fresh event gate.
func (cr *caseRun) startLeecher() error {
	g := rig.NewGate()
	g.BeforeApply, g.AfterApply = cr.beforeApply, cr.afterApply
	hooks := cr.archHooks
	L, err := rig.NewPeer(rig.PeerOptions{
		Config: leecherConfig(cr.spec), Clock: cr.clk, Tracker: cr.w.tracker,
		Dir: cr.lDir, PeerID: cr.lID,
		WrapArchive: func(a storage.TorrentArchive) storage.TorrentArchive { return rig.NewArchiveWrapper(a, hooks) },
		Hooks:       g.Hooks(),
	})
	if err != nil {
		return err // the previous generation (if any) stays the current one
	}
	cr.gate, cr.L = g, L
	cr.loopGID.Store(0)
	cr.lp.Store(L)
	return nil
}

// blockMove makes the next move of blob i's download file into the cache fail:
// a regular file takes the place of the first missing directory of its cache
// path (stands in for ENOSPC / EIO at that step).
func (cr *caseRun) blockMove(i int) {
	hex := cr.blobs[i].Digest.Hex()
	p := cr.lDir + "/cache"
	for _, c := range []string{hex[0:2], hex[2:4], hex} {
		p += "/" + c
		if _, err := os.Stat(p); err != nil {
			if os.WriteFile(p, []byte("verif: move fault"), 0o644) == nil {
				cr.blocker[i] = p
			}
			return
		}
	}
}

func (cr *caseRun) unblockMove(i int) {
	if p := cr.blocker[i]; p != "" {
		os.Remove(p)
		delete(cr.blocker, i)
		cr.run.Count("move_to_cache_blocked_then_unblocked", 1)
	}
}

func (cr *caseRun) pendingCalls() int {
	n := 0
	cr.mu.Lock()
	calls := append([]*call(nil), cr.calls...)
	cr.mu.Unlock()
	for _, c := range calls {
		select {
		case <-c.done:
		default:
			n++
		}
	}
	return n
}

func (cr *caseRun) stopped() bool {
	if cr.stopDone == nil {
		return false
	}
	select {
	case <-cr.stopDone:
		return true
	default:
		return false
	}
}

// waitNoConns waits until neither side still has a conn for blob i (closing
// conns finish asynchronously; a new handshake would otherwise be rejected).
func (cr *caseRun) waitNoConns(i int) bool {
	h := cr.blobs[i].InfoHash()
	deadline := time.Now().Add(5 * time.Second)
	for {
		nl, ns := 0, false
		okL := cr.L.Sched.VerifC17Inspect(func(v scheduler.VerifC17View) { nl = v.NumConns(h) })
		cr.w.seeder.Sched.VerifC17Inspect(func(v scheduler.VerifC17View) { ns = v.HasConn(cr.L.Pctx.PeerID, h) })
		if !okL || (nl == 0 && !ns) {
			return true
		}
		if time.Now().After(deadline) {
			return false
		}
		time.Sleep(time.Millisecond)
	}
}

func (cr *caseRun) startDownload(stepIdx, b int) {
	blob := cr.w.missing
	if b >= 0 {
		blob = cr.blobs[b]
	}
	if b >= 0 && cr.spec.NoBlacklist && !cr.stopStarted {
		if st, ok := cr.L.TorrentState(blob.InfoHash()); ok && !st.Present {
			if !cr.waitNoConns(b) {
				// Best effort only. A conn can legitimately stay: one that was
				// established after the torrent had completed is attached to the
				// complete dispatcher, survives the removal of the control (no tear
				// down for complete torrents) and is only closed by the next
				// preemption tick. The request proceeds; at worst it gets no conn.
				cr.run.Count("old_conns_still_open_when_rerequesting", 1)
			}
		}
	}
	before := cr.gate.Count(rig.EvNewTorrent)
	failedBefore := cr.gate.Count("failedOutgoingHandshakeEvent").Applied
	c := cr.launch(stepIdx, b)
	// Settle: the request reached the loop (applied), parked at the gate, or returned.
	if !cr.settleDoneOr(c.done, func(count func(string) rig.Counters) bool {
		n := count(rig.EvNewTorrent)
		return n.Applied > before.Applied || n.Parked > before.Parked
	}) {
		cr.fail("watchdog: download request neither applied, parked nor returned")
		return
	}
	// If this request (re)started an in-progress download and the seeder is
	// reachable, wait for the conn: a handshake still pending when a later step
	// cancels the torrent would occupy the seeder's slot in the conn state and
	// silently block the next generation's only connection attempt.
	if b < 0 || cr.stopStarted || cr.gate.Held(rig.EvNewTorrent) || (cr.closedOnce[b] && !cr.spec.NoBlacklist) {
		return
	}
	h := blob.InfoHash()
	// Best effort: the wait ends on a logical outcome (conn, completion, removal,
	// failed handshake, failed write); when the seeder silently rejected the
	// handshake (it still knew an older conn of this peer) nothing will ever
	// happen, so after a few seconds the step gives up WITHOUT any verdict and
	// fill is skipped later for lack of a conn.
	giveUp := time.Now().Add(3 * time.Second)
	for {
		var st scheduler.VerifC17TorrentState
		has := false
		ok := cr.L.Sched.VerifC17Inspect(func(v scheduler.VerifC17View) {
			st = v.Torrent(h)
			has = v.HasConn(cr.w.seeder.Pctx.PeerID, h)
		})
		if !ok || !st.Present || st.Complete || has || cr.L.InCache(blob) {
			return
		}
		if w := cr.wgate.Count(fmt.Sprintf("write:%d", b)); w.Sent-w.SentOK > cr.errsAck[b] {
			return // a piece write failed: the conn may already be gone again
		}
		if cr.gate.Count("failedOutgoingHandshakeEvent").Applied > failedBefore {
			cr.run.Count("dl_handshake_failed", 1)
			return
		}
		if time.Now().After(giveUp) {
			cr.run.Count("dl_conn_wait_gave_up", 1)
			return
		}
		time.Sleep(time.Millisecond)
	}
}

func (cr *caseRun) settleDoneOr(done <-chan struct{}, pred func(count func(string) rig.Counters) bool) bool {
	combined := make(chan struct{})
	quit := make(chan struct{})
	go func() {
		for {
			select {
			case <-done:
				close(combined)
				return
			case <-quit:
				return
			default:
			}
			if cr.gate.Wait(2*time.Millisecond, pred) {
				close(combined)
				return
			}
		}
	}()
	ok := cr.awaitLoop(combined, "settle")
	close(quit)
	return ok
}

func (cr *caseRun) execStep(idx int, s step) {
	skip := func(why string) { cr.executed = append(cr.executed, "skip("+s.String()+":"+why+")") }
	done := func() { cr.executed = append(cr.executed, s.String()) }
	pendingBefore := cr.pendingCalls()

	switch s.Op {
	case "hold":
		if cr.stopStarted {
			skip("stopped")
			return
		}
		cr.gate.Hold(s.Ev)
		done()

	case "release", "release1":
		if !cr.gate.Held(s.Ev) {
			skip("not-held")
			return
		}
		before := cr.gate.Count(s.Ev)
		if s.Op == "release1" {
			if before.Parked == 0 {
				skip("none-parked")
				return
			}
			cr.gate.ReleaseOne(s.Ev)
			ok := cr.gate.Wait(watchdog, func(count func(string) rig.Counters) bool {
				n := count(s.Ev)
				return n.Sent > before.Sent && n.Applied >= before.Applied+(n.SentOK-before.SentOK)
			})
			if !ok {
				cr.fail("watchdog: released event not applied")
			}
		} else {
			extra := 0
			if s.Ev == rig.EvTick && before.Parked > 0 && cr.ticksWhileParked > 0 {
				extra = 1 // one tick was buffered in the ticker channel behind the parked one
			}
			cr.ticksWhileParked = 0
			cr.gate.Release(s.Ev)
			want := before.Entered + extra
			ok := cr.gate.Wait(watchdog, func(count func(string) rig.Counters) bool {
				n := count(s.Ev)
				return n.Parked == 0 && n.Entered >= want && n.Sent == n.Entered && n.Applied == n.SentOK
			})
			if !ok {
				cr.fail("watchdog: released events not applied")
			}
		}
		if pendingBefore > 0 {
			cr.actionsWithPending++
		}
		done()

	case "dl":
		cr.startDownload(idx, s.B)
		done()

	case "dlmissing":
		cr.startDownload(idx, -1)
		done()

	case "failmove":
		cr.blockMove(s.B)
		done()

	case "gen1stop":
		// Generation 1 ends with a download in progress. The piece it holds at
		// the write gate lands during shutdown; the partial file stays on disk.
		name := "write:0"
		before := cr.wgate.Count(name)
		cr.doStop()
		if cr.wedged || !cr.stopped() {
			return
		}
		cr.gate.ReleaseAll()
		if before.Parked > 0 {
			cr.wgate.ReleaseOne(name)
			if !cr.wgate.Wait(watchdog, func(count func(string) rig.Counters) bool { return count(name).Sent > before.Sent }) {
				cr.abandon("in-flight piece write of generation 1 did not finish")
				return
			}
		}
		cr.L.CloseStoreOnly()
		cr.w.tracker.Forget(cr.lID)
		// The seeder must have noticed that the conn is gone, or it would reject
		// the next generation (same peer id) as a duplicate.
		for deadline := time.Now().Add(watchdog); ; time.Sleep(time.Millisecond) {
			has := false
			cr.w.seeder.Sched.VerifC17Inspect(func(v scheduler.VerifC17View) { has = v.HasConn(cr.lID, cr.blobs[0].InfoHash()) })
			if !has {
				break
			}
			if time.Now().After(deadline) {
				cr.abandon("seeder kept the conn of generation 1")
				return
			}
		}
		if st := cr.L.Stat(cr.blobs[0], false); !st.InDownload {
			cr.abandon("generation 1 left no partial download")
			return
		}
		cr.orderPrefix = cr.order() + " | "
		done()

	case "gen2":
		if err := cr.startLeecher(); err != nil {
			cr.abandon("generation 2 did not start")
			return
		}
		cr.stopStarted, cr.stopDone = false, nil
		cr.closedOnce = map[int]bool{}
		h := cr.blobs[0].InfoHash()
		tB := rig.NewTracker()
		tB.AddBlob(cr.blobs[0])
		tB.Register(h, core.PeerInfoFromContext(cr.L.Pctx, false))
		B, err := rig.NewPeer(rig.PeerOptions{
			Config: seederConfig(), Clock: cr.clk, Tracker: tB, Dir: rig.MkDir(cr.lDir+"-remote", "B"),
			PeerID: rig.RandomPeerID(cr.run.Rand("remote-" + cr.id)),
		})
		if err != nil {
			cr.abandon("remote leecher did not start")
			return
		}
		cr.extra = append(cr.extra, B)
		d := cr.blobs[0].Digest
		go func() { _ = B.Sched.Download(rig.Namespace, d) }()
		if !cr.gate.Wait(watchdog, func(count func(string) rig.Counters) bool { return count("incomingConnEvent").Applied >= 1 }) {
			cr.abandon("the remote leecher did not connect")
			return
		}
		if st, ok := cr.L.TorrentState(h); !ok || !st.Present || st.Complete {
			cr.abandon("generation 2 has no in-progress control created by the incoming conn")
			return
		}
		cr.run.Count("controls_created_by_incoming_conn_on_partial_download", 1)
		done()

	case "stallwait":
		name := fmt.Sprintf("write:%d", s.B)
		want := s.N
		if want < 1 {
			want = 1
		}
		if want > 1 && !cr.wgate.Wait(3*time.Second, func(count func(string) rig.Counters) bool { return count(name).Parked >= want }) {
			// Best effort (no verdict depends on it): the second seeder's handshake
			// may have been rejected, then all pieces come from one peer.
			cr.run.Count("stallwait_second_parked_write_gave_up", 1)
			want = 1
		}
		if !cr.wgate.Wait(watchdog, func(count func(string) rig.Counters) bool { return count(name).Parked >= want }) {
			cr.abandon("writes did not reach the stall point")
		}
		done()

	case "fill":
		if cr.stopStarted {
			skip("stopped")
			return
		}
		// Baselines first: if the probe below still sees the torrent in progress,
		// its completion (store mark, completion notice) comes after them.
		stored := fmt.Sprintf("stored:%d", s.B)
		beforeStored := cr.wgate.Count(stored).Applied
		beforeC := cr.gate.Count(rig.EvComplete)
		st, ok := cr.L.TorrentState(cr.blobs[s.B].InfoHash())
		if !ok || !st.Present || st.Complete {
			skip("no-inprogress-torrent")
			return
		}
		if cr.closedOnce[s.B] && !cr.spec.NoBlacklist {
			skip("seeder-blacklisted")
			return
		}
		if ref, ok := cr.brokenRef[s.B]; ok && ref == st.Ref {
			skip("a-piece-write-of-this-control-failed") // never retried without the request timers
			return
		}
		// Progress is only guaranteed with a conn to the seeder (or a piece already
		// waiting at the write gate).
		hasConn := false
		cr.L.Sched.VerifC17Inspect(func(v scheduler.VerifC17View) {
			hasConn = v.HasConn(cr.w.seeder.Pctx.PeerID, cr.blobs[s.B].InfoHash())
		})
		if !hasConn && cr.wgate.Count(fmt.Sprintf("write:%d", s.B)).Parked == 0 {
			skip("no-conn")
			return
		}
		wname := fmt.Sprintf("write:%d", s.B)
		// A piece write which failed earlier (file removed under the torrent, or
		// another Torrent instance of a parallel request moved the file to the
		// cache first) is never retried without the request timers: the torrent
		// cannot complete any more.
		if w := cr.wgate.Count(wname); w.Sent-w.SentOK > cr.errsAck[s.B] {
			cr.errsAck[s.B] = w.Sent - w.SentOK
			cr.wgate.Release(wname)
			cr.run.Count("fill_ended_by_piece_write_error", 1)
			cr.brokenRef[s.B] = st.Ref
			cr.executed = append(cr.executed, "fill-failed("+s.String()+":earlier-piece-write-error)")
			return
		}
		cr.wgate.Release(wname)
		// The torrent completes, or a piece write fails: a RemoveTorrent that ran
		// between a request's CreateTorrent and its newTorrentEvent deleted the
		// download file under the torrent, which can then only time out.
		writeFailed := false
		// Third ending: the blob is already in the cache but the control is an
		// incomplete one without conns — newTorrentEvent's "cache evicted" branch
		// replaced the complete control by one built on a request's stale,
		// incomplete Torrent object; that control can only time out. (Checked on
		// two consecutive polls: a logical state, not a delay.)
		replaced, seen, lost := false, 0, 0
		deadline := time.Now().Add(watchdog)
		finished := false
		for !finished && !replaced && time.Now().Before(deadline) {
			finished = cr.wgate.Wait(50*time.Millisecond, func(count func(string) rig.Counters) bool {
				n := count(wname)
				writeFailed = (n.Sent - n.SentOK) > cr.errsAck[s.B] // every error not yet accounted for, whenever it landed
				return count(stored).Applied > beforeStored || writeFailed
			})
			if finished {
				break
			}
			var st2 scheduler.VerifC17TorrentState
			nc := 0
			cr.L.Sched.VerifC17Inspect(func(v scheduler.VerifC17View) {
				st2 = v.Torrent(cr.blobs[s.B].InfoHash())
				nc = v.NumConns(cr.blobs[s.B].InfoHash())
			})
			if st2.Present && !st2.Complete && nc == 0 && cr.L.InCache(cr.blobs[s.B]) && cr.wgate.Count(wname).Parked == 0 {
				seen++
			} else {
				seen = 0
			}
			replaced = seen >= 2
			// Fourth ending: the conn this step started with is gone, nothing is
			// parked and nothing re-announces under the mock clock — no progress is
			// possible any more (again a state seen on consecutive polls, no verdict).
			if w := cr.wgate.Count(wname); nc == 0 && w.Parked == 0 && w.Entered == w.Sent && !cr.L.InCache(cr.blobs[s.B]) {
				lost++
			} else {
				lost = 0
			}
			if lost >= 4 {
				break
			}
		}
		if lost >= 4 && !finished && !replaced {
			cr.run.Count("fill_ended_by_lost_conn", 1)
			cr.executed = append(cr.executed, "fill-failed("+s.String()+":conn-lost)")
			return
		}
		if replaced {
			cr.run.Count("fill_ended_by_control_replaced_with_stale_incomplete_torrent", 1)
			cr.executed = append(cr.executed, "fill-failed("+s.String()+":control-replaced-by-stale-incomplete-torrent)")
			return
		}
		if !finished {
			cr.abandon("torrent did not complete although it had a conn")
			return
		}
		if writeFailed {
			cr.unblockMove(s.B) // the fault hits once
		}
		if writeFailed && cr.wgate.Count(stored).Applied == beforeStored {
			w := cr.wgate.Count(wname)
			cr.errsAck[s.B] = w.Sent - w.SentOK
			cr.run.Count("fill_ended_by_piece_write_error", 1)
			cr.brokenRef[s.B] = st.Ref
			cr.executed = append(cr.executed, "fill-failed("+s.String()+":piece-write-error)")
			return
		}
		if !cr.gate.Wait(watchdog, func(count func(string) rig.Counters) bool {
			n := count(rig.EvComplete)
			return n.Applied > beforeC.Applied || n.Parked > beforeC.Parked
		}) {
			cr.abandon("completion notice neither applied nor parked after the last piece")
		}
		cr.closedOnce[s.B] = true // completing closes the conn to the (complete) seeder
		done()

	case "rm":
		ch := make(chan error, 1)
		cr.rmCalls = append(cr.rmCalls, ch)
		before := cr.gate.Count(rig.EvRemove)
		d := cr.blobs[s.B].Digest
		fin := make(chan struct{})
		L := cr.L
		go func() { ch <- L.Sched.RemoveTorrent(d); close(fin) }()
		if !cr.settleDoneOr(fin, func(count func(string) rig.Counters) bool {
			return count(rig.EvRemove).Parked > before.Parked
		}) {
			cr.fail("watchdog: RemoveTorrent neither returned nor parked")
		}
		cr.closedOnce[s.B] = true
		if pendingBefore > 0 {
			cr.actionsWithPending++
		}
		done()

	case "tick":
		for k := 0; k < s.N; k++ {
			before := cr.gate.Count(rig.EvTick)
			if before.Parked > 0 {
				cr.ticksWhileParked++
				cr.clk.Add(tickP)
				continue
			}
			cr.clk.Add(tickP)
			if cr.stopStarted {
				continue
			}
			if !cr.gate.Wait(watchdog, func(count func(string) rig.Counters) bool {
				n := count(rig.EvTick)
				return n.Applied > before.Applied || n.Parked > 0
			}) {
				cr.fail("watchdog: preemption tick neither applied nor parked")
				return
			}
		}
		for i := range cr.blobs {
			cr.closedOnce[i] = true // conservative: an idle drop tears conns down
		}
		if pendingBefore > 0 {
			cr.actionsWithPending++
		}
		done()

	case "stop":
		if cr.stopStarted {
			skip("stopped")
			return
		}
		cr.doStop()
		if pendingBefore > 0 {
			cr.actionsWithPending++
		}
		done()
	}
}

// doStop runs Stop. Once shutdownEvent has been applied the loop is gone and
// every parked sender would get "stopped" from its send; the gates are opened
// then (the ticker loop parks inside the gate and Stop waits for it).
func (cr *caseRun) doStop() {
	cr.stopStarted = true
	cr.stopDone = make(chan struct{})
	L, stopDone := cr.L, cr.stopDone
	go func() { L.Sched.Stop(); close(stopDone) }()
	applied := make(chan struct{})
	g := cr.gate
	go func() {
		g.Wait(10*watchdog, func(count func(string) rig.Counters) bool { return count(rig.EvShutdown).Applied > 0 })
		close(applied)
	}()
	if !cr.awaitLoop(applied, "stop") {
		return
	}
	cr.gate.ReleaseAll()
	cr.awaitLoop(cr.stopDone, "stop")
}

// parkedInDownload reports whether the call's goroutine is parked in
// doDownload's receive from its result channel.
func parkedInDownload(dump map[int64]rig.Goroutine, c *call) (rig.Goroutine, bool) {
	g, ok := dump[c.gid.Load()]
	if !ok || g.State != "chan receive" {
		return g, false
	}
	lines := strings.SplitN(g.Stack, "\n", 3)
	return g, len(lines) >= 2 && strings.HasPrefix(lines[1], "github.com/uber/kraken/lib/torrent/scheduler.(*scheduler).doDownload")
}

// awaitLoop waits for done. Meanwhile it watches the event loop goroutine: if
// it is parked in a channel send made directly by an apply method (or
// removeTorrent) while every outstanding Download call is itself parked
// receiving from its own (empty) result channel, nobody can ever take that
// value: the loop is blocked forever -> violation. The wall-clock watchdog
// only yields "inconclusive".
func (cr *caseRun) awaitLoop(done <-chan struct{}, where string) bool {
	deadline := time.Now().Add(watchdog)
	wait := 250 * time.Millisecond // healthy paths finish long before the first dump
	for {
		timer := time.NewTimer(wait)
		select {
		case <-done:
			timer.Stop()
			return true
		case <-timer.C:
		}
		if wait < 500*time.Millisecond {
			wait *= 2
		}
		dump := rig.Dump()
		g, ok := dump[cr.loopGID.Load()]
		if ok && g.State == "chan send" && g.In("baseEventLoop).run") {
			lines := strings.SplitN(g.Stack, "\n", 3)
			top := ""
			if len(lines) >= 2 {
				top = lines[1]
			}
			site := ""
			for _, name := range []string{"shutdownEvent", "dispatcherCompleteEvent", "removeTorrentEvent", "preemptionTickEvent", "newTorrentEvent"} {
				if strings.Contains(top, "scheduler."+name+".apply") {
					site = name
				}
			}
			if strings.Contains(top, "scheduler.(*state).removeTorrent") {
				site = "removeTorrent"
			}
			allParked := site != ""
			cr.mu.Lock()
			calls := append([]*call(nil), cr.calls...)
			cr.mu.Unlock()
			for _, c := range calls {
				select {
				case <-c.done:
					continue
				default:
				}
				if _, p := parkedInDownload(dump, c); !p {
					// Also unable to receive: parked at the harness gate, or waiting in
					// eventLoop.send for the very loop that is blocked.
					g, ok := dump[c.gid.Load()]
					if !(ok && (g.In("schedrig.(*Gate).Enter") || (g.State == "select" && g.In("baseEventLoop).send")))) {
						allParked = false
					}
				}
			}
			select {
			case <-done: // finished while we were looking
				return true
			default:
			}
			if allParked {
				cr.mu.Lock()
				nstale := 0
				for _, v := range cr.stale {
					nstale += len(v)
				}
				cr.mu.Unlock()
				cr.run.Count("event_loop_blocked_forever", 1)
				sig := "event-loop-blocked-sending-to-waiter/" + site
				if nstale > 0 {
					// a stale completion notice already put a value into a newer request's channel
					sig += "/after-stale-completion-notice"
				}
				cr.run.Violation(sig, cr.spec.key(), map[string]interface{}{
					"case": cr.spec, "executed": cr.executed, "where": where, "applied_event_order": cr.order(),
					"what":      "the event loop goroutine is parked in a channel send inside " + site + " while no Download call can receive: the result channel (capacity 1) already holds a value nobody will take",
					"goroutine": g.Stack, "stale_completion_notices_applied": nstale,
				})
				cr.wedged = true
				return false
			}
		}
		if time.Now().After(deadline) {
			cr.fail("watchdog: " + where + " did not complete (event loop not provably blocked)")
			return false
		}
	}
}

func (cr *caseRun) order() string {
	var sb strings.Builder
	sb.WriteString(cr.orderPrefix)
	for i, a := range cr.gate.Log() {
		if i > 0 {
			sb.WriteByte(' ')
		}
		sb.WriteString(short(a.Name))
		if a.Name != rig.EvTick && a.Name != rig.EvShutdown {
			if b := cr.blobIndex(a.InfoHash, a.Digest); b >= 0 {
				fmt.Fprintf(&sb, "%d", b)
			} else {
				sb.WriteByte('?')
			}
		}
	}
	return sb.String()
}

// normErr strips paths from an error text so that it can serve as a counter name.
var pathRe = regexp.MustCompile(`/[^\s:}\]]+`)

func normErr(err error) string { return pathRe.ReplaceAllString(err.Error(), "<path>") }

func classify(err error) string {
	switch err {
	case nil:
		return "nil"
	case scheduler.ErrTorrentNotFound:
		return "not_found"
	case scheduler.ErrTorrentTimeout:
		return "timeout"
	case scheduler.ErrTorrentRemoved:
		return "removed"
	case scheduler.ErrSchedulerStopped:
		return "stopped"
	}
	return "other"
}

func (cr *caseRun) teardown() {
	// The stub tracker hands out every peer that ever announced; a dead leecher
	// left in the list would take one of the next leecher's 10 pending-conn
	// slots (and with a mock clock nothing re-announces).
	defer func() {
		cr.w.tracker.Forget(cr.lID)
		cr.w.tracker.Forget(cr.w.seeder2.Pctx.PeerID)
	}()
	defer func() {
		for _, p := range cr.extra {
			p.Close()
		}
	}()
	cr.gate.ReleaseAll()
	cr.wgate.ReleaseAll()
	if !cr.stopStarted && !cr.wedged {
		// Never call Stop unguarded: with a blocked event loop it would hang the run.
		cr.doStop()
	}
	if cr.stopStarted || cr.wedged {
		// Either stopped by the case, or the loop is wedged (reported): only the store is left to close.
		cr.L.CloseStoreOnly()
	} else {
		cr.L.Close()
	}
	os.RemoveAll(cr.L.Dir)
	os.RemoveAll(cr.lDir + "-remote")
}

func (cr *caseRun) execute() {
	t0 := time.Now()
	if err := cr.setup(); err != nil {
		cr.fail("setup: " + err.Error())
		return
	}
	timing := os.Getenv("VERIF_C17_TIMING") != ""
	if timing {
		cr.run.Count("us_setup", time.Since(t0).Microseconds())
	}
	defer func() {
		t1 := time.Now()
		cr.teardown()
		if timing {
			cr.run.Count("us_teardown", time.Since(t1).Microseconds())
		}
	}()

	for i, s := range cr.spec.Steps {
		t0 := time.Now()
		cr.execStep(i, s)
		if os.Getenv("VERIF_C17_TIMING") != "" {
			cr.run.Count("us_step_"+s.Op, time.Since(t0).Microseconds())
		}
		if cr.inconcl != "" || cr.wedged || cr.abandoned != "" || (cr.stopStarted && !cr.stopped()) {
			break
		}
		if !cr.stopStarted {
			pd := make(chan struct{})
			var perr error
			L := cr.L
			go func() { perr = L.Sched.Probe(); close(pd) }()
			if !cr.awaitLoop(pd, "probe after "+s.String()) {
				break
			}
			if perr != nil {
				cr.fail("probe: " + perr.Error())
				break
			}
			cr.run.Count("probes_ok", 1)
		}
	}
	t2 := time.Now()
	cr.finish()
	if timing {
		cr.run.Count("us_finish", time.Since(t2).Microseconds())
	}
}

// finish stops the scheduler if the case has not, then judges every call.
func (cr *caseRun) finish() {
	if cr.inconcl != "" {
		return
	}
	if !cr.stopStarted {
		cr.doStop()
		cr.executed = append(cr.executed, "stop(final)")
	}
	if cr.wedged || !cr.stopped() {
		return // wedged loop: already reported
	}
	cr.gate.ReleaseAll()
	cr.wgate.ReleaseAll()

	cr.mu.Lock()
	calls := append([]*call(nil), cr.calls...)
	cr.mu.Unlock()

	// Stop() has returned and nothing is held: nothing can deliver to a result
	// channel any more. A call whose goroutine is parked in doDownload's
	// receive is lost for good (a readied goroutine would be "runnable").
	lost := map[*call]rig.Goroutine{}
	deadline := time.Now().Add(watchdog)
	wait := 5 * time.Millisecond
	early := time.After(100 * time.Millisecond)
early:
	for _, c := range calls {
		select {
		case <-c.done:
		case <-early:
			break early
		}
	}
	for {
		var pending []*call
		for _, c := range calls {
			select {
			case <-c.done:
			default:
				pending = append(pending, c)
			}
		}
		if len(pending) == 0 {
			break
		}
		time.Sleep(wait)
		if wait < 200*time.Millisecond {
			wait *= 2
		}
		dump := rig.Dump()
		all := true
		for _, c := range pending {
			select {
			case <-c.done:
				continue
			default:
			}
			if g, p := parkedInDownload(dump, c); p {
				lost[c] = g
			} else {
				all = false
			}
		}
		if all {
			break
		}
		if time.Now().After(deadline) {
			cr.fail("watchdog: a Download has not returned after Stop, but is not parked on its result channel")
			break
		}
	}
	for _, c := range calls {
		g, ok := lost[c]
		if !ok {
			continue
		}
		select {
		case <-c.done:
			continue
		default:
		}
		cr.mu.Lock()
		cause := "waiter-lost-before-shutdown"
		if d, ok := cr.droppers[c.b]; ok {
			cause = "complete-unnotified-torrent-dropped-by-" + d
		} else if st := cr.atShutdown[c.b]; st.Present && st.Waiters > 0 {
			cause = "waiter-present-at-shutdown-not-notified"
		} else {
			// an event emptied the waiter list of the control during the call
			for _, d := range cr.deliveries[c.b] {
				if d.stamp >= c.startStamp && d.name != rig.EvNewTorrent {
					cause = "waiters-released-by-" + d.name + "-but-call-not-answered"
				}
			}
		}
		cr.mu.Unlock()
		cr.run.Count("downloads_parked_after_stop", 1)
		cr.run.Violation("download-never-returns/"+cause, cr.spec.key(), map[string]interface{}{
			"case": cr.spec, "executed": cr.executed, "applied_event_order": cr.order(),
			"call": c.id, "call_started_at_step": c.step, "blob": c.b,
			"what":      "Stop() returned, all gates open, the call is still parked in doDownload's receive: nothing can deliver any more",
			"goroutine": g.Stack,
		})
	}
	for _, ch := range cr.rmCalls {
		select {
		case <-ch:
		case <-time.After(watchdog):
			cr.fail("watchdog: RemoveTorrent did not return after Stop")
		}
	}

	// Results.
	for _, c := range calls {
		select {
		case <-c.done:
		default:
			continue
		}
		cr.run.Count("downloads_returned", 1)
		cr.run.Count("result_"+classify(c.err), 1)
		if c.err != nil || c.b < 0 {
			if c.b < 0 && c.err == nil {
				cr.run.Violation("success-for-unknown-blob", cr.spec.key(), map[string]interface{}{"case": cr.spec, "call": c.id})
			}
			continue
		}
		// A success must be justified where it was decided: the blob is in the
		// cache when the event that delivered the nil has finished applying, or at
		// return time. A deletion by a later event stays tolerated.
		justified := c.endPresent
		lastDelivery, lastDeliveryStamp := "", int64(-1) // the last candidate before the return is the one that answered this call
		lastUnmoved, lastCreated := false, false
		staleObject, staleObjectRecreated := false, false
		cr.mu.Lock()
		for _, d := range cr.deliveries[c.b] {
			if d.stamp < c.startStamp || d.stamp > c.endStamp {
				continue
			}
			if d.inCache && !d.mismatch {
				justified = true
			}
			lastDelivery, lastDeliveryStamp = d.name, d.stamp
			lastUnmoved = d.inDownload && !d.inCache
			lastCreated = d.created
			if d.name == rig.EvNewTorrent && d.created && !d.inCache {
				// a request answered at once from its own (stale) Torrent object: the
				// most specific explanation, whatever else falls into the interval
				staleObject = true
				staleObjectRecreated = staleObjectRecreated || d.inDownload
			}
		}
		// A stale completion notice explains the result only when no event that
		// can have answered the call lies in its interval (a stale notice which
		// kraken ignores may well follow the real answer before the call stamps
		// its return).
		_, _ = lastDeliveryStamp, lastCreated
		staleInCall := false
		for _, s := range cr.stale[c.b] {
			if s >= c.startStamp && s <= c.endStamp && lastDelivery == "" {
				staleInCall = true
			}
		}
		cr.mu.Unlock()
		if !justified {
			sig := "success-without-blob/other"
			if staleInCall {
				sig = "success-without-blob/stale-completion-notice-applied-to-new-torrent"
			} else if staleObject && staleObjectRecreated {
				// ... and meanwhile another request re-created the (empty) archive entry
				sig = "success-without-blob/request-answered-from-stale-complete-torrent-object/archive-entry-recreated"
			} else if staleObject {
				sig = "success-without-blob/request-answered-from-stale-complete-torrent-object"
			} else if lastUnmoved {
				// the torrent counted as complete while its file had not reached the cache
				sig = "success-without-blob/complete-reported-while-file-still-in-download-store"
			} else if lastDelivery == rig.EvRemove {
				sig = "success-without-blob/blob-deleted-by-the-event-that-reported-success"
			} else if lastDelivery == rig.EvNewTorrent {
				// answered at once from a control built on the request's own Torrent
				// object, which was opened before the blob was deleted
				sig = "success-without-blob/request-answered-from-stale-complete-torrent-object"
			}
			cr.run.Violation(sig, cr.spec.key(), map[string]interface{}{
				"case": cr.spec, "executed": cr.executed, "applied_event_order": cr.order(),
				"call": c.id, "call_started_at_step": c.step, "blob": c.b,
				"deliveries_for_blob": fmt.Sprintf("%+v", cr.deliveries[c.b]), "call_interval": []int64{c.startStamp, c.endStamp},
				"what": "Download returned nil, but the blob was in the cache neither when an event that can have delivered this result had finished applying nor at return time",
			})
		} else if c.endPresent && !c.endExact {
			// Was an in-progress download of this blob cancelled (removal or idle
			// timeout) earlier in the case? Then a piece write of the cancelled
			// torrent instance may have hit the re-created download file.
			sig := "success-with-wrong-bytes/other"
			cr.mu.Lock()
			if by, ok := cr.cancelled[c.b]; ok {
				sig = "success-with-wrong-bytes/after-cancelled-download-and-new-request"
				_ = by
			}
			cancelledBy := cr.cancelled[c.b]
			cr.mu.Unlock()
			cr.run.Violation(sig, cr.spec.key(), map[string]interface{}{
				"case": cr.spec, "executed": cr.executed, "applied_event_order": cr.order(), "call": c.id,
				"call_started_at_step": c.step, "blob": c.b, "cache_content": c.mismatch, "inprogress_download_cancelled_by": cancelledBy,
				"what": "Download returned nil and the cache holds a file under the blob's digest whose content is not the blob"})
		}
	}
}

// ---------------------------------------------------------------------------
// Free-running stress (thorough tier): no gates; several goroutines issue
// Download / RemoveTorrent while one goroutine advances the clock; then Stop.
// Same oracle.

func (cr *caseRun) launch(stepIdx, b int) *call {
	blob := cr.w.missing
	if b >= 0 {
		blob = cr.blobs[b]
	}
	cr.mu.Lock()
	c := &call{id: fmt.Sprintf("%s-call%d", cr.id, len(cr.calls)), b: b, step: stepIdx, done: make(chan struct{})}
	cr.calls = append(cr.calls, c)
	cr.mu.Unlock()
	L := cr.L // the generation this call belongs to
	go func() {
		c.gid.Store(rig.GID())
		c.startStamp = cr.next()
		c.startPresent = b >= 0 && L.InCache(blob)
		c.err = L.Sched.Download(rig.Namespace, blob.Digest)
		ret := cr.next() // the answering event was applied before this instant
		if b >= 0 {
			st := L.Stat(blob, c.err == nil)
			c.endPresent, c.endExact, c.mismatch = st.InCache, !st.Mismatch, st.MismatchInfo
		}
		c.endStamp = ret
		close(c.done)
	}()
	return c
}

func stress(t *testing.T, run *ev.Run, base string) {
	rounds := run.N(0, 500)
	const workers = 8
	var wg sync.WaitGroup
	for wi := 0; wi < workers; wi++ {
		wg.Add(1)
		go func(wi int) {
			defer wg.Done()
			w, err := newWorker(run, 100+wi, base)
			if err != nil {
				run.Inconclusive("stress worker setup: " + err.Error())
				return
			}
			defer w.seeder.Close()
			defer w.seeder2.Close()
			for i := wi; i < rounds; i += workers {
				r := run.Rand(fmt.Sprintf("stress-%d", i))
				spec := &caseSpec{
					ID: 1000000 + i, Kind: "stress", MS: 2 + r.Intn(3), ML: 2 + r.Intn(3),
					NoBlacklist: r.Intn(2) == 0, Pipeline: 1 + r.Intn(3),
					Blobs: []int{r.Intn(len(poolPieces))}, Stall: []int{-1},
				}
				nops := 6 + r.Intn(10)
				for k := 0; k < nops; k++ {
					switch x := r.Intn(10); {
					case x < 5:
						spec.Steps = append(spec.Steps, step{Op: "dl", B: 0})
					case x < 7:
						spec.Steps = append(spec.Steps, step{Op: "rm", B: 0})
					case x < 8:
						spec.Steps = append(spec.Steps, step{Op: "dlmissing"})
					default:
						spec.Steps = append(spec.Steps, step{Op: "tick", N: 1 + r.Intn(spec.MS+2)})
					}
				}
				cr := &caseRun{run: run, w: w, spec: spec, id: fmt.Sprintf("s%d-c%d", wi, i), blobs: []*rig.Blob{w.pool[spec.Blobs[0]]}}
				if err := cr.setup(); err != nil {
					run.Inconclusive("stress setup: " + err.Error())
					continue
				}
				// Three lanes run the ops concurrently; ticks are serialized on one lane
				// (the mock clock allows a single advancing goroutine).
				var lanes sync.WaitGroup
				var tickMu sync.Mutex
				acted := int32(0)
				for lane := 0; lane < 3; lane++ {
					lanes.Add(1)
					go func(lane int) {
						defer lanes.Done()
						for k := lane; k < len(spec.Steps); k += 3 {
							switch s := spec.Steps[k]; s.Op {
							case "dl":
								cr.launch(k, 0)
							case "dlmissing":
								cr.launch(k, -1)
							case "rm":
								_ = cr.L.Sched.RemoveTorrent(cr.blobs[0].Digest)
								atomic.AddInt32(&acted, 1)
							case "tick":
								tickMu.Lock()
								for n := 0; n < s.N; n++ {
									cr.clk.Add(tickP)
								}
								tickMu.Unlock()
								atomic.AddInt32(&acted, 1)
							}
						}
					}(lane)
				}
				lanes.Wait()
				cr.executed = []string{"free-running"}
				cr.finish()
				cr.teardown()
				if cr.inconcl != "" {
					run.Inconclusive(fmt.Sprintf("stress case %d: %s", i, cr.inconcl))
					run.Case(spec.key(), false)
					continue
				}
				run.Case(spec.key(), acted > 0)
				run.Count("cases_stress", 1)
				run.Distinct("event_orders", cr.order())
			}
		}(wi)
	}
	wg.Wait()
}

// ---------------------------------------------------------------------------

func TestC17(t *testing.T) {
	run := ev.Start(t, "C17", "exploration",
		"PRNG-generated schedules against a real leecher scheduler (mock clock, gated event loop) and a real in-process seeder: "+
			"a window (completion notice held after the last piece / piece writes stalled / newTorrentEvent held / free-running / "+
			"revived: a first scheduler generation leaves a partial download, in the second a remote leecher's incoming conn creates the control before a local request joins / "+
			"move-fault: the final move into the cache fails once / two-seeders: the last two pieces are written concurrently) "+
			"followed by a random subset, in random order, of RemoveTorrent, idle-limit clock advances with their preemption ticks, "+
			"further Download calls (known and unknown blobs), holds/releases of a second event type, release of the held notice, "+
			"Stop, and a request after Stop; 1-2 blobs, 1-7 pieces. A case is non-trivial when at least one injected action "+
			"(removal, tick, release, Stop) ran while a Download call was outstanding; distinct = distinct schedule specs. "+
			"A free-running stress phase (no gates) follows in the thorough tier.")
	defer run.Finish()
	run.Assume("the in-process seeder, the stub tracker (static handout + metainfo) and the mock clock behave as their real counterparts")
	run.Assume("holding the send of an event before it reaches the unbuffered loop channel is a schedule the Go runtime may produce")

	n := run.N(160, 8000)
	if os.Getenv("VERIF_C17_STRESS_ONLY") != "" { // development aid
		n = 0
	}
	gr := run.Rand("schedules")
	specs := make([]*caseSpec, n)
	for i := range specs {
		specs[i] = genCase(rand.New(rand.NewSource(gr.Int63())), i)
	}
	base := ev.TempDir(t, "c17-")
	const workers = 8
	var orderMu sync.Mutex
	orders := map[string]int{}
	var wg sync.WaitGroup
	for wi := 0; wi < workers; wi++ {
		wg.Add(1)
		go func(wi int) {
			defer wg.Done()
			w, err := newWorker(run, wi, base)
			if err != nil {
				run.Inconclusive("worker setup: " + err.Error())
				return
			}
			defer w.seeder.Close()
			defer w.seeder2.Close()
			for i := wi; i < n; i += workers {
				spec := specs[i]
				if rc := run.ReplayCase(); rc != "" && rc != spec.key() {
					continue
				}
				cr := &caseRun{run: run, w: w, spec: spec, id: fmt.Sprintf("w%d-c%d", wi, spec.ID)}
				for _, bi := range spec.Blobs {
					cr.blobs = append(cr.blobs, w.pool[bi])
				}
				cr.execute()
				if cr.inconcl != "" {
					run.Inconclusive(fmt.Sprintf("case %d (%s): %s; executed=%v", spec.ID, spec.Kind, cr.inconcl, cr.executed))
					run.Case(spec.key(), false)
					continue
				}
				run.Case(spec.key(), cr.actionsWithPending > 0)
				run.Count("cases_"+spec.Kind, 1)
				o := cr.order()
				run.Distinct("event_orders", o)
				run.Distinct("executed_step_sequences", strings.Join(cr.executed, " "))
				orderMu.Lock()
				orders[o]++
				orderMu.Unlock()
				if spec.ID%37 == 0 {
					run.Sample(map[string]interface{}{"spec": spec, "executed": cr.executed, "applied_event_order": o})
				}
			}
		}(wi)
	}
	wg.Wait()

	if !run.Quick() && run.ReplayCase() == "" {
		stress(t, run, base)
	}

	// Evidence: the distinct applied-event orders (N=newTorrent, C=dispatcherComplete,
	// R=removeTorrent, T=preemptionTick, S=shutdown; digit = blob).
	list := make([]string, 0, len(orders))
	for o := range orders {
		list = append(list, o)
	}
	sort.Strings(list)
	if len(list) > 600 {
		list = list[:600]
	}
	run.Set("event_orders_exercised", list)
	run.Set("event_order_legend", "N=newTorrentEvent C=dispatcherCompleteEvent R=removeTorrentEvent T=preemptionTickEvent S=shutdownEvent, digit=blob index")
}
