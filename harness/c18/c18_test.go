// C18: idle timeouts follow real activity and never delete completed blobs.
//
// history + virtual-time monitor. One real seeder scheduler S (holding the
// blob) and one real leecher scheduler L share a mock clock; both run on a real
// agentstorage archive. L requests one piece at a time (pipeline limit 1) and
// every piece write of L parks at a gate, so the controller decides at which
// virtual instants L receives a piece — and thereby at which instants S serves
// the next one. Between pieces the clock advances one preemption interval at a
// time and every preemption tick is awaited on both event loops.
//
// Oracle, evaluated at every tick from probes of the torrent controls:
//   - a completed torrent (S from the start, L after its last piece) is dropped
//     only at a tick where no piece has been served for >= SeederTTI
//     (served = the piece reader handed to the conn was closed; baseline = the
//     creation of the control);
//   - an in-progress torrent is dropped only when no piece has been received
//     for >= LeecherTTI;
//   - after an idle drop or RemoveTorrent of an in-progress torrent the partial
//     file is gone; after the idle drop of a completed torrent the cache file
//     is still there with the exact bytes.
//
// Idle limits are (m+0.5) preemption intervals and all activity happens at
// whole intervals, so no comparison is ever at its boundary.
package c18

import (
	"fmt"
	"math/rand"
	"os"
	"strings"
	"sync"
	"sync/atomic"
	"testing"
	"time"

	"github.com/andres-erbsen/clock"

	"github.com/uber/kraken/core"
	"github.com/uber/kraken/lib/torrent/scheduler"
	"github.com/uber/kraken/lib/torrent/scheduler/dispatch"
	"github.com/uber/kraken/lib/torrent/storage"

	"verif/harness/internal/ev"
	rig "verif/harness/internal/schedrig"
)

const (
	// The whole timeline stays below the announcer's 5 s default interval: the
	// mock clock library races (t.next) when a Timer.Reset runs concurrently
	// with a ticker tick, which would be reported against kraken frames.
	tickP    = 50 * time.Millisecond
	maxTicks = 90
	forever  = 100000 * time.Hour
	watchdog = 180 * time.Second // wall clock; expiry is inconclusive
)

type timeline struct {
	ID     int    `json:"id"`
	Family string `json:"family"`              // seeder | slow-serve | leecher | mixed | revived
	MS     int    `json:"seeder_S_tti_ticks"`  // 0 = never
	ML     int    `json:"leecher_L_tti_ticks"` // 0 = never
	MLS    int    `json:"seeder_L_tti_ticks"`
	Pieces int    `json:"pieces"`
	// t = one tick, p = release one piece write on L, r = RemoveTorrent on L,
	// s = let S finish the piece transfer it has open (slow-serve family only),
	// H / C = hold / release L's dispatcherCompleteEvent (late-completion family).
	Steps string `json:"steps"`
	// revived family: L's first scheduler generation receives Gen1 pieces and is
	// stopped; after Between ticks a second generation starts on the same store,
	// a remote leecher connects to it (the control is created for the incoming
	// conn), optionally a local Download joins, then the clock runs.
	Gen1    int  `json:"gen1_pieces,omitempty"`
	Between int  `json:"between_ticks,omitempty"`
	Join    bool `json:"local_download_joins,omitempty"`
}

func (tl *timeline) key() string { return ev.JSON(tl) }

func tti(m int) time.Duration {
	if m == 0 {
		return forever
	}
	return time.Duration(m)*tickP + tickP/2
}

func genTimeline(r *rand.Rand, id int) *timeline {
	tl := &timeline{ID: id, Pieces: 3 + r.Intn(6), MLS: 2 + r.Intn(4)}
	var m int
	switch x := r.Intn(20); {
	case x < 5:
		tl.Family, tl.MS = "seeder", 2+r.Intn(5)
		m = tl.MS
	case x < 9:
		// Transfers take virtual time: S opens the piece, the clock runs, then S
		// finishes (closes the reader). The idle clock must start at the end.
		tl.Family, tl.MS = "slow-serve", 2+r.Intn(5)
		m = tl.MS
		var sb strings.Builder
		ticks := 0
		for k := 0; k < tl.Pieces && ticks < maxTicks-24; k++ {
			a := 1 + r.Intn(m) // open -> close
			b := r.Intn(m + 1) // close -> next open
			if r.Intn(3) == 0 {
				b = m + 1 - a // the first tick at open+limit, still inside close+limit
				if b < 0 {
					b = 0
				}
			}
			sb.WriteString(strings.Repeat("t", a) + "s" + strings.Repeat("t", b) + "p")
			ticks += a + b
		}
		sb.WriteString(strings.Repeat("t", 8))
		tl.Steps = sb.String()
		return tl
	case x < 13:
		tl.Family, tl.ML = "leecher", 2+r.Intn(5)
		m = tl.ML
	case x < 16:
		tl.Family, tl.MS, tl.ML = "mixed", 2+r.Intn(5), 2+r.Intn(5)
		m = tl.MS
		if r.Intn(2) == 0 {
			m = tl.ML
		}
	case x < 18:
		// The download takes at least the seeder idle limit; the completion
		// notice of the last piece is still in flight (held) when preemption ticks
		// are applied, and is released afterwards.
		tl.Family = "late-completion"
		tl.MLS = 2 + r.Intn(4)
		tl.Pieces = 3 + r.Intn(3)
		var sb strings.Builder
		ticks := 0
		for k := 0; k < tl.Pieces; k++ {
			g := 1 + r.Intn(2)
			if k == tl.Pieces-1 && ticks+g < tl.MLS+1 {
				g = tl.MLS + 1 - ticks
			}
			sb.WriteString(strings.Repeat("t", g))
			ticks += g
			if k == tl.Pieces-1 {
				sb.WriteString("H")
			}
			sb.WriteString("p")
		}
		sb.WriteString(strings.Repeat("t", 1+r.Intn(2)) + "C" + strings.Repeat("t", 4))
		tl.Steps = sb.String()
		return tl
	default:
		tl.Family, tl.ML = "revived", 2+r.Intn(4)
		tl.Gen1 = 1 + r.Intn(tl.Pieces-1)
		tl.Between = r.Intn(3)
		tl.Join = r.Intn(2) == 0
		tl.Steps = strings.Repeat("t", tl.ML+3)
		return tl
	}
	gap := func() int {
		switch x := r.Intn(12); {
		case x < 1:
			return 0
		case x < 3:
			return 1
		case x < 5:
			return m - 1
		case x < 9:
			return m // the longest gap that must keep the torrent alive
		case x < 11:
			return m + 1 // the shortest gap after which it may be dropped
		default:
			return m + 2
		}
	}
	var sb strings.Builder
	ticks := 0
	rmAt := -1
	if tl.Family != "seeder" && r.Intn(5) == 0 {
		rmAt = r.Intn(tl.Pieces - 1)
	}
	for k := 0; k < tl.Pieces; k++ {
		g := gap()
		if ticks+g > maxTicks-12 {
			g = 0
		}
		sb.WriteString(strings.Repeat("t", g))
		ticks += g
		if k == rmAt {
			sb.WriteString("r")
			break
		}
		sb.WriteString("p")
	}
	tail := 8
	sb.WriteString(strings.Repeat("t", tail))
	tl.Steps = sb.String()
	return tl
}

// ---------------------------------------------------------------------------

type side struct {
	name    string
	peer    *rig.Peer
	gate    *rig.Gate
	ticks   int // preemption ticks awaited so far
	stopped bool
}

type caseRun struct {
	run  *ev.Run
	tl   *timeline
	id   string
	dir  string
	blob *rig.Blob

	clk      *clock.Mock
	vnow     atomic.Int64 // virtual time in ticks (whole intervals)
	S, L     *side
	wgate    *rig.Gate
	tracker  *rig.Tracker
	lHooks   *rig.ArchiveHooks
	sID, lID core.PeerID
	extra    []*rig.Peer // further peers to close (earlier generation, remote leecher)

	mu           sync.Mutex
	served       int   // piece readers closed on S
	lastServed   int64 // tick of the last serve on S, -1 = none
	received     int   // pieces written on L
	writeErrs    int
	lastReceived int64
	closeErrs    []string
	lastOpened   int64 // tick at which S last started a piece transfer
	servedGID    int64 // goroutine (conn write loop of S) which closed the last piece reader
	writeGID     int64 // goroutine (dispatcher feed of L) which wrote the last piece

	dlDone   chan struct{}
	dlErr    error
	inconcl  string
	violated bool
	drops    int // in-progress drops judged
	trace    []string
}

func (cr *caseRun) fail(s string) {
	if cr.inconcl == "" {
		cr.inconcl = s
	}
}

func cfg(seederTTI, leecherTTI time.Duration) scheduler.Config {
	return rig.QuietConfig(scheduler.Config{
		SeederTTI: seederTTI, LeecherTTI: leecherTTI,
		ConnTTI: forever, ConnTTL: forever,
		PreemptionInterval: tickP, EmitStatsInterval: forever,
		ProbeTimeout: watchdog,
		Dispatch:     dispatch.Config{AgentPipelineLimit: 1, DisableEndgame: true},
	})
}

func (cr *caseRun) setup(tracker *rig.Tracker) error {
	tl := cr.tl
	cr.tracker = tracker
	cr.clk = clock.NewMock()
	cr.wgate = rig.NewGate()
	cr.wgate.Hold("write")
	cr.lastServed, cr.lastReceived = -1, -1
	r := cr.run.Rand("peers-" + cr.id)

	slow := tl.Family == "slow-serve"
	if slow {
		cr.wgate.Hold("serve")
	}
	cr.lastOpened = -1
	sHooks := &rig.ArchiveHooks{}
	sHooks.BeforePieceRead = func(d core.Digest, piece int) {
		cr.mu.Lock()
		cr.lastOpened = cr.vnow.Load()
		cr.mu.Unlock()
		cr.wgate.Enter("serve")
		cr.wgate.Exit("serve", true)
	}
	sHooks.OnPieceReaderClose = func(d core.Digest, piece int, err error) {
		cr.mu.Lock()
		cr.served++
		cr.lastServed = cr.vnow.Load()
		cr.servedGID = rig.GID()
		if err != nil {
			cr.closeErrs = append(cr.closeErrs, fmt.Sprintf("t=%d piece=%d: %v", cr.vnow.Load(), piece, err))
		}
		cr.mu.Unlock()
		if err != nil {
			cr.run.Count("piece_reader_close_errors", 1)
		}
		cr.wgate.MarkApplied("served")
		cr.run.Count("pieces_served", 1)
	}
	lHooks := &rig.ArchiveHooks{
		BeforeWritePiece: func(d core.Digest, piece int) { cr.wgate.Enter("write") },
		AfterWritePiece: func(d core.Digest, piece int, err error) {
			cr.mu.Lock()
			cr.writeGID = rig.GID()
			if err == nil {
				cr.received++
				cr.lastReceived = cr.vnow.Load()
			} else {
				cr.writeErrs++
			}
			cr.mu.Unlock()
			if err == nil {
				cr.run.Count("pieces_received", 1)
			}
			cr.wgate.Exit("write", err == nil)
		},
	}
	cr.lHooks = lHooks
	cr.sID, cr.lID = rig.RandomPeerID(r), rig.RandomPeerID(r)
	var err error
	if cr.S, err = cr.mkSide("S", cfg(tti(tl.MS), forever), sHooks, cr.sID, tracker); err != nil {
		return err
	}
	if cr.L, err = cr.mkSide("L", cfg(tti(tl.MLS), tti(tl.ML)), lHooks, cr.lID, tracker); err != nil {
		cr.S.peer.Close()
		return err
	}
	tracker.AddBlob(cr.blob)
	if err := cr.S.peer.Seed(cr.blob); err != nil {
		return fmt.Errorf("seed: %s", err)
	}
	tracker.Register(cr.blob.InfoHash(), core.PeerInfoFromContext(cr.S.peer.Pctx, true))
	return nil
}

// mkSide starts a scheduler on the directory <case dir>/<name> (re-using what a
// previous generation left there).
func (cr *caseRun) mkSide(name string, c scheduler.Config, h *rig.ArchiveHooks, id core.PeerID, tracker *rig.Tracker) (*side, error) {
	g := rig.NewGate()
	p, err := rig.NewPeer(rig.PeerOptions{
		Config: c, Clock: cr.clk, Tracker: tracker, Dir: rig.MkDir(cr.dir, name), PeerID: id,
		WrapArchive: func(a storage.TorrentArchive) storage.TorrentArchive { return rig.NewArchiveWrapper(a, h) },
		Hooks:       g.Hooks(),
	})
	if err != nil {
		return nil, err
	}
	return &side{name: name, peer: p, gate: g}, nil
}

func (cr *caseRun) teardown() {
	defer func() {
		cr.tracker.Forget(cr.S.peer.Pctx.PeerID)
		cr.tracker.Forget(cr.L.peer.Pctx.PeerID)
	}()
	// Schedulers first: a piece write still parked at the gate belongs to a
	// torrent instance that must not touch a live generation's files.
	cr.L.gate.ReleaseAll()
	cr.S.peer.Close()
	cr.L.peer.Close()
	for _, p := range cr.extra {
		p.Close()
	}
	cr.wgate.ReleaseAll()
	os.RemoveAll(cr.dir)
}

type snap struct {
	st    scheduler.VerifC17TorrentState
	conns int
	ok    bool
}

func (cr *caseRun) probe(s *side) snap {
	var sn snap
	h := cr.blob.InfoHash()
	sn.ok = s.peer.Sched.VerifC17Inspect(func(v scheduler.VerifC17View) {
		sn.st = v.Torrent(h)
		sn.conns = v.NumConns(h)
	})
	return sn
}

func (cr *caseRun) counts() (served, received, writeErrs int) {
	cr.mu.Lock()
	defer cr.mu.Unlock()
	return cr.served, cr.received, cr.writeErrs
}

// waitNext waits until the next piece has reached its next controlled point:
// in the slow-serve family (open=true) S has started the transfer and holds the
// piece reader open at the serve gate; otherwise S has finished serving it
// (reader closed, wantServed reached) and L's write of it is parked. arrived is
// false when the flow is broken for good (mayBreak: a conn existed before and
// now neither side has one any more).
func (cr *caseRun) waitNext(open bool, wantServed int, mayBreak bool) (arrived, ok bool) {
	deadline := time.Now().Add(watchdog)
	for {
		hit := cr.wgate.Wait(20*time.Millisecond, func(count func(string) rig.Counters) bool {
			if open {
				return count("serve").Parked >= 1
			}
			return count("write").Parked >= 1 && count("served").Applied >= wantServed
		})
		if hit {
			return true, open || cr.settleServe()
		}
		if sS, sL := cr.probe(cr.S), cr.probe(cr.L); mayBreak && sS.conns == 0 && sL.conns == 0 {
			return false, true
		}
		if time.Now().After(deadline) {
			cr.fail("watchdog: next piece did not arrive")
			return false, false
		}
	}
}

// The harness observes a serve / a write from inside kraken's access watcher,
// i.e. just before kraken records the access time itself. Before the clock
// may move, the observing goroutine must have left that code (a logical
// condition read from the goroutine dump, not a delay); the probe of kraken's
// own timestamp is only the cheap fast path.
func (cr *caseRun) leftFrame(gid int64, frame string) bool {
	deadline := time.Now().Add(watchdog)
	for {
		g, ok := rig.Dump()[gid]
		// (a goroutine parked at the harness write gate is already in a later call)
		if !ok || !g.In(frame) || g.In("schedrig.(*Gate).Enter") {
			return true
		}
		if time.Now().After(deadline) {
			cr.fail("watchdog: goroutine did not leave " + frame)
			return false
		}
		time.Sleep(time.Millisecond)
	}
}

func (cr *caseRun) settleServe() bool {
	cr.mu.Lock()
	gid, last := cr.servedGID, cr.lastServed
	cr.mu.Unlock()
	if gid == 0 {
		return true
	}
	ok := false
	if sn := cr.probe(cr.S); sn.st.Present && ticksOf(sn.st.LastRead) >= last {
		ok = true
	} else {
		ok = cr.leftFrame(gid, "conn.(*Conn).sendPiecePayload")
	}
	cr.mu.Lock()
	if ok && cr.servedGID == gid && cr.lastServed == last {
		cr.servedGID = 0 // settled; nothing to re-check until the next serve
	}
	cr.mu.Unlock()
	return ok
}

func (cr *caseRun) settleWrite() bool {
	cr.mu.Lock()
	gid, last := cr.writeGID, cr.lastReceived
	cr.mu.Unlock()
	if gid == 0 {
		return true
	}
	ok := false
	if sn := cr.probe(cr.L); sn.st.Present && ticksOf(sn.st.LastWrite) >= last {
		ok = true
	} else {
		ok = cr.leftFrame(gid, "torrentAccessWatcher).WritePiece")
	}
	cr.mu.Lock()
	if ok && cr.writeGID == gid && cr.lastReceived == last {
		cr.writeGID = 0
	}
	cr.mu.Unlock()
	return ok
}

func (cr *caseRun) violation(sig string, extra map[string]interface{}) {
	cr.violated = true
	w := map[string]interface{}{
		"timeline": cr.tl, "trace": cr.trace, "virtual_now_ticks": cr.vnow.Load(),
		"tick": tickP.String(),
	}
	cr.mu.Lock()
	w["piece_reader_close_errors"] = append([]string(nil), cr.closeErrs...)
	cr.mu.Unlock()
	for k, v := range extra {
		w[k] = v
	}
	cr.run.Violation(sig, cr.tl.key(), w)
}

func (cr *caseRun) lastOpenedTick() int64 {
	cr.mu.Lock()
	defer cr.mu.Unlock()
	return cr.lastOpened
}

func ticksOf(t time.Time) int64 { return int64(t.Sub(time.Unix(0, 0)) / tickP) }

// judge evaluates one side after a tick (or after RemoveTorrent when manual).
func (cr *caseRun) judge(s *side, pre, post snap, manual bool) {
	if !pre.st.Present {
		return
	}
	now := cr.vnow.Load()
	dropped := !post.st.Present || post.st.Ref != pre.st.Ref
	cr.mu.Lock()
	lastServed, lastReceived := cr.lastServed, cr.lastReceived
	cr.mu.Unlock()
	created := ticksOf(pre.st.CreatedAt)

	if pre.st.Complete {
		limit := cr.tl.MS
		last := lastServed
		if s == cr.L {
			limit, last = cr.tl.MLS, -1 // L never serves in this rig
		}
		base := created
		if last > base {
			base = last
		}
		idle := limit != 0 && float64(now-base) >= float64(limit)+0.5
		if !dropped {
			if idle {
				cr.run.Count("idle_completed_torrent_kept", 1)
			} else {
				cr.run.Count("decisions_completed_kept_active", 1)
			}
			return
		}
		cr.run.Count("drops_completed_"+s.name, 1)
		cr.trace = append(cr.trace, fmt.Sprintf("t=%d %s dropped completed torrent (created=%d lastServed=%d limit=%d.5)", now, s.name, created, last, limit))
		if !manual && !idle {
			cause := "never-served"
			if last > created {
				cause = "served-pieces-ignored"
				if lr := ticksOf(pre.st.LastRead); lr > created && lr < last {
					// kraken did record reads, but an earlier instant than the end of the last transfer
					cause = "last-read-earlier-than-end-of-last-transfer"
				}
			}
			cr.violation("completed-torrent-dropped-before-seeder-idle-limit/"+cause, map[string]interface{}{
				"side": s.name, "created_tick": created, "last_piece_served_tick": last, "seeder_tti_ticks": float64(limit) + 0.5,
				"kraken_last_read_tick": ticksOf(pre.st.LastRead), "last_transfer_started_tick": cr.lastOpenedTick(),
				"what": "the control of a completed torrent disappeared at a preemption tick although a piece was served less than SeederTTI ago",
			})
		}
		if st := s.peer.Stat(cr.blob, true); !st.InCache || st.Mismatch {
			cr.violation("completed-blob-deleted-on-idle-drop", map[string]interface{}{"side": s.name, "in_cache": st.InCache, "mismatch": st.Mismatch})
		} else {
			cr.run.Count("cache_intact_after_completed_drop", 1)
		}
		return
	}

	// in progress (only L)
	limit := cr.tl.ML
	base := created
	if lastReceived > base {
		base = lastReceived
	}
	idle := limit != 0 && float64(now-base) >= float64(limit)+0.5
	if !dropped {
		if post.st.Complete {
			return // finished meanwhile
		}
		if idle {
			cr.run.Count("idle_inprogress_torrent_kept", 1)
		} else {
			cr.run.Count("decisions_inprogress_kept_active", 1)
		}
		return
	}
	cr.run.Count("drops_inprogress_"+s.name, 1)
	cr.drops++
	cr.trace = append(cr.trace, fmt.Sprintf("t=%d %s dropped in-progress torrent (created=%d lastReceived=%d limit=%d.5 manual=%v)", now, s.name, created, lastReceived, limit, manual))
	if !manual && !idle {
		cause := "never-received"
		if lastReceived > created {
			cause = "received-pieces-ignored"
		}
		cr.violation("inprogress-torrent-dropped-before-leecher-idle-limit/"+cause, map[string]interface{}{
			"side": s.name, "created_tick": created, "last_piece_received_tick": lastReceived, "leecher_tti_ticks": float64(limit) + 0.5,
			"kraken_last_write_tick": ticksOf(pre.st.LastWrite),
		})
	}
	if st := s.peer.Stat(cr.blob, false); st.InDownload || st.InCache {
		how := "idle-drop"
		if manual {
			how = "remove"
		}
		cr.violation("partial-file-left-after-"+how, map[string]interface{}{"side": s.name, "in_download": st.InDownload, "in_cache": st.InCache})
	} else {
		cr.run.Count("partial_file_deleted_after_inprogress_drop", 1)
	}
}

func (cr *caseRun) tick(preS, preL snap) (postS, postL snap, ok bool) {
	bS, bL := cr.S.gate.Count(rig.EvTick).Applied, cr.L.gate.Count(rig.EvTick).Applied
	cr.vnow.Add(1)
	cr.clk.Add(tickP)
	for _, w := range []struct {
		s *side
		b int
	}{{cr.S, bS}, {cr.L, bL}} {
		if !w.s.gate.Wait(watchdog, func(count func(string) rig.Counters) bool { return count(rig.EvTick).Applied > w.b }) {
			cr.fail("watchdog: preemption tick not applied on " + w.s.name)
			return postS, postL, false
		}
	}
	cr.run.Count("ticks", 1)
	// A scheduler whose control is gone closes the orphaned conns at the next
	// tick; wait for both ends so that the flow state is settled.
	postS, postL = cr.probe(cr.S), cr.probe(cr.L)
	if (!preS.st.Present && preS.conns > 0) || (!preL.st.Present && preL.conns > 0) || (!postL.st.Present && preL.st.Present && !preL.st.Complete) {
		// A conn whose write loop is parked at the serve gate cannot finish
		// closing; the transfer it holds belongs to a control that is gone.
		cr.wgate.Release("serve")
		if postS, postL, ok = cr.waitNoConns(); !ok {
			return postS, postL, false
		}
	}
	return postS, postL, true
}

// waitNoConns waits until both ends have no conn for the torrent any more
// (closing is asynchronous but certain once one end started it).
func (cr *caseRun) waitNoConns() (postS, postL snap, ok bool) {
	deadline := time.Now().Add(watchdog)
	for {
		postS, postL = cr.probe(cr.S), cr.probe(cr.L)
		if postS.conns == 0 && postL.conns == 0 {
			return postS, postL, true
		}
		if time.Now().After(deadline) {
			cr.fail("watchdog: conns did not close")
			return postS, postL, false
		}
		time.Sleep(time.Millisecond)
	}
}

func (cr *caseRun) execute(tracker *rig.Tracker) {
	if err := cr.setup(tracker); err != nil {
		cr.fail("setup: " + err.Error())
		return
	}
	defer cr.teardown()
	d := cr.blob.Digest

	cr.dlDone = make(chan struct{})
	go func() { cr.dlErr = cr.L.peer.Sched.Download(rig.Namespace, d); close(cr.dlDone) }()
	slow := cr.tl.Family == "slow-serve"
	if arrived, ok := cr.waitNext(slow, 1, false); !ok || !arrived {
		cr.fail("watchdog: first piece did not arrive")
		return
	}
	preS, preL := cr.probe(cr.S), cr.probe(cr.L)
	var outcome strings.Builder
	mark := func(pre, post snap) byte {
		switch {
		case !pre.st.Present:
			return '-'
		case !post.st.Present:
			return 'd'
		case pre.st.Complete:
			return 'K'
		}
		return 'k'
	}

	for _, op := range cr.tl.Steps {
		if cr.inconcl != "" || cr.violated {
			break
		}
		switch op {
		case 't':
			if !cr.settleServe() || !cr.settleWrite() {
				return
			}
			postS, postL, ok := cr.tick(preS, preL)
			if !ok {
				return
			}
			cr.judge(cr.S, preS, postS, false)
			cr.judge(cr.L, preL, postL, false)
			outcome.WriteByte(mark(preS, postS))
			outcome.WriteByte(mark(preL, postL))
			outcome.WriteByte(' ')
			preS, preL = postS, postL

		case 'p':
			if cr.wgate.Count("write").Parked == 0 {
				cr.trace = append(cr.trace, fmt.Sprintf("t=%d p skipped (no piece waiting)", cr.vnow.Load()))
				continue
			}
			served, received, werrs := cr.counts()
			cr.wgate.ReleaseOne("write")
			if !cr.wgate.Wait(watchdog, func(count func(string) rig.Counters) bool { return count("write").Sent > received+werrs }) {
				cr.fail("watchdog: released piece write did not finish")
				return
			}
			if !cr.settleWrite() {
				return
			}
			_, received2, _ := cr.counts()
			cr.trace = append(cr.trace, fmt.Sprintf("t=%d L wrote a piece (received=%d)", cr.vnow.Load(), received2))
			preS, preL = cr.probe(cr.S), cr.probe(cr.L)
			more := received2 > received && received2 < cr.tl.Pieces
			if more && preS.st.Present && preL.st.Present && preS.conns > 0 && preL.conns > 0 {
				arrived, ok := cr.waitNext(slow, served+1, true)
				if !ok {
					return
				}
				if arrived && slow {
					cr.trace = append(cr.trace, fmt.Sprintf("t=%d S started the next piece transfer", cr.vnow.Load()))
				} else if arrived {
					cr.trace = append(cr.trace, fmt.Sprintf("t=%d S served the next piece", cr.vnow.Load()))
				}
			}
			if received2 == cr.tl.Pieces {
				// L completed: wait for its completion event so that the probe is settled.
				if !cr.L.gate.Wait(watchdog, func(count func(string) rig.Counters) bool {
					n := count(rig.EvComplete)
					return n.Applied >= 1 || n.Parked >= 1 // parked: the notice is in flight (held)
				}) {
					cr.fail("watchdog: completion event not applied on L")
					return
				}
				// ... and for the conn to the (complete) seeder, which L closes now.
				var ok bool
				if preS, preL, ok = cr.waitNoConns(); !ok {
					return
				}
			}
			outcome.WriteString("p ")

		case 's':
			if cr.wgate.Count("serve").Parked == 0 {
				continue
			}
			served, _, _ := cr.counts()
			cr.wgate.ReleaseOne("serve")
			if !cr.wgate.Wait(watchdog, func(count func(string) rig.Counters) bool { return count("served").Applied > served }) {
				cr.fail("watchdog: released piece transfer did not finish")
				return
			}
			if !cr.settleServe() {
				return
			}
			cr.trace = append(cr.trace, fmt.Sprintf("t=%d S finished the piece transfer started at t=%d", cr.vnow.Load(), cr.lastOpenedTick()))
			if _, ok := cr.waitNext(false, served+1, true); !ok {
				return
			}
			preS, preL = cr.probe(cr.S), cr.probe(cr.L)
			outcome.WriteString("s ")

		case 'H':
			cr.L.gate.Hold(rig.EvComplete)

		case 'C':
			if !cr.L.gate.Held(rig.EvComplete) {
				continue
			}
			cr.L.gate.Release(rig.EvComplete)
			if !cr.L.gate.Wait(watchdog, func(count func(string) rig.Counters) bool {
				n := count(rig.EvComplete)
				return n.Parked == 0 && n.Sent == n.Entered && n.Applied == n.SentOK
			}) {
				cr.fail("watchdog: released completion notice not applied")
				return
			}
			cr.trace = append(cr.trace, fmt.Sprintf("t=%d completion notice of L released", cr.vnow.Load()))
			cr.run.Count("late_completion_notices_released", 1)
			preS, preL = cr.probe(cr.S), cr.probe(cr.L)
			outcome.WriteString("C ")

		case 'r':
			if !preL.st.Present || preL.st.Complete {
				continue
			}
			if err := cr.L.peer.Sched.RemoveTorrent(d); err != nil {
				cr.violation("remove-torrent-error", map[string]interface{}{"err": err.Error()})
				break
			}
			postL := cr.probe(cr.L)
			cr.judge(cr.L, preL, postL, true)
			cr.run.Count("manual_removals_inprogress", 1)
			var ok bool
			if preS, preL, ok = cr.waitNoConns(); !ok {
				return
			}
			outcome.WriteString("r ")
		}
	}
	if cr.inconcl != "" {
		return
	}
	cr.wgate.ReleaseAll()
	select {
	case <-cr.dlDone:
		cr.run.Count("download_result_"+classify(cr.dlErr), 1)
	default:
		cr.run.Count("download_still_pending_at_end", 1)
	}
	cr.run.Distinct("outcome_sequences", outcome.String())
}

// executeRevived: generation 1 of L leaves a partial download behind; in
// generation 2 the control is created for an incoming conn of a remote leecher.
func (cr *caseRun) executeRevived(tracker *rig.Tracker) {
	tl := cr.tl
	if err := cr.setup(tracker); err != nil {
		cr.fail("setup: " + err.Error())
		return
	}
	defer cr.teardown()
	d, h := cr.blob.Digest, cr.blob.InfoHash()

	gen1 := make(chan error, 1)
	go func() { gen1 <- cr.L.peer.Sched.Download(rig.Namespace, d) }()
	if arrived, ok := cr.waitNext(false, 1, false); !ok || !arrived {
		cr.fail("watchdog: first piece did not arrive")
		return
	}
	for k := 0; k < tl.Gen1; k++ {
		served, received, werrs := cr.counts()
		cr.wgate.ReleaseOne("write")
		if !cr.wgate.Wait(watchdog, func(count func(string) rig.Counters) bool { return count("write").Sent > received+werrs }) {
			cr.fail("watchdog: released piece write did not finish")
			return
		}
		if !cr.settleWrite() {
			return
		}
		if arrived, ok := cr.waitNext(false, served+1, false); !ok || !arrived {
			cr.fail("watchdog: next piece did not arrive in generation 1")
			return
		}
	}
	// Generation 1 ends; Stop leaves the partial file in the download store.
	old := cr.L
	old.peer.Close()
	select {
	case <-gen1:
	case <-time.After(watchdog):
		cr.fail("watchdog: generation 1 Download did not return after Stop")
		return
	}
	cr.tracker.Forget(cr.lID)
	if st := old.peer.Stat(cr.blob, false); !st.InDownload {
		cr.fail("generation 1 left no partial file")
		return
	}
	cr.trace = append(cr.trace, fmt.Sprintf("t=%d generation 1 of L stopped with %d/%d pieces on disk", cr.vnow.Load(), tl.Gen1, tl.Pieces))
	for i := 0; i < tl.Between; i++ {
		b := cr.S.gate.Count(rig.EvTick).Applied
		cr.vnow.Add(1)
		cr.clk.Add(tickP)
		if !cr.S.gate.Wait(watchdog, func(count func(string) rig.Counters) bool { return count(rig.EvTick).Applied > b }) {
			cr.fail("watchdog: preemption tick not applied on S")
			return
		}
	}

	// Generation 2 on the same store and identity.
	cr.mu.Lock()
	cr.lastReceived, cr.writeGID = -1, 0
	cr.mu.Unlock()
	l2, err := cr.mkSide("L", cfg(tti(tl.MLS), tti(tl.ML)), cr.lHooks, cr.lID, tracker)
	if err != nil {
		cr.fail("setup generation 2: " + err.Error())
		return
	}
	cr.extra = append(cr.extra, old.peer) // already closed; Close is idempotent
	cr.L = l2

	// A remote leecher whose tracker only knows L connects to it.
	tB := rig.NewTracker()
	tB.AddBlob(cr.blob)
	tB.Register(h, core.PeerInfoFromContext(l2.peer.Pctx, false))
	B, err := rig.NewPeer(rig.PeerOptions{
		Config: cfg(forever, forever), Clock: cr.clk, Tracker: tB, Dir: rig.MkDir(cr.dir, "B"),
		PeerID: rig.RandomPeerID(cr.run.Rand("peerB-" + cr.id)),
	})
	if err != nil {
		cr.fail("setup remote leecher: " + err.Error())
		return
	}
	cr.extra = append(cr.extra, B)
	go func() { _ = B.Sched.Download(rig.Namespace, d) }()
	if !l2.gate.Wait(watchdog, func(count func(string) rig.Counters) bool { return count("incomingConnEvent").Applied >= 1 }) {
		cr.fail("watchdog: the remote leecher did not connect")
		return
	}
	cr.trace = append(cr.trace, fmt.Sprintf("t=%d generation 2 of L opened the torrent for an incoming conn", cr.vnow.Load()))
	if tl.Join {
		cr.dlDone = make(chan struct{})
		go func() { cr.dlErr = l2.peer.Sched.Download(rig.Namespace, d); close(cr.dlDone) }()
		if !l2.gate.Wait(watchdog, func(count func(string) rig.Counters) bool { return count(rig.EvNewTorrent).Applied >= 1 }) {
			cr.fail("watchdog: local download request not applied")
			return
		}
		cr.trace = append(cr.trace, fmt.Sprintf("t=%d a local Download joined", cr.vnow.Load()))
	}
	preS, preL := cr.probe(cr.S), cr.probe(cr.L)
	if !preL.st.Present || preL.st.Complete {
		cr.fail(fmt.Sprintf("generation 2 has no in-progress control (present=%v complete=%v)", preL.st.Present, preL.st.Complete))
		return
	}
	cr.run.Count("controls_created_by_incoming_conn_on_partial_download", 1)
	for range tl.Steps {
		if cr.inconcl != "" || cr.violated {
			break
		}
		if !cr.settleServe() || !cr.settleWrite() {
			return
		}
		postS, postL, ok := cr.tick(preS, preL)
		if !ok {
			return
		}
		cr.judge(cr.L, preL, postL, false)
		preS, preL = postS, postL
	}
	if cr.inconcl != "" {
		return
	}
	if tl.Join {
		select {
		case <-cr.dlDone:
			cr.run.Count("download_result_"+classify(cr.dlErr), 1)
		default:
			cr.run.Count("download_still_pending_at_end", 1)
		}
	}
	cr.run.Distinct("outcome_sequences", fmt.Sprintf("revived gen1=%d join=%v dropped=%v", tl.Gen1, tl.Join, !preL.st.Present))
}

func classify(err error) string {
	switch err {
	case nil:
		return "nil"
	case scheduler.ErrTorrentTimeout:
		return "timeout"
	case scheduler.ErrTorrentRemoved:
		return "removed"
	case scheduler.ErrSchedulerStopped:
		return "stopped"
	}
	return "other"
}

func TestC18(t *testing.T) {
	run := ev.Start(t, "C18", "exploration",
		"PRNG-generated timelines on a real seeder + real leecher sharing a mock clock: 3-8 pieces, each released to the leecher after a gap of "+
			"0, 1, m-1, m, m+1 or m+2 preemption intervals (idle limit = m+0.5 intervals, m in 2..6) which also fixes when the seeder serves the next piece; "+
			"families: seeder idle limit only / slow-serve (the seeder holds each piece reader open for 1..m intervals before finishing the transfer) / "+
			"leecher idle limit only / both / late-completion (the download takes at least the seeder idle limit and the completion notice of the last piece is held while preemption ticks are applied) / revived (a first leecher generation leaves a partial download, the second generation's control is created "+
			"by an incoming conn of a remote leecher, optionally joined by a local Download, then idles out); optional RemoveTorrent of the in-progress download; 8 trailing ticks. "+
			"A timeline is non-trivial when at least one piece was served or received after virtual time 0 (revived: the revived control was dropped and judged) "+
			"and at least one keep-or-drop decision was observed on a present torrent; distinct = distinct timeline specs.")
	defer run.Finish()
	run.Assume("the stub tracker, the mock clock and the archive wrapper (which only observes piece reader closes and delays piece writes) do not change scheduler behaviour")
	run.Assume("'served a piece' is observed when the conn closes the piece reader after copying it to the socket")

	n := run.N(120, 4000)
	gr := run.Rand("timelines")
	tls := make([]*timeline, n)
	for i := range tls {
		tls[i] = genTimeline(rand.New(rand.NewSource(gr.Int63())), i)
	}
	base := ev.TempDir(t, "c18-")
	const workers = 8
	var wg sync.WaitGroup
	for wi := 0; wi < workers; wi++ {
		wg.Add(1)
		go func(wi int) {
			defer wg.Done()
			tracker := rig.NewTracker()
			for i := wi; i < n; i += workers {
				tl := tls[i]
				if rc := run.ReplayCase(); rc != "" && rc != tl.key() {
					continue
				}
				r := run.Rand(fmt.Sprintf("blob-%d", tl.ID))
				cr := &caseRun{run: run, tl: tl, id: fmt.Sprintf("c%d", tl.ID), blob: rig.NewBlob(r, tl.Pieces, 64, r.Intn(2) == 0)}
				cr.dir = rig.MkDir(base, cr.id)
				if tl.Family == "revived" {
					cr.executeRevived(tracker)
				} else {
					cr.execute(tracker)
				}
				if cr.inconcl != "" {
					run.Inconclusive(fmt.Sprintf("timeline %d: %s; trace=%v", tl.ID, cr.inconcl, cr.trace))
					run.Case(tl.key(), false)
					continue
				}
				cr.mu.Lock()
				active := cr.lastServed > 0 || cr.lastReceived > 0
				cr.mu.Unlock()
				if tl.Family == "revived" {
					active = cr.drops > 0 // the revived control was dropped and its file judged
				}
				run.Case(tl.key(), active && cr.vnow.Load() > 0)
				run.Count("timelines_"+tl.Family, 1)
				if tl.ID%23 == 0 {
					run.Sample(map[string]interface{}{"timeline": tl, "trace": cr.trace})
				}
			}
		}(wi)
	}
	wg.Wait()
}
