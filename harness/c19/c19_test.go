// C19: a swarm with a reachable seeder converges to the exact blob.
//
// Swarm engine, in-process, under the race detector: a real tracker server
// (local peer store), a real origin scheduler that stays for the whole swarm
// (the reachable seeder), optionally a second (agent-style) seeder that leaves,
// 2-6 real agent schedulers with PRNG configurations, PRNG join order, agents
// stopped mid-transfer, and one corrupting peer: a real scheduler that
// announces itself complete but whose torrent archive (a harness wrapper around
// the real one) serves flipped bytes for some pieces.
//
// Decisive oracle (safety): every nil Scheduler.Download return implies that
// the agent's cached file is byte-identical to the blob; no agent (finished,
// unfinished or departed) ever has a cache file that differs from the blob; no
// panic, no data race. One liveness failure is decided logically (counted
// events, no clock): an agent that stays gets >= 6 non-overlapping payloads with
// the CORRECT bytes of a piece it still misses and refuses every one of them.
// Everything else about convergence is a bounded-progress watchdog; its expiry
// (after one retry with a fresh schedule) is INCONCLUSIVE, never a violation.
package c19

import (
	"bytes"
	"errors"
	"fmt"
	"io"
	"math/rand"
	"net"
	"os"
	"path/filepath"
	"strings"
	"sync"
	"sync/atomic"
	"testing"
	"time"

	"github.com/andres-erbsen/clock"
	"github.com/uber-go/tally"
	"go.uber.org/zap"
	"go.uber.org/zap/zapcore"

	"github.com/uber/kraken/core"
	"github.com/uber/kraken/lib/backend"
	"github.com/uber/kraken/lib/blobrefresh"
	"github.com/uber/kraken/lib/hashring"
	"github.com/uber/kraken/lib/hostlist"
	"github.com/uber/kraken/lib/metainfogen"
	"github.com/uber/kraken/lib/store"
	"github.com/uber/kraken/lib/store/metadata"
	"github.com/uber/kraken/lib/torrent/networkevent"
	"github.com/uber/kraken/lib/torrent/scheduler"
	"github.com/uber/kraken/lib/torrent/scheduler/conn"
	"github.com/uber/kraken/lib/torrent/scheduler/connstate"
	"github.com/uber/kraken/lib/torrent/scheduler/dispatch"
	"github.com/uber/kraken/lib/torrent/scheduler/dispatch/piecerequest"
	"github.com/uber/kraken/lib/torrent/storage"
	"github.com/uber/kraken/lib/torrent/storage/agentstorage"
	"github.com/uber/kraken/lib/torrent/storage/originstorage"
	"github.com/uber/kraken/lib/torrent/storage/piecereader"
	"github.com/uber/kraken/tracker/announceclient"
	"github.com/uber/kraken/tracker/metainfoclient"
	"github.com/uber/kraken/tracker/peerhandoutpolicy"
	"github.com/uber/kraken/tracker/peerstore"
	"github.com/uber/kraken/tracker/trackerserver"
	"github.com/uber/kraken/utils/log"
	"github.com/uber/kraken/utils/testutil"

	"verif/harness/internal/ev"
)

const namespace = "c19/ns"

// ---------------------------------------------------------------------------
// Generated configuration of one swarm (a function of the seed only).

type agentCfg struct {
	PipelineLimit       int    `json:"pipeline"`
	OriginPipelineLimit int    `json:"origin_pipeline"`
	MaxConns            int    `json:"max_conns"`
	DisableEndgame      bool   `json:"no_endgame"`
	Policy              string `json:"policy"`
	// StopAfter >= 0: the agent leaves once it has received that many pieces.
	StopAfter   int `json:"stop_after"`
	JoinDelayMs int `json:"join_delay_ms"`
}

type swarmCfg struct {
	ID             int        `json:"id"`
	BlobSize       int        `json:"blob_size"`
	PieceLength    int        `json:"piece_length"`
	Agents         []agentCfg `json:"agents"`
	SecondSeeder   bool       `json:"second_seeder"`
	SeederLeaveAt  int        `json:"second_seeder_leaves_after_total_pieces"`
	Corrupter      bool       `json:"corrupter"`
	CorruptMode    string     `json:"corrupt_mode"` // all | some | first-k
	CorruptFrac    int        `json:"corrupt_percent"`
	SeederMaxConn  int        `json:"seeder_max_conns"`
	AnnounceMs     int        `json:"announce_ms"`
	ConnTTIMs      int        `json:"conn_tti_ms"`
	BlacklistMs    int        `json:"blacklist_ms"`
	PieceTimeoutMs int        `json:"piece_timeout_ms"`
	// Order in which origin (o), second seeder (s), corrupter (c) and agents
	// (a0..) are started.
	JoinOrder []string `json:"join_order"`
	Attempt   int      `json:"attempt"`
}

func genSwarm(r *rand.Rand, id int, maxPieces int) swarmCfg {
	c := swarmCfg{ID: id}
	pls := []int{1, 2, 7, 64, 1000, 4096, 16384, 65536, 262144}
	c.PieceLength = pls[r.Intn(len(pls))]
	maxN := (2 << 20) / c.PieceLength
	if maxN > maxPieces {
		maxN = maxPieces
	}
	var n int
	switch r.Intn(10) {
	case 0:
		n = 0 // empty blob
	case 1:
		n = 1
	default:
		n = 1 + r.Intn(maxN)
	}
	if n > 0 {
		c.BlobSize = (n-1)*c.PieceLength + 1 + r.Intn(c.PieceLength)
	}
	na := 2 + r.Intn(5)
	for i := 0; i < na; i++ {
		a := agentCfg{
			PipelineLimit:       1 + r.Intn(8),
			OriginPipelineLimit: 1 + r.Intn(8),
			MaxConns:            1 + r.Intn(5),
			DisableEndgame:      r.Intn(2) == 0,
			Policy:              []string{piecerequest.DefaultPolicy, piecerequest.RarestFirstPolicy}[r.Intn(2)],
			StopAfter:           -1,
			JoinDelayMs:         r.Intn(40),
		}
		if r.Intn(4) == 0 && n > 1 {
			a.StopAfter = r.Intn(n) // leaves mid-transfer (0 = right after joining)
		}
		c.Agents = append(c.Agents, a)
	}
	// A leecher must never have ALL its connection slots taken by leechers that
	// may hold no piece (they dial each other too): then only kraken's idle-conn
	// churn could get it to a seeder and convergence becomes a matter of minutes
	// and of who dials first. max_conns >= number of other agents + 1.
	for i := range c.Agents {
		if c.Agents[i].MaxConns < na {
			c.Agents[i].MaxConns = na
		}
	}
	// at least one agent stays to be judged
	c.Agents[r.Intn(na)].StopAfter = -1
	c.SecondSeeder = r.Intn(2) == 0
	if c.SecondSeeder && n > 0 {
		c.SeederLeaveAt = r.Intn(n*na/2 + 1)
	}
	c.Corrupter = r.Intn(4) != 0 && n > 0
	c.CorruptMode = []string{"all", "some", "first-k"}[r.Intn(3)]
	c.CorruptFrac = 10 + r.Intn(80)
	c.SeederMaxConn = 2 + r.Intn(4)
	c.AnnounceMs = 100 + r.Intn(150)
	// idle-connection churn on the harness's time scale: a useless conn is dropped
	// within about a second and stays blacklisted over several announce rounds
	c.ConnTTIMs = 1000 + r.Intn(1000)
	c.BlacklistMs = 1000 + r.Intn(1000)
	c.PieceTimeoutMs = 500 + r.Intn(1000)
	order := []string{"o"}
	if c.SecondSeeder {
		order = append(order, "s")
	}
	if c.Corrupter {
		order = append(order, "c")
	}
	for i := range c.Agents {
		order = append(order, fmt.Sprintf("a%d", i))
	}
	if r.Intn(8) != 0 {
		// usual case: the origin is up first, the rest in PRNG order
		rest := order[1:]
		r.Shuffle(len(rest), func(i, j int) { rest[i], rest[j] = rest[j], rest[i] })
	} else {
		r.Shuffle(len(order), func(i, j int) { order[i], order[j] = order[j], order[i] })
	}
	c.JoinOrder = order
	return c
}

// ---------------------------------------------------------------------------
// Harness pieces at the outer boundary.

type fakeMetaInfoClient struct {
	mi    *core.MetaInfo
	pacer *core.MetaInfo // optional: the agent's private pacer torrent
}

func (c fakeMetaInfoClient) Download(ns string, d core.Digest) (*core.MetaInfo, error) {
	if d == c.mi.Digest() {
		return c.mi, nil
	}
	if c.pacer != nil && d == c.pacer.Digest() {
		return c.pacer, nil
	}
	return nil, metainfoclient.ErrNotFound
}

// ---------------------------------------------------------------------------
// Counted announce-progress rule (no wall clock). Every agent that stays also
// "downloads" a private pacer torrent nobody seeds; its announces are the
// agent's own announce ticks made visible (the announce queue serves its
// torrents round-robin, one per tick). If the blob's torrent is incomplete, has
// no active connection, has no announce in flight, and the pacer torrent
// completes announceK announces in a row without the blob's torrent being
// announced once, the blob's torrent has fallen out of the announce queue: the
// agent can never learn about another peer again.

const announceK = 12

type progressMon struct {
	mu        sync.Mutex
	agent     string
	hashA     string
	hashP     core.InfoHash
	active    int  // active conns of the blob's torrent (add/drop events)
	inflightA int  // blob announces called and not yet returned
	done      bool // blob torrent completed / cancelled
	aCalls    int
	pReturns  int
	streak    int // pacer announce returns in a row under the rule's premises
	witness   map[string]interface{}
}

func (m *progressMon) event(e *networkevent.Event) {
	if e.Torrent != m.hashA {
		return
	}
	m.mu.Lock()
	defer m.mu.Unlock()
	switch e.Name {
	case networkevent.AddActiveConn:
		m.active++
		m.streak = 0
	case networkevent.DropActiveConn:
		m.active--
	case networkevent.TorrentComplete, networkevent.TorrentCancelled:
		m.done = true
	}
}

type countingAnnouncer struct {
	announceclient.Client
	m     *progressMon
	hashA core.InfoHash
}

func (c *countingAnnouncer) Announce(d core.Digest, h core.InfoHash, complete bool, version int) ([]*core.PeerInfo, time.Duration, error) {
	m := c.m
	if h == c.hashA {
		m.mu.Lock()
		m.inflightA++
		m.aCalls++
		m.streak = 0
		m.mu.Unlock()
	}
	peers, iv, err := c.Client.Announce(d, h, complete, version)
	m.mu.Lock()
	switch {
	case h == c.hashA:
		m.inflightA--
		m.streak = 0
	case h == m.hashP:
		m.pReturns++
		if !m.done && m.active == 0 && m.inflightA == 0 {
			m.streak++
			if m.streak >= announceK && m.witness == nil {
				m.witness = map[string]interface{}{
					"signature": "torrent-dropped-out-of-announce-rotation", "peer": m.agent,
					"pacer_announces_in_a_row_without_a_blob_announce": m.streak,
					"blob_announces_so_far":                            m.aCalls, "pacer_announces_so_far": m.pReturns,
					"premises": "blob torrent incomplete, 0 active conns, no blob announce in flight at each of those pacer announces",
				}
			}
		} else {
			m.streak = 0
		}
	}
	m.mu.Unlock()
	return peers, iv, err
}

func (m *progressMon) stuckWitness() map[string]interface{} {
	m.mu.Lock()
	defer m.mu.Unlock()
	return m.witness
}

// originDirectory stands in for the tracker's origin-cluster lookup: it hands
// out the origin peers that are currently up.
type originDirectory struct {
	mu      sync.Mutex
	origins []*core.PeerInfo
}

func (o *originDirectory) GetOrigins(d core.Digest) ([]*core.PeerInfo, error) {
	o.mu.Lock()
	defer o.mu.Unlock()
	out := make([]*core.PeerInfo, len(o.origins))
	copy(out, o.origins)
	return out, nil
}

func (o *originDirectory) add(p *core.PeerInfo) {
	o.mu.Lock()
	o.origins = append(o.origins, p)
	o.mu.Unlock()
}

// eventCounter is a networkevent.Producer that counts received pieces.
type eventCounter struct {
	received atomic.Int64
	total    *atomic.Int64
	notify   chan struct{}
	pm       *progressMon
	hashA    string
}

func (e *eventCounter) Produce(ev *networkevent.Event) {
	if e.pm != nil {
		e.pm.event(ev)
	}
	if e.hashA != "" && ev.Torrent != e.hashA {
		return // the pacer torrent never receives anything; keep counts per blob
	}
	if ev.Name == networkevent.ReceivePiece {
		e.received.Add(1)
		e.total.Add(1)
		select {
		case e.notify <- struct{}{}:
		default:
		}
	}
}
func (e *eventCounter) Close() error { return nil }

// corruptArchive wraps the real agent archive of the corrupting peer: torrents
// are the real ones except that GetPieceReader returns flipped bytes for the
// chosen pieces.
type corruptArchive struct {
	storage.TorrentArchive
	mode    string
	percent int
	seed    int64
	served  *atomic.Int64
}

func (a *corruptArchive) wrap(t storage.Torrent, err error) (storage.Torrent, error) {
	if err != nil {
		return nil, err
	}
	return &corruptTorrent{Torrent: t, a: a, calls: map[int]int{}}, nil
}

func (a *corruptArchive) CreateTorrent(ns string, d core.Digest) (storage.Torrent, error) {
	return a.wrap(a.TorrentArchive.CreateTorrent(ns, d))
}

func (a *corruptArchive) GetTorrent(ns string, d core.Digest) (storage.Torrent, error) {
	return a.wrap(a.TorrentArchive.GetTorrent(ns, d))
}

type corruptTorrent struct {
	storage.Torrent
	a     *corruptArchive
	mu    sync.Mutex
	calls map[int]int
}

func (t *corruptTorrent) corrupts(i int) bool {
	t.mu.Lock()
	t.calls[i]++
	n := t.calls[i]
	t.mu.Unlock()
	h := uint64(t.a.seed)*0x9E3779B97F4A7C15 + uint64(i)*0xBF58476D1CE4E5B9
	h ^= h >> 29
	chosen := int(h%100) < t.a.percent
	switch t.a.mode {
	case "all":
		return true
	case "some":
		return chosen
	default: // first-k: the first two requests of a chosen piece are corrupted, later ones honest
		return chosen && n <= 2
	}
}

func (t *corruptTorrent) GetPieceReader(i int) (storage.PieceReader, error) {
	pr, err := t.Torrent.GetPieceReader(i)
	if err != nil || !t.corrupts(i) {
		return pr, err
	}
	b, err := io.ReadAll(pr)
	pr.Close()
	if err != nil {
		return nil, err
	}
	if len(b) == 0 {
		return piecereader.NewBuffer(b), nil
	}
	b[(i*31+7)%len(b)] ^= 1 << uint(i%8)
	t.a.served.Add(1)
	return piecereader.NewBuffer(b), nil
}

// ---------------------------------------------------------------------------
// Logical progress rule (no wall clock): the harness sees every WritePiece call
// on the agents that stay, with call/return stamps from one counter. If an
// agent receives stuckK payloads for piece i whose bytes EQUAL the blob's piece
// i, none of them overlapping any other write of i (finished OR still in
// flight), and every one is refused with the write-conflict error while the
// piece is still missing, the piece can never complete: the dirty mark belongs
// to no running write.

const stuckK = 6

var stampCounter atomic.Int64

type writeRec struct {
	Call, Ret int64
	Correct   bool
	Refused   bool
	Missing   bool // piece still missing after the call
	Err       string
}

type writeMonitor struct {
	mu     sync.Mutex
	agent  string
	blob   []byte
	pl     int64
	writes map[int][]writeRec
	stuck  map[string]interface{} // first witness
	total  int64
}

const conflictErr = "piece is already being written to" // agentstorage.errWritePieceConflict

// enter registers a write of piece i as in flight (Ret open) and returns its
// slot; a write that is parked inside the store overlaps everything that comes
// after its call stamp until it returns.
func (m *writeMonitor) enter(i int, call int64, correct bool) int {
	m.mu.Lock()
	defer m.mu.Unlock()
	m.total++
	m.writes[i] = append(m.writes[i], writeRec{Call: call, Ret: 1 << 62, Correct: correct})
	return len(m.writes[i]) - 1
}

// leave closes the write and evaluates the rule: the piece can provably never
// complete when stuckK correct payloads were refused with the write-conflict
// ("dirty") error, the piece stayed missing, and none of them overlapped ANY
// other write of the piece, finished or still in flight -- the dirty mark they
// ran into then belongs to no running write and nobody will ever clear it.
func (m *writeMonitor) leave(i, slot int, r writeRec) {
	m.mu.Lock()
	defer m.mu.Unlock()
	m.writes[i][slot] = r
	if m.stuck != nil || !(r.Correct && r.Refused && r.Missing && r.Err == conflictErr) {
		return
	}
	ws := m.writes[i]
	var errs []string
	n := 0
	for a, w := range ws {
		if !(w.Correct && w.Refused && w.Missing && w.Err == conflictErr) {
			continue
		}
		overlap := false
		for b, o := range ws {
			if a != b && o.Call < w.Ret && w.Call < o.Ret {
				overlap = true
				break
			}
		}
		if !overlap {
			n++
			errs = append(errs, w.Err)
		}
	}
	if n >= stuckK {
		m.stuck = map[string]interface{}{
			"signature": "correct-piece-refused-repeatedly-while-missing", "peer": m.agent, "piece": i,
			"correct_nonoverlapping_payloads_refused": n, "refusal_errors": errs, "writes_of_this_piece_seen": len(ws),
			"writes": ws,
		}
	}
}

func (m *writeMonitor) stuckWitness() map[string]interface{} {
	m.mu.Lock()
	defer m.mu.Unlock()
	return m.stuck
}

type watchArchive struct {
	storage.TorrentArchive
	m *writeMonitor
}

func (a *watchArchive) wrap(t storage.Torrent, err error) (storage.Torrent, error) {
	if err != nil {
		return nil, err
	}
	return &watchTorrent{Torrent: t, m: a.m}, nil
}

func (a *watchArchive) CreateTorrent(ns string, d core.Digest) (storage.Torrent, error) {
	return a.wrap(a.TorrentArchive.CreateTorrent(ns, d))
}

func (a *watchArchive) GetTorrent(ns string, d core.Digest) (storage.Torrent, error) {
	return a.wrap(a.TorrentArchive.GetTorrent(ns, d))
}

type watchTorrent struct {
	storage.Torrent
	m *writeMonitor
}

func (t *watchTorrent) WritePiece(src storage.PieceReader, i int) error {
	b, rerr := io.ReadAll(src)
	if rerr != nil {
		return t.Torrent.WritePiece(src, i)
	}
	correct := false
	if off := int64(i) * t.m.pl; i >= 0 && off <= int64(len(t.m.blob)) {
		end := off + t.Torrent.PieceLength(i)
		if end <= int64(len(t.m.blob)) {
			correct = bytes.Equal(b, t.m.blob[off:end])
		}
	}
	call := stampCounter.Add(1)
	slot := t.m.enter(i, call, correct)
	err := t.Torrent.WritePiece(piecereader.NewBuffer(b), i)
	missing := !t.Torrent.HasPiece(i)
	ret := stampCounter.Add(1)
	r := writeRec{Call: call, Ret: ret, Correct: correct, Missing: missing}
	if err != nil && err != storage.ErrPieceComplete {
		r.Refused, r.Err = true, err.Error()
	}
	t.m.leave(i, slot, r)
	return err
}

// ---------------------------------------------------------------------------

type peer struct {
	name    string
	sched   scheduler.Scheduler
	pctx    core.PeerContext
	cads    *store.CADownloadStore
	cas     *store.CAStore
	dir     string
	events  *eventCounter
	stopped atomic.Bool
	result  chan error // Download result (agents)
	mon     *writeMonitor
	pm      *progressMon
}

func freePort() int {
	l, err := net.Listen("tcp", "127.0.0.1:0")
	if err != nil {
		panic(err)
	}
	defer l.Close()
	return l.Addr().(*net.TCPAddr).Port
}

type swarm struct {
	cfg     swarmCfg
	dir     string
	blob    []byte
	digest  core.Digest
	mi      *core.MetaInfo
	tracker string
	dirOrig *originDirectory
	total   atomic.Int64
	corrupt atomic.Int64
	peers   []*peer
	cleanup []func()
}

func (s *swarm) schedConfig(pipeline, originPipeline, maxConns int, noEndgame bool, policy string) scheduler.Config {
	c := s.cfg
	return scheduler.Config{
		SeederTTI:          time.Hour,
		LeecherTTI:         time.Hour,
		ConnTTI:            time.Duration(c.ConnTTIMs) * time.Millisecond,
		ConnTTL:            time.Hour,
		PreemptionInterval: 250 * time.Millisecond,
		ConnState: connstate.Config{
			MaxOpenConnectionsPerTorrent: maxConns,
			BlacklistDuration:            time.Duration(c.BlacklistMs) * time.Millisecond,
		},
		Conn: conn.Config{HandshakeTimeout: 5 * time.Second},
		Dispatch: dispatch.Config{
			PieceRequestMinTimeout:   time.Duration(c.PieceTimeoutMs) * time.Millisecond,
			PieceRequestTimeoutPerMb: time.Second,
			PieceRequestPolicy:       policy,
			AgentPipelineLimit:       pipeline,
			OriginPipelineLimit:      originPipeline,
			DisableEndgame:           noEndgame,
		},
		TorrentLog: log.Config{Disable: true},
		Log:        log.Config{Level: zapcore.FatalLevel},
	}
}

func (s *swarm) newScheduler(cfg scheduler.Config, ta storage.TorrentArchive, origin bool, evc networkevent.Producer, wrapAC ...func(announceclient.Client) announceclient.Client) (scheduler.Scheduler, core.PeerContext, error) {
	var lastErr error
	for try := 0; try < 8; try++ {
		pid, err := core.RandomPeerID()
		if err != nil {
			return nil, core.PeerContext{}, err
		}
		pctx := core.PeerContext{PeerID: pid, Zone: "z", Cluster: "c19", IP: "127.0.0.1", Port: freePort(), Origin: origin}
		var ac announceclient.Client = announceclient.Disabled()
		if !origin {
			ac = announceclient.New(pctx, hashring.NoopPassiveRing(hostlist.Fixture(s.tracker)), nil)
			for _, w := range wrapAC {
				ac = w(ac)
			}
		}
		sc, err := scheduler.VerifC14NewScheduler(cfg, ta, tally.NoopScope, pctx, ac, evc, !origin)
		if err == nil {
			return sc, pctx, nil
		}
		lastErr = err // most likely the port was taken in between
	}
	return nil, core.PeerContext{}, lastErr
}

func (s *swarm) agentStore(name string) (*store.CADownloadStore, string, error) {
	d := filepath.Join(s.dir, name)
	for _, sub := range []string{"download", "cache"} {
		if err := os.MkdirAll(filepath.Join(d, sub), 0o755); err != nil {
			return nil, "", err
		}
	}
	cads, err := store.NewCADownloadStore(store.CADownloadStoreConfig{
		DownloadDir: filepath.Join(d, "download"), CacheDir: filepath.Join(d, "cache"),
	}, tally.NoopScope)
	if err != nil {
		return nil, "", err
	}
	s.cleanup = append(s.cleanup, cads.Close)
	return cads, d, nil
}

func (s *swarm) writeFull(ta storage.TorrentArchive) error {
	t, err := ta.CreateTorrent(namespace, s.digest)
	if err != nil {
		return err
	}
	for i := 0; i < t.NumPieces(); i++ {
		start := int64(i) * s.mi.PieceLength()
		end := start + t.PieceLength(i)
		if err := t.WritePiece(piecereader.NewBuffer(s.blob[start:end]), i); err != nil {
			return err
		}
	}
	return nil
}

func (s *swarm) startOrigin() error {
	d := filepath.Join(s.dir, "origin")
	for _, sub := range []string{"upload", "cache"} {
		if err := os.MkdirAll(filepath.Join(d, sub), 0o755); err != nil {
			return err
		}
	}
	cas, err := store.NewCAStore(store.CAStoreConfig{UploadDir: filepath.Join(d, "upload"), CacheDir: filepath.Join(d, "cache")}, tally.NoopScope)
	if err != nil {
		return err
	}
	s.cleanup = append(s.cleanup, cas.Close)
	if err := cas.CreateCacheFile(s.digest.Hex(), bytes.NewReader(s.blob)); err != nil {
		return err
	}
	if _, err := cas.SetCacheFileMetadata(s.digest.Hex(), metadata.NewTorrentMeta(s.mi)); err != nil {
		return err
	}
	refresher := blobrefresh.New(blobrefresh.Config{}, tally.NoopScope, cas, backend.ManagerFixture(), metainfogen.Fixture(cas, s.cfg.PieceLength))
	ta := originstorage.NewTorrentArchive(cas, refresher)
	cfg := s.schedConfig(3, 3, s.cfg.SeederMaxConn, false, piecerequest.DefaultPolicy)
	sc, pctx, err := s.newScheduler(cfg, ta, true, &eventCounter{total: &s.total, notify: make(chan struct{}, 1)})
	if err != nil {
		return err
	}
	p := &peer{name: "origin", sched: sc, pctx: pctx, cas: cas, dir: d}
	s.peers = append(s.peers, p)
	s.dirOrig.add(core.PeerInfoFromContext(pctx, true))
	return nil
}

// startSeeder starts an agent-style peer that already holds the blob; with
// corrupt it serves flipped bytes.
func (s *swarm) startSeeder(name string, corrupt bool) (*peer, error) {
	cads, d, err := s.agentStore(name)
	if err != nil {
		return nil, err
	}
	var ta storage.TorrentArchive = agentstorage.NewTorrentArchive(tally.NoopScope, cads, fakeMetaInfoClient{mi: s.mi})
	if err := s.writeFull(ta); err != nil {
		return nil, err
	}
	if corrupt {
		ta = &corruptArchive{TorrentArchive: ta, mode: s.cfg.CorruptMode, percent: s.cfg.CorruptFrac, seed: int64(s.cfg.ID), served: &s.corrupt}
	}
	cfg := s.schedConfig(3, 3, s.cfg.SeederMaxConn, false, piecerequest.DefaultPolicy)
	evc := &eventCounter{total: &s.total, notify: make(chan struct{}, 1)}
	sc, pctx, err := s.newScheduler(cfg, ta, false, evc)
	if err != nil {
		return nil, err
	}
	p := &peer{name: name, sched: sc, pctx: pctx, cads: cads, dir: d, events: evc}
	s.peers = append(s.peers, p)
	// registers the torrent and announces the peer as complete
	if err := sc.Download(namespace, s.digest); err != nil {
		return nil, fmt.Errorf("%s: Download of a complete torrent: %v", name, err)
	}
	return p, nil
}

func (s *swarm) startAgent(i int) (*peer, error) {
	a := s.cfg.Agents[i]
	name := fmt.Sprintf("agent%d", i)
	cads, d, err := s.agentStore(name)
	if err != nil {
		return nil, err
	}
	mic := fakeMetaInfoClient{mi: s.mi}
	var mon *writeMonitor
	var pm *progressMon
	var pacerDigest core.Digest
	if a.StopAfter < 0 {
		// private pacer torrent: a tiny blob only this agent ever asks for
		pb := []byte(fmt.Sprintf("pacer/%d/%s", s.cfg.ID, name))
		pd, err := core.NewDigester().FromBytes(pb)
		if err != nil {
			return nil, err
		}
		pmi, err := core.NewMetaInfo(pd, bytes.NewReader(pb), 64)
		if err != nil {
			return nil, err
		}
		mic.pacer, pacerDigest = pmi, pd
		pm = &progressMon{agent: name, hashA: s.mi.InfoHash().String(), hashP: pmi.InfoHash()}
	}
	var ta storage.TorrentArchive = agentstorage.NewTorrentArchive(tally.NoopScope, cads, mic)
	if a.StopAfter < 0 {
		mon = &writeMonitor{agent: name, blob: s.blob, pl: int64(s.cfg.PieceLength), writes: map[int][]writeRec{}}
		ta = &watchArchive{TorrentArchive: ta, m: mon}
	}
	cfg := s.schedConfig(a.PipelineLimit, a.OriginPipelineLimit, a.MaxConns, a.DisableEndgame, a.Policy)
	evc := &eventCounter{total: &s.total, notify: make(chan struct{}, 1), pm: pm, hashA: s.mi.InfoHash().String()}
	var wraps []func(announceclient.Client) announceclient.Client
	if pm != nil {
		wraps = append(wraps, func(c announceclient.Client) announceclient.Client {
			return &countingAnnouncer{Client: c, m: pm, hashA: s.mi.InfoHash()}
		})
	}
	sc, pctx, err := s.newScheduler(cfg, ta, false, evc, wraps...)
	if err != nil {
		return nil, err
	}
	p := &peer{name: name, sched: sc, pctx: pctx, cads: cads, dir: d, events: evc, result: make(chan error, 1), mon: mon, pm: pm}
	s.peers = append(s.peers, p)
	if pm != nil {
		go func() { _ = sc.Download(namespace, pacerDigest) }() // never completes; ends with the scheduler
	}
	go func() { p.result <- sc.Download(namespace, s.digest) }()
	return p, nil
}

// cacheFile returns the bytes of the agent's cache file for the blob, if any.
func cacheFile(dir, hexDigest string) ([]byte, bool) {
	var found string
	_ = filepath.Walk(filepath.Join(dir, "cache"), func(p string, info os.FileInfo, err error) error {
		if err != nil || info.IsDir() {
			return nil
		}
		if filepath.Base(p) == hexDigest || (filepath.Base(p) == "data" && strings.Contains(p, hexDigest)) {
			found = p
		}
		return nil
	})
	if found == "" {
		return nil, false
	}
	b, err := os.ReadFile(found)
	if err != nil {
		return nil, false
	}
	return b, true
}

type swarmResult struct {
	Completed     int
	Departed      int
	Faults        int
	WatchdogHit   bool
	Stuck         bool
	WritesSeen    int64
	Pending       []string
	DownloadErrs  []string
	SetupErr      error
	CorruptServed int64
	Violations    []map[string]interface{}
}

func runSwarm(run *ev.Run, t *testing.T, cfg swarmCfg, r *rand.Rand, bound time.Duration) swarmResult {
	var res swarmResult
	s := &swarm{cfg: cfg, dir: ev.TempDir(t, fmt.Sprintf("c19-s%d-", cfg.ID)), dirOrig: &originDirectory{}}
	s.blob = make([]byte, cfg.BlobSize)
	r.Read(s.blob)
	var err error
	s.digest, err = core.NewDigester().FromBytes(s.blob)
	if err != nil {
		res.SetupErr = err
		return res
	}
	s.mi, err = core.NewMetaInfo(s.digest, bytes.NewReader(s.blob), int64(cfg.PieceLength))
	if err != nil {
		res.SetupErr = err
		return res
	}
	ps := peerstore.NewLocalStore(peerstore.LocalConfig{TTL: 3 * time.Second}, clock.New())
	tr := trackerserver.New(
		trackerserver.Config{AnnounceInterval: time.Duration(cfg.AnnounceMs) * time.Millisecond},
		tally.NoopScope, peerhandoutpolicy.DefaultPriorityPolicyFixture(), ps, s.dirOrig, nil)
	addr, stopTracker := testutil.StartServer(tr.Handler())
	s.tracker = addr
	defer func() {
		for _, p := range s.peers {
			if p.stopped.CompareAndSwap(false, true) {
				p.sched.Stop()
			}
		}
		stopTracker()
		ps.Close()
		for i := len(s.cleanup) - 1; i >= 0; i-- {
			s.cleanup[i]()
		}
	}()

	checkCache := func(p *peer, when string) {
		if p.cads == nil || p.name == "corrupter" {
			return
		}
		if b, ok := cacheFile(p.dir, s.digest.Hex()); ok && !bytes.Equal(b, s.blob) {
			res.Violations = append(res.Violations, map[string]interface{}{
				"signature": "cache-file-differs-from-blob/" + when, "peer": p.name,
				"cache_len": len(b), "blob_len": len(s.blob), "first_diff": firstDiff(b, s.blob),
			})
		}
	}

	var agents []*peer
	var second *peer
	for _, who := range cfg.JoinOrder {
		switch {
		case who == "o":
			err = s.startOrigin()
		case who == "s":
			second, err = s.startSeeder("seeder2", false)
		case who == "c":
			_, err = s.startSeeder("corrupter", true)
		default:
			var i int
			fmt.Sscanf(who, "a%d", &i)
			time.Sleep(time.Duration(cfg.Agents[i].JoinDelayMs) * time.Millisecond)
			var p *peer
			p, err = s.startAgent(i)
			if p != nil {
				agents = append(agents, p)
			}
		}
		if err != nil {
			res.SetupErr = fmt.Errorf("start %s: %v", who, err)
			return res
		}
	}

	// Drive: departures are triggered by observed progress; results are collected
	// until every remaining agent returned or the watchdog fires.
	deadline := time.Now().Add(bound)
	pending := map[*peer]int{}
	for _, p := range agents {
		var i int
		fmt.Sscanf(p.name, "agent%d", &i)
		pending[p] = i
	}
	tick := time.NewTicker(5 * time.Millisecond)
	defer tick.Stop()
	for len(pending) > 0 {
		if time.Now().After(deadline) {
			res.WatchdogHit = true
			for p := range pending {
				res.Pending = append(res.Pending, fmt.Sprintf("%s(received %d pieces)", p.name, p.events.received.Load()))
			}
			break
		}
		<-tick.C
		for p := range pending {
			if p.mon == nil {
				continue
			}
			if w := p.mon.stuckWitness(); w != nil {
				res.Stuck = true
				res.Violations = append(res.Violations, w)
			}
			if p.pm != nil {
				if w := p.pm.stuckWitness(); w != nil {
					res.Stuck = true
					res.Violations = append(res.Violations, w)
				}
			}
		}
		if res.Stuck {
			break // decided by counted events; nothing more to wait for
		}
		if second != nil && !second.stopped.Load() && s.total.Load() >= int64(cfg.SeederLeaveAt) {
			second.stopped.Store(true)
			second.sched.Stop()
			if len(pending) > 0 {
				res.Faults++
			}
		}
		for p, i := range pending {
			a := cfg.Agents[i]
			select {
			case err := <-p.result:
				delete(pending, p)
				if err == nil {
					res.Completed++
					b, ok := cacheFile(p.dir, s.digest.Hex())
					if !ok || !bytes.Equal(b, s.blob) {
						res.Violations = append(res.Violations, map[string]interface{}{
							"signature": "download-returned-nil-but-cache-differs", "peer": p.name,
							"cache_present": ok, "cache_len": len(b), "blob_len": len(s.blob), "first_diff": firstDiff(b, s.blob),
						})
					}
				} else if errors.Is(err, scheduler.ErrSchedulerStopped) && p.stopped.Load() {
					// the agent left; nothing is demanded of its download
				} else {
					res.DownloadErrs = append(res.DownloadErrs, p.name+": "+err.Error())
				}
				continue
			default:
			}
			if a.StopAfter >= 0 && !p.stopped.Load() && p.events.received.Load() >= int64(a.StopAfter) {
				p.stopped.Store(true)
				p.sched.Stop()
				res.Departed++
				if len(pending) > 1 {
					res.Faults++
				}
				checkCache(p, "at-departure")
			}
		}
	}
	for _, p := range s.peers {
		checkCache(p, "at-end")
	}
	if !res.Stuck {
		for _, p := range agents {
			if p.mon == nil {
				continue
			}
			if w := p.mon.stuckWitness(); w != nil {
				res.Stuck = true
				res.Violations = append(res.Violations, w)
			}
		}
	}
	for _, p := range agents {
		if p.mon != nil {
			p.mon.mu.Lock()
			res.WritesSeen += p.mon.total
			p.mon.mu.Unlock()
		}
	}
	res.CorruptServed = s.corrupt.Load()
	if res.CorruptServed > 0 {
		res.Faults++
	}
	return res
}

func firstDiff(a, b []byte) int {
	n := len(a)
	if len(b) < n {
		n = len(b)
	}
	for i := 0; i < n; i++ {
		if a[i] != b[i] {
			return i
		}
	}
	if len(a) != len(b) {
		return n
	}
	return -1
}

func TestC19(t *testing.T) {
	run := ev.Start(t, "C19", "exploration",
		"PRNG-generated swarms: blob 0 B-2 MiB, piece length 1 B-256 KiB (piece count capped), 2-6 real agent schedulers with PRNG pipeline limits 1-8, max conns 1-5 but never fewer than the number of agents (a leecher's slots cannot all be held by piece-less leechers), endgame on/off, both piece policies, PRNG join order and delays, "+
			"agents leaving after a PRNG number of received pieces, a second seeder that leaves, one corrupting peer (all / some / first-requests-only pieces flipped); a real origin scheduler stays reachable. "+
			"A case is one swarm; non-trivial when >=1 agent's Download returned nil and its cache was byte-compared AND >=1 fault took effect (a corrupted piece was served, or a peer left while others were still downloading); distinct = distinct configuration.")
	defer run.Finish()
	log.SetGlobalLogger(zap.NewNop().Sugar()) // kraken's process-wide logger (store warnings etc.)
	run.Assume("fakes only at the outer boundary: metainfo client (serves the blob's metainfo), the tracker's origin-cluster lookup (hands out the live origin), the corrupting peer's archive wrapper")
	run.Assume("liveness is judged only as bounded progress: a swarm that does not converge within the watchdog is re-run once and then reported INCONCLUSIVE")

	n := run.N(25, 200)
	maxPieces := run.N(120, 300)
	bound := time.Duration(run.N(90, 120)) * time.Second
	workers := run.N(4, 8)
	r := run.Rand("swarms")
	cfgs := make([]swarmCfg, n)
	seeds := make([]int64, n)
	for i := range cfgs {
		cfgs[i] = genSwarm(r, i, maxPieces)
		seeds[i] = r.Int63()
	}
	replay := run.ReplayCase()
	var wg sync.WaitGroup
	ch := make(chan int)
	for w := 0; w < workers; w++ {
		wg.Add(1)
		go func() {
			defer wg.Done()
			for i := range ch {
				cfg := cfgs[i]
				caseID := fmt.Sprintf("swarm-%d", i)
				res := runSwarm(run, t, cfg, rand.New(rand.NewSource(seeds[i])), bound)
				if res.SetupErr == nil && res.WatchdogHit && !res.Stuck {
					run.Count("swarms_retried_after_watchdog", 1)
					first := res
					cfg.Attempt = 1
					res = runSwarm(run, t, cfg, rand.New(rand.NewSource(seeds[i])), bound)
					res.Violations = append(res.Violations, first.Violations...)
					if res.WatchdogHit {
						run.Inconclusive(fmt.Sprintf("%s did not converge within %s twice; still downloading: %v / %v; config %s",
							caseID, bound, first.Pending, res.Pending, ev.JSON(cfg)))
					}
				}
				if res.SetupErr != nil {
					run.Inconclusive(fmt.Sprintf("%s: harness could not set the swarm up: %v", caseID, res.SetupErr))
					continue
				}
				for _, e := range res.DownloadErrs {
					run.Inconclusive(fmt.Sprintf("%s: Download returned an error for an agent that stayed: %s; config %s", caseID, e, ev.JSON(cfg)))
				}
				for _, v := range res.Violations {
					sig, _ := v["signature"].(string)
					v["config"] = cfg
					v["blob_seed"] = seeds[i]
					run.Violation(sig, caseID, v)
				}
				run.Case(ev.JSON(cfg), res.Completed > 0 && res.Faults > 0)
				run.Count("agents_completed_and_byte_compared", int64(res.Completed))
				run.Count("agents_departed_mid_transfer", int64(res.Departed))
				run.Count("corrupted_pieces_served", res.CorruptServed)
				run.Count("write_piece_calls_monitored", res.WritesSeen)
				run.Count("faults_in_effect", int64(res.Faults))
				if cfg.BlobSize == 0 {
					run.Count("swarms_with_empty_blob", 1)
				}
				if run.WantSample() {
					run.Sample(map[string]interface{}{"config": cfg, "completed": res.Completed, "departed": res.Departed, "corrupted_pieces_served": res.CorruptServed})
				}
			}
		}()
	}
	for i := 0; i < n; i++ {
		if replay != "" && replay != fmt.Sprintf("swarm-%d", i) {
			continue
		}
		ch <- i
	}
	close(ch)
	wg.Wait()
}
