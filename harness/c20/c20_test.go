// C20: the announce queue holds each torrent once and serves them in order.
//
// Model-diff monitor. The real announcequeue.QueueImpl is driven by PRNG
// histories of Add / Next / Ready / Eject over 3-6 info hashes next to a
// reference model (ready FIFO + in-flight set). Add is only issued for hashes
// that are currently absent (the documented precondition of Add); Ready and
// Eject are issued for every kind of hash (ready, in flight, absent).
//
// Oracle
//   - every Next returns the model's head (or "nothing" iff the model is empty);
//   - at checkpoints the complete state of the real queue is observed through
//     its public API on clones (the history prefix replayed into a fresh
//     QueueImpl): draining a clone must yield exactly the model's ready list
//     (no duplicates, no in-flight or ejected hash, FIFO order), and calling
//     Ready for every hash of the universe before draining must yield the ready
//     list followed by exactly the in-flight hashes;
//   - the real queue itself is drained at the end of each history.
package c20

import (
	"fmt"
	"math/rand"
	"os"
	"sync"
	"testing"

	"github.com/uber/kraken/core"
	"github.com/uber/kraken/lib/torrent/scheduler/announcequeue"

	"verif/harness/internal/ev"
)

type op struct {
	K string `json:"k"` // add | next | ready | eject
	H int    `json:"h"` // hash index (unused for next)
}

// model is the reference: FIFO of ready hashes + set of hashes whose announce is in flight.
type model struct {
	ready   []int
	pending map[int]bool
}

func newModel() *model { return &model{pending: map[int]bool{}} }

func (m *model) inReady(h int) bool {
	for _, x := range m.ready {
		if x == h {
			return true
		}
	}
	return false
}
func (m *model) absent(h int) bool { return !m.pending[h] && !m.inReady(h) }

func (m *model) apply(o op) (next int, ok bool) {
	switch o.K {
	case "add":
		m.ready = append(m.ready, o.H)
	case "next":
		if len(m.ready) == 0 {
			return -1, false
		}
		h := m.ready[0]
		m.ready = append([]int(nil), m.ready[1:]...)
		m.pending[h] = true
		return h, true
	case "ready":
		if m.pending[o.H] {
			delete(m.pending, o.H)
			m.ready = append(m.ready, o.H)
		}
	case "eject":
		delete(m.pending, o.H)
		var nr []int
		for _, x := range m.ready {
			if x != o.H {
				nr = append(nr, x)
			}
		}
		m.ready = nr
	}
	return -1, false
}

func (m *model) state() string { return fmt.Sprintf("ready=%v pending=%v", m.ready, sortedKeys(m.pending)) }

func sortedKeys(s map[int]bool) []int {
	var out []int
	for i := 0; i < 16; i++ {
		if s[i] {
			out = append(out, i)
		}
	}
	return out
}

// profile = op weights; several shapes so that long ready queues, many
// in-flight hashes, eject-heavy and ready-storm histories all occur.
type profile struct {
	name                     string
	add, next, ready, eject int
}

var profiles = []profile{
	{"balanced", 4, 4, 4, 2},
	{"next-heavy", 3, 7, 3, 1},
	{"ready-storm", 3, 3, 8, 1},
	{"eject-heavy", 4, 3, 3, 5},
	{"add-heavy", 7, 2, 2, 1},
}

func genHistory(r *rand.Rand) (ops []op, nh int, prof string, checkpoints []bool) {
	nh = 3 + r.Intn(4)
	p := profiles[r.Intn(len(profiles))]
	n := 8 + r.Intn(53)
	m := newModel()
	tot := p.add + p.next + p.ready + p.eject
	for len(ops) < n {
		x := r.Intn(tot)
		var o op
		switch {
		case x < p.add:
			// Add only for absent hashes (documented precondition).
			var abs []int
			for h := 0; h < nh; h++ {
				if m.absent(h) {
					abs = append(abs, h)
				}
			}
			if len(abs) == 0 {
				continue
			}
			o = op{"add", abs[r.Intn(len(abs))]}
		case x < p.add+p.next:
			o = op{K: "next"}
		case x < p.add+p.next+p.ready:
			o = op{"ready", r.Intn(nh)}
		default:
			o = op{"eject", r.Intn(nh)}
		}
		m.apply(o)
		ops = append(ops, o)
		checkpoints = append(checkpoints, r.Intn(3) == 0)
	}
	return ops, nh, p.name, checkpoints
}

func applyReal(q *announcequeue.QueueImpl, hashes []core.InfoHash, o op) (core.InfoHash, bool) {
	switch o.K {
	case "add":
		q.Add(hashes[o.H])
	case "next":
		return q.Next()
	case "ready":
		q.Ready(hashes[o.H])
	case "eject":
		q.Eject(hashes[o.H])
	}
	return core.InfoHash{}, false
}

func drain(q *announcequeue.QueueImpl, idx map[core.InfoHash]int, limit int) (out []int, overflow bool) {
	for i := 0; ; i++ {
		h, ok := q.Next()
		if !ok {
			return out, false
		}
		if i >= limit {
			return out, true
		}
		j, known := idx[h]
		if !known {
			j = -1
		}
		out = append(out, j)
	}
}

// classify names how an observed drain differs from the expected list.
func classify(got, wantReady, wantPending []int, m *model) string {
	seen := map[int]int{}
	for _, h := range got {
		seen[h]++
	}
	for _, h := range got {
		if h < 0 {
			return "unknown-hash-handed-out"
		}
	}
	for h, n := range seen {
		if n > 1 {
			if m.pending[h] && m.inReady(h) {
				return "hash-both-ready-and-in-flight"
			}
			return "hash-queued-twice"
		}
		if m.absent(h) {
			return "ejected-or-never-added-hash-still-queued"
		}
	}
	want := append(append([]int{}, wantReady...), wantPending...)
	for _, h := range want {
		if seen[h] == 0 {
			if m.pending[h] {
				return "in-flight-hash-lost"
			}
			return "ready-hash-lost"
		}
	}
	for _, h := range got[:min(len(got), len(wantReady))] {
		if m.pending[h] {
			return "in-flight-hash-handed-out-before-its-announce-finished"
		}
	}
	return "fifo-order-violated"
}

func equalInts(a, b []int) bool {
	if len(a) != len(b) {
		return false
	}
	for i := range a {
		if a[i] != b[i] {
			return false
		}
	}
	return true
}

type witness struct {
	Hashes   int      `json:"hashes"`
	Profile  string   `json:"profile"`
	Ops      []op     `json:"ops"`
	Step     int      `json:"step"`
	Observed string   `json:"observed"`
	Expected string   `json:"expected"`
	Model    string   `json:"model_state"`
	HashHex  []string `json:"hash_hex"`
}

func runHistory(run *ev.Run, caseID string, hashes []core.InfoHash, idx map[core.InfoHash]int, ops []op, nh int, prof string, cps []bool) {
	q := announcequeue.New()
	m := newModel()
	var nextsOK, readyPending, ejectPresent, readyIgnored int
	opCounts := map[string]int64{}
	defer func() {
		for k, v := range opCounts {
			run.Count("ops_"+k, v)
		}
	}()
	mk := func(step int, obs, exp string) witness {
		hx := make([]string, nh)
		for i := 0; i < nh; i++ {
			hx[i] = hashes[i].Hex()
		}
		return witness{nh, prof, ops, step, obs, exp, m.state(), hx}
	}
	checkClones := func(step int) bool {
		// clone 1: replay + drain  => exactly the ready list
		c1 := announcequeue.New()
		for _, o := range ops[:step+1] {
			applyReal(c1, hashes, o)
		}
		got, over := drain(c1, idx, 4*nh+4)
		if over || !equalInts(got, m.ready) {
			sig := "drain-overflow"
			if !over {
				sig = classify(got, m.ready, nil, m)
			}
			run.Violation("ready-list/"+sig, caseID, mk(step, fmt.Sprint(got), fmt.Sprint(m.ready)))
			return false
		}
		// clone 2: replay + Ready(every hash) + drain => ready list ++ in-flight hashes
		c2 := announcequeue.New()
		for _, o := range ops[:step+1] {
			applyReal(c2, hashes, o)
		}
		var wantP []int
		for h := 0; h < nh; h++ {
			c2.Ready(hashes[h])
			if m.pending[h] {
				wantP = append(wantP, h)
			}
		}
		got, over = drain(c2, idx, 4*nh+4)
		want := append(append([]int{}, m.ready...), wantP...)
		if over || !equalInts(got, want) {
			sig := "drain-overflow"
			if !over {
				sig = classify(got, m.ready, wantP, m)
			}
			run.Violation("in-flight-set/"+sig, caseID, mk(step, fmt.Sprint(got), fmt.Sprint(want)))
			return false
		}
		opCounts["checkpoint"]++
		return true
	}
	ok := true
	for i, o := range ops {
		// classify the op against the model before applying it
		switch o.K {
		case "ready":
			if m.pending[o.H] {
				readyPending++
			} else {
				readyIgnored++
			}
		case "eject":
			if !m.absent(o.H) {
				ejectPresent++
			}
		}
		wantH, wantOK := m.apply(o)
		gotHash, gotOK := applyReal(q, hashes, o)
		opCounts[o.K]++
		if o.K == "next" {
			gotH := -1
			if gotOK {
				if j, known := idx[gotHash]; known {
					gotH = j
				} else {
					gotH = -2
				}
			}
			if gotOK != wantOK || gotH != wantH {
				// classify relative to the state BEFORE this Next
				pre := newModel()
				for _, p := range ops[:i] {
					pre.apply(p)
				}
				var sig string
				switch {
				case !gotOK:
					sig = "next-empty-while-a-hash-is-ready"
				case !wantOK && pre.pending[gotH]:
					sig = "next-hands-out-in-flight-hash"
				case !wantOK:
					sig = "next-hands-out-absent-hash"
				case pre.pending[gotH]:
					sig = "next-hands-out-in-flight-hash"
				case pre.absent(gotH):
					sig = "next-hands-out-absent-hash"
				default:
					sig = "next-not-fifo"
				}
				run.Violation(sig, caseID, mk(i, fmt.Sprintf("(%d,%v)", gotH, gotOK), fmt.Sprintf("(%d,%v)", wantH, wantOK)))
				ok = false
				break
			}
			if gotOK {
				nextsOK++
			}
		}
		if cps[i] || i == len(ops)-1 {
			if !checkClones(i) {
				ok = false
				break
			}
		}
	}
	if ok {
		// final drain of the real queue itself
		got, over := drain(q, idx, 4*nh+4)
		if over || !equalInts(got, m.ready) {
			sig := "drain-overflow"
			if !over {
				sig = classify(got, m.ready, nil, m)
			}
			run.Violation("final-drain/"+sig, caseID, mk(len(ops), fmt.Sprint(got), fmt.Sprint(m.ready)))
		}
	}
	run.Count("next_returned_hash", int64(nextsOK))
	run.Count("ready_of_in_flight", int64(readyPending))
	run.Count("ready_ignored", int64(readyIgnored))
	run.Count("eject_of_present", int64(ejectPresent))
	run.Distinct("profiles", prof)
	nontrivial := nextsOK >= 1 && (readyPending >= 1 || ejectPresent >= 1)
	run.Case(ev.JSON(struct {
		N   int  `json:"n"`
		Ops []op `json:"ops"`
	}{nh, ops}), nontrivial)
}

func TestC20(t *testing.T) {
	run := ev.Start(t, "C20", "exploration",
		"PRNG histories (8-60 ops, 5 weight profiles) of Add/Next/Ready/Eject over 3-6 info hashes on a real QueueImpl; Add only for absent hashes, "+
			"Ready/Eject for any hash. Non-trivial = at least one Next handed out a hash and at least one Ready hit an in-flight hash or one Eject hit a present hash; "+
			"distinct = distinct (universe size, op list). Scheduler phase: PRNG orders of {announce tick, hang up a conn of torrent t, release the oldest held announce response of t} on a real scheduler with 1-3 torrents, max open conns 1-3 and all responses held back; "+
			"non-trivial = at least one tick fired after a conn of a torrent closed while that torrent's announce was outstanding.")
	defer run.Finish()
	run.Assume("Add is only called for hashes that are neither ready nor in flight (documented: behaviour undefined otherwise)")
	run.Assume("the queue is used from one goroutine (documented as not thread safe; the scheduler calls it from its event loop only)")

	const workers = 8
	total := run.N(30000, 1200000)
	if os.Getenv("C20_DEV_SKIP_PART1") != "" { // development aid only
		total = 0
	}
	per := total / workers

	// fixed universe of hashes for the whole run (seed-determined)
	hr := run.Rand("hashes")
	hashes := make([]core.InfoHash, 6)
	idx := map[core.InfoHash]int{}
	for i := range hashes {
		b := make([]byte, 20)
		hr.Read(b)
		hashes[i] = core.NewInfoHashFromBytes(b)
		idx[hashes[i]] = i
	}

	var wg sync.WaitGroup
	for w := 0; w < workers; w++ {
		wg.Add(1)
		go func(w int) {
			defer wg.Done()
			r := run.Rand(fmt.Sprintf("worker-%d", w))
			for i := 0; i < per; i++ {
				ops, nh, prof, cps := genHistory(r)
				caseID := fmt.Sprintf("w%d/h%d", w, i)
				if rc := run.ReplayCase(); rc != "" && rc != caseID {
					continue
				}
				if i%1777 == 0 && run.WantSample() {
					run.Sample(map[string]interface{}{"case": caseID, "hashes": nh, "profile": prof, "ops": ops})
				}
				runHistory(run, caseID, hashes, idx, ops, nh, prof, cps)
			}
		}(w)
	}
	wg.Wait()

	runSchedulerPhase(t, run)
}
