// C20 scheduler phase: the scheduler's USE of the announce queue.
//
// A real agent scheduler (test-only seam scheduler.VerifC20NewScheduler: clock
// injection + announce ticks on demand) leeches 1-3 torrents nobody seeds. The
// fake announce client is the observation point: it counts, per info hash, the
// announces that are in flight and can hold every response back until the
// driver releases it. Fake peers are real TCP listeners that complete the
// handshake with a real conn.Handshaker, stay connected and hang up on command.
//
// After the torrents are added (their first, immediate announce is by design
// issued outside the queue) the driver plays a PRNG order of
// {announce tick, hang up a connection of torrent t, release the oldest held
// response of torrent t} with responses held back, with small
// MaxOpenConnectionsPerTorrent so that saturated torrents occur as well.
//
// Oracle: a torrent handed out by the queue has its announce in flight and must
// not be handed out again before that announce finished: at the announce client
// no second queue-driven announce for an info hash may START while one is
// outstanding. No wall-clock value decides: held responses stay outstanding
// until the driver releases them, so an overlapping announce is seen whenever it
// starts.
package c20

import (
	"fmt"
	"math/rand"
	"net"
	"sync"
	"testing"
	"time"

	"github.com/andres-erbsen/clock"
	"github.com/uber-go/tally"
	"github.com/willf/bitset"
	"go.uber.org/zap"

	"github.com/uber/kraken/core"
	"github.com/uber/kraken/lib/store"
	"github.com/uber/kraken/lib/torrent/networkevent"
	"github.com/uber/kraken/lib/torrent/scheduler"
	"github.com/uber/kraken/lib/torrent/scheduler/conn"
	"github.com/uber/kraken/lib/torrent/scheduler/connstate"
	"github.com/uber/kraken/lib/torrent/storage"
	"github.com/uber/kraken/lib/torrent/storage/agentstorage"
	"github.com/uber/kraken/utils/log"

	"verif/harness/internal/ev"
)

const schedWatchdog = 30 * time.Second

type nopProducer struct{}

func (nopProducer) Produce(*networkevent.Event) {}
func (nopProducer) Close() error                { return nil }

type noEvents struct{}

func (noEvents) ConnClosed(*conn.Conn) {}

type fakeMetainfo struct{ byDigest map[core.Digest]*core.MetaInfo }

func (f fakeMetainfo) Download(namespace string, d core.Digest) (*core.MetaInfo, error) {
	mi, ok := f.byDigest[d]
	if !ok {
		return nil, fmt.Errorf("no metainfo for %s", d)
	}
	return mi, nil
}

// holdPeer completes the scheduler's handshake, stays connected and hangs up on command.
type holdPeer struct {
	id      core.PeerID
	ln      net.Listener
	port    int
	hs      *conn.Handshaker
	schedID core.PeerID
	info    *storage.TorrentInfo

	mu    sync.Mutex
	conns []*conn.Conn
}

func newHoldPeer(schedID core.PeerID, info *storage.TorrentInfo) (*holdPeer, error) {
	id, err := core.RandomPeerID()
	if err != nil {
		return nil, err
	}
	hs, err := conn.NewHandshaker(conn.Config{}, tally.NoopScope, clock.New(), nopProducer{}, id, noEvents{}, zap.NewNop().Sugar())
	if err != nil {
		return nil, err
	}
	ln, err := net.Listen("tcp", "127.0.0.1:0")
	if err != nil {
		return nil, err
	}
	p := &holdPeer{id: id, ln: ln, port: ln.Addr().(*net.TCPAddr).Port, hs: hs, schedID: schedID, info: info}
	go func() {
		for {
			nc, err := ln.Accept()
			if err != nil {
				return
			}
			go func() {
				pc, err := hs.Accept(nc)
				if err != nil {
					nc.Close()
					return
				}
				if pc.PeerID() != schedID || pc.InfoHash() != info.InfoHash() {
					pc.Close()
					return
				}
				c, err := hs.Establish(pc, info, nil)
				if err != nil {
					pc.Close()
					return
				}
				c.Start()
				p.mu.Lock()
				p.conns = append(p.conns, c)
				p.mu.Unlock()
			}()
		}
	}()
	return p, nil
}

func (p *holdPeer) connected() bool {
	p.mu.Lock()
	defer p.mu.Unlock()
	for _, c := range p.conns {
		if !c.IsClosed() {
			return true
		}
	}
	return false
}

func (p *holdPeer) hangUp() {
	p.mu.Lock()
	defer p.mu.Unlock()
	for _, c := range p.conns {
		c.Close()
	}
}

type heldCall struct {
	tor       int
	immediate bool
	gate      chan struct{}
}

type overlap struct {
	Tor            int  `json:"torrent"`
	InFlight       int  `json:"queue_driven_announces_in_flight"`
	AfterImmediate bool `json:"a_queue_announce_started_while_the_immediate_announce_was_outstanding"`
}

// gateTracker is the fake announce client.
type gateTracker struct {
	mu         sync.Mutex
	torIdx     map[core.InfoHash]int
	calls      []int
	inflightQ  []int
	immOut     []bool // the immediate announce of the torrent is outstanding
	qDuringImm []bool
	holdImm    []bool
	holdQ      bool
	held       [][]*heldCall
	first      [][]*core.PeerInfo
	overlaps   []overlap
	done       chan struct{}
	queueCalls int
}

func (g *gateTracker) CheckReadiness() error { return nil }

func (g *gateTracker) Announce(d core.Digest, h core.InfoHash, complete bool, version int) ([]*core.PeerInfo, time.Duration, error) {
	g.mu.Lock()
	t, ok := g.torIdx[h]
	if !ok {
		g.mu.Unlock()
		return nil, time.Minute, fmt.Errorf("unknown torrent")
	}
	c := &heldCall{tor: t, immediate: g.calls[t] == 0}
	g.calls[t]++
	if c.immediate {
		g.immOut[t] = true
		if g.holdImm[t] {
			c.gate = make(chan struct{})
		}
	} else {
		g.queueCalls++
		g.inflightQ[t]++
		if g.immOut[t] {
			g.qDuringImm[t] = true
		}
		if g.inflightQ[t] > 1 {
			g.overlaps = append(g.overlaps, overlap{t, g.inflightQ[t], g.qDuringImm[t]})
		}
		if g.holdQ {
			c.gate = make(chan struct{})
		}
	}
	if c.gate != nil {
		g.held[t] = append(g.held[t], c)
	}
	g.mu.Unlock()
	if c.gate != nil {
		select {
		case <-c.gate:
		case <-g.done:
		}
	}
	g.mu.Lock()
	defer g.mu.Unlock()
	if c.immediate {
		g.immOut[t] = false
		return g.first[t], time.Minute, nil
	}
	g.inflightQ[t]--
	return nil, time.Minute, nil
}

func (g *gateTracker) releaseOldest(t int) bool {
	g.mu.Lock()
	defer g.mu.Unlock()
	if len(g.held[t]) == 0 {
		return false
	}
	c := g.held[t][0]
	g.held[t] = g.held[t][1:]
	close(c.gate)
	return true
}

func (g *gateTracker) snapshot() (overlaps []overlap, heldQ []int, calls []int) {
	g.mu.Lock()
	defer g.mu.Unlock()
	overlaps = append(overlaps, g.overlaps...)
	for t := range g.held {
		n := 0
		for _, c := range g.held[t] {
			if !c.immediate {
				n++
			}
		}
		heldQ = append(heldQ, n)
	}
	calls = append(calls, g.calls...)
	return
}

type action struct {
	K string `json:"k"` // tick | close | release
	T int    `json:"t,omitempty"`
}

type schedScenario struct {
	Torrents      int      `json:"torrents"`
	MaxOpen       int      `json:"max_open_conn"`
	Peers         []int    `json:"peers_per_torrent"`
	HoldImmediate []bool   `json:"hold_immediate_announce"`
	Actions       []action `json:"actions"`
}

func genSchedScenario(r *rand.Rand) schedScenario {
	sc := schedScenario{Torrents: 1 + r.Intn(3), MaxOpen: 1 + r.Intn(3)}
	for t := 0; t < sc.Torrents; t++ {
		sc.Peers = append(sc.Peers, 2+r.Intn(2))
		sc.HoldImmediate = append(sc.HoldImmediate, r.Intn(5) == 0)
	}
	n := 14 + r.Intn(20)
	for i := 0; i < n; i++ {
		switch x := r.Intn(10); {
		case x < 5:
			sc.Actions = append(sc.Actions, action{K: "tick"})
		case x < 8:
			sc.Actions = append(sc.Actions, action{"close", r.Intn(sc.Torrents)})
		default:
			sc.Actions = append(sc.Actions, action{"release", r.Intn(sc.Torrents)})
		}
	}
	return sc
}

func pollUntil(cond func() bool, d time.Duration) bool {
	deadline := time.Now().Add(d)
	for {
		if cond() {
			return true
		}
		if time.Now().After(deadline) {
			return false
		}
		time.Sleep(2 * time.Millisecond)
	}
}

func freePort() (int, error) {
	l, err := net.Listen("tcp", "127.0.0.1:0")
	if err != nil {
		return 0, err
	}
	defer l.Close()
	return l.Addr().(*net.TCPAddr).Port, nil
}

func runSchedScenario(run *ev.Run, caseID string, sc schedScenario) bool {
	clk := clock.NewMock() // never advanced: every announce tick is injected by the driver
	schedID, err := core.RandomPeerID()
	if err != nil {
		run.Inconclusive(err.Error())
		return false
	}
	mic := fakeMetainfo{map[core.Digest]*core.MetaInfo{}}
	g := &gateTracker{torIdx: map[core.InfoHash]int{}, done: make(chan struct{})}
	var blobs []*core.BlobFixture
	var peers [][]*holdPeer
	defer func() {
		for _, ps := range peers {
			for _, p := range ps {
				p.ln.Close()
				p.hangUp()
			}
		}
	}()
	for t := 0; t < sc.Torrents; t++ {
		b := core.SizedBlobFixture(256, 64)
		blobs = append(blobs, b)
		mic.byDigest[b.Digest] = b.MetaInfo
		g.torIdx[b.MetaInfo.InfoHash()] = t
		info := storage.NewTorrentInfo(b.MetaInfo, bitset.New(uint(b.MetaInfo.NumPieces())))
		var ps []*holdPeer
		var infos []*core.PeerInfo
		for k := 0; k < sc.Peers[t]; k++ {
			p, err := newHoldPeer(schedID, info)
			if err != nil {
				run.Inconclusive("fake peer: " + err.Error())
				return false
			}
			ps = append(ps, p)
			infos = append(infos, core.NewPeerInfo(p.id, "127.0.0.1", p.port, false, false))
		}
		peers = append(peers, ps)
		g.first = append(g.first, infos)
		g.calls = append(g.calls, 0)
		g.inflightQ = append(g.inflightQ, 0)
		g.immOut = append(g.immOut, false)
		g.qDuringImm = append(g.qDuringImm, false)
		g.holdImm = append(g.holdImm, sc.HoldImmediate[t])
		g.held = append(g.held, nil)
	}
	g.holdQ = true

	cads, cleanup := store.CADownloadStoreFixture()
	defer cleanup()
	ta := agentstorage.NewTorrentArchive(tally.NoopScope, cads, mic)
	port, err := freePort()
	if err != nil {
		run.Inconclusive(err.Error())
		return false
	}
	cfg := scheduler.Config{
		DisablePreemption: true,
		EmitStatsInterval: time.Hour,
		ConnState:         connstate.Config{MaxOpenConnectionsPerTorrent: sc.MaxOpen, BlacklistDuration: time.Hour},
		TorrentLog:        log.Config{Disable: true},
		Log:               log.Config{Disable: true},
	}
	sched, err := scheduler.VerifC20NewScheduler(cfg, ta, tally.NoopScope,
		core.PeerContext{IP: "127.0.0.1", Port: port, PeerID: schedID, Zone: "z"}, g, nopProducer{}, clk)
	if err != nil {
		run.Inconclusive("scheduler: " + err.Error())
		return false
	}
	var dl sync.WaitGroup
	defer func() {
		close(g.done)
		sched.Stop()
		done := make(chan struct{})
		go func() { dl.Wait(); close(done) }()
		select {
		case <-done:
		case <-time.After(schedWatchdog):
			run.Count("scheduler_download_still_blocked_after_stop", 1)
		}
	}()
	for _, b := range blobs {
		dl.Add(1)
		go func(d core.Digest) {
			defer dl.Done()
			_ = sched.Download("c20-ns", d)
		}(b.Digest)
	}
	// every torrent issues its immediate announce; those not held return the
	// peers, which get connected (up to MaxOpen)
	want := func(t int) int { return min(sc.Peers[t], sc.MaxOpen) }
	connectedCount := func(t int) int {
		n := 0
		for _, p := range peers[t] {
			if p.connected() {
				n++
			}
		}
		return n
	}
	for t := range blobs {
		t := t
		if !pollUntil(func() bool { _, _, calls := g.snapshot(); return calls[t] >= 1 }, schedWatchdog) {
			run.Inconclusive("watchdog: a new torrent was never announced")
			return false
		}
		if !sc.HoldImmediate[t] {
			if !pollUntil(func() bool { return connectedCount(t) >= want(t) }, schedWatchdog) {
				run.Inconclusive("watchdog: fake peers were not connected after the first announce")
				return false
			}
		}
	}
	barrier := func() bool {
		_, err := sched.BlacklistSnapshot() // answered by the event loop: everything sent before has been applied
		return err == nil
	}
	var ticks, closes, releases, exposures, saturatedTicks int
	closedWhileOutstanding := make([]bool, sc.Torrents)
	report := func(step int) bool {
		ov, _, _ := g.snapshot()
		if len(ov) == 0 {
			return true
		}
		sig := "scheduler/torrent-announced-again-while-announce-in-flight"
		if ov[0].AfterImmediate {
			sig += "/after-immediate-announce-response"
		}
		run.Violation(sig, caseID, map[string]interface{}{"scenario": sc, "step": step, "overlaps": ov})
		run.Count("scheduler_known_or_new_violation_scenarios", 1)
		return false
	}
	for i, a := range sc.Actions {
		switch a.K {
		case "tick":
			_, heldQ, _ := g.snapshot()
			for t := range closedWhileOutstanding {
				if closedWhileOutstanding[t] && heldQ[t] > 0 {
					exposures++ // a tick after a conn of t closed while t's announce is still outstanding
				}
				if connectedCount(t) >= sc.MaxOpen {
					saturatedTicks++
				}
			}
			if !sched.VerifC20AnnounceTick() {
				run.Inconclusive("scheduler stopped unexpectedly")
				return false
			}
			ticks++
		case "close":
			var victim *holdPeer
			for _, p := range peers[a.T] {
				if p.connected() {
					victim = p
					break
				}
			}
			if victim == nil {
				continue
			}
			_, heldQ, _ := g.snapshot()
			victim.hangUp()
			// the scheduler has processed the close once the peer is blacklisted
			if !pollUntil(func() bool {
				snap, err := sched.BlacklistSnapshot()
				if err != nil {
					return false
				}
				for _, b := range snap {
					if b.PeerID == victim.id {
						return true
					}
				}
				return false
			}, schedWatchdog) {
				run.Inconclusive("watchdog: the scheduler did not notice a closed connection")
				return false
			}
			closes++
			if heldQ[a.T] > 0 {
				closedWhileOutstanding[a.T] = true
			}
		case "release":
			if g.releaseOldest(a.T) {
				releases++
				_, heldQ, _ := g.snapshot()
				if heldQ[a.T] == 0 {
					closedWhileOutstanding[a.T] = false
				}
				// give the response time to reach the event loop (only ordering aid)
				time.Sleep(3 * time.Millisecond)
			}
		}
		if !barrier() {
			run.Inconclusive("scheduler stopped unexpectedly")
			return false
		}
		time.Sleep(4 * time.Millisecond) // let an announce goroutine spawned by the tick reach the tracker
		if !report(i) {
			return false
		}
	}
	time.Sleep(100 * time.Millisecond)
	if !report(len(sc.Actions)) {
		return false
	}
	g.mu.Lock()
	qc := g.queueCalls
	g.mu.Unlock()
	run.Count("scheduler_scenarios", 1)
	run.Count("scheduler_ticks", int64(ticks))
	run.Count("scheduler_ticks_with_saturated_torrent", int64(saturatedTicks))
	run.Count("scheduler_conn_closes", int64(closes))
	run.Count("scheduler_responses_released", int64(releases))
	run.Count("scheduler_queue_driven_announces", int64(qc))
	run.Count("scheduler_ticks_after_close_during_outstanding_announce", int64(exposures))
	run.Case(ev.JSON(sc), exposures >= 1)
	return true
}

func runSchedulerPhase(t *testing.T, run *ev.Run) {
	r := run.Rand("scheduler")
	n := run.N(10, 80)
	for i := 0; i < n; i++ {
		sc := genSchedScenario(r)
		caseID := fmt.Sprintf("sched/%d", i)
		if rc := run.ReplayCase(); rc != "" && rc != caseID {
			continue
		}
		before := run.Violations()
		if !runSchedScenario(run, caseID, sc) && run.Violations() == before && run.Counter("scheduler_known_or_new_violation_scenarios") == 0 {
			// neither a violation nor a known finding: the rig itself failed (inconclusive was recorded)
			return
		}
	}
}
