// C21: hash ring replica sets are non-empty, healthy, bounded and
// host-independent.
//
// Oracle-gen monitor, exhaustive in the shard dimension. For PRNG-generated
// memberships (1-12 hosts, several naming styles), MaxReplica 1-5 and a family
// of health scripts, several REAL rings (hashring.New / hashring.NewPassive)
// are driven to the same membership through different Refresh histories and
// different host discovery orders. For all 65 536 shard ids every ring's
// Locations result is compared with an independent oracle: scores come from
// hrw.RendezvousHashNode.Score on nodes the oracle builds itself, the ranking
// is the oracle's own sort, the healthy set is what the ring's filter really
// returned on the last Refresh (recorded by a pass-through wrapper).
package c21

import (
	"context"
	"errors"
	"fmt"
	"math/rand"
	"runtime"
	"sort"
	"strings"
	"sync"
	"testing"
	"time"

	"github.com/andres-erbsen/clock"
	"github.com/uber-go/tally"
	"go.uber.org/zap"

	"github.com/uber/kraken/core"
	"github.com/uber/kraken/lib/hashring"
	"github.com/uber/kraken/lib/healthcheck"
	"github.com/uber/kraken/lib/hrw"
	"github.com/uber/kraken/utils/log"
	"github.com/uber/kraken/utils/stringset"

	"verif/harness/internal/ev"
	"verif/harness/internal/gen"
)

const (
	numShards = 65536
	workers   = 16
)

// ---------------------------------------------------------------------------
// scripted outer boundary: host list

// scriptList is a hostlist.List whose content and map insertion order are set
// by the test. Every Resolve returns a fresh set (the ring keeps it).
type scriptList struct {
	mu  sync.Mutex
	cur []string
}

func (l *scriptList) set(hosts []string) {
	l.mu.Lock()
	l.cur = append([]string(nil), hosts...)
	l.mu.Unlock()
}

func (l *scriptList) Resolve() stringset.Set {
	l.mu.Lock()
	defer l.mu.Unlock()
	s := make(stringset.Set)
	for _, h := range l.cur {
		s.Add(h)
	}
	return s
}

// ---------------------------------------------------------------------------
// filters: scripted, real active (scripted checker), real passive; all wrapped
// by a recorder so that the oracle knows the healthy set the ring was given.

type scriptFilter struct {
	mu        sync.Mutex
	unhealthy map[string]bool
}

func (f *scriptFilter) Run(addrs stringset.Set) stringset.Set {
	f.mu.Lock()
	defer f.mu.Unlock()
	out := make(stringset.Set)
	for a := range addrs {
		if !f.unhealthy[a] {
			out.Add(a)
		}
	}
	return out
}

func (f *scriptFilter) setUnhealthy(u map[string]bool) {
	f.mu.Lock()
	f.unhealthy = u
	f.mu.Unlock()
}

// recFilter passes Run/Failed through to the real filter and records the last
// input and output.
type recFilter struct {
	inner   healthcheck.Filter
	passive healthcheck.PassiveFilter
	mu      sync.Mutex
	lastIn  []string
	lastOut []string
}

func (f *recFilter) Run(addrs stringset.Set) stringset.Set {
	out := f.inner.Run(addrs)
	f.mu.Lock()
	f.lastIn = sortedSet(addrs)
	f.lastOut = sortedSet(out)
	f.mu.Unlock()
	return out
}

func (f *recFilter) Failed(addr string) {
	if f.passive != nil {
		f.passive.Failed(addr)
	}
}

func (f *recFilter) last() (in, out []string) {
	f.mu.Lock()
	defer f.mu.Unlock()
	return f.lastIn, f.lastOut
}

func sortedSet(s stringset.Set) []string {
	out := make([]string, 0, len(s))
	for x := range s {
		out = append(out, x)
	}
	sort.Strings(out)
	return out
}

// ---------------------------------------------------------------------------
// ring under test + the knobs to steer its filter

type ringKind int

const (
	kindScripted ringKind = iota
	kindPassive
	kindActive
)

func (k ringKind) String() string {
	return [...]string{"scripted", "passive", "active"}[k]
}

type testRing struct {
	kind    ringKind
	history string
	list    *scriptList
	rec     *recFilter
	ring    hashring.Ring

	script  *scriptFilter        // kindScripted
	clk     *clock.Mock          // kindPassive
	pring   hashring.PassiveRing // kindPassive
	pfails  int
	ptimout time.Duration
	checker *activeChecker // kindActive
	afails  int
	apasses int
}

// applyHealth steers the ring's filter so that the hosts in u are unhealthy
// (as far as the real filter allows: a single-host list is always healthy for
// the active filter) and refreshes the ring.
func (tr *testRing) applyHealth(u map[string]bool, members []string) {
	switch tr.kind {
	case kindScripted:
		tr.script.setUnhealthy(u)
		tr.ring.Refresh()
	case kindPassive:
		// forget everything, then report Fails failures for each host in u
		tr.clk.Add(tr.ptimout + time.Second)
		tr.clk.Add(tr.ptimout + time.Second)
		for _, h := range members {
			if u[h] {
				for i := 0; i < tr.pfails; i++ {
					tr.pring.Failed(h)
				}
			}
		}
		tr.ring.Refresh()
	case kindActive:
		tr.checker.set(u)
		n := tr.afails
		if tr.apasses > n {
			n = tr.apasses
		}
		for i := 0; i < n; i++ {
			tr.ring.Refresh()
		}
	}
}

// ---------------------------------------------------------------------------
// generators

func genHosts(r *rand.Rand, n int) (hosts []string, style string) {
	seen := map[string]bool{}
	st := r.Intn(5)
	style = [...]string{"hostN:port", "ipv4:port", "dns-name:port", "near-identical", "mixed"}[st]
	for len(hosts) < n {
		var h string
		k := st
		if st == 4 {
			k = r.Intn(4)
		}
		switch k {
		case 0:
			h = fmt.Sprintf("host%d:%d", r.Intn(500), 1000+r.Intn(9000))
		case 1:
			h = fmt.Sprintf("10.%d.%d.%d:%d", r.Intn(256), r.Intn(256), r.Intn(256), 15000+r.Intn(5))
		case 2:
			h = fmt.Sprintf("%s.%s.example.com:%d", gen.Hex(r, 2+r.Intn(10)), [...]string{"dca1", "phx2", "sjc1"}[r.Intn(3)], 80+r.Intn(3))
		case 3:
			h = fmt.Sprintf("kraken-origin%02d:15002", r.Intn(60))
		}
		if !seen[h] {
			seen[h] = true
			hosts = append(hosts, h)
		}
	}
	return hosts, style
}

func perm(r *rand.Rand, xs []string) []string {
	out := append([]string(nil), xs...)
	r.Shuffle(len(out), func(i, j int) { out[i], out[j] = out[j], out[i] })
	return out
}

type healthScript struct {
	name string
	u    map[string]bool
}

// genScripts returns the health scripts for one (membership, MaxReplica).
func genScripts(r *rand.Rand, hosts []string, mr int, ranks [][]uint8, quick bool) []healthScript {
	n := len(hosts)
	mk := func() map[string]bool { return map[string]bool{} }
	var out []healthScript
	out = append(out, healthScript{"all-healthy", mk()})
	none := mk()
	for _, h := range hosts {
		none[h] = true
	}
	out = append(out, healthScript{"none-healthy", none})
	one := mk()
	keep := r.Intn(n)
	for i, h := range hosts {
		if i != keep {
			one[h] = true
		}
	}
	out = append(out, healthScript{"one-healthy", one})
	oneU := mk()
	oneU[hosts[r.Intn(n)]] = true
	out = append(out, healthScript{"one-unhealthy", oneU})
	half := mk()
	for _, h := range hosts {
		if r.Intn(2) == 0 {
			half[h] = true
		}
	}
	out = append(out, healthScript{"random-half", half})
	most := mk()
	for _, h := range hosts {
		if r.Intn(5) != 0 {
			most[h] = true
		}
	}
	out = append(out, healthScript{"mostly-unhealthy", most})
	// the top MaxReplica owners of one shard are all unhealthy, the rest healthy
	top := mk()
	sh := r.Intn(numShards)
	for i := 0; i < mr && i < n; i++ {
		top[hosts[ranks[sh][i]]] = true
	}
	out = append(out, healthScript{"top-owners-of-a-shard-unhealthy", top})
	if quick {
		// all, none, one-healthy, mostly-unhealthy, top-owners: every path of the
		// statement; the two remaining mixes are left to the thorough tier
		return []healthScript{out[0], out[1], out[2], out[5], out[6]}
	}
	return out
}

// ---------------------------------------------------------------------------
// oracle

// computeRanks returns, for every shard, the member indices by descending
// score (own sort; ties broken by index and reported).
func computeRanks(hosts []string) (ranks [][]uint8, tieShard []bool, ties int64) {
	rh := hrw.NewRendezvousHash(hrw.Murmur3Hash, hrw.UInt64ToFloat64)
	nodes := make([]*hrw.RendezvousHashNode, len(hosts))
	for i, h := range hosts {
		// the ring gives every member the same weight; equal weights make the
		// ranking independent of the weight's value
		nodes[i] = &hrw.RendezvousHashNode{RHash: rh, Label: h, Weight: 100}
	}
	ranks = make([][]uint8, numShards)
	tieShard = make([]bool, numShards)
	var wg sync.WaitGroup
	var mu sync.Mutex
	chunk := numShards / workers
	for w := 0; w < workers; w++ {
		wg.Add(1)
		go func(lo, hi int) {
			defer wg.Done()
			var t int64
			sc := make([]float64, len(hosts))
			for s := lo; s < hi; s++ {
				key := fmt.Sprintf("%04x", s)
				for i, nd := range nodes {
					sc[i] = nd.Score(key)
				}
				idx := make([]uint8, len(hosts))
				for i := range idx {
					idx[i] = uint8(i)
				}
				// insertion sort, descending score
				for i := 1; i < len(idx); i++ {
					for j := i; j > 0 && sc[idx[j]] > sc[idx[j-1]]; j-- {
						idx[j], idx[j-1] = idx[j-1], idx[j]
					}
				}
				for i := 1; i < len(idx); i++ {
					if !(sc[idx[i-1]] > sc[idx[i]]) {
						t++
						tieShard[s] = true
					}
				}
				ranks[s] = idx
			}
			mu.Lock()
			ties += t
			mu.Unlock()
		}(w*chunk, (w+1)*chunk)
	}
	wg.Wait()
	return ranks, tieShard, ties
}

var pathNames = [...]string{"none-healthy-top-owner", "window-all-healthy", "window-filtered", "fallback-next-healthy"}

// matches is expected() without allocations: it reports whether got is exactly
// the replica set the statement demands, and which clause applied.
func matches(got []string, rank []uint8, hosts []string, healthy []bool, anyHealthy bool, mr int) (bool, int) {
	if !anyHealthy {
		return len(got) == 1 && got[0] == hosts[rank[0]], 0
	}
	lim := mr
	if len(rank) < lim {
		lim = len(rank)
	}
	k, cnt, ok := 0, 0, true
	for i := 0; i < lim; i++ {
		if healthy[rank[i]] {
			if k < len(got) && got[k] == hosts[rank[i]] {
				k++
			} else {
				ok = false
			}
			cnt++
		}
	}
	if cnt > 0 {
		pi := 2
		if cnt == lim {
			pi = 1
		}
		return ok && k == len(got), pi
	}
	for i := lim; i < len(rank); i++ {
		if healthy[rank[i]] {
			return len(got) == 1 && got[0] == hosts[rank[i]], 3
		}
	}
	return false, 3 // unreachable: anyHealthy
}

// expected computes the replica set the statement demands.
func expected(rank []uint8, hosts []string, healthy map[string]bool, mr int) (exp []string, path string) {
	if len(healthy) == 0 {
		return []string{hosts[rank[0]]}, "none-healthy-top-owner"
	}
	for i := 0; i < mr && i < len(rank); i++ {
		if h := hosts[rank[i]]; healthy[h] {
			exp = append(exp, h)
		}
	}
	if len(exp) > 0 {
		if len(exp) == mr || len(exp) == len(rank) {
			return exp, "window-all-healthy"
		}
		return exp, "window-filtered"
	}
	for i := mr; i < len(rank); i++ {
		if h := hosts[rank[i]]; healthy[h] {
			return []string{h}, "fallback-next-healthy"
		}
	}
	// healthy set contains no member: statement's "no member is healthy" case
	return []string{hosts[rank[0]]}, "none-healthy-top-owner"
}

func eq(a, b []string) bool {
	if len(a) != len(b) {
		return false
	}
	for i := range a {
		if a[i] != b[i] {
			return false
		}
	}
	return true
}

// classify names the defect class of got vs exp.
func classify(got, exp []string, path string, members, healthy map[string]bool, mr int) string {
	if len(got) == 0 {
		return "empty-replica-set"
	}
	seen := map[string]bool{}
	anyHealthyMember := false
	for m := range members {
		if healthy[m] {
			anyHealthyMember = true
		}
	}
	for _, g := range got {
		if !members[g] {
			return "location-not-a-current-member"
		}
		if seen[g] {
			return "duplicate-location"
		}
		seen[g] = true
		if anyHealthyMember && !healthy[g] {
			return "unhealthy-location-while-a-member-is-healthy"
		}
	}
	if len(got) > mr {
		return "more-than-maxreplica-locations"
	}
	return "replica-set-mismatch/" + path
}

// ---------------------------------------------------------------------------

type activeChecker struct {
	mu   sync.Mutex
	fail map[string]bool
}

func (c *activeChecker) Check(_ context.Context, addr string) error {
	c.mu.Lock()
	defer c.mu.Unlock()
	if c.fail[addr] {
		return errors.New("scripted health check failure")
	}
	return nil
}

func (c *activeChecker) set(u map[string]bool) {
	c.mu.Lock()
	c.fail = u
	c.mu.Unlock()
}

func TestC21(t *testing.T) {
	run := ev.Start(t, "C21", "exploration",
		"PRNG-generated memberships (1-12 hosts on all 65536 shard ids; additional memberships of 13-24 hosts on every 16th/4th shard id; 5 naming styles) x MaxReplica 1-5 x 7 health scripts (all, none, one healthy, one unhealthy, "+
			"random half, mostly unhealthy, top owners of a shard unhealthy; the quick tier runs 4 memberships x 5 scripts); each configuration is evaluated on ALL 65536 shard ids, each shard on >= 4 real rings "+
			"that reached the membership through different Refresh histories / discovery orders (plus one ring behind the real passive or active health filter). "+
			"One case = (membership, MaxReplica, health script); it is non-trivial when the membership has >= 2 hosts. "+
			"Concurrent phase: transitions between (membership, health) states (swap, rolling replacement with unhealthy survivors, grow, shrink, health-only) are applied by Refresh while readers call "+
			"Locations on 192 shards - deterministically while a Watcher parks the Refresh inside Notify, and free-running; every answer must be the model's replica set of the state before or after, never a mixture. "+
			"One case per transition; non-trivial when the membership changed.")
	defer run.Finish()
	run.Assume("hrw.RendezvousHashNode.Score is the score function (its ordering contract is C22's subject); the oracle ranks with its own sort")
	run.Assume("the ring gives all members equal weight, so the ranking does not depend on the weight's value")
	run.Assume("host discovery order inside Ring.Refresh is Go map iteration order; it is measured through VerifC21NodeOrder, not controlled")

	// keep kraken's Info logging ("Hash ring initialised") out of the check log;
	// errors and the ring's log.Fatal invariant stay visible
	zc := zap.NewProductionConfig()
	zc.Encoding = "console"
	zc.Level = zap.NewAtomicLevelAt(zap.ErrorLevel)
	log.ConfigureLogger(zc)

	selfCheckOracle(t, run.Rand("oracle-self-check"))

	nSmall := run.N(4, 24)
	nBig := run.N(2, 6) // memberships of 13-24 hosts (sort.Sort leaves its small-slice path above 12 elements)
	for mi := 0; mi < nSmall+nBig; mi++ {
		r := run.Rand(fmt.Sprintf("membership-%d", mi))
		size := 1 + mi%12
		shardStride, shardOffset := 1, 0
		if mi >= nSmall {
			// big memberships: one in 13-17, the next in 18-24, ...; every 16th (thorough:
			// 4th) shard only, the offset moves with the seed
			bi := mi - nSmall
			if bi%2 == 0 {
				size = 13 + int(run.Seed()+int64(bi))%5
			} else {
				size = 18 + int(run.Seed()+int64(bi))%7
			}
			shardStride = run.N(16, 4)
			shardOffset = int(run.Seed()+int64(bi)) % shardStride
		}
		if run.Quick() && mi < nSmall {
			// four memberships spread over the size range; the seed shifts them so
			// that a few seeds cover most sizes
			size = []int{2, 4, 6, 9}[mi] + int(run.Seed()+int64(mi))%2
			if mi == 0 && run.Seed()%3 == 0 {
				size = 1
			}
		}
		hosts, style := genHosts(r, size)
		var mrs []int
		if run.Quick() {
			// one MaxReplica per membership, rotated by the seed so that other
			// seeds pair sizes and replica counts differently
			mrs = []int{1 + (mi+int(run.Seed()))%5}
		} else {
			// three of the five replica counts per membership, rotated
			k := mi + int(run.Seed())
			mrs = []int{1 + k%5, 1 + (k+2)%5, 1 + (k+3)%5}
		}
		suffix := gen.Hex(r, 60)
		digests := make([]core.Digest, numShards)
		for s := range digests {
			d, err := core.NewSHA256DigestFromHex(fmt.Sprintf("%04x", s) + suffix)
			if err != nil {
				t.Fatalf("digest: %v", err)
			}
			digests[s] = d
		}
		ranks, tieShard, ties := computeRanks(hosts)
		run.Count("oracle_score_ties", ties)
		evalMembership(t, run, r, mi, hosts, style, mrs, ranks, tieShard, digests, shardStride, shardOffset)
	}
	if run.ReplayCase() == "" || strings.HasPrefix(run.ReplayCase(), "inflight/") {
		concurrentPhase(run)
	}
}

func newRing(r *rand.Rand, kind ringKind, mr int, initial []string) *testRing {
	tr := &testRing{kind: kind, list: &scriptList{}}
	tr.list.set(initial)
	cfg := hashring.Config{MaxReplica: mr}
	switch kind {
	case kindScripted:
		tr.script = &scriptFilter{}
		tr.rec = &recFilter{inner: tr.script}
		tr.ring = hashring.New(cfg, tr.list, tr.rec, tally.NoopScope)
	case kindPassive:
		tr.clk = clock.NewMock()
		tr.pfails = 1 + r.Intn(3)
		tr.ptimout = time.Duration(1+r.Intn(300)) * time.Second
		pf := healthcheck.NewPassiveFilter(healthcheck.PassiveFilterConfig{Fails: tr.pfails, FailTimeout: tr.ptimout}, tr.clk)
		tr.rec = &recFilter{inner: pf, passive: pf}
		tr.pring = hashring.NewPassive(cfg, tr.list, tr.rec)
		tr.ring = tr.pring
	case kindActive:
		tr.checker = &activeChecker{}
		tr.afails = 1 + r.Intn(3)
		tr.apasses = 1 + r.Intn(3)
		af := healthcheck.NewFilter(healthcheck.FilterConfig{Fails: tr.afails, Passes: tr.apasses, Timeout: 10 * time.Minute}, tr.checker)
		tr.rec = &recFilter{inner: af}
		tr.ring = hashring.New(cfg, tr.list, tr.rec, tally.NoopScope)
	}
	return tr
}

// ringGroup is the set of rings sharing one MaxReplica.
type ringGroup struct {
	mr     int
	rings  []*testRing
	orders map[string]bool
}

func buildGroup(run *ev.Run, r *rand.Rand, mi, mr int, hosts, extra []string) *ringGroup {
	n := len(hosts)
	g := &ringGroup{mr: mr, orders: map[string]bool{}}
	// rings reaching the same membership through different histories
	{
		tr := newRing(r, kindScripted, mr, perm(r, hosts))
		tr.history = "direct"
		g.rings = append(g.rings, tr)
	}
	{
		sub := perm(r, hosts)[:1+r.Intn(n)]
		tr := newRing(r, kindScripted, mr, sub)
		tr.history = fmt.Sprintf("grow-from-%d", len(sub))
		g.rings = append(g.rings, tr)
	}
	{
		tr := newRing(r, kindScripted, mr, perm(r, append(append([]string(nil), hosts...), extra...)))
		tr.history = "shrink-from-superset"
		g.rings = append(g.rings, tr)
	}
	{
		tr := newRing(r, kindScripted, mr, perm(r, extra))
		tr.history = "replace-disjoint-membership"
		g.rings = append(g.rings, tr)
	}
	{
		kind := kindPassive
		if mi%2 == 1 {
			kind = kindActive
		}
		sub := perm(r, append(append([]string(nil), hosts...), extra[0]))
		tr := newRing(r, kind, mr, sub)
		tr.history = "real-" + kind.String() + "-filter,shrink-by-one"
		g.rings = append(g.rings, tr)
	}
	for _, tr := range g.rings {
		tr.list.set(perm(r, hosts))
		tr.ring.Refresh()
		// force a rebuild through a membership change until this ring's
		// discovery order differs from the earlier rings' (when n allows)
		for try := 0; try < 40; try++ {
			o := strings.Join(hashring.VerifC21NodeOrder(tr.ring), ",")
			if !g.orders[o] || n == 1 || (n == 2 && len(g.orders) >= 2) {
				break
			}
			drop := hosts[r.Intn(n)]
			var less []string
			for _, h := range hosts {
				if h != drop {
					less = append(less, h)
				}
			}
			less = append(less, extra[r.Intn(len(extra))])
			tr.list.set(perm(r, less))
			tr.ring.Refresh()
			tr.list.set(perm(r, hosts))
			tr.ring.Refresh()
		}
		g.orders[strings.Join(hashring.VerifC21NodeOrder(tr.ring), ",")] = true
		// membership sanity: the ring's members are exactly the list
		if got := sortedSet(tr.ring.Members()); !eq(got, sortedCopy(hosts)) {
			run.Violation("members-differ-from-host-list", fmt.Sprintf("m%d/mr%d", mi, mr),
				map[string]interface{}{"hosts": hosts, "members": got, "history": tr.history})
		}
	}
	run.Count("rings_built", int64(len(g.rings)))
	run.Count("distinct_discovery_orders_compared", int64(len(g.orders)))
	run.Distinct("discovery_orders_per_ring_group", fmt.Sprintf("n=%d orders=%d", n, len(g.orders)))
	return g
}

const encSkipped = ^uint64(0) - 1

type bad struct {
	sig     string
	witness map[string]interface{}
}

// encode packs a replica set into a word (member index+1, 5 bits each) so that
// rings can be compared after their passes; ok=false when it does not fit.
func encode(got []string, index map[string]int) (uint64, bool) {
	if len(got) > 12 {
		return 0, false
	}
	var w uint64
	for _, g := range got {
		i, ok := index[g]
		if !ok {
			return 0, false
		}
		w = w<<5 | uint64(i+1) // up to 31 members
	}
	return w, true
}

func evalMembership(t *testing.T, run *ev.Run, r *rand.Rand, mi int, hosts []string, style string, mrs []int,
	ranks [][]uint8, tieShard []bool, digests []core.Digest, shardStride, shardOffset int) {

	n := len(hosts)
	members := map[string]bool{}
	index := map[string]int{}
	for i, h := range hosts {
		members[h] = true
		index[h] = i
	}
	extra, _ := genHosts(r, 3)
	for i := range extra {
		extra[i] = "x-" + extra[i] // never a member of the target membership
	}
	var groups []*ringGroup
	for _, mr := range mrs {
		groups = append(groups, buildGroup(run, r, mi, mr, hosts, extra))
	}
	scripts := make([][]healthScript, len(groups))
	for gi, g := range groups {
		scripts[gi] = genScripts(r, hosts, g.mr, ranks, run.Quick())
	}
	replay := run.ReplayCase()

	for si := range scripts[0] {
		// steer every ring's filter, then read back what the filter really returned
		type pass struct {
			g       *ringGroup
			tr      *testRing
			ri      int
			skip    int // quick tier: scripted rings 1-3 leave out the shards with s%3 == skip (-1: none)
			calls   int64
			healthy map[string]bool
			enc     []uint64
			paths   map[string]int64
			bads    []bad
			caseID  string
			script  string
		}
		var passes []*pass
		for gi, g := range groups {
			hs := scripts[gi][si]
			caseID := fmt.Sprintf("m%d/mr%d/%s", mi, g.mr, hs.name)
			if replay != "" && replay != caseID {
				continue
			}
			for ri, tr := range g.rings {
				tr.applyHealth(hs.u, hosts)
				in, out := tr.rec.last()
				if !eq(in, sortedCopy(hosts)) {
					run.Violation("filter-not-run-on-current-members", caseID, map[string]interface{}{"in": in, "hosts": hosts})
				}
				h := map[string]bool{}
				for _, x := range out {
					h[x] = true
				}
				skip := -1
				if run.Quick() && ri >= 1 && ri <= 3 {
					// every shard is still judged on ring 0, on the real-filter ring and on
					// two of these three rings (>= 4 rings per shard)
					skip = ri - 1
				}
				passes = append(passes, &pass{g: g, tr: tr, ri: ri, skip: skip, healthy: h, enc: make([]uint64, numShards),
					paths: map[string]int64{}, caseID: caseID, script: hs.name})
			}
		}
		// one goroutine per ring: all 65536 shards, judged against the oracle
		var wg sync.WaitGroup
		var pmu sync.Mutex
		chunks := 1
		if len(passes) > 0 && len(passes) < workers {
			chunks = (workers + len(passes) - 1) / len(passes)
		}
		for ci := 0; ci < len(passes)*chunks; ci++ {
			p := passes[ci/chunks]
			lo := (ci % chunks) * numShards / chunks
			hi := (ci%chunks + 1) * numShards / chunks
			wg.Add(1)
			go func(p *pass, lo, hi int) {
				defer wg.Done()
				var paths [len(pathNames)]int64
				defer func() {
					pmu.Lock()
					for k, v := range paths {
						if v > 0 {
							p.paths[pathNames[k]] += v
						}
					}
					pmu.Unlock()
				}()
				hIdx := make([]bool, len(hosts))
				anyHealthy := false
				for i, h := range hosts {
					if p.healthy[h] {
						hIdx[i] = true
						anyHealthy = true
					}
				}
				var calls int64
				defer func() { pmu.Lock(); p.calls += calls; pmu.Unlock() }()
				for s := lo; s < hi; s++ {
					if (p.skip >= 0 && s%3 == p.skip) || s%shardStride != shardOffset {
						p.enc[s] = encSkipped
						continue
					}
					calls++
					got := p.tr.ring.Locations(digests[s])
					// allocation-free comparison with the oracle; the expected list is only
					// materialised for a witness
					okFast, pi := matches(got, ranks[s], hosts, hIdx, anyHealthy, p.g.mr)
					paths[pi]++
					if okFast || tieShard[s] {
						if e, ok := encode(got, index); ok {
							p.enc[s] = e
						} else {
							p.enc[s] = ^uint64(0)
						}
						continue
					}
					exp, path := expected(ranks[s], hosts, p.healthy, p.g.mr)
					if e, ok := encode(got, index); ok {
						p.enc[s] = e
					} else {
						p.enc[s] = ^uint64(0)
					}
					// a shard on which two members score equally has no defined rank: only
					// the cross-ring comparison below applies there
					if !tieShard[s] && !eq(got, exp) {
						pmu.Lock()
						full := len(p.bads) >= 3
						pmu.Unlock()
						if full {
							continue
						}
						b := bad{classify(got, exp, path, members, p.healthy, p.g.mr), map[string]interface{}{
							"shard": fmt.Sprintf("%04x", s), "hosts": hosts, "max_replica": p.g.mr, "health_script": p.script,
							"healthy": keys(p.healthy), "ring": p.tr.history, "ring_filter": p.tr.kind.String(),
							"discovery_order": hashring.VerifC21NodeOrder(p.tr.ring),
							"got":             got, "expected": exp, "oracle_rank": rankNames(ranks[s], hosts),
						}}
						pmu.Lock()
						p.bads = append(p.bads, b)
						pmu.Unlock()
					}
				}
			}(p, lo, hi)
		}
		wg.Wait()
		for _, p := range passes {
			sort.Slice(p.bads, func(i, j int) bool {
				return fmt.Sprint(p.bads[i].witness["shard"]) < fmt.Sprint(p.bads[j].witness["shard"])
			})
		}

		// per (MaxReplica, script): cross-ring agreement, bookkeeping, verdicts
		for i := 0; i < len(passes); {
			j := i
			for j < len(passes) && passes[j].g == passes[i].g {
				j++
			}
			grp := passes[i:j]
			first := grp[0]
			var bads []bad
			for _, p := range grp {
				bads = append(bads, p.bads...)
				if p == first || !sameSet(p.healthy, first.healthy) {
					continue
				}
				run.Count("ring_pairs_compared", 1)
				for s := 0; s < numShards; s++ {
					if p.enc[s] != first.enc[s] && p.enc[s] != encSkipped && first.enc[s] != encSkipped {
						bads = append(bads, bad{"rings-disagree-on-same-membership-and-health", map[string]interface{}{
							"shard": fmt.Sprintf("%04x", s), "hosts": hosts, "max_replica": p.g.mr, "healthy": keys(p.healthy),
							"ring_a": first.tr.history, "order_a": hashring.VerifC21NodeOrder(first.tr.ring), "got_a": first.tr.ring.Locations(digests[s]),
							"ring_b": p.tr.history, "order_b": hashring.VerifC21NodeOrder(p.tr.ring), "got_b": p.tr.ring.Locations(digests[s]),
						}})
						break
					}
				}
			}
			hl := keys(first.healthy)
			run.Case(ev.JSON(map[string]interface{}{"hosts": sortedCopy(hosts), "mr": first.g.mr, "healthy": hl, "script": first.script}), n >= 2)
			for _, p := range grp {
				run.Count("locations_calls", p.calls)
			}
			for k, v := range first.paths {
				run.Count("shards_"+k, v)
			}
			for _, p := range grp {
				run.Count("ring_passes_filter_"+p.tr.kind.String(), 1)
			}
			run.Distinct("membership_sizes", fmt.Sprint(n))
			run.Distinct("host_styles", style)
			if run.WantSample() && mi%2 == 1 && first.script == "mostly-unhealthy" {
				s := r.Intn(numShards)
				run.Sample(map[string]interface{}{"case": first.caseID, "hosts": hosts, "max_replica": first.g.mr, "healthy": hl,
					"shard": fmt.Sprintf("%04x", s), "locations": first.tr.ring.Locations(digests[s]),
					"oracle_rank": rankNames(ranks[s], hosts), "rings": len(grp), "discovery_orders": len(first.g.orders)})
			}
			for _, b := range bads {
				run.Violation(b.sig, first.caseID, b.witness)
			}
			i = j
		}
	}
}

func sortedCopy(xs []string) []string {
	out := append([]string(nil), xs...)
	sort.Strings(out)
	return out
}

func keys(m map[string]bool) []string {
	out := make([]string, 0, len(m))
	for k := range m {
		out = append(out, k)
	}
	sort.Strings(out)
	return out
}

func sameSet(a, b map[string]bool) bool {
	if len(a) != len(b) {
		return false
	}
	for k := range a {
		if !b[k] {
			return false
		}
	}
	return true
}

func rankNames(rank []uint8, hosts []string) []string {
	out := make([]string, len(rank))
	for i, x := range rank {
		out[i] = hosts[x]
	}
	return out
}

// ---------------------------------------------------------------------------
// concurrent phase: Locations while a Refresh is in flight

// parkWatcher parks every Notify (i.e. every membership-changing Refresh, after
// the new hash was built and before it is published) until released.
type parkWatcher struct {
	armed   chan struct{} // non-nil buffered(1) token => park the next Notify
	entered chan struct{}
	release chan struct{}
}

func (w *parkWatcher) Notify(stringset.Set) {
	select {
	case <-w.armed:
		w.entered <- struct{}{}
		<-w.release
	default:
	}
}

type ringState struct {
	Members []string `json:"members"`
	Healthy []string `json:"healthy"`
}

// model answers for one state on the sampled shards
func modelAnswers(st ringState, shards []int, mr int) [][]string {
	rh := hrw.NewRendezvousHash(hrw.Murmur3Hash, hrw.UInt64ToFloat64)
	nodes := make([]*hrw.RendezvousHashNode, len(st.Members))
	for i, h := range st.Members {
		nodes[i] = &hrw.RendezvousHashNode{RHash: rh, Label: h, Weight: 100}
	}
	healthy := map[string]bool{}
	for _, h := range st.Healthy {
		healthy[h] = true
	}
	out := make([][]string, len(shards))
	for si, s := range shards {
		key := fmt.Sprintf("%04x", s)
		sc := make([]float64, len(nodes))
		idx := make([]uint8, len(nodes))
		for i, nd := range nodes {
			sc[i] = nd.Score(key)
			idx[i] = uint8(i)
		}
		sort.SliceStable(idx, func(a, b int) bool { return sc[idx[a]] > sc[idx[b]] })
		out[si], _ = expected(idx, st.Members, healthy, mr)
	}
	return out
}

func genTransition(r *rand.Rand, from ringState, pool []string) (ringState, string) {
	in := map[string]bool{}
	for _, h := range from.Members {
		in[h] = true
	}
	var outside []string
	for _, h := range pool {
		if !in[h] {
			outside = append(outside, h)
		}
	}
	r.Shuffle(len(outside), func(i, j int) { outside[i], outside[j] = outside[j], outside[i] })
	pick := func(xs []string, p int) []string { // keep each with probability p/10
		var o []string
		for _, x := range xs {
			if r.Intn(10) < p {
				o = append(o, x)
			}
		}
		return o
	}
	var to ringState
	kind := ""
	switch c := r.Intn(6); {
	case c == 0 && len(outside) >= 2:
		kind = "swap-to-disjoint-membership"
		to.Members = append([]string(nil), outside[:2+r.Intn(len(outside)-1)]...)
		to.Healthy = pick(to.Members, 7)
	case c == 1 && len(outside) >= 1 && len(from.Members) >= 2:
		kind = "rolling-replacement-survivors-unhealthy"
		keep := perm(r, from.Members)[:1+r.Intn(len(from.Members)-1)]
		fresh := outside[:1+r.Intn(len(outside))]
		to.Members = append(append([]string(nil), keep...), fresh...)
		to.Healthy = append([]string(nil), fresh...) // only the newcomers are healthy
	case c == 2 && len(outside) >= 1:
		kind = "grow"
		to.Members = append(append([]string(nil), from.Members...), outside[:1+r.Intn(len(outside))]...)
		to.Healthy = pick(to.Members, 6)
	case c == 3 && len(from.Members) >= 2:
		kind = "shrink"
		to.Members = perm(r, from.Members)[:1+r.Intn(len(from.Members)-1)]
		to.Healthy = pick(to.Members, 6)
	case c == 4:
		kind = "health-only"
		to.Members = append([]string(nil), from.Members...)
		to.Healthy = pick(to.Members, 5)
	default:
		kind = "health-only-all-unhealthy-or-all-healthy"
		to.Members = append([]string(nil), from.Members...)
		if r.Intn(2) == 0 {
			to.Healthy = append([]string(nil), from.Members...)
		}
	}
	sort.Strings(to.Members)
	sort.Strings(to.Healthy)
	return to, kind
}

func concurrentPhase(run *ev.Run) {
	const readers = 4
	nRings := run.N(6, 40)
	nTrans := run.N(30, 120)
	replay := run.ReplayCase()
	for ri := 0; ri < nRings; ri++ {
		r := run.Rand(fmt.Sprintf("inflight-%d", ri))
		pool, _ := genHosts(r, 10)
		mr := 1 + (ri+int(run.Seed()))%5
		shards := make([]int, 192)
		for i := range shards {
			shards[i] = r.Intn(numShards)
		}
		digests := make([]core.Digest, len(shards))
		for i, s := range shards {
			digests[i], _ = core.NewSHA256DigestFromHex(fmt.Sprintf("%04x", s) + gen.Hex(r, 60))
		}
		cur := ringState{Members: sortedCopy(perm(r, pool)[:1+r.Intn(5)])}
		cur.Healthy = append([]string(nil), cur.Members...)
		list := &scriptList{}
		list.set(cur.Members)
		flt := &scriptFilter{}
		w := &parkWatcher{armed: make(chan struct{}, 1), entered: make(chan struct{}), release: make(chan struct{})}
		ring := hashring.New(hashring.Config{MaxReplica: mr}, list, flt, tally.NoopScope, hashring.WithWatcher(w))
		apply := func(st ringState) {
			list.set(perm(r, st.Members))
			u := map[string]bool{}
			for _, h := range st.Members {
				u[h] = true
			}
			for _, h := range st.Healthy {
				delete(u, h)
			}
			flt.setUnhealthy(u)
		}
		curModel := modelAnswers(cur, shards, mr)

		// --- deterministic part: the Refresh is parked inside Watcher.Notify
		for ti := 0; ti < nTrans; ti++ {
			caseID := fmt.Sprintf("inflight/ring%d/t%d", ri, ti)
			next, kind := genTransition(r, cur, pool)
			if replay != "" && replay != caseID {
				// the history must still be replayed up to the wanted transition
				apply(next)
				ring.Refresh()
				cur, curModel = next, modelAnswers(next, shards, mr)
				continue
			}
			nextModel := modelAnswers(next, shards, mr)
			membershipChanges := !eq(cur.Members, next.Members)
			apply(next)
			w.armed <- struct{}{}
			done := make(chan struct{})
			go func() { ring.Refresh(); close(done) }()
			parked := false
			select {
			case <-w.entered:
				parked = true
			case <-done:
			case <-time.After(2 * time.Minute):
				run.Inconclusive(caseID + ": watchdog: Refresh neither reached the watcher nor returned within 2 minutes")
				return
			}
			type obs struct {
				shard int
				got   []string
			}
			var mu sync.Mutex
			var bad []obs
			var matchedOld, matchedNew, total int64
			if parked {
				var wg sync.WaitGroup
				for g := 0; g < readers; g++ {
					wg.Add(1)
					go func(g int) {
						defer wg.Done()
						for si := g; si < len(shards); si += readers {
							got := ring.Locations(digests[si])
							o, n := eq(got, curModel[si]), eq(got, nextModel[si])
							mu.Lock()
							total++
							if o {
								matchedOld++
							}
							if n {
								matchedNew++
							}
							if !o && !n && len(bad) < 3 {
								bad = append(bad, obs{si, got})
							}
							mu.Unlock()
						}
					}(g)
				}
				wg.Wait()
				w.release <- struct{}{}
				select {
				case <-done:
				case <-time.After(2 * time.Minute):
					run.Inconclusive(caseID + ": watchdog: released Refresh did not return within 2 minutes")
					return
				}
			} else {
				select { // un-arm
				case <-w.armed:
				default:
				}
			}
			sort.Slice(bad, func(i, j int) bool { return bad[i].shard < bad[j].shard })
			for _, b := range bad {
				sig := "inflight-refresh-answer-is-neither-the-old-nor-the-new-replica-set"
				if len(b.got) == 0 {
					sig = "inflight-refresh-empty-replica-set"
				}
				run.Violation(sig, caseID, map[string]interface{}{"transition": kind, "max_replica": mr, "state_before": cur, "state_after": next,
					"shard": fmt.Sprintf("%04x", shards[b.shard]), "got": b.got, "model_before": curModel[b.shard], "model_after": nextModel[b.shard],
					"when": "Refresh parked inside Watcher.Notify"})
			}
			// quiescent again: everything must be the new state
			for si := range shards {
				if got := ring.Locations(digests[si]); !eq(got, nextModel[si]) {
					run.Violation("answer-after-refresh-differs-from-the-new-state", caseID, map[string]interface{}{"transition": kind, "max_replica": mr,
						"state_before": cur, "state_after": next, "shard": fmt.Sprintf("%04x", shards[si]), "got": got, "model_after": nextModel[si]})
					break
				}
			}
			run.Case(ev.JSON(map[string]interface{}{"from": cur, "to": next, "mr": mr}), membershipChanges)
			run.Count("inflight_transitions_"+kind, 1)
			if parked {
				run.Count("inflight_refreshes_parked_in_notify", 1)
				if ti < 12 && ri == 0 && membershipChanges && matchedOld+matchedNew > 0 && run.WantSample() {
					run.Sample(map[string]interface{}{"case": caseID, "transition": kind, "max_replica": mr, "state_before": cur, "state_after": next,
						"answers_while_refresh_parked": total, "equal_to_old_state": matchedOld, "equal_to_new_state": matchedNew})
				}
			}
			run.Count("inflight_answers_judged", total)
			run.Count("inflight_answers_equal_to_old_state", matchedOld)
			run.Count("inflight_answers_equal_to_new_state", matchedNew)
			cur, curModel = next, nextModel
		}
		if replay != "" {
			continue
		}

		// --- free-running part: one refresher walks through states while readers
		// keep asking; an answer must match a state that could be published
		// between the start and the end of the call
		nFree := run.N(60, 300)
		states := []ringState{cur}
		models := [][][]string{curModel}
		for i := 1; i <= nFree; i++ {
			st, _ := genTransition(r, states[i-1], pool)
			states = append(states, st)
			models = append(models, modelAnswers(st, shards, mr))
		}
		var started, finished int64 // index of the state being / last applied (guarded by smu)
		var smu sync.Mutex
		stop := make(chan struct{})
		var wg sync.WaitGroup
		var fmu sync.Mutex
		var freeBad []map[string]interface{}
		var freeTotal, freeAmbiguous int64
		for g := 0; g < readers; g++ {
			wg.Add(1)
			go func(g int) {
				defer wg.Done()
				si := g
				for {
					select {
					case <-stop:
						return
					default:
					}
					si = (si + readers) % len(shards)
					smu.Lock()
					lo := finished
					smu.Unlock()
					got := ring.Locations(digests[si])
					smu.Lock()
					hi := started
					smu.Unlock()
					ok := false
					for j := lo; j <= hi && !ok; j++ {
						ok = eq(got, models[j][si])
					}
					fmu.Lock()
					freeTotal++
					if hi > lo {
						freeAmbiguous++
					}
					if !ok && len(freeBad) < 3 {
						freeBad = append(freeBad, map[string]interface{}{"max_replica": mr, "shard": fmt.Sprintf("%04x", shards[si]), "got": got,
							"states_possibly_published": states[lo : hi+1], "when": "free-running Refresh"})
					}
					fmu.Unlock()
				}
			}(g)
		}
		for i := 1; i <= nFree; i++ {
			apply(states[i])
			smu.Lock()
			started = int64(i)
			smu.Unlock()
			ring.Refresh()
			smu.Lock()
			finished = int64(i)
			smu.Unlock()
			// let the readers see every state a few times (count-based, no clock)
			for target := int64(i) * 12; ; {
				fmu.Lock()
				seen := freeTotal
				fmu.Unlock()
				if seen >= target {
					break
				}
				runtime.Gosched()
			}
		}
		close(stop)
		wg.Wait()
		run.Count("freerunning_refreshes", int64(nFree))
		run.Count("freerunning_answers_judged", freeTotal)
		run.Count("freerunning_answers_overlapping_a_refresh", freeAmbiguous)
		for _, b := range freeBad {
			sig := "inflight-refresh-answer-is-neither-the-old-nor-the-new-replica-set"
			if g, _ := b["got"].([]string); len(g) == 0 {
				sig = "inflight-refresh-empty-replica-set"
			}
			run.Violation(sig, fmt.Sprintf("inflight/ring%d/free", ri), b)
		}
	}
}

// selfCheckOracle cross-checks the allocation-free matches() against the plain
// expected() on random ranks / health sets / answers (harness self-test).
func selfCheckOracle(t *testing.T, r *rand.Rand) {
	for it := 0; it < 40000; it++ {
		n := 1 + r.Intn(8)
		hosts := make([]string, n)
		rank := make([]uint8, n)
		for i := range hosts {
			hosts[i] = fmt.Sprintf("h%d", i)
			rank[i] = uint8(i)
		}
		r.Shuffle(n, func(i, j int) { rank[i], rank[j] = rank[j], rank[i] })
		healthy := map[string]bool{}
		hIdx := make([]bool, n)
		p := r.Intn(11)
		for i := range hosts {
			if r.Intn(10) < p {
				healthy[hosts[i]] = true
				hIdx[i] = true
			}
		}
		mr := 1 + r.Intn(5)
		exp, path := expected(rank, hosts, healthy, mr)
		// candidate answers: the expected one and perturbations of it
		cands := [][]string{exp, nil, {hosts[r.Intn(n)]}, append(append([]string(nil), exp...), hosts[r.Intn(n)])}
		if len(exp) > 1 {
			cands = append(cands, exp[1:], exp[:len(exp)-1], []string{exp[1], exp[0]})
		}
		for _, c := range cands {
			ok, pi := matches(c, rank, hosts, hIdx, len(healthy) > 0, mr)
			if ok != eq(c, exp) || pathNames[pi] != path {
				t.Fatalf("harness self-check: matches()=%v/%s but expected()=%v/%s for got=%v rank=%v healthy=%v mr=%d",
					ok, pathNames[pi], exp, path, c, rank, healthy, mr)
			}
		}
	}
}
