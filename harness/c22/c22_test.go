// C22: rendezvous ordering is insertion-independent and minimally disruptive.
//
// Oracle-gen monitor on the real hrw.RendezvousHash. For every shipped
// hash/score pairing and PRNG-generated weighted node sets (1-16 nodes), the
// ordered node list of every key of an exhaustive key space (all 65 536
// four-hex shard ids, all two-hex volume sub-directory keys) plus random long
// hex keys is checked to be a permutation of the nodes in non-increasing Score
// order, equal on rings populated in different insertion orders (and through
// add/remove histories), prefix-consistent for smaller n, and to change by
// exactly one deletion / insertion when a node is removed (RemoveNode) or
// added (AddNode).
package c22

import (
	"crypto/md5"
	"crypto/sha256"
	"encoding/hex"
	"fmt"
	"hash"
	"math"
	"math/rand"
	"sort"
	"strings"
	"sync"
	"testing"

	"github.com/uber/kraken/lib/hrw"

	"verif/harness/internal/ev"
	"verif/harness/internal/gen"
)

type pairing struct {
	name       string
	hash       hrw.HashFactory
	score      hrw.UIntToFloat
	exhaustive bool
	rehash     bool // UInt64ToFloat64 over murmur3: has the re-hash-on-zero branch
}

var pairings = []pairing{
	// the pairing used by lib/hashring and by the CAStore volume mapping
	{"murmur3+UInt64ToFloat64", hrw.Murmur3Hash, hrw.UInt64ToFloat64, true, true},
	{"sha256+BigIntToFloat64", func() hash.Hash { return sha256.New() }, hrw.BigIntToFloat64, false, false},
	{"md5+BigIntToFloat64", func() hash.Hash { return md5.New() }, hrw.BigIntToFloat64, false, false},
	{"murmur3+BigIntToFloat64", hrw.Murmur3Hash, hrw.BigIntToFloat64, false, false},
}

type node struct {
	Label  string `json:"label"`
	Weight int    `json:"weight"`
}

func genNodes(r *rand.Rand, n int, forceLabelStyle int) (nodes []node, style string) {
	ls := r.Intn(7)
	if forceLabelStyle >= 0 {
		ls = forceLabelStyle
	}
	fqdnPrefix := [...]string{"kraken-origin-", "kraken-build-index-", "tracker-"}[r.Intn(3)]
	fqdnDomain := [...]string{".prod.dc1.example.internal", ".kraken.prod.dca11.example.internal", ".staging.phx2.corp.example.com"}[r.Intn(3)]
	fqdnHost := fqdnPrefix + fmt.Sprintf("%03d", r.Intn(1000)) + fqdnDomain
	ws := r.Intn(4)
	style = [...]string{"host:port", "volume-path", "small-int", "near-identical", "random-string", "fqdn:port-common-prefix", "fqdn:port-differing-in-last-digits"}[ls] + "/" +
		[...]string{"equal-100", "uniform-1..500", "extremes-1-or-500", "near-equal"}[ws]
	seen := map[string]bool{}
	for len(nodes) < n {
		var l string
		switch ls {
		case 0:
			l = fmt.Sprintf("10.%d.%d.%d:%d", r.Intn(256), r.Intn(256), r.Intn(256), 15000+r.Intn(4))
		case 1:
			l = fmt.Sprintf("/data/disk%d/kraken", r.Intn(64))
		case 2:
			l = fmt.Sprint(r.Intn(40))
		case 3:
			l = fmt.Sprintf("kraken-origin%02d-dca1:15002", r.Intn(40))
		case 4:
			l = gen.PathSegment(r) + gen.Hex(r, r.Intn(6))
		case 5:
			// 30-60 characters, long common prefix and suffix
			l = fmt.Sprintf("%s%03d%s:15002", fqdnPrefix, r.Intn(1000), fqdnDomain)
		case 6:
			// one host name, addresses differ only in the last one or two characters
			l = fmt.Sprintf("%s:150%02d", fqdnHost, r.Intn(100))
		}
		if seen[l] {
			continue
		}
		seen[l] = true
		var w int
		switch ws {
		case 0:
			w = 100
		case 1:
			w = 1 + r.Intn(500)
		case 2:
			w = []int{1, 500}[r.Intn(2)]
		case 3:
			w = 99 + r.Intn(3)
		}
		nodes = append(nodes, node{l, w})
	}
	return nodes, style
}

// independentScore restates the weighted rendezvous score without going through
// the node: it hashes the complete key bytes followed by the complete label
// itself and only reuses the exported hash-to-float conversion.
func independentScore(p pairing, key, label string, weight int) float64 {
	kb, err := hex.DecodeString(key)
	if err != nil {
		return math.NaN()
	}
	h := p.hash()
	h.Write(kb)
	h.Write([]byte(label))
	sum := h.Sum(nil)
	max := make([]byte, len(sum))
	for i := range max {
		max[i] = 0xFF
	}
	return -float64(weight) / math.Log(p.score(sum, max, h))
}

func build(p pairing, nodes []node) *hrw.RendezvousHash {
	rh := hrw.NewRendezvousHash(p.hash, p.score)
	for _, n := range nodes {
		rh.AddNode(n.Label, n.Weight)
	}
	return rh
}

func permNodes(r *rand.Rand, xs []node) []node {
	out := append([]node(nil), xs...)
	r.Shuffle(len(out), func(i, j int) { out[i], out[j] = out[j], out[i] })
	return out
}

func labels(ns []*hrw.RendezvousHashNode) []string {
	out := make([]string, len(ns))
	for i, n := range ns {
		out[i] = n.Label
	}
	return out
}

func eq(a, b []string) bool {
	if len(a) != len(b) {
		return false
	}
	for i := range a {
		if a[i] != b[i] {
			return false
		}
	}
	return true
}

func without(l []string, x string) []string {
	out := make([]string, 0, len(l))
	for _, y := range l {
		if y != x {
			out = append(out, y)
		}
	}
	return out
}

// task is one (node set, key chunk) unit of work.
type task struct {
	id        string
	p         pairing
	nodes     []node
	style     string
	keys      []string
	stride    int
	seed      int64
	nperms    int
	newcomers []node
	special   map[string]bool // crafted keys: exercised by every removal even in the quick tier
	liveSteps int
}

type finding struct {
	sig     string
	witness map[string]interface{}
}

type result struct {
	keys, orderings, removals, additions, prefixes, ties int64
	rehashHits, liveSteps, liveLookups                   int64
	liveKinds                                            map[string]int64
	distinctPerms                                        int
	findings                                             []finding
}

func (res *result) add(sig string, w map[string]interface{}) {
	for _, f := range res.findings {
		if f.sig == sig {
			return // one witness per class and task is enough
		}
	}
	res.findings = append(res.findings, finding{sig, w})
}

func runTask(tk *task) *result {
	res := &result{}
	r := rand.New(rand.NewSource(tk.seed))
	n := len(tk.nodes)
	base := func(extra map[string]interface{}) map[string]interface{} {
		m := map[string]interface{}{"pairing": tk.p.name, "nodes": tk.nodes}
		for k, v := range extra {
			m[k] = v
		}
		return m
	}

	// rings populated in different insertion orders / through different histories
	type ringT struct {
		rh    *hrw.RendezvousHash
		order []node
		hist  string
	}
	var rings []ringT
	seenPerm := map[string]bool{}
	for j := 0; j < tk.nperms; j++ {
		var order []node
		switch j {
		case 0:
			order = append([]node(nil), tk.nodes...)
		case 1:
			order = append([]node(nil), tk.nodes...)
			for a, b := 0, len(order)-1; a < b; a, b = a+1, b-1 {
				order[a], order[b] = order[b], order[a]
			}
		default:
			order = permNodes(r, tk.nodes)
		}
		rt := ringT{order: order, hist: "add-in-order"}
		if j == tk.nperms-1 {
			// reach the same node set through additions and removals of foreign nodes
			rt.hist = "add-with-foreign-nodes-then-remove-them"
			mixed := permNodes(r, append(append([]node(nil), order...), tk.newcomers...))
			rt.rh = build(tk.p, mixed)
			for _, f := range tk.newcomers {
				rt.rh.RemoveNode(f.Label)
			}
			rt.order = nil
			for _, nd := range rt.rh.Nodes {
				rt.order = append(rt.order, node{nd.Label, nd.Weight})
			}
		} else {
			rt.rh = build(tk.p, order)
		}
		var sb strings.Builder
		for _, o := range rt.order {
			sb.WriteString(o.Label)
			sb.WriteByte(0)
		}
		seenPerm[sb.String()] = true
		rings = append(rings, rt)
	}
	res.distinctPerms = len(seenPerm)
	ref := rings[0].rh

	want := map[string]bool{}
	for _, nd := range tk.nodes {
		want[nd.Label] = true
	}

	// pass 1: reference lists, sortedness, permutation, insertion independence, prefixes
	full := make([][]string, len(tk.keys))
	for ki, k := range tk.keys {
		got := ref.GetOrderedNodes(k, n)
		l := labels(got)
		full[ki] = l
		res.keys++
		ok := len(l) == n
		if ok {
			seen := map[string]bool{}
			for _, x := range l {
				if !want[x] || seen[x] {
					ok = false
				}
				seen[x] = true
			}
		}
		if !ok {
			res.add("result-not-a-permutation-of-the-nodes/"+tk.p.name, base(map[string]interface{}{"key": k, "got": l}))
			continue
		}
		scores := make([]float64, n)
		indep := make([]float64, n)
		tie := false
		for i, nd := range got {
			if tk.p.rehash && gen.MurmurLow53Zero(k, nd.Label) {
				res.rehashHits++ // this (key, node) drives UInt64ToFloat64 through its re-hash branch
			}
			scores[i] = nd.Score(k)
			indep[i] = independentScore(tk.p, k, nd.Label, nd.Weight)
			if i > 0 && indep[i-1] < indep[i] {
				res.add("not-sorted-by-score-of-the-full-key-and-label/"+tk.p.name,
					base(map[string]interface{}{"key": k, "key_hex_digits": len(k), "got": l, "independent_scores": indep[:i+1]}))
			}
			if math.IsNaN(scores[i]) {
				res.add("nan-score-for-valid-hex-key/"+tk.p.name, base(map[string]interface{}{"key": k, "node": nd.Label}))
			}
			if i > 0 {
				if scores[i-1] < scores[i] {
					res.add("not-sorted-by-descending-score/"+tk.p.name,
						base(map[string]interface{}{"key": k, "got": l, "scores": scores[:i+1]}))
				}
				if scores[i-1] == scores[i] {
					tie = true
				}
			}
		}
		if tie {
			res.ties++
		}
		for _, rt := range rings[1:] {
			o := labels(rt.rh.GetOrderedNodes(k, n))
			res.orderings++
			if !eq(o, l) {
				sig := "order-depends-on-insertion-order/" + tk.p.name
				if tie {
					sig = "order-depends-on-insertion-order/equal-scores/" + tk.p.name
				}
				res.add(sig, base(map[string]interface{}{"key": k, "insertion_a": rings[0].order, "list_a": l,
					"insertion_b": rt.order, "history_b": rt.hist, "list_b": o}))
			}
		}
		// prefixes: n'=1 (what CAStore asks for) and one other n'
		for _, np := range []int{1, r.Intn(n + 3)} {
			pl := labels(ref.GetOrderedNodes(k, np))
			res.prefixes++
			m := np
			if m > n {
				m = n
			}
			if !eq(pl, l[:m]) {
				res.add("shorter-list-is-not-a-prefix/"+tk.p.name, base(map[string]interface{}{"key": k, "n": np, "got": pl, "full": l}))
			}
		}
	}

	// pass 2: every single removal and its re-addition; in the quick tier node x
	// is exercised on every stride-th key (offset x)
	for xi, x := range tk.nodes {
		work := build(tk.p, permNodes(r, tk.nodes))
		before := len(work.Nodes)
		work.RemoveNode(x.Label)
		if len(work.Nodes) != before-1 {
			res.add("removenode-did-not-remove-exactly-one/"+tk.p.name, base(map[string]interface{}{"removed": x.Label}))
			continue
		}
		sel := func(ki int) bool { return (ki+xi)%tk.stride == 0 || tk.special[tk.keys[ki]] }
		for ki, k := range tk.keys {
			if !sel(ki) || len(full[ki]) != n {
				continue
			}
			o := labels(work.GetOrderedNodes(k, n))
			res.removals++
			if exp := without(full[ki], x.Label); !eq(o, exp) {
				res.add("removal-changes-more-than-the-removed-node/"+tk.p.name,
					base(map[string]interface{}{"key": k, "removed": x.Label, "before": full[ki], "after": o, "expected": exp}))
			}
		}
		work.AddNode(x.Label, x.Weight)
		for ki, k := range tk.keys {
			if !sel(ki) || len(full[ki]) != n {
				continue
			}
			o := labels(work.GetOrderedNodes(k, n))
			res.additions++
			if !eq(o, full[ki]) {
				res.add("addition-changes-more-than-the-added-node/"+tk.p.name,
					base(map[string]interface{}{"key": k, "added": x.Label, "before": without(full[ki], x.Label), "after": o, "expected": full[ki]}))
			}
		}
	}
	// pass 3: brand-new nodes
	for fi, f := range tk.newcomers {
		work := build(tk.p, permNodes(r, tk.nodes))
		work.AddNode(f.Label, f.Weight)
		for ki, k := range tk.keys {
			if ((ki+fi)%tk.stride != 0 && !tk.special[k]) || len(full[ki]) != n {
				continue
			}
			o := labels(work.GetOrderedNodes(k, n+1))
			res.additions++
			if len(o) != n+1 || !eq(without(o, f.Label), full[ki]) {
				res.add("addition-changes-more-than-the-added-node/"+tk.p.name,
					base(map[string]interface{}{"key": k, "added": f, "before": full[ki], "after": o}))
			}
		}
	}
	livePass(tk, r, res)
	return res
}

// livePass drives ONE long-lived RendezvousHash through a history of membership
// changes - host replacements (RemoveNode+AddNode in either order, and back),
// re-weighting of a label, single additions and removals, and no change at all -
// and looks the same key up immediately before and immediately after every
// change, with or without lookups of other keys in between. Every answer must
// equal the answer of a freshly built hash over the current node set, and the
// nodes untouched by the change must keep their relative order.
func livePass(tk *task, r *rand.Rand, res *result) {
	if tk.liveSteps == 0 || len(tk.keys) == 0 {
		return
	}
	res.liveKinds = map[string]int64{}
	cur := permNodes(r, tk.nodes)
	live := build(tk.p, cur)
	serial := 0
	freshLabel := func() node {
		serial++
		b := tk.nodes[r.Intn(len(tk.nodes))]
		return node{fmt.Sprintf("%s-r%d", b.Label, serial), 1 + r.Intn(500)}
	}
	var focus []string
	for k := range tk.special {
		focus = append(focus, k)
	}
	sort.Strings(focus)
	for len(focus) < 48 {
		focus = append(focus, tk.keys[r.Intn(len(tk.keys))])
	}
	lookup := func(rh *hrw.RendezvousHash, k string, want int) []string {
		return labels(rh.GetOrderedNodes(k, want))
	}
	var lastRemoved *node
	for step := 0; step < tk.liveSteps; step++ {
		k := focus[r.Intn(len(focus))]
		nBefore := len(cur)
		before := lookup(live, k, nBefore)
		res.liveLookups++

		var removed, added []node
		kind := ""
		remove := func(i int) {
			x := cur[i]
			live.RemoveNode(x.Label)
			cur = append(append([]node(nil), cur[:i]...), cur[i+1:]...)
			removed = append(removed, x)
		}
		add := func(x node) {
			live.AddNode(x.Label, x.Weight)
			cur = append(cur, x)
			added = append(added, x)
		}
		switch c := r.Intn(12); {
		case c < 3 && len(cur) >= 1: // host replacement, remove first
			kind = "replace/remove-then-add"
			remove(r.Intn(len(cur)))
			add(freshLabel())
		case c < 5 && len(cur) >= 1: // host replacement, add first
			kind = "replace/add-then-remove"
			i := r.Intn(len(cur))
			add(freshLabel())
			remove(i)
		case c < 6 && lastRemoved != nil && len(cur) >= 1: // replace back: the host removed earlier returns
			kind = "replace/previously-removed-host-returns"
			back := *lastRemoved
			inCur := false
			for _, x := range cur {
				if x.Label == back.Label {
					inCur = true
				}
			}
			if inCur {
				kind = "none"
				break
			}
			remove(r.Intn(len(cur)))
			add(back)
		case c < 8 && len(cur) >= 1: // same label, new weight
			kind = "reweight/remove-then-add-same-label"
			i := r.Intn(len(cur))
			x := cur[i]
			remove(i)
			x.Weight = 1 + r.Intn(500)
			add(x)
		case c < 9 && len(cur) < 18:
			kind = "add"
			add(freshLabel())
		case c < 10 && len(cur) >= 2:
			kind = "remove"
			remove(r.Intn(len(cur)))
		default:
			kind = "none"
		}
		if len(removed) > 0 {
			x := removed[0]
			lastRemoved = &x
		}
		interleaved := r.Intn(3) == 0
		if interleaved {
			// another key in between (a memo keyed on the last lookup would be displaced)
			lookup(live, focus[r.Intn(len(focus))], len(cur))
			res.liveLookups++
		}
		want := len(cur)
		if r.Intn(4) == 0 {
			want = r.Intn(len(cur) + 3)
		}
		after := lookup(live, k, want)
		res.liveLookups++
		res.liveSteps++
		res.liveKinds[kind]++
		fresh := lookup(build(tk.p, permNodes(r, cur)), k, want)
		w := func() map[string]interface{} {
			return map[string]interface{}{"pairing": tk.p.name, "key": k, "step": step, "change": kind, "removed": removed, "added": added,
				"lookup_of_another_key_in_between": interleaved, "n": want, "nodes_now": cur,
				"answer_before_change": before, "answer_after_change": after, "fresh_hash_answer": fresh}
		}
		class := strings.SplitN(kind, "/", 2)[0]
		if !eq(after, fresh) {
			res.add("live-hash-answer-differs-from-fresh-hash/after-"+class+"/"+tk.p.name, w())
			continue
		}
		// minimal disruption on the live object (full lists only)
		if want >= len(cur) && len(before) == nBefore {
			b, a := before, after
			for _, x := range removed {
				b = without(b, x.Label)
				a = without(a, x.Label) // re-weighted label: compare the others only
			}
			for _, x := range added {
				a = without(a, x.Label)
				b = without(b, x.Label)
			}
			if !eq(a, b) {
				res.add("membership-change-reorders-untouched-nodes/"+class+"/"+tk.p.name, w())
			}
		}
	}
}

func TestC22(t *testing.T) {
	run := ev.Start(t, "C22", "exploration",
		"PRNG-generated weighted node sets (1-16 nodes, plus sets of 20-30 nodes on sampled keys; 7 label styles incl. 30-60 character FQDN:port labels with long common prefixes or differing only in the last digits, x 4 weight styles, weights 1-500) for each hash/score pairing "+
			"(murmur3+UInt64ToFloat64 as shipped in ring and CAStore; sha256/md5/murmur3+BigIntToFloat64). Keys: for the shipped pairing ALL 65536 four-hex shard ids "+
			"+ all 256 upper- and lower-case two-hex keys + random even-length hex keys of 2-600 digits (dense around 180-260); for the other pairings a PRNG sample of those. "+
			"Each node set is populated in 6 insertion orders/histories; every node is removed and re-added, and new nodes are added. "+
			"For murmur3 pairings crafted keys (murmur3 inverted) whose hash with one node's label has 53 zero low bits drive the score through its re-hash branch. "+
			"One long-lived hash per key chunk goes through host replacements (both orders, and back), re-weighting, single adds/removes with same-key lookups right before and after, compared with a fresh hash. "+
			"One case = (pairing, node set); non-trivial when it has >= 2 nodes.")
	defer run.Finish()
	run.Assume("keys are valid even-length hex strings (Score returns NaN for anything else; such keys are outside the statement)")
	run.Assume("weights are positive and labels unique (zero weights / duplicate labels are configuration errors, DESIGN 3.40)")
	run.Assume("'sorted by descending score' is judged twice: with RendezvousHashNode.Score itself and with a restatement that hashes the complete key bytes and the complete label itself and reuses only the exported hash-to-float conversion (UInt64ToFloat64 / BigIntToFloat64)")

	// key spaces
	var exhaustive []string
	for s := 0; s < 65536; s++ {
		exhaustive = append(exhaustive, fmt.Sprintf("%04x", s))
	}
	for s := 0; s < 256; s++ {
		exhaustive = append(exhaustive, fmt.Sprintf("%02X", s), fmt.Sprintf("%02x", s))
	}
	run.Set("exhaustive_key_space", "65536 four-hex shard ids + 256 two-hex volume keys in both cases")

	nShipped := run.N(4, 24)
	nOther := run.N(3, 18)
	stride := run.N(4, 1)
	nLong := run.N(320, 8192)
	nSample := run.N(3072, 12288)
	nCrafted := run.N(4, 24)  // crafted re-hash keys per node
	nLive := run.N(300, 3000) // membership-change steps on a long-lived hash, per key chunk
	craftedKeys := 0
	const chunks = 4

	var tasks []*task
	type caseInfo struct {
		id     string
		key    string
		n      int
		style  string
		sample map[string]interface{}
		tasks  []*task
	}
	var cases []*caseInfo
	addCase := func(ci int, p pairing, big bool) {
		r := run.Rand(fmt.Sprintf("case-%s-%d-%v", p.name, ci, big))
		// sizes cover 1..16, rotated by the seed
		n := 1 + (ci*5+int(run.Seed()))%16
		forceStyle := -1
		if !big && p.exhaustive && (ci == 1 || ci == 2) {
			forceStyle = 4 + ci // the two FQDN:port styles are always present, also in the quick tier
		}
		if big {
			// well above 12 elements, where sort.Sort leaves its small-slice path; sampled keys
			n = 20 + (ci*3+int(run.Seed()))%11
			p.exhaustive = false
		}
		nodes, style := genNodes(r, n, forceStyle)
		var newcomers []node
		for len(newcomers) < 2 {
			f, _ := genNodes(r, 1, -1)
			f[0].Label = "new-" + f[0].Label
			newcomers = append(newcomers, f[0])
		}
		var keys []string
		if p.exhaustive {
			keys = append(keys, exhaustive...)
		} else {
			ns := nSample
			if big {
				ns = nSample / 3
			}
			for i := 0; i < ns; i++ {
				keys = append(keys, exhaustive[r.Intn(len(exhaustive))])
			}
			for s := 0; s < 256; s++ {
				keys = append(keys, fmt.Sprintf("%02X", s))
			}
		}
		nl := nLong
		if big {
			nl = nLong / 4
		}
		for i := 0; i < nl; i++ {
			// 2..600 hex digits: half up to 128 (digest-sized and shorter), a dense band
			// around 180-260 digits, the rest anywhere
			var digits int
			switch x := r.Intn(20); {
			case x < 10:
				digits = 2 * (1 + r.Intn(64))
			case x < 17:
				digits = 180 + 2*r.Intn(41)
			default:
				digits = 2 * (1 + r.Intn(300))
			}
			keys = append(keys, gen.Hex(r, digits))
		}
		// crafted keys: murmur3-64(key||label) has its low 53 bits zero for one of the
		// nodes (or a newcomer), so scoring takes UInt64ToFloat64's re-hash branch
		special := map[string]bool{}
		if strings.HasPrefix(p.name, "murmur3") {
			targets := append(append([]node(nil), nodes...), newcomers...)
			for _, nd := range targets {
				for j := 0; j < nCrafted; j++ {
					if k, ok := gen.MurmurRehashKey(r, nd.Label); ok {
						if !special[k] {
							special[k] = true
							keys = append(keys, k)
						}
					} else {
						t.Fatalf("crafting a re-hash key for label %q failed its self-check", nd.Label)
					}
				}
			}
		}
		craftedKeys += len(special)
		c := &caseInfo{id: fmt.Sprintf("%s/%d%s", p.name, ci, map[bool]string{false: "", true: "/big"}[big]), key: ev.JSON(map[string]interface{}{"p": p.name, "nodes": nodes}), n: n, style: style}
		for ch := 0; ch < chunks; ch++ {
			lo, hi := ch*len(keys)/chunks, (ch+1)*len(keys)/chunks
			tk := &task{id: c.id, p: p, nodes: nodes, style: style, keys: keys[lo:hi], stride: stride,
				seed: r.Int63(), nperms: 6, newcomers: newcomers, special: map[string]bool{}, liveSteps: nLive}
			for _, k := range tk.keys {
				if special[k] {
					tk.special[k] = true
				}
			}
			c.tasks = append(c.tasks, tk)
		}
		if rc := run.ReplayCase(); rc != "" && rc != c.id {
			return
		}
		cases = append(cases, c)
		tasks = append(tasks, c.tasks...)
	}
	for ci := 0; ci < nShipped; ci++ {
		addCase(ci, pairings[0], false)
	}
	for ci := 0; ci < nOther; ci++ {
		addCase(ci, pairings[1+ci%3], false)
	}

	for ci := 0; ci < run.N(1, 3); ci++ {
		addCase(ci, pairings[0], true)
	}
	for ci := 0; ci < run.N(0, 3); ci++ {
		addCase(ci, pairings[1+ci%3], true)
	}

	// heaviest tasks first, 16 workers; results are consumed in case order below
	order := make([]int, len(tasks))
	for i := range order {
		order[i] = i
	}
	cost := func(tk *task) int { return len(tk.keys) * len(tk.nodes) * len(tk.nodes) }
	sort.SliceStable(order, func(a, b int) bool { return cost(tasks[order[a]]) > cost(tasks[order[b]]) })
	results := make(map[*task]*result, len(tasks))
	var mu sync.Mutex
	var wg sync.WaitGroup
	next := make(chan *task)
	for w := 0; w < 16; w++ {
		wg.Add(1)
		go func() {
			defer wg.Done()
			for tk := range next {
				res := runTask(tk)
				mu.Lock()
				results[tk] = res
				mu.Unlock()
			}
		}()
	}
	for _, i := range order {
		next <- tasks[i]
	}
	close(next)
	wg.Wait()

	run.Count("crafted_rehash_keys", int64(craftedKeys))
	for _, c := range cases {
		run.Case(c.key, c.n >= 2)
		run.Distinct("node_set_sizes", fmt.Sprint(c.n))
		run.Distinct("node_styles", c.style)
		maxPerms := 0
		for _, tk := range c.tasks {
			res := results[tk]
			run.Count("keys_checked", res.keys)
			run.Count("insertion_order_comparisons", res.orderings)
			run.Count("removal_checks", res.removals)
			run.Count("addition_checks", res.additions)
			run.Count("prefix_checks", res.prefixes)
			run.Count("keys_with_equal_scores", res.ties)
			run.Count("rehash_branch_hits", res.rehashHits)
			run.Count("live_hash_change_steps", res.liveSteps)
			run.Count("live_hash_lookups", res.liveLookups)
			for k, v := range res.liveKinds {
				run.Count("live_hash_steps_"+k, v)
			}
			if res.distinctPerms > maxPerms {
				maxPerms = res.distinctPerms
			}
			for _, f := range res.findings {
				run.Violation(f.sig, c.id, f.witness)
			}
		}
		run.Count("distinct_insertion_orders_compared", int64(maxPerms))
		run.Count("cases_"+c.tasks[0].p.name, 1)
		if run.WantSample() && c.n >= 2 && len(c.tasks[0].keys) > 0 {
			rh := build(c.tasks[0].p, c.tasks[0].nodes)
			k := c.tasks[0].keys[len(c.tasks[0].keys)/2]
			ordered := labels(rh.GetOrderedNodes(k, c.n))
			if len(ordered) > 8 {
				ordered = ordered[:8] // the first 8 of the ordered list are enough to show the shape
			}
			run.Sample(map[string]interface{}{"case": c.id, "node_count": c.n, "key": k,
				"ordered_first_8": ordered, "keys_in_case": 4 * len(c.tasks[0].keys)})
		}
	}
}
