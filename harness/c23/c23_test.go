// C23: active health checks follow the documented hysteresis.
//
// Model-diff monitor. The real healthcheck.NewFilter is driven round by round
// with a scripted Checker and a changing host list; after every Run the result
// is compared with a small reference model written from the property text:
// per listed host a healthy flag and the number of consecutive failed / passed
// checks; a host appearing in the list (for the first time or again after it
// left) starts healthy with clean counters; a one-host list is reported
// healthy. The model consumes the checks the real filter actually performed
// (observed through the Checker), so it does not prescribe whether a one-host
// list is probed.
//
// Histories: exhaustive enumerations (every sequence over a per-round alphabet
// of {absent, present+pass, present+fail} per host, up to a bounded length)
// for all Fails/Passes in 1..4, plus PRNG histories with 2-4 hosts and streaky
// behaviour, plus a smoke run through the real Monitor.
package c23

import (
	"context"
	"errors"
	"fmt"
	"math/rand"
	"sort"
	"strings"
	"sync"
	"testing"
	"time"

	"go.uber.org/zap"

	"github.com/uber/kraken/lib/healthcheck"
	"github.com/uber/kraken/utils/log"
	"github.com/uber/kraken/utils/stringset"

	"verif/harness/internal/ev"
)

// ---------------------------------------------------------------------------
// scripted checker

const (
	symTimeoutCtx  = 3 // check blocks until the filter's deadline, then returns the context error
	symTimeoutLate = 4 // check blocks past the deadline and then answers OK

	shortTimeout   = 100 * time.Millisecond // FilterConfig.Timeout of the timeout histories
	ambiguousAfter = 40 * time.Millisecond  // watchdog for immediate answers in those histories
)

type scriptChecker struct {
	mu   sync.Mutex
	slow map[string]uint8 // hosts whose check times out in this round (symTimeout*)
	// timeout histories only
	roundStart  time.Time
	ambiguous   bool
	lateRelease chan struct{}
	lateWG      *sync.WaitGroup
	fail        map[string]bool
	checked     map[string]int
	fails       map[string]int // cumulative, for the Monitor smoke
	passes      map[string]int
}

func newChecker() *scriptChecker {
	return &scriptChecker{fail: map[string]bool{}, checked: map[string]int{}, fails: map[string]int{}, passes: map[string]int{}}
}

var errScripted = errors.New("scripted health check failure")

func (c *scriptChecker) Check(ctx context.Context, addr string) error {
	c.mu.Lock()
	c.checked[addr]++
	slow := c.slow[addr]
	release, lateWG := c.lateRelease, c.lateWG
	if slow == symTimeoutLate {
		lateWG.Add(1) // before Run can return: Run waits for this check's deadline
	}
	if slow == 0 {
		defer c.mu.Unlock()
		if !c.roundStart.IsZero() && time.Since(c.roundStart) > ambiguousAfter {
			c.ambiguous = true // the filter's deadline may have raced this immediate answer
		}
		if c.fail[addr] {
			c.fails[addr]++
			return errScripted
		}
		c.passes[addr]++
		return nil
	}
	c.mu.Unlock()
	// a check that exceeds FilterConfig.Timeout
	<-ctx.Done()
	if slow == symTimeoutCtx {
		return ctx.Err() // honours the context
	}
	// ignores the context: answers OK, but only after the filter gave up on it
	// (the harness releases it once Run has returned)
	defer lateWG.Done()
	<-release
	return nil
}

// arm sets the outcomes of the next round and clears the per-round record.
func (c *scriptChecker) arm(fail map[string]bool) {
	c.mu.Lock()
	c.fail = fail
	c.slow = nil
	c.checked = map[string]int{}
	c.mu.Unlock()
}

// armSlow additionally scripts checks that exceed the filter's timeout.
func (c *scriptChecker) armSlow(slow map[string]uint8) {
	c.mu.Lock()
	c.slow = slow
	c.roundStart = time.Now()
	c.lateRelease = make(chan struct{})
	c.lateWG = &sync.WaitGroup{}
	c.mu.Unlock()
}

func (c *scriptChecker) observed() map[string]int {
	c.mu.Lock()
	defer c.mu.Unlock()
	out := make(map[string]int, len(c.checked))
	for k, v := range c.checked {
		out[k] = v
	}
	return out
}

// ---------------------------------------------------------------------------
// reference model

type hstate struct {
	healthy       bool
	fails, passes int  // consecutive failed / passed checks
	fresh         bool // appeared in this round
	// rejoin is "" or says how the host was absent before it came back. It stays
	// set until the real filter's hidden per-host state must equal the model's:
	// the host has had a passed and a failed check since it came back (that
	// resets any stale consecutive-counter) and both agree on the flag.
	rejoin           string
	sawPass, sawFail bool
	reported         bool
	turned           string // "unhealthy"/"healthy" when the flag flipped in this round
}

type model struct {
	fails, passes int
	cur           map[string]*hstate
	gone          map[string]*bool // departed hosts -> whether a round with a list size != 1 happened while absent
	flips         int
	rejoins       int
}

func newModel(f, p int) *model {
	return &model{fails: f, passes: p, cur: map[string]*hstate{}, gone: map[string]*bool{}}
}

// membership applies the host list of a round.
func (m *model) membership(list []string) {
	in := map[string]bool{}
	for _, h := range list {
		in[h] = true
	}
	for h := range m.cur {
		if !in[h] {
			delete(m.cur, h)
			b := false
			m.gone[h] = &b
		}
	}
	if len(list) != 1 {
		for _, b := range m.gone {
			*b = true
		}
	}
	for _, st := range m.cur {
		st.fresh = false
		st.turned = ""
	}
	for _, h := range list {
		if _, ok := m.cur[h]; ok {
			continue
		}
		st := &hstate{healthy: true, fresh: true}
		if b, ok := m.gone[h]; ok {
			m.rejoins++
			if *b {
				st.rejoin = "absence-seen-by-filter"
			} else {
				st.rejoin = "absent-only-while-list-had-one-host"
			}
			delete(m.gone, h)
		}
		m.cur[h] = st
	}
}

// outcome applies one performed check.
func (m *model) outcome(h string, failed bool) {
	st := m.cur[h]
	if st == nil {
		return
	}
	if failed {
		st.sawFail = true
		st.fails++
		st.passes = 0
		if st.fails >= m.fails && st.healthy {
			st.healthy = false
			st.turned = "unhealthy"
			m.flips++
		}
	} else {
		st.sawPass = true
		st.passes++
		st.fails = 0
		if st.passes >= m.passes && !st.healthy {
			st.healthy = true
			st.turned = "healthy"
			m.flips++
		}
	}
}

// ---------------------------------------------------------------------------
// one history against the real filter

// sym: 0 absent, 1 present+pass, 2 present+fail
type history struct {
	id     string
	fails  int
	passes int
	hosts  []string
	rounds [][]uint8 // [round][host] -> sym
	// timeouts: the filter gets a short real per-check timeout and symbols 3/4
	// (check exceeds it) may occur
	timeouts bool
}

func (h *history) render() []string {
	out := make([]string, len(h.rounds))
	for i, rd := range h.rounds {
		var parts []string
		for j, s := range rd {
			parts = append(parts, h.hosts[j]+"="+[...]string{"absent", "pass", "fail", "timeout(returns ctx error)", "timeout(answers ok after the deadline)"}[s])
		}
		out[i] = strings.Join(parts, " ")
	}
	return out
}

type finding struct {
	sig     string
	witness map[string]interface{}
}

type outcome struct {
	findings   []finding
	nontrivial bool
	runs       int
	checks     int
	single     int
	empty      int
	rejoins    int
	flips      int
	timeouts   int
	ambiguous  bool // watchdog: an immediate answer may have raced the short deadline
}

func runHistory(h *history) outcome {
	var out outcome
	chk := newChecker()
	tmo := time.Hour
	if h.timeouts {
		tmo = shortTimeout
	}
	f := healthcheck.NewFilter(healthcheck.FilterConfig{Fails: h.fails, Passes: h.passes, Timeout: tmo}, chk)
	m := newModel(h.fails, h.passes)
	report := func(sig string, round int, host string, list []string, got []string, exp []string) {
		out.findings = append(out.findings, finding{sig, map[string]interface{}{
			"fails": h.fails, "passes": h.passes, "hosts": h.hosts, "history": h.render()[:round+1],
			"round": round, "host": host, "list": list, "reported_healthy": got, "model_healthy": exp,
		}})
	}
	for ri, rd := range h.rounds {
		var list []string
		fail := map[string]bool{}
		slow := map[string]uint8{}
		for j, s := range rd {
			if s != 0 {
				list = append(list, h.hosts[j])
				if s >= 2 {
					fail[h.hosts[j]] = true // a timed-out check is exactly one failed check
				}
				if s >= symTimeoutCtx {
					slow[h.hosts[j]] = s
					out.timeouts++
				}
			}
		}
		chk.arm(fail)
		if h.timeouts {
			chk.armSlow(slow)
		}
		began := time.Now()
		got := f.Run(stringset.New(list...))
		if h.timeouts {
			if len(slow) == 0 && time.Since(began) > ambiguousAfter {
				out.ambiguous = true
			}
			// the abandoned late checks answer now; wait for them so that nothing of
			// this round is still in flight when the next round starts
			chk.mu.Lock()
			rel, wg := chk.lateRelease, chk.lateWG
			amb := chk.ambiguous
			chk.mu.Unlock()
			close(rel)
			wg.Wait()
			if len(slow) > 0 {
				time.Sleep(3 * time.Millisecond) // lets a filter that mishandles the late answer show it
			}
			if amb {
				out.ambiguous = true
			}
			if out.ambiguous {
				return finish(&out, m)
			}
		}
		out.runs++
		obs := chk.observed()

		m.membership(list)
		for _, x := range list {
			if n := obs[x]; n > 0 {
				out.checks += n
				for i := 0; i < n; i++ {
					m.outcome(x, fail[x])
				}
			}
		}
		var gotL, expL []string
		for x := range got {
			gotL = append(gotL, x)
		}
		sort.Strings(gotL)
		in := map[string]bool{}
		for _, x := range list {
			in[x] = true
			if len(list) == 1 || m.cur[x].healthy {
				expL = append(expL, x)
			}
		}
		sort.Strings(expL)
		for _, x := range gotL {
			if !in[x] {
				report("result-contains-host-not-in-list", ri, x, list, gotL, expL)
				return finish(&out, m)
			}
		}
		switch len(list) {
		case 0:
			out.empty++
		case 1:
			out.single++
			if len(gotL) != 1 {
				report("single-host-list-not-reported-healthy", ri, list[0], list, gotL, expL)
				return finish(&out, m)
			}
		default:
			for _, x := range list {
				st := m.cur[x]
				g := got.Has(x)
				if g == st.healthy {
					if st.sawPass && st.sawFail {
						st.rejoin = "" // hidden states have provably converged
					}
					continue
				}
				var sig string
				switch {
				case st.rejoin != "" && !g:
					// the host came back and the filter does not treat it as a fresh, healthy
					// host (stale flag or stale failure count). The model keeps following the
					// statement; the episode is reported once.
					if !st.reported {
						st.reported = true
						report("rejoined-host-not-reported-healthy/"+st.rejoin, ri, x, list, gotL, expL)
					}
					continue
				case st.fresh && !g:
					sig = "first-appearance-not-reported-healthy"
				case !g && st.turned == "healthy":
					sig = "still-unhealthy-after-Passes-consecutive-passes"
				case !g:
					sig = "reported-unhealthy-without-Fails-consecutive-failures"
				case g && st.turned == "unhealthy":
					sig = "still-healthy-after-Fails-consecutive-failures"
				default:
					sig = "reported-healthy-without-Passes-consecutive-passes"
				}
				report(sig, ri, x, list, gotL, expL)
				return finish(&out, m) // unknown divergence: the rest of this history is not judged
			}
		}
	}
	return finish(&out, m)
}

func finish(out *outcome, m *model) outcome {
	out.rejoins = m.rejoins
	out.flips = m.flips
	out.nontrivial = m.rejoins > 0 || m.flips > 0
	return *out
}

// ---------------------------------------------------------------------------
// enumerations

// enumeration describes an exhaustive family: per round every host draws from
// its own alphabet.
type enumeration struct {
	name     string
	hosts    []string
	alpha    [][]uint8 // per host: allowed symbols
	length   int
	fails    int
	passes   int
	timeouts bool
}

func (e *enumeration) size() int {
	per := 1
	for _, a := range e.alpha {
		per *= len(a)
	}
	n := 1
	for i := 0; i < e.length; i++ {
		n *= per
	}
	return n
}

func (e *enumeration) nth(i int) *history {
	h := &history{fails: e.fails, passes: e.passes, hosts: e.hosts, timeouts: e.timeouts}
	h.id = fmt.Sprintf("%s/F%dP%d/len%d/#%d", e.name, e.fails, e.passes, e.length, i)
	for r := 0; r < e.length; r++ {
		rd := make([]uint8, len(e.hosts))
		for j, a := range e.alpha {
			rd[j] = a[i%len(a)]
			i /= len(a)
		}
		h.rounds = append(h.rounds, rd)
	}
	return h
}

var (
	full     = []uint8{0, 1, 2}
	passOnly = []uint8{1}
	passOrNo = []uint8{0, 1}
)

// genRandom draws a streaky history.
func genRandom(r *rand.Rand, id string) *history {
	nh := 2 + r.Intn(3)
	if r.Intn(12) == 0 {
		nh = 1
	}
	h := &history{id: id, fails: 1 + r.Intn(4), passes: 1 + r.Intn(4)}
	for j := 0; j < nh; j++ {
		h.hosts = append(h.hosts, fmt.Sprintf("h%d:80", j))
	}
	length := 6 + r.Intn(9)
	cols := make([][]uint8, nh)
	for j := range cols {
		// per host: streaks of one symbol; absence is rarer for some hosts
		pAbsent := []int{0, 1, 3}[r.Intn(3)]
		for len(cols[j]) < length {
			var s uint8
			switch x := r.Intn(10); {
			case x < pAbsent:
				s = 0
			case x < pAbsent+(10-pAbsent)/2:
				s = 2
			default:
				s = 1
			}
			for k := 1 + r.Intn(4); k > 0 && len(cols[j]) < length; k-- {
				cols[j] = append(cols[j], s)
			}
		}
	}
	for i := 0; i < length; i++ {
		rd := make([]uint8, nh)
		for j := range rd {
			rd[j] = cols[j][i]
		}
		h.rounds = append(h.rounds, rd)
	}
	return h
}

// ---------------------------------------------------------------------------

type agg struct {
	mu        sync.Mutex
	count     map[string]int
	witnesses map[string][]wit
}

type wit struct {
	order   int
	caseID  string
	witness map[string]interface{}
}

func TestC23(t *testing.T) {
	run := ev.Start(t, "C23", "exploration",
		"Histories = per round and host one of {absent, present+check passes, present+check fails}. Exhaustive families (every sequence up to the stated length): "+
			"E9 two hosts with the full alphabet; E6 a subject host with the full alphabet next to a companion that is present(passing) or absent; "+
			"E3 a subject host with the full alphabet next to an always-present companion (longer histories for larger Fails/Passes); E27 three hosts (thorough); ET a subject host drawing from {pass, fail, check times out and returns the context error, check answers OK after the deadline} with a real 100ms check timeout. Lengths: quick E9=4 (7 settings), E6=4-5, E3=7; thorough E9=4-5, E6=6 (more configs), E3=9-10 (more configs), E27=3. "+
			"Fails/Passes range over 1..4. Plus PRNG streaky histories with 1-4 hosts, length 6-14. The real Filter.Run result is compared with the model after every round. "+
			"A history is non-trivial when, in the model, some host changed health state or some host left and rejoined.")
	defer run.Finish()
	run.Assume("the scripted Checker is the only source of check outcomes; the filter's per-check timeout (set to 1h) never fires")
	run.Assume("the model applies exactly the checks the filter performed (observed at the Checker); whether a one-host list is probed is not prescribed")

	zc := zap.NewProductionConfig()
	zc.Encoding = "console"
	zc.Level = zap.NewAtomicLevelAt(zap.ErrorLevel) // "Host marked as unhealthy" warnings would flood the log
	log.ConfigureLogger(zc)

	two := []string{"a:80", "b:80"}
	three := []string{"a:80", "b:80", "c:80"}
	var enums []*enumeration
	quick := run.Quick()
	for f := 1; f <= 4; f++ {
		for p := 1; p <= 4; p++ {
			if quick && !((f <= 2 && p <= 2) || (f == 3 && p <= 3 && p >= 2) || (f == 2 && p == 3)) {
				continue
			}
			l := 4
			if !quick && ((f <= 2 && p <= 2) || (f == 3 && p == 2) || (f == 2 && p == 3)) {
				l = 5
			}
			enums = append(enums, &enumeration{"E9-two-hosts", two, [][]uint8{full, full}, l, f, p, false})
		}
	}
	for f := 1; f <= 3; f++ {
		for p := 1; p <= 3; p++ {
			small := f <= 2 && p <= 2
			if quick && !small {
				continue
			}
			if !small && !((f == 3 && p == 2) || (f == 2 && p == 3)) {
				continue
			}
			l := 6
			if quick {
				l = 4
				if f == p {
					l = 5
				}
			}
			enums = append(enums, &enumeration{"E6-subject+optional-companion", two, [][]uint8{full, passOrNo}, l, f, p, false})
		}
	}
	for f := 1; f <= 4; f++ {
		for p := 1; p <= 4; p++ {
			deep := (f == 3 && p == 2) || (f == 2 && p == 3) || (f == 3 && p == 3) || (f == 4 && p == 4)
			wide := (f == 1 && p == 4) || (f == 4 && p == 1) || (f == 4 && p == 2) || (f == 2 && p == 4)
			if !deep && (quick || !wide) {
				continue
			}
			l := 9
			if quick {
				l = 7
			}
			if !quick && f == 3 && (p == 2 || p == 3) {
				l = 10
			}
			enums = append(enums, &enumeration{"E3-subject+constant-companion", two, [][]uint8{full, passOnly}, l, f, p, false})
		}
	}
	if !quick {
		for _, fp := range [][2]int{{1, 1}, {2, 1}, {1, 2}, {2, 2}} {
			enums = append(enums, &enumeration{"E27-three-hosts", three, [][]uint8{full, full, full}, 3, fp[0], fp[1], false})
		}
	}
	// checks that exceed FilterConfig.Timeout (real 100ms timeout; verdicts do not depend on
	// timing: a timed-out check is one failed check, late answers are awaited before the next round)
	withTimeouts := []uint8{1, 2, symTimeoutCtx, symTimeoutLate}
	for _, fp := range [][2]int{{2, 1}, {2, 2}, {3, 2}} {
		l := 3
		if !quick {
			l = 4
		}
		enums = append(enums, &enumeration{"ET-subject-with-check-timeouts+constant-companion", two, [][]uint8{withTimeouts, passOnly}, l, fp[0], fp[1], true})
	}
	nRandom := run.N(5000, 100000)

	ag := &agg{count: map[string]int{}, witnesses: map[string][]wit{}}
	replay := run.ReplayCase()
	var totals struct {
		sync.Mutex
		runs, checks, single, empty, rejoins, flips int64
	}
	eval := func(order int, h *history) {
		o := runHistory(h)
		if o.ambiguous {
			run.Count("timeout_histories_repeated_after_slow_round", 1)
			o = runHistory(h)
		}
		if o.ambiguous {
			run.Inconclusive(h.id + ": an immediate check answer came close to the 100ms filter timeout twice (machine overloaded?); history not judged")
			return
		}
		run.Count("check_timeouts_scripted", int64(o.timeouts))
		run.Case(h.id+"|"+strings.Join(h.render(), ";"), o.nontrivial)
		totals.Lock()
		totals.runs += int64(o.runs)
		totals.checks += int64(o.checks)
		totals.single += int64(o.single)
		totals.empty += int64(o.empty)
		totals.rejoins += int64(o.rejoins)
		totals.flips += int64(o.flips)
		totals.Unlock()
		if len(o.findings) == 0 {
			return
		}
		ag.mu.Lock()
		seen := map[string]bool{}
		for _, fd := range o.findings {
			if seen[fd.sig] {
				continue // one per signature and history
			}
			seen[fd.sig] = true
			ag.count[fd.sig]++
			ws := ag.witnesses[fd.sig]
			// keep the 3 lowest-order witnesses (deterministic whatever the scheduling)
			ws = append(ws, wit{order, h.id, fd.witness})
			sort.Slice(ws, func(i, j int) bool { return ws[i].order < ws[j].order })
			if len(ws) > 3 {
				ws = ws[:3]
			}
			ag.witnesses[fd.sig] = ws
		}
		ag.mu.Unlock()
	}

	const nw = 16
	base := 0
	for _, e := range enums {
		n := e.size()
		run.Count("histories_"+e.name, int64(n))
		run.Distinct("configs", fmt.Sprintf("F%dP%d", e.fails, e.passes))
		var wg sync.WaitGroup
		for w := 0; w < nw; w++ {
			wg.Add(1)
			go func(w int) {
				defer wg.Done()
				for i := w; i < n; i += nw {
					h := e.nth(i)
					if replay != "" && replay != h.id {
						continue
					}
					eval(base+i, h)
				}
			}(w)
		}
		wg.Wait()
		base += n
	}
	{
		// PRNG histories: generated sequentially (deterministic), evaluated in parallel
		r := run.Rand("random-histories")
		hs := make([]*history, nRandom)
		for i := range hs {
			hs[i] = genRandom(r, fmt.Sprintf("random/#%d", i))
		}
		run.Count("histories_random", int64(nRandom))
		var wg sync.WaitGroup
		for w := 0; w < nw; w++ {
			wg.Add(1)
			go func(w int) {
				defer wg.Done()
				for i := w; i < len(hs); i += nw {
					if replay != "" && replay != hs[i].id {
						continue
					}
					eval(base+i, hs[i])
				}
			}(w)
		}
		wg.Wait()
		for i := 0; i < len(hs) && run.WantSample(); i += len(hs) / 4 {
			run.Sample(map[string]interface{}{"id": hs[i].id, "fails": hs[i].fails, "passes": hs[i].passes, "history": hs[i].render()})
		}
	}
	run.Count("filter_runs", totals.runs)
	run.Count("checks_observed", totals.checks)
	run.Count("single_host_rounds", totals.single)
	run.Count("empty_list_rounds", totals.empty)
	run.Count("rejoins", totals.rejoins)
	run.Count("model_health_flips", totals.flips)

	if replay == "" {
		monitorSmoke(run)
	}

	var sigs []string
	for s := range ag.count {
		sigs = append(sigs, s)
	}
	sort.Strings(sigs)
	for _, s := range sigs {
		ws := ag.witnesses[s]
		for i := 0; i < ag.count[s]; i++ {
			if i < len(ws) {
				run.Violation(s, ws[i].caseID, ws[i].witness)
			} else {
				run.Violation(s, "", nil)
			}
		}
	}
}

// ---------------------------------------------------------------------------
// smoke run through the real Monitor (real timer; counts decide, time does not)

type fixedList struct {
	mu sync.Mutex
	s  []string
}

func (l *fixedList) Resolve() stringset.Set {
	l.mu.Lock()
	defer l.mu.Unlock()
	return stringset.New(l.s...)
}

func monitorSmoke(run *ev.Run) {
	for _, cfg := range [][2]int{{1, 1}, {3, 2}, {2, 3}} {
		fails, passes := cfg[0], cfg[1]
		chk := newChecker()
		hosts := []string{"m1:80", "m2:80", "m3:80"}
		list := &fixedList{s: hosts}
		flt := healthcheck.NewFilter(healthcheck.FilterConfig{Fails: fails, Passes: passes, Timeout: time.Hour}, chk)
		mon := healthcheck.NewMonitor(healthcheck.MonitorConfig{Interval: 2 * time.Millisecond}, list, flt)
		caseID := fmt.Sprintf("monitor/F%dP%d", fails, passes)
		snap := func() (has bool, f, p int, n int) {
			s := mon.Resolve()
			has = s.Has("m2:80")
			n = len(s)
			chk.mu.Lock()
			f, p = chk.fails["m2:80"], chk.passes["m2:80"]
			chk.mu.Unlock()
			return
		}
		ok := func() bool {
			if has, _, _, n := snap(); !has || n != 3 {
				run.Violation("monitor-initial-resolve-is-not-the-whole-list", caseID, map[string]interface{}{"n": n})
				return false
			}
			chk.mu.Lock()
			chk.fail = map[string]bool{"m2:80": true}
			chk.mu.Unlock()
			deadline := time.Now().Add(90 * time.Second)
			for {
				has, f, _, _ := snap()
				if !has {
					// counts only grow: a removal seen now needs >= Fails failed checks by now
					if f < fails {
						run.Violation("monitor-reports-unhealthy-before-Fails-failed-checks", caseID, map[string]interface{}{"failed_checks": f, "fails": fails})
						return false
					}
					break
				}
				if time.Now().After(deadline) {
					run.Inconclusive(caseID + ": watchdog: monitor did not drop the failing host within 90s")
					return false
				}
				time.Sleep(time.Millisecond)
			}
			chk.mu.Lock()
			chk.fail = map[string]bool{}
			p0 := chk.passes["m2:80"]
			chk.mu.Unlock()
			for {
				has, _, p, _ := snap()
				if has {
					if p-p0 < passes {
						run.Violation("monitor-reports-healthy-before-Passes-passed-checks", caseID, map[string]interface{}{"passed_checks": p - p0, "passes": passes})
						return false
					}
					break
				}
				if time.Now().After(deadline) {
					run.Inconclusive(caseID + ": watchdog: monitor did not re-admit the recovered host within 90s")
					return false
				}
				time.Sleep(time.Millisecond)
			}
			return true
		}()
		mon.Stop()
		if ok {
			run.Count("monitor_smoke_cycles", 1)
		}
	}
}
