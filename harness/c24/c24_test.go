// C24: passive health filtering follows its failure-window rule.
//
// Model-diff monitor in virtual time. The real healthcheck.NewPassiveFilter and
// healthcheck.NewPassive are driven with PRNG timelines of Failed(host) calls
// (single calls and concurrent same-instant bursts) and clock advances whose
// gaps cluster around FailTimeout (limit-1ns, limit+1ns, relative to the
// previous event and to arbitrary earlier failures). After every event the
// filter is queried and compared, host by host, with an oracle computed from
// the complete failure timeline: filtered at T <=> there is a failure at t with
// T-t <= FailTimeout and at least Fails failures in [t-FailTimeout, t].
// Passive.Resolve must equal list minus filtered, or the whole list when that
// is empty, and is never empty while the list has hosts.
package c24

import (
	"fmt"
	"math/rand"
	"sort"
	"strings"
	"sync"
	"testing"
	"time"

	"github.com/andres-erbsen/clock"

	"github.com/uber/kraken/lib/healthcheck"
	"github.com/uber/kraken/utils/stringset"

	"verif/harness/internal/ev"
)

// vclock is the mock clock with a Now that the timeline sets directly. The
// stock clock.Mock sleeps 1ms of real time in every Add; the passive filter
// only ever calls Now, so a slice of the timelines runs on the stock mock and
// the bulk on this one.
type vclock struct {
	*clock.Mock
	mu  sync.Mutex
	now time.Time
}

func (c *vclock) Now() time.Time {
	c.mu.Lock()
	defer c.mu.Unlock()
	return c.now
}

func (c *vclock) set(t time.Time) {
	c.mu.Lock()
	c.now = t
	c.mu.Unlock()
}

type scriptList struct {
	mu sync.Mutex
	s  []string
}

func (l *scriptList) Resolve() stringset.Set {
	l.mu.Lock()
	defer l.mu.Unlock()
	return stringset.New(l.s...)
}

func (l *scriptList) set(s []string) {
	l.mu.Lock()
	l.s = s
	l.mu.Unlock()
}

type event struct {
	At    time.Duration `json:"at_ns"`           // offset from the start of the timeline
	Fail  []int         `json:"fail,omitempty"`  // failures per host index reported at this instant
	Burst bool          `json:"burst,omitempty"` // reported concurrently
	List  []int         `json:"list,omitempty"`  // host list (indices) from this event on
	Query []int         `json:"query,omitempty"` // extra host set handed to Run (indices), nil = the list
}

type timeline struct {
	ID     string        `json:"id"`
	Fails  int           `json:"fails"`           // 0 = default (3)
	FT     time.Duration `json:"fail_timeout_ns"` // 0 = default (5m)
	Hosts  []string      `json:"hosts"`
	Events []event       `json:"events"`
	Stock  bool          `json:"stock_mock_clock"`
	adjust int
}

func (tl *timeline) effFails() int {
	if tl.Fails == 0 {
		return 3
	}
	return tl.Fails
}

func (tl *timeline) effFT() time.Duration {
	if tl.FT == 0 {
		return 5 * time.Minute
	}
	return tl.FT
}

func genTimeline(r *rand.Rand, id string, stock bool) *timeline {
	tl := &timeline{ID: id, Stock: stock}
	tl.Fails = 1 + r.Intn(4)
	tl.FT = []time.Duration{time.Second, 37 * time.Millisecond, 5 * time.Minute, 1000 * time.Nanosecond, 90 * time.Second}[r.Intn(5)]
	if r.Intn(10) == 0 {
		tl.Fails, tl.FT = 0, 0 // documented defaults
	}
	nh := 2 + r.Intn(3)
	if r.Intn(15) == 0 {
		nh = 1
	}
	for i := 0; i < nh; i++ {
		tl.Hosts = append(tl.Hosts, fmt.Sprintf("origin%d:15002", i))
	}
	ft := tl.effFT()
	var failTimes []time.Duration
	now := time.Duration(0)
	n := 6 + r.Intn(20)
	if stock {
		n = 4 + r.Intn(8)
	}
	all := make([]int, nh)
	for i := range all {
		all[i] = i
	}
	// some timelines hammer one host, others spread failures
	focus := -1
	if r.Intn(2) == 0 {
		focus = r.Intn(nh)
	}
	for i := 0; i < n; i++ {
		var gap time.Duration
		switch r.Intn(10) {
		case 0:
			gap = 0
		case 1:
			gap = 1
		case 2, 3:
			gap = time.Duration(r.Int63n(int64(ft)/4 + 1))
		case 4:
			gap = ft - 1
		case 5:
			gap = ft + 1
		case 6:
			gap = ft / 2
		case 7:
			gap = ft + time.Duration(r.Int63n(int64(2*ft)))
		default:
			// just before / after the window of an arbitrary earlier failure closes
			if len(failTimes) > 0 {
				tgt := failTimes[r.Intn(len(failTimes))] + ft + time.Duration(r.Intn(3)-1)
				if tgt >= now {
					gap = tgt - now
					break
				}
			}
			gap = time.Duration(r.Int63n(int64(ft) + 1))
		}
		now += gap
		// boundaries of time comparisons are avoided, not guessed (DESIGN 3.40)
		for again := true; again; {
			again = false
			for _, f := range failTimes {
				if now-f == ft {
					now++
					tl.adjust++
					again = true
				}
			}
		}
		e := event{At: now}
		switch x := r.Intn(10); {
		case x < 6:
			h := focus
			if h < 0 || r.Intn(4) == 0 {
				h = r.Intn(nh)
			}
			e.Fail = make([]int, nh)
			e.Fail[h] = 1
			failTimes = append(failTimes, now)
		case x < 8:
			e.Burst = true
			e.Fail = make([]int, nh)
			for h := range e.Fail {
				if r.Intn(2) == 0 {
					e.Fail[h] = r.Intn(5)
				}
			}
			for _, k := range e.Fail {
				if k > 0 {
					failTimes = append(failTimes, now)
					break
				}
			}
		}
		if r.Intn(8) == 0 && nh > 1 {
			// membership change: a random non-empty subset
			var l []int
			for h := 0; h < nh; h++ {
				if r.Intn(3) != 0 {
					l = append(l, h)
				}
			}
			if len(l) == 0 {
				l = []int{r.Intn(nh)}
			}
			e.List = l
		} else if i == 0 {
			e.List = all
		}
		if r.Intn(6) == 0 {
			var q []int
			for h := 0; h < nh; h++ {
				if r.Intn(2) == 0 {
					q = append(q, h)
				}
			}
			e.Query = q
			if q == nil {
				e.Query = []int{}
			}
		}
		tl.Events = append(tl.Events, e)
	}
	return tl
}

// oracleFiltered decides from the complete failure timeline of one host.
func oracleFiltered(fails []time.Duration, now time.Duration, need int, ft time.Duration) bool {
	for i := len(fails) - 1; i >= 0; i-- {
		t := fails[i]
		if now-t > ft {
			break // sorted: older ones are even further away
		}
		cnt := 0
		for j := i; j >= 0 && t-fails[j] <= ft; j-- {
			cnt++
		}
		if cnt >= need {
			return true
		}
	}
	return false
}

type finding struct {
	sig     string
	witness map[string]interface{}
}

type outcome struct {
	findings                               []finding
	queries, filteredObs, expiries, bursts int64
	failedCalls, allFiltered, hostQueries  int64
	nontrivial                             bool
}

func runTimeline(tl *timeline) outcome {
	var out outcome
	start := time.Unix(1600000000, 0)
	var clk clock.Clock
	var advance func(to time.Duration)
	if tl.Stock {
		m := clock.NewMock()
		m.Set(start)
		cur := time.Duration(0)
		advance = func(to time.Duration) {
			if to != cur {
				m.Add(to - cur)
				cur = to
			}
		}
		clk = m
	} else {
		v := &vclock{Mock: clock.NewMock(), now: start}
		advance = func(to time.Duration) { v.set(start.Add(to)) }
		clk = v
	}
	pf := healthcheck.NewPassiveFilter(healthcheck.PassiveFilterConfig{Fails: tl.Fails, FailTimeout: tl.FT}, clk)
	list := &scriptList{}
	passive := healthcheck.NewPassive(list, pf)
	need, ft := tl.effFails(), tl.effFT()

	failTimes := make([][]time.Duration, len(tl.Hosts))
	prevFiltered := make([]bool, len(tl.Hosts))
	var curList []int
	names := func(ix []int) []string {
		o := make([]string, len(ix))
		for i, x := range ix {
			o[i] = tl.Hosts[x]
		}
		return o
	}
	report := func(sig string, ei int, extra map[string]interface{}) {
		w := map[string]interface{}{"timeline": tl, "event_index": ei, "fails": need, "fail_timeout_ns": ft}
		for k, v := range extra {
			w[k] = v
		}
		out.findings = append(out.findings, finding{sig, w})
	}
	everFiltered, everExpired := false, false
	for ei, e := range tl.Events {
		advance(e.At)
		if e.List != nil {
			curList = e.List
			list.set(names(curList))
		}
		if e.Fail != nil {
			if e.Burst {
				out.bursts++
				var wg sync.WaitGroup
				for h, k := range e.Fail {
					for i := 0; i < k; i++ {
						wg.Add(1)
						go func(h int) {
							defer wg.Done()
							passive.Failed(tl.Hosts[h])
						}(h)
					}
					if k > 0 {
						wg.Add(1)
						go func() { defer wg.Done(); pf.Run(stringset.New(tl.Hosts...)) }()
					}
				}
				wg.Wait()
			} else {
				for h, k := range e.Fail {
					for i := 0; i < k; i++ {
						pf.Failed(tl.Hosts[h])
					}
				}
			}
			for h, k := range e.Fail {
				for i := 0; i < k; i++ {
					failTimes[h] = append(failTimes[h], e.At)
					out.failedCalls++
				}
			}
		}
		// query: Run on the list (or a scripted set) and Resolve through Passive
		filtered := make([]bool, len(tl.Hosts))
		for h := range tl.Hosts {
			filtered[h] = oracleFiltered(failTimes[h], e.At, need, ft)
		}
		q := curList
		if e.Query != nil {
			q = e.Query
		}
		got := pf.Run(stringset.New(names(q)...))
		out.queries++
		inQ := map[string]bool{}
		for _, h := range q {
			inQ[tl.Hosts[h]] = true
		}
		for x := range got {
			if !inQ[x] {
				report("run-result-contains-host-not-in-input", ei, map[string]interface{}{"host": x, "input": names(q)})
				return finishOutcome(&out, everFiltered, everExpired)
			}
		}
		for _, h := range q {
			out.hostQueries++
			realFiltered := !got.Has(tl.Hosts[h])
			if filtered[h] {
				out.filteredObs++
				everFiltered = true
			} else if prevFiltered[h] {
				out.expiries++
				everExpired = true
			}
			if realFiltered == filtered[h] {
				continue
			}
			var sig string
			switch {
			case realFiltered && prevFiltered[h]:
				sig = "still-filtered-after-FailTimeout-since-last-qualifying-failure"
			case realFiltered:
				sig = "filtered-without-Fails-failures-inside-a-FailTimeout-window"
			case prevFiltered[h]:
				sig = "unfiltered-before-FailTimeout-elapsed"
			default:
				sig = "not-filtered-despite-Fails-failures-inside-a-FailTimeout-window"
			}
			report(sig, ei, map[string]interface{}{"host": tl.Hosts[h], "host_failure_times_ns": failTimes[h], "now_ns": e.At,
				"real_filtered": realFiltered, "oracle_filtered": filtered[h]})
			return finishOutcome(&out, everFiltered, everExpired)
		}
		for h := range tl.Hosts {
			prevFiltered[h] = filtered[h]
		}
		// Passive.Resolve
		res := passive.Resolve()
		var exp []string
		for _, h := range curList {
			if !filtered[h] {
				exp = append(exp, tl.Hosts[h])
			}
		}
		if len(exp) == 0 {
			exp = names(curList)
			out.allFiltered++
		}
		sort.Strings(exp)
		var gotR []string
		for x := range res {
			gotR = append(gotR, x)
		}
		sort.Strings(gotR)
		if len(gotR) == 0 && len(curList) > 0 {
			report("passive-resolve-empty-while-list-has-hosts", ei, map[string]interface{}{"list": names(curList)})
			return finishOutcome(&out, everFiltered, everExpired)
		}
		if strings.Join(gotR, ",") != strings.Join(exp, ",") {
			report("passive-resolve-differs-from-list-minus-filtered", ei, map[string]interface{}{"list": names(curList), "got": gotR, "expected": exp})
			return finishOutcome(&out, everFiltered, everExpired)
		}
	}
	return finishOutcome(&out, everFiltered, everExpired)
}

func finishOutcome(out *outcome, everFiltered, everExpired bool) outcome {
	out.nontrivial = everFiltered
	return *out
}

func TestC24(t *testing.T) {
	run := ev.Start(t, "C24", "exploration",
		"PRNG timelines of Failed(host) calls (single and concurrent same-instant bursts), clock advances and host-list changes for 1-4 hosts, Fails 1-4 (or default 3), "+
			"FailTimeout in {1us, 37ms, 1s, 90s, 5m/default}; gaps: 0, 1ns, small, FailTimeout-1ns, FailTimeout+1ns, half, long, and 'window of an earlier failure closes -1/0/+1ns' "+
			"(exact-boundary instants are shifted by 1ns). The filter is queried after every event. A timeline is non-trivial when the oracle had some host filtered at some query.")
	defer run.Finish()
	run.Assume("time is the injected clock only; no timeline instant lies exactly FailTimeout after a failure (After vs >= is not part of the statement)")
	run.Assume("most timelines use a clock.Mock whose Now is set directly (the stock Mock.Add sleeps 1ms of real time per call); a slice runs on the stock mock")

	n := run.N(30000, 600000)
	nStock := run.N(1500, 12000)
	base := run.Rand("timelines").Int63()
	replay := run.ReplayCase()

	const nw = 16
	type wit struct {
		order  int
		caseID string
		w      map[string]interface{}
	}
	var mu sync.Mutex
	count := map[string]int{}
	wits := map[string][]wit{}
	var tot outcome
	var adjusts int64
	samples := map[int]*timeline{}
	var wg sync.WaitGroup
	for w := 0; w < nw; w++ {
		wg.Add(1)
		go func(w int) {
			defer wg.Done()
			var loc outcome
			var ladj int64
			for i := w; i < n+nStock; i += nw {
				r := rand.New(rand.NewSource(base + int64(i)*7919))
				stock := i >= n
				id := fmt.Sprintf("timeline/#%d", i)
				if replay != "" && replay != id {
					continue
				}
				tl := genTimeline(r, id, stock)
				o := runTimeline(tl)
				run.Case(ev.JSON(tl), o.nontrivial)
				loc.queries += o.queries
				loc.filteredObs += o.filteredObs
				loc.expiries += o.expiries
				loc.bursts += o.bursts
				loc.failedCalls += o.failedCalls
				loc.allFiltered += o.allFiltered
				loc.hostQueries += o.hostQueries
				ladj += int64(tl.adjust)
				if i%(n/4+1) == 7 {
					mu.Lock()
					samples[i] = tl
					mu.Unlock()
				}
				if len(o.findings) > 0 {
					mu.Lock()
					for _, f := range o.findings {
						count[f.sig]++
						ws := append(wits[f.sig], wit{i, id, f.witness})
						sort.Slice(ws, func(a, b int) bool { return ws[a].order < ws[b].order })
						if len(ws) > 3 {
							ws = ws[:3]
						}
						wits[f.sig] = ws
					}
					mu.Unlock()
				}
			}
			mu.Lock()
			tot.queries += loc.queries
			tot.filteredObs += loc.filteredObs
			tot.expiries += loc.expiries
			tot.bursts += loc.bursts
			tot.failedCalls += loc.failedCalls
			tot.allFiltered += loc.allFiltered
			tot.hostQueries += loc.hostQueries
			adjusts += ladj
			mu.Unlock()
		}(w)
	}
	wg.Wait()

	run.Count("timelines_virtual_clock", int64(n))
	run.Count("timelines_stock_mock_clock", int64(nStock))
	run.Count("failed_calls", tot.failedCalls)
	run.Count("filter_queries", tot.queries)
	run.Count("host_verdicts_compared", tot.hostQueries)
	run.Count("host_filtered_observations", tot.filteredObs)
	run.Count("host_expiry_observations", tot.expiries)
	run.Count("concurrent_bursts", tot.bursts)
	run.Count("resolve_with_every_host_filtered", tot.allFiltered)
	run.Count("boundary_instants_shifted", adjusts)
	var ids []int
	for i := range samples {
		ids = append(ids, i)
	}
	sort.Ints(ids)
	for _, i := range ids {
		run.Sample(samples[i])
	}

	var sigs []string
	for s := range count {
		sigs = append(sigs, s)
	}
	sort.Strings(sigs)
	for _, s := range sigs {
		for i := 0; i < count[s]; i++ {
			if i < len(wits[s]) {
				run.Violation(s, wits[s][i].caseID, wits[s][i].w)
			} else {
				run.Violation(s, "", nil)
			}
		}
	}
}
