// C25: cluster clients contact a bounded sample of current hosts.
//
// Oracle-gen + history monitor.
//
//	(a) stringset.Set.Sample(n) for every set size 0-40 and n 0-45 (several
//	    label styles, repeated calls): |result| = min(n, |s|), result is a
//	    subset of s, s itself is untouched.
//	(b) the real cluster clients against real TCP listeners on 127.0.0.1 whose
//	    behaviour is scripted per case (answer, 503, 404, or kill the connection
//	    with a TCP reset = network error):
//	      - tagclient.NewClusterClient (do: Get/Has/Put/PutAndReplicate/List/
//	        ListRepository/Replicate/Origin; doOnce: CheckReadiness) over the real
//	        healthcheck.Passive host list;
//	      - blobclient.Locations, ClientResolver.Resolve and
//	        ClusterClient.CheckReadiness with a counting Provider around the real
//	        HTTP provider.
//	    The listeners record which host saw which request of which call. Oracle:
//	    distinct hosts contacted per request <= 3 (exactly 1 for single-attempt
//	    calls), all members of the host list resolved for that request, hosts
//	    outside the list are never contacted, and a request only fails after its
//	    sample is exhausted or on a non-network error.
package c25

import (
	"encoding/json"
	"fmt"
	"math/rand"
	"net"
	"net/http"
	"sort"
	"strings"
	"sync"
	"testing"
	"time"

	"github.com/andres-erbsen/clock"
	"go.uber.org/zap"

	"github.com/uber/kraken/build-index/tagclient"
	"github.com/uber/kraken/core"
	"github.com/uber/kraken/lib/backend"
	"github.com/uber/kraken/lib/healthcheck"
	"github.com/uber/kraken/origin/blobclient"
	"github.com/uber/kraken/utils/log"
	"github.com/uber/kraken/utils/stringset"

	"verif/harness/internal/ev"
	"verif/harness/internal/gen"
)

// ---------------------------------------------------------------------------
// scripted hosts

type mode int

const (
	mOK mode = iota
	m503
	m404
	mReset
)

func (m mode) String() string { return [...]string{"ok", "503", "404", "reset"}[m] }

type contact struct {
	host int
	path string
	mode mode
	at   time.Time
}

// pool is a set of real listeners owned by one worker; cases on a pool run one
// at a time, so every request that arrives belongs to the current call.
type pool struct {
	addrs []string
	srvs  []*http.Server

	mu       sync.Mutex
	modes    []mode
	locs     string // Origin-Locations header served by ok hosts
	contacts []contact
}

func newPool(t *testing.T, n int) *pool {
	p := &pool{modes: make([]mode, n)}
	for i := 0; i < n; i++ {
		ln, err := net.Listen("tcp", "127.0.0.1:0")
		if err != nil {
			t.Fatalf("listen: %v", err)
		}
		idx := i
		srv := &http.Server{Handler: http.HandlerFunc(func(w http.ResponseWriter, r *http.Request) { p.serve(idx, w, r) })}
		p.addrs = append(p.addrs, ln.Addr().String())
		p.srvs = append(p.srvs, srv)
		go srv.Serve(ln) //nolint:errcheck
	}
	return p
}

func (p *pool) close() {
	for _, s := range p.srvs {
		s.Close()
	}
}

func (p *pool) serve(idx int, w http.ResponseWriter, r *http.Request) {
	p.mu.Lock()
	m := p.modes[idx]
	locs := p.locs
	p.contacts = append(p.contacts, contact{idx, r.Method + " " + r.URL.Path, m, time.Now()})
	p.mu.Unlock()
	switch m {
	case mReset:
		// kill the connection without an answer: the client sees a network error
		if hj, ok := w.(http.Hijacker); ok {
			if c, _, err := hj.Hijack(); err == nil {
				if tc, ok := c.(*net.TCPConn); ok {
					tc.SetLinger(0) //nolint:errcheck
				}
				c.Close()
			}
		}
		return
	case m503:
		w.WriteHeader(http.StatusServiceUnavailable)
		return
	case m404:
		w.WriteHeader(http.StatusNotFound)
		return
	}
	path := r.URL.Path
	switch {
	case strings.HasSuffix(path, "/locations"):
		w.Header().Set("Origin-Locations", locs)
		w.WriteHeader(http.StatusOK)
	case strings.HasPrefix(path, "/list/") || strings.HasPrefix(path, "/repositories/"):
		var resp struct {
			Links struct {
				Next string `json:"next"`
				Self string `json:"self"`
			}
			Size   int      `json:"size"`
			Result []string `json:"result"`
		}
		if r.URL.Query().Get("offset") == "" {
			// two pages: the second request of the same call must stay on this host
			resp.Links.Next = path + "?offset=page2"
			resp.Result = []string{"a:1"}
		} else {
			resp.Result = []string{"b:2"}
		}
		resp.Size = len(resp.Result)
		json.NewEncoder(w).Encode(&resp) //nolint:errcheck
	case strings.HasPrefix(path, "/tags/") && r.Method == http.MethodGet:
		fmt.Fprint(w, "sha256:"+strings.Repeat("ab", 32))
	case path == "/origin":
		fmt.Fprint(w, "origin-cluster.example:80")
	default:
		w.WriteHeader(http.StatusOK)
	}
}

func (p *pool) arm(modes []mode, locs string) {
	p.mu.Lock()
	copy(p.modes, modes)
	p.locs = locs
	p.contacts = nil
	p.mu.Unlock()
}

func (p *pool) take() []contact {
	p.mu.Lock()
	defer p.mu.Unlock()
	c := p.contacts
	p.contacts = nil
	return c
}

// ---------------------------------------------------------------------------
// recording host lists

type scriptList struct {
	mu sync.Mutex
	s  []string
}

func (l *scriptList) Resolve() stringset.Set {
	l.mu.Lock()
	defer l.mu.Unlock()
	return stringset.New(l.s...)
}

func (l *scriptList) set(s []string) {
	l.mu.Lock()
	l.s = s
	l.mu.Unlock()
}

// recList wraps the real list handed to the client and records what it resolved
// to and which hosts were marked failed during the current call.
type recList struct {
	inner interface{ Resolve() stringset.Set }
	fail  func(string)

	mu       sync.Mutex
	resolved [][]string
	failed   []string
}

func (l *recList) Resolve() stringset.Set {
	s := l.inner.Resolve()
	var xs []string
	for x := range s {
		xs = append(xs, x)
	}
	sort.Strings(xs)
	l.mu.Lock()
	l.resolved = append(l.resolved, xs)
	l.mu.Unlock()
	return s
}

func (l *recList) Failed(addr string) {
	l.mu.Lock()
	l.failed = append(l.failed, addr)
	l.mu.Unlock()
	if l.fail != nil {
		l.fail(addr)
	}
}

func (l *recList) take() (resolved [][]string, failed []string) {
	l.mu.Lock()
	defer l.mu.Unlock()
	resolved, failed = l.resolved, l.failed
	l.resolved, l.failed = nil, nil
	return
}

// countingProvider wraps the real HTTP provider.
type countingProvider struct {
	inner blobclient.Provider
	mu    sync.Mutex
	n     int
}

func (p *countingProvider) Provide(addr string) blobclient.Client {
	p.mu.Lock()
	p.n++
	p.mu.Unlock()
	return p.inner.Provide(addr)
}

// vclock: the mock clock with a directly settable Now (the passive filter only calls Now).
type vclock struct {
	*clock.Mock
	mu  sync.Mutex
	now time.Time
}

func (c *vclock) Now() time.Time { c.mu.Lock(); defer c.mu.Unlock(); return c.now }

func (c *vclock) advance(d time.Duration) { c.mu.Lock(); c.now = c.now.Add(d); c.mu.Unlock() }

// ---------------------------------------------------------------------------
// cases

type op struct {
	Client string `json:"client"` // tagclient | blobclient
	Name   string `json:"op"`
	Single bool   `json:"single_attempt"`
}

var tagOps = []op{
	{"tagclient", "Get", false}, {"tagclient", "Has", false}, {"tagclient", "Put", false}, {"tagclient", "PutAndReplicate", false},
	{"tagclient", "List", false}, {"tagclient", "ListRepository", false}, {"tagclient", "Replicate", false}, {"tagclient", "Origin", false},
	{"tagclient", "ListWithPagination", false}, {"tagclient", "CheckReadiness", true},
}

var blobOps = []op{
	{"blobclient", "Locations", false}, {"blobclient", "ClientResolver.Resolve", false}, {"blobclient", "ClusterClient.CheckReadiness", false},
}

type hcase struct {
	ID       string `json:"id"`
	ListSize int    `json:"list_size"`
	Pattern  string `json:"failure_pattern"`
	Modes    []mode `json:"-"`
	ModeStr  string `json:"modes_of_listed_hosts"`
	Listed   []int  `json:"-"`
	Ops      []op   `json:"ops"`
	PFails   int    `json:"passive_fails"` // 0: healthcheck.NoopFailed list (failures never filter a host)

	// history cases: one long-lived client, every request has its own script
	Steps []hstep `json:"history,omitempty"`
}

// hstep is the script of one request of a history case.
type hstep struct {
	Pattern string `json:"listeners"`
	Modes   []mode `json:"-"`
	Listed  []int  `json:"-"`
	Size    int    `json:"list_size"`
	Advance string `json:"clock_advanced_before_request,omitempty"`
	advance time.Duration
}

// genHistory: a request that succeeds (so that a client which remembers hosts
// has something to remember), then requests during which every listener resets
// connections, hosts leave the list, some recover.
func genHistory(r *rand.Rand, id string, poolSize int, size int) *hcase {
	if size < 4 {
		size += 4
	}
	c := &hcase{ID: id, ListSize: size, Pattern: "history", PFails: []int{0, 1, 1, 2, 3}[r.Intn(5)]}
	all := r.Perm(poolSize)[:size]
	c.Listed = all
	cur := append([]int(nil), all...)
	n := 4 + r.Intn(4)
	for i := 0; i < n; i++ {
		st := hstep{Modes: make([]mode, poolSize)}
		kind := 1 // all reset
		switch x := r.Intn(20); {
		case i == 0 || x < 3:
			kind = 0
		case x < 6 && len(cur) > 4:
			kind = 2
		case x < 8:
			kind = 3
		case x < 9 && len(cur) < size:
			kind = 4
		case x < 12 && len(cur) > 4:
			kind = 5
		}
		switch kind {
		case 0:
			st.Pattern = "all-ok"
		case 1:
			st.Pattern = "all-reset"
		case 2:
			// some hosts leave the list (possibly the one that served last); everything resets
			drop := 1 + r.Intn(2)
			r.Shuffle(len(cur), func(a, b int) { cur[a], cur[b] = cur[b], cur[a] })
			cur = append([]int(nil), cur[drop:]...)
			st.Pattern = fmt.Sprintf("%d-hosts-left-the-list,all-reset", drop)
		case 3:
			st.Pattern = "one-ok-rest-reset"
		case 4:
			cur = append([]int(nil), all...)
			st.Pattern = "departed-hosts-are-back,all-reset"
		case 5:
			// many hosts leave (some of them marked unhealthy by the failures before) and
			// the passive filter's FailTimeout (1m) elapses before the next request
			r.Shuffle(len(cur), func(a, b int) { cur[a], cur[b] = cur[b], cur[a] })
			keep := 2 + r.Intn(len(cur)/2)
			st.Pattern = fmt.Sprintf("%d-hosts-left-the-list,fail-timeout-elapsed,all-reset", len(cur)-keep)
			cur = append([]int(nil), cur[:keep]...)
			st.advance = time.Minute + time.Duration(1+r.Intn(120))*time.Second
		}
		if st.advance == 0 && r.Intn(5) == 0 {
			st.advance = []time.Duration{20 * time.Second, 59 * time.Second, 61 * time.Second, 5 * time.Minute}[r.Intn(4)]
		}
		if st.advance > 0 {
			st.Advance = st.advance.String()
		}
		lucky := cur[r.Intn(len(cur))]
		for h := range st.Modes {
			st.Modes[h] = mOK // hosts outside the list would answer, if anybody asked them
		}
		for _, h := range cur {
			switch kind {
			case 0:
				st.Modes[h] = mOK
			case 3:
				st.Modes[h] = mReset
				if h == lucky {
					st.Modes[h] = mOK
				}
			default:
				st.Modes[h] = mReset
			}
		}
		st.Listed = append([]int(nil), cur...)
		st.Size = len(cur)
		c.Steps = append(c.Steps, st)
		o := tagOps[r.Intn(len(tagOps))]
		if r.Intn(8) == 0 {
			o = blobOps[r.Intn(len(blobOps))]
		}
		c.Ops = append(c.Ops, o)
	}
	return c
}

func genCase(r *rand.Rand, id string, poolSize int, size int) *hcase {
	c := &hcase{ID: id, ListSize: size, PFails: 1 + r.Intn(3)}
	c.Listed = r.Perm(poolSize)[:size]
	c.Modes = make([]mode, poolSize)
	for i := range c.Modes {
		c.Modes[i] = mOK // hosts outside the list would answer, if anybody asked them
	}
	pat := r.Intn(9)
	c.Pattern = [...]string{"all-ok", "all-reset", "all-503", "one-ok-rest-reset", "one-reset-rest-ok", "mix-30%-reset", "mix-60%-reset", "mix-90%-reset", "mix-reset-503-404"}[pat]
	lucky := c.Listed[r.Intn(size)]
	for _, h := range c.Listed {
		switch pat {
		case 0:
			c.Modes[h] = mOK
		case 1:
			c.Modes[h] = mReset
		case 2:
			c.Modes[h] = m503
		case 3:
			c.Modes[h] = mReset
			if h == lucky {
				c.Modes[h] = mOK
			}
		case 4:
			c.Modes[h] = mOK
			if h == lucky {
				c.Modes[h] = mReset
			}
		case 5, 6, 7:
			if r.Intn(10) < []int{3, 6, 9}[pat-5] {
				c.Modes[h] = mReset
			}
		case 8:
			c.Modes[h] = []mode{mOK, mReset, mReset, m503, m404}[r.Intn(5)]
		}
	}
	var ms []string
	for _, h := range c.Listed {
		ms = append(ms, c.Modes[h].String())
	}
	c.ModeStr = strings.Join(ms, ",")
	n := 1 + r.Intn(3)
	for i := 0; i < n; i++ {
		if r.Intn(3) == 0 {
			c.Ops = append(c.Ops, blobOps[r.Intn(len(blobOps))])
		} else {
			c.Ops = append(c.Ops, tagOps[r.Intn(len(tagOps))])
		}
	}
	return c
}

type finding struct {
	sig     string
	witness map[string]interface{}
}

type stats struct {
	calls, requests, netErrs, statusErrs, oks, exhausted, maxHosts int64
	failedMarks, provides                                          int64
}

func distinctHosts(cs []contact, filter func(contact) bool) []int {
	seen := map[int]bool{}
	var out []int
	for _, c := range cs {
		if filter != nil && !filter(c) {
			continue
		}
		if !seen[c.host] {
			seen[c.host] = true
			out = append(out, c.host)
		}
	}
	return out
}

// slowGap is the watchdog: the clients' own HTTP timeouts start at 5s and a
// timed-out request looks like a network failure the script did not ask for.
// A request lasts at most from the arrival of the previous request (or the start
// of the call) to the arrival of the next one (or the end of the call), i.e. two
// consecutive gaps; when every gap stays below slowGap no request can have hit a
// 5s timeout. Otherwise the case is repeated once, then reported inconclusive.
const slowGap = 2 * time.Second

func runCase(p *pool, c *hcase, callSeq *int) (fs []finding, st stats, slow bool) {
	var listed []string
	for _, h := range c.Listed {
		listed = append(listed, p.addrs[h])
	}
	idxOf := map[string]int{}
	for i, a := range p.addrs {
		idxOf[a] = i
	}
	base := &scriptList{s: listed}
	clk := &vclock{Mock: clock.NewMock(), now: time.Unix(1600000000, 0)}
	var tagList *recList
	if c.PFails == 0 {
		noop := healthcheck.NoopFailed(base)
		tagList = &recList{inner: noop, fail: noop.Failed}
	} else {
		pf := healthcheck.NewPassiveFilter(healthcheck.PassiveFilterConfig{Fails: c.PFails, FailTimeout: time.Minute}, clk)
		passive := healthcheck.NewPassive(base, pf)
		tagList = &recList{inner: passive, fail: passive.Failed}
	}
	tc := tagclient.NewClusterClient(tagList, nil)
	blobList := &recList{inner: base}
	prov := &countingProvider{inner: blobclient.NewProvider()}
	resolver := blobclient.NewClientResolver(prov, blobList)
	cc := blobclient.NewClusterClient(resolver)

	for oi, o := range c.Ops {
		modes, curListed := c.Modes, c.Listed
		if len(c.Steps) > 0 {
			modes, curListed = c.Steps[oi].Modes, c.Steps[oi].Listed
			clk.advance(c.Steps[oi].advance)
			listed = nil
			for _, h := range curListed {
				listed = append(listed, p.addrs[h])
			}
			base.set(listed)
		}
		// ok hosts answer /locations with up to three listed hosts
		var locs []string
		for _, h := range curListed {
			if len(locs) < 3 {
				locs = append(locs, p.addrs[h])
			}
		}
		*callSeq++
		tag := fmt.Sprintf("repo/call%d:tag", *callSeq)
		d, _ := core.NewSHA256DigestFromHex(fmt.Sprintf("%064x", *callSeq))
		p.arm(modes, strings.Join(locs, ","))
		var err error
		rl := tagList
		began := time.Now()
		switch o.Client + "." + o.Name {
		case "tagclient.Get":
			_, err = tc.Get(tag)
		case "tagclient.Has":
			_, err = tc.Has(tag)
		case "tagclient.Put":
			err = tc.Put(tag, d)
		case "tagclient.PutAndReplicate":
			err = tc.PutAndReplicate(tag, d)
		case "tagclient.List":
			_, err = tc.List("repo/call")
		case "tagclient.ListRepository":
			_, err = tc.ListRepository("repo/call")
		case "tagclient.ListWithPagination":
			_, err = tc.ListWithPagination("repo/call", tagclient.ListFilter{Limit: 5})
		case "tagclient.Replicate":
			err = tc.Replicate(tag)
		case "tagclient.Origin":
			_, err = tc.Origin()
		case "tagclient.CheckReadiness":
			err = tc.CheckReadiness()
		case "blobclient.Locations":
			rl = blobList
			_, err = blobclient.Locations(prov, blobList, d)
		case "blobclient.ClientResolver.Resolve":
			rl = blobList
			_, err = resolver.Resolve(d)
		case "blobclient.ClusterClient.CheckReadiness":
			rl = blobList
			d = backend.ReadinessCheckDigest
			err = cc.CheckReadiness()
		}
		contacts := p.take()
		resolved, failed := rl.take()
		prev := began
		for _, ct := range contacts {
			if ct.at.Sub(prev) > slowGap {
				return nil, st, true
			}
			prev = ct.at
		}
		if time.Since(prev) > slowGap {
			return nil, st, true
		}
		st.calls++
		st.requests += int64(len(contacts))
		st.failedMarks += int64(len(failed))

		witness := func(extra map[string]interface{}) map[string]interface{} {
			var seq []string
			for _, ct := range contacts {
				seq = append(seq, fmt.Sprintf("%s(%s) %s", p.addrs[ct.host], ct.mode, ct.path))
			}
			w := map[string]interface{}{"case": c, "call": o, "request_index": oi, "listed_hosts": listed, "resolved_for_call": resolved,
				"requests_in_arrival_order": seq, "error": fmt.Sprint(err)}
			for k, v := range extra {
				w[k] = v
			}
			return w
		}
		add := func(sig string, extra map[string]interface{}) { fs = append(fs, finding{sig, witness(extra)}) }

		if len(resolved) != 1 {
			// the sample must come from one resolution of the list
			add(o.Client+"-resolves-host-list-"+fmt.Sprint(len(resolved))+"-times-per-request", nil)
			continue
		}
		cur := map[string]bool{}
		for _, a := range resolved[0] {
			cur[a] = true
		}
		want := 3
		if len(cur) < want {
			want = len(cur)
		}

		// the bounded phase: everything for tagclient; the /locations lookups for blobclient
		bounded := contacts
		var rest []contact
		if o.Client == "blobclient" {
			bounded, rest = nil, nil
			for _, ct := range contacts {
				if strings.HasSuffix(ct.path, "/locations") {
					bounded = append(bounded, ct)
				} else {
					rest = append(rest, ct)
				}
			}
		}
		hosts := distinctHosts(bounded, nil)
		if int64(len(hosts)) > st.maxHosts {
			st.maxHosts = int64(len(hosts))
		}
		inBase := map[string]bool{}
		for _, a := range listed {
			inBase[a] = true
		}
		for _, a := range resolved[0] {
			if !inBase[a] {
				// the health-checked list handed the client a host that is not in the host list
				add(o.Client+"-host-list-resolves-to-a-host-outside-the-current-list", map[string]interface{}{"host": a})
				break
			}
		}
		for _, h := range hosts {
			if !cur[p.addrs[h]] || !inBase[p.addrs[h]] {
				add(o.Client+"-contacts-host-outside-the-current-list", map[string]interface{}{"host": p.addrs[h]})
			}
		}
		limit := 3
		if o.Single {
			limit = 1
		}
		if len(hosts) > limit {
			sig := o.Client + "-request-contacts-more-than-3-hosts"
			if o.Single {
				sig = o.Client + "-single-attempt-request-contacts-more-than-1-host"
			}
			add(sig, map[string]interface{}{"distinct_hosts_contacted": len(hosts)})
		}
		if len(hosts) == 0 && len(cur) > 0 {
			add(o.Client+"-request-contacts-no-host", nil)
			continue
		}
		if len(bounded) == 0 {
			continue
		}
		// tagclient moves to the next sampled host on network errors only;
		// blobclient.Locations moves on after any failed lookup
		moveOn := func(m mode) bool {
			if o.Client == "blobclient" {
				return m != mOK
			}
			return m == mReset
		}
		lastHost := bounded[len(bounded)-1].host
		for _, ct := range bounded {
			if ct.host != lastHost && !moveOn(ct.mode) {
				add(o.Client+"-moves-to-another-host-although-the-host-answered", map[string]interface{}{"left_host": p.addrs[ct.host], "its_mode": ct.mode.String()})
				break
			}
		}
		lastMode := bounded[len(bounded)-1].mode
		if moveOn(lastMode) {
			// the request gave up on a host it may retry elsewhere: legitimate only once
			// the sample is exhausted (single-attempt calls have a sample of one)
			if lastMode == mReset {
				st.netErrs++
			} else {
				st.statusErrs++
			}
			if err == nil {
				add(o.Client+"-reports-success-although-every-contacted-host-failed", nil)
			}
			if len(hosts) >= want || o.Single {
				st.exhausted++
			} else {
				add(o.Client+"-gives-up-before-its-sample-is-exhausted", map[string]interface{}{"distinct_hosts_contacted": len(hosts), "sample_size": want})
			}
		} else if lastMode == mOK {
			// ended on an answer (for blobclient.ClusterClient.CheckReadiness the error,
			// if any, belongs to the readiness probe that follows the lookup)
			if err != nil && o.Name != "ClusterClient.CheckReadiness" {
				add(o.Client+"-reports-error-although-last-host-answered", nil)
			} else {
				st.oks++
			}
		} else {
			st.statusErrs++ // tagclient: a 503/404 answer ends the request (Has maps 404 to false)
		}
		// blobclient.ClusterClient.CheckReadiness: the readiness probe itself is single-attempt
		if o.Name == "ClusterClient.CheckReadiness" {
			if lastMode != mOK && len(rest) > 0 {
				add("blobclient-probes-readiness-although-the-location-lookup-failed", nil)
			}
			rh := distinctHosts(rest, func(ct contact) bool { return strings.HasSuffix(ct.path, "/readiness") })
			if len(rh) > 1 {
				add("blobclient-single-attempt-request-contacts-more-than-1-host", map[string]interface{}{"distinct_hosts_contacted": len(rh)})
			}
			for _, h := range rh {
				found := false
				for _, l := range locs {
					if l == p.addrs[h] {
						found = true
					}
				}
				if !found {
					add("blobclient-readiness-probe-outside-returned-locations", map[string]interface{}{"host": p.addrs[h]})
				}
			}
		}
	}
	prov.mu.Lock()
	st.provides = int64(prov.n)
	prov.mu.Unlock()
	return fs, st, false
}

// ---------------------------------------------------------------------------

func genSet(r *rand.Rand, size int) (stringset.Set, string) {
	style := r.Intn(3)
	s := stringset.New()
	for len(s) < size {
		switch style {
		case 0:
			s.Add(fmt.Sprintf("10.0.%d.%d:15002", r.Intn(256), r.Intn(256)))
		case 1:
			s.Add(fmt.Sprintf("host%d", r.Intn(100000)))
		case 2:
			s.Add(gen.Hex(r, 2+r.Intn(12)))
		}
	}
	return s, [...]string{"ip:port", "hostN", "hex"}[style]
}

func sampleChecks(run *ev.Run) {
	r := run.Rand("sample")
	reps := run.N(4, 60)
	calls := run.N(3, 8)
	for size := 0; size <= 40; size++ {
		for n := 0; n <= 45; n++ {
			for rep := 0; rep < reps; rep++ {
				s, style := genSet(r, size)
				before := s.Copy()
				caseID := fmt.Sprintf("sample/size%d/n%d/rep%d", size, n, rep)
				if rc := run.ReplayCase(); rc != "" && rc != caseID {
					continue
				}
				want := n
				if size < want {
					want = size
				}
				run.Case(caseID+"|"+style+"|"+strings.Join(sorted(s), ","), size > 0 && n > 0)
				for c := 0; c < calls; c++ {
					got := s.Sample(n)
					run.Count("sample_calls", 1)
					w := map[string]interface{}{"set": sorted(before), "n": n, "result": sorted(got), "expected_size": want}
					for x := range got {
						if !before.Has(x) {
							run.Violation("sample-contains-element-not-in-set", caseID, w)
							break
						}
					}
					switch {
					case len(got) > want:
						run.Violation("sample-returns-more-than-n-elements", caseID, w)
					case len(got) < want:
						run.Violation("sample-returns-fewer-than-min-n-size-elements", caseID, w)
					}
					if !stringset.Equal(s, before) {
						run.Violation("sample-modifies-the-set", caseID, w)
					}
				}
			}
		}
	}
}

func sorted(s stringset.Set) []string {
	out := make([]string, 0, len(s))
	for x := range s {
		out = append(out, x)
	}
	sort.Strings(out)
	return out
}

func TestC25(t *testing.T) {
	run := ev.Start(t, "C25", "exploration",
		"(a) Sample: every (set size 0-40, n 0-45) with several PRNG sets of three label styles and repeated calls. "+
			"(b) request cases: host list of 1-30 real listeners out of a pool of 36 (the others must never be contacted), one of 9 failure patterns "+
			"(all ok / all reset / all 503 / one ok / one reset / 30-60-90% reset / mixed reset+503+404) and 1-3 requests drawn from the tagclient cluster operations "+
			"(do path and the single-attempt CheckReadiness, over the real Passive host list) and blobclient Locations / ClientResolver / ClusterClient.CheckReadiness. "+
			"Every third case is a history on ONE long-lived client (4-7 requests, list of 4-30 hosts, Passive or NoopFailed list): a request that succeeds, then requests during which every listed host resets, "+
			"hosts leave the list (also while marked unhealthy, with the mock clock advanced past the passive FailTimeout) or come back, one host recovers. "+
			"A case is non-trivial when (a) size>0 and n>0, (b) the list has >= 2 hosts and at least one listed host fails.")
	defer run.Finish()
	run.Assume("a listener that hijacks the connection and closes it with SO_LINGER 0 is what a network failure looks like to the client")
	run.Assume("requests are synchronous: every request a listener of a pool sees belongs to the call currently running on that pool")

	zc := zap.NewProductionConfig()
	zc.Encoding = "console"
	zc.Level = zap.NewAtomicLevelAt(zap.FatalLevel)
	log.ConfigureLogger(zc)

	sampleChecks(run)

	const poolSize = 36
	const nw = 8
	nCases := run.N(2400, 24000)
	base := run.Rand("cases").Int63()
	replay := run.ReplayCase()

	type wit struct {
		order  int
		caseID string
		w      map[string]interface{}
	}
	var mu sync.Mutex
	count := map[string]int{}
	wits := map[string][]wit{}
	var tot stats
	var wg sync.WaitGroup
	for w := 0; w < nw; w++ {
		wg.Add(1)
		go func(w int) {
			defer wg.Done()
			p := newPool(t, poolSize)
			defer p.close()
			callSeq := w * 10000000
			for i := w; i < nCases; i += nw {
				r := rand.New(rand.NewSource(base + int64(i)*104729))
				id := fmt.Sprintf("request/#%d", i)
				size := 1 + i%30
				var c *hcase
				if i%3 == 2 {
					c = genHistory(r, id, poolSize, size)
				} else {
					c = genCase(r, id, poolSize, size)
				}
				if replay != "" && replay != id {
					continue
				}
				fs, st, slow := runCase(p, c, &callSeq)
				if slow {
					run.Count("cases_repeated_after_slow_call", 1)
					fs, st, slow = runCase(p, c, &callSeq)
				}
				if slow {
					run.Inconclusive(id + ": an HTTP request of a cluster call may have run into the client timeout twice (machine overloaded?); its request log is not judged")
					continue
				}
				failing := 0
				for _, h := range c.Listed {
					if c.Modes != nil && c.Modes[h] != mOK {
						failing++
					}
				}
				if len(c.Steps) > 0 {
					failing = 1 // every history has requests during which the whole list resets
					run.Count("history_cases", 1)
				}
				run.Case(ev.JSON(c), size >= 2 && failing > 0)
				run.Distinct("list_sizes", fmt.Sprint(size))
				run.Distinct("failure_patterns", c.Pattern)
				for _, o := range c.Ops {
					run.Distinct("operations", o.Client+"."+o.Name)
				}
				if i%(nCases/5+1) == 3 {
					run.Sample(c)
				}
				mu.Lock()
				tot.calls += st.calls
				tot.requests += st.requests
				tot.netErrs += st.netErrs
				tot.statusErrs += st.statusErrs
				tot.oks += st.oks
				tot.exhausted += st.exhausted
				tot.failedMarks += st.failedMarks
				tot.provides += st.provides
				if st.maxHosts > tot.maxHosts {
					tot.maxHosts = st.maxHosts
				}
				seen := map[string]bool{}
				for _, f := range fs {
					if seen[f.sig] {
						continue
					}
					seen[f.sig] = true
					count[f.sig]++
					ws := append(wits[f.sig], wit{i, id, f.witness})
					sort.Slice(ws, func(a, b int) bool { return ws[a].order < ws[b].order })
					if len(ws) > 3 {
						ws = ws[:3]
					}
					wits[f.sig] = ws
				}
				mu.Unlock()
			}
		}(w)
	}
	wg.Wait()
	run.Count("cluster_requests", tot.calls)
	run.Count("http_requests_seen_by_listeners", tot.requests)
	run.Count("requests_ok", tot.oks)
	run.Count("requests_ended_by_network_error", tot.netErrs)
	run.Count("requests_ended_by_status_error", tot.statusErrs)
	run.Count("requests_that_exhausted_their_sample", tot.exhausted)
	run.Count("passive_failed_marks", tot.failedMarks)
	run.Count("provider_provide_calls", tot.provides)
	run.Set("max_distinct_hosts_contacted_by_one_request", tot.maxHosts)

	var sigs []string
	for s := range count {
		sigs = append(sigs, s)
	}
	sort.Strings(sigs)
	for _, s := range sigs {
		for i := 0; i < count[s]; i++ {
			if i < len(wits[s]) {
				run.Violation(s, wits[s][i].caseID, wits[s][i].w)
			} else {
				run.Violation(s, "", nil)
			}
		}
	}
}
